/* C++ member-function equivalence monitor (extra configuration "cxx" of C12, C14, C15, C16; -DVF_CXXW=12|14|15|16).
 *
 * The liba headers give the structs anchored by these properties C++ members (a_pid::pos, a_tf::operator(), a_lpf::gen,
 * a_trajpoly5::gen with defaulted arguments, ...).  Most forward to the C function the property speaks about, some
 * (a_lpf / a_hpf gen, operator(), zero) RE-IMPLEMENT it inline.  The main harness of each property judges the C functions
 * against the property; this monitor closes the gap to the C++ surface by TWIN EXECUTION on one object:
 *
 *      snapshot all bytes of the object and of every block it points to
 *      r1 = C function(object, args)          ; keep the resulting bytes
 *      restore the snapshot
 *      r2 = C++ member(object, same args)     ; via an extern "C" trampoline in h_cxxw_shim.cc (g++)
 *      require r1 == r2 (or both NaN) and resulting bytes identical
 *
 * so a member that forwards to the wrong function, permutes or drops arguments, defaults an argument to something else
 * than the C call with 0, or whose inline re-implementation deviates from the C one, is observed on the first operation
 * where that matters.  The oracle is equality, so no domain restriction is needed beyond memory-safe call sequences;
 * histories continue from the (identical) result state.  Nothing here is judged against the property's equations - that
 * is the job of the main configuration; a "cxx" violation means: the C++ member does not do what the (checked) C
 * function does.
 */
#ifndef VF_CXXW
#error "compile with -DVF_CXXW=12|13|14|15|16"
#endif
#if VF_CXXW == 12
#define VF_PROP "C12"
#elif VF_CXXW == 13
#define VF_PROP "C13" /* the fuzzy controller's members only (gain scheduling is C13's clause as well) */
#elif VF_CXXW == 14
#define VF_PROP "C14"
#elif VF_CXXW == 15
#define VF_PROP "C15"
#else
#define VF_PROP "C16"
#endif
#include "vf_common.h"
#include "a/pid.h"
#include "a/pid_fuzzy.h"
#include "a/pid_neuro.h"
#include "a/mf.h"
#include "a/tf.h"
#include "a/lpf.h"
#include "a/hpf.h"
#include "a/trajtrap.h"
#include "a/trajbell.h"
#include "a/trajpoly3.h"
#include "a/trajpoly5.h"
#include "a/trajpoly7.h"

/* trampolines (h_cxxw_shim.cc) */
void xx_pid_init(a_pid *), xx_pid_set_kpid(a_pid *, a_real, a_real, a_real), xx_pid_zero(a_pid *);
a_real xx_pid_run(a_pid *, a_real, a_real), xx_pid_pos(a_pid *, a_real, a_real), xx_pid_inc(a_pid *, a_real, a_real);
void xx_pid_neuro_init(a_pid_neuro *), xx_pid_neuro_set_kpid(a_pid_neuro *, a_real, a_real, a_real, a_real), xx_pid_neuro_set_wpid(a_pid_neuro *, a_real, a_real, a_real), xx_pid_neuro_zero(a_pid_neuro *);
a_real xx_pid_neuro_run(a_pid_neuro *, a_real, a_real), xx_pid_neuro_inc(a_pid_neuro *, a_real, a_real);
void xx_pid_fuzzy_init(a_pid_fuzzy *), xx_pid_fuzzy_set_opr(a_pid_fuzzy *, unsigned int), xx_pid_fuzzy_set_bfuzz(a_pid_fuzzy *, void *, a_size), xx_pid_fuzzy_zero(a_pid_fuzzy *);
void *xx_pid_fuzzy_bfuzz(a_pid_fuzzy const *);
void xx_pid_fuzzy_set_rule(a_pid_fuzzy *, unsigned int, a_real const *, a_real const *, a_real const *, a_real const *, a_real const *), xx_pid_fuzzy_set_kpid(a_pid_fuzzy *, a_real, a_real, a_real);
a_real xx_pid_fuzzy_run(a_pid_fuzzy *, a_real, a_real), xx_pid_fuzzy_pos(a_pid_fuzzy *, a_real, a_real), xx_pid_fuzzy_inc(a_pid_fuzzy *, a_real, a_real);
void xx_tf_init(a_tf *, unsigned int, a_real const *, a_real *, unsigned int, a_real const *, a_real *), xx_tf_set_num(a_tf *, unsigned int, a_real const *, a_real *), xx_tf_set_den(a_tf *, unsigned int, a_real const *, a_real *), xx_tf_zero(a_tf const *);
a_real xx_tf_iter(a_tf const *, a_real);
void xx_lpf_gen(a_lpf *, a_real, a_real), xx_lpf_zero(a_lpf *), xx_hpf_gen(a_hpf *, a_real, a_real), xx_hpf_zero(a_hpf *);
a_real xx_lpf_iter(a_lpf *, a_real), xx_hpf_iter(a_hpf *, a_real);
a_real xx_trajtrap_gen(a_trajtrap *, a_real, a_real, a_real, a_real, a_real, a_real, a_real), xx_trajtrap_gen5(a_trajtrap *, a_real, a_real, a_real, a_real, a_real), xx_trajtrap_gen6(a_trajtrap *, a_real, a_real, a_real, a_real, a_real, a_real);
a_real xx_trajtrap_pos(a_trajtrap const *, a_real), xx_trajtrap_vel(a_trajtrap const *, a_real), xx_trajtrap_acc(a_trajtrap const *, a_real);
a_real xx_trajbell_gen(a_trajbell *, a_real, a_real, a_real, a_real, a_real, a_real, a_real), xx_trajbell_gen5(a_trajbell *, a_real, a_real, a_real, a_real, a_real), xx_trajbell_gen6(a_trajbell *, a_real, a_real, a_real, a_real, a_real, a_real);
a_real xx_trajbell_pos(a_trajbell const *, a_real), xx_trajbell_vel(a_trajbell const *, a_real), xx_trajbell_acc(a_trajbell const *, a_real), xx_trajbell_jer(a_trajbell const *, a_real);
void xx_trajpoly3_gen(a_trajpoly3 *, a_real, a_real const *, int), xx_trajpoly3_c(a_trajpoly3 const *, int, a_real *);
a_real xx_trajpoly3_pos(a_trajpoly3 const *, a_real), xx_trajpoly3_vel(a_trajpoly3 const *, a_real), xx_trajpoly3_acc(a_trajpoly3 const *, a_real);
void xx_trajpoly5_gen(a_trajpoly5 *, a_real, a_real const *, int), xx_trajpoly5_c(a_trajpoly5 const *, int, a_real *);
a_real xx_trajpoly5_pos(a_trajpoly5 const *, a_real), xx_trajpoly5_vel(a_trajpoly5 const *, a_real), xx_trajpoly5_acc(a_trajpoly5 const *, a_real);
void xx_trajpoly7_gen(a_trajpoly7 *, a_real, a_real const *, int), xx_trajpoly7_c(a_trajpoly7 const *, int, a_real *);
a_real xx_trajpoly7_pos(a_trajpoly7 const *, a_real), xx_trajpoly7_vel(a_trajpoly7 const *, a_real), xx_trajpoly7_acc(a_trajpoly7 const *, a_real), xx_trajpoly7_jer(a_trajpoly7 const *, a_real);

/* ------------------------------------------------------------------ twin execution */
#define MAXREG 6
static struct { void *p; size_t n; } reg[MAXREG];
static int nreg;
static unsigned char snapb[8192], postb[8192];
static int tw_failed;

static void tw_clear(void) { nreg = 0; }
static void tw_add(void *p, size_t n) { reg[nreg].p = p; reg[nreg].n = n; ++nreg; }
static void tw_copy_out(unsigned char *dst)
{
    size_t o = 0;
    for (int i = 0; i < nreg; ++i) { if (reg[i].n) { memcpy(dst + o, reg[i].p, reg[i].n); } o += reg[i].n; }
}
static void tw_begin(void) { tw_copy_out(snapb); }
static void tw_mid(void)
{
    size_t o = 0;
    tw_copy_out(postb);
    for (int i = 0; i < nreg; ++i) { if (reg[i].n) { memcpy(reg[i].p, snapb + o, reg[i].n); } o += reg[i].n; }
}
/* 0 = identical; else 1 + index of the first differing region, *off = byte offset in it */
static int tw_diff(size_t *off)
{
    size_t o = 0;
    for (int i = 0; i < nreg; ++i)
    {
        for (size_t k = 0; k < reg[i].n; ++k)
        {
            if (((unsigned char *)reg[i].p)[k] != postb[o + k]) { *off = k; return 1 + i; }
        }
        o += reg[i].n;
    }
    return 0;
}
static int same_real(a_real a, a_real b) { return (a != a && b != b) || (a == b && !signbit(a) == !signbit(b)); }

static void tw_judge(char const *member, char const *cfn, int has_r, a_real r1, a_real r2)
{
    char key[160];
    size_t off = 0;
    int d = tw_diff(&off);
    ++vf.evals;
    vf_count_dyn(member, 1);
    if (has_r && !same_real(r1, r2))
    {
        snprintf(key, sizeof key, "cxx/%s/result-differs-from-%s", member, cfn);
        vf_viol(key, "%s returned %.21Lg, %s on the same object bytes and arguments returned %.21Lg", member, (long double)r2, cfn, (long double)r1);
        tw_failed = 1;
    }
    else if (d)
    {
        snprintf(key, sizeof key, "cxx/%s/state-differs-from-%s", member, cfn);
        vf_viol(key, "after %s the bytes of memory block #%d (0 = the object itself) differ at offset %zu from what %s leaves behind on the same starting bytes and arguments", member, d - 1, off, cfn);
        tw_failed = 1;
    }
}
/* value-returning and void operations; the log line records the operation for the replay text */
#define TWR(member, cfn, ccall, xcall)                         \
    do {                                                       \
        a_real r1_, r2_;                                       \
        tw_begin();                                            \
        r1_ = (ccall);                                         \
        tw_mid();                                              \
        r2_ = (xcall);                                         \
        tw_judge(member, cfn, 1, r1_, r2_);                    \
        if (tw_failed) { goto done; }                          \
    } while (0)
#define TWV(member, cfn, ccall, xcall)                         \
    do {                                                       \
        tw_begin();                                            \
        ccall;                                                 \
        tw_mid();                                              \
        xcall;                                                 \
        tw_judge(member, cfn, 0, 0, 0);                        \
        if (tw_failed) { goto done; }                          \
    } while (0)

/* a value from a hostile but finite pool */
static a_real val(vf_rng *r)
{
    switch (vf_below(r, 8))
    {
    case 0: return (a_real)vf_range(r, -8, 8);
    case 1: return (a_real)vf_range(r, -64, 64) / 16;
    case 2: return 0;
    case 3: return (a_real)(vf_sign(r) * vf_logu(r, -6, 6));
    default: return (a_real)vf_uniform(r, -10, 10);
    }
}
static a_real pos_val(vf_rng *r)
{
    return vf_chance(r, 1, 4) ? (a_real)vf_range(r, 1, 16) / 4 : (a_real)vf_logu(r, -2, 2);
}

static uint64_t vf_ncases(int tier) { return tier ? 24000 : 1600; }

/* ================================================================== C12 (and the fuzzy part for C13) */
#if VF_CXXW == 12 || VF_CXXW == 13
static void set_limits(a_pid *p, vf_rng *r)
{
    p->summax = pos_val(r) * 4; p->summin = -pos_val(r) * 4;
    p->outmax = pos_val(r) * 8; p->outmin = -pos_val(r) * 8;
    if (vf_chance(r, 1, 4)) { p->summax = p->outmax = +A_REAL_INF; p->summin = p->outmin = -A_REAL_INF; }
}
static void case_pid(vf_rng *r)
{
    a_pid c;
    memset(&c, 0x5C, sizeof c);
    c.kp = val(r); c.ki = pos_val(r); c.kd = val(r);
    set_limits(&c, r);
    tw_clear(); tw_add(&c, sizeof c);
    vf_log("a_pid: init");
    TWV("a_pid::init", "a_pid_init", a_pid_init(&c), xx_pid_init(&c));
    for (int k = 0; k < 24; ++k)
    {
        a_real s = val(r), f = val(r), g0 = val(r), g1 = pos_val(r), g2 = val(r);
        unsigned op = (unsigned)vf_below(r, 10);
        vf_log("a_pid: op %u set=%.9Lg fdb=%.9Lg", op, (long double)s, (long double)f);
        switch (op)
        {
        case 0: TWV("a_pid::set_kpid", "a_pid_set_kpid", a_pid_set_kpid(&c, g0, g1, g2), xx_pid_set_kpid(&c, g0, g1, g2)); break;
        case 1: TWV("a_pid::zero", "a_pid_zero", a_pid_zero(&c), xx_pid_zero(&c)); break;
        case 2: case 3: TWR("a_pid::run", "a_pid_run", a_pid_run(&c, s, f), xx_pid_run(&c, s, f)); break;
        case 4: case 5: case 6: TWR("a_pid::pos", "a_pid_pos", a_pid_pos(&c, s, f), xx_pid_pos(&c, s, f)); break;
        default: TWR("a_pid::inc", "a_pid_inc", a_pid_inc(&c, s, f), xx_pid_inc(&c, s, f)); break;
        }
    }
    vf_distinct(0x1201);
done:;
}
static void case_neuro(vf_rng *r)
{
    a_pid_neuro c;
    memset(&c, 0x5C, sizeof c);
    c.pid.kp = pos_val(r); c.pid.ki = pos_val(r); c.pid.kd = pos_val(r);
    set_limits(&c.pid, r);
    c.k = pos_val(r); c.wp = pos_val(r); c.wi = pos_val(r); c.wd = pos_val(r);
    tw_clear(); tw_add(&c, sizeof c);
    vf_log("a_pid_neuro: init");
    TWV("a_pid_neuro::init", "a_pid_neuro_init", a_pid_neuro_init(&c), xx_pid_neuro_init(&c));
    for (int k = 0; k < 24; ++k)
    {
        a_real s = val(r), f = val(r), g0 = pos_val(r), g1 = pos_val(r), g2 = pos_val(r), g3 = pos_val(r);
        unsigned op = (unsigned)vf_below(r, 10);
        vf_log("a_pid_neuro: op %u set=%.9Lg fdb=%.9Lg", op, (long double)s, (long double)f);
        switch (op)
        {
        case 0: TWV("a_pid_neuro::set_kpid", "a_pid_neuro_set_kpid", a_pid_neuro_set_kpid(&c, g0, g1, g2, g3), xx_pid_neuro_set_kpid(&c, g0, g1, g2, g3)); break;
        case 1: TWV("a_pid_neuro::set_wpid", "a_pid_neuro_set_wpid", a_pid_neuro_set_wpid(&c, g0, g1, g2), xx_pid_neuro_set_wpid(&c, g0, g1, g2)); break;
        case 2: TWV("a_pid_neuro::zero", "a_pid_neuro_zero", a_pid_neuro_zero(&c), xx_pid_neuro_zero(&c)); break;
        case 3: case 4: TWR("a_pid_neuro::run", "a_pid_neuro_run", a_pid_neuro_run(&c, s, f), xx_pid_neuro_run(&c, s, f)); break;
        default: TWR("a_pid_neuro::inc", "a_pid_neuro_inc", a_pid_neuro_inc(&c, s, f), xx_pid_neuro_inc(&c, s, f)); break;
        }
    }
    vf_distinct(0x1202);
done:;
}
static void case_fuzzy(uint64_t cno, vf_rng *r)
{
    unsigned const n = 3 + (unsigned)(cno % 5);
#if A_REAL_TYPE + 0 == A_REAL_EXTEND
    unsigned const N = 4; /* even orders only in long double (scratch layout, see h_fuzzy_w.c) */
#else
    unsigned const N = 3 + (unsigned)vf_below(r, 2);
#endif
    size_t const bsz = A_PID_FUZZY_BFUZZ((size_t)N);
    a_real *me = (a_real *)malloc(sizeof(a_real) * 4 * n), *mec = (a_real *)malloc(sizeof(a_real) * 4 * n), *mk[3];
    void *bf = malloc(bsz), *bf2 = malloc(bsz);
    a_pid_fuzzy c;
    int lo = -(int)(n - 1) / 2;
    for (unsigned i = 0; i < n; ++i)
    {
        a_real ci = (a_real)(lo + (int)i);
        me[4 * i] = mec[4 * i] = (a_real)A_MF_TRI;
        me[4 * i + 1] = mec[4 * i + 1] = i == 0 ? ci : ci - 1;
        me[4 * i + 2] = mec[4 * i + 2] = ci;
        me[4 * i + 3] = mec[4 * i + 3] = i + 1 == n ? ci : ci + 1;
    }
    for (int t = 0; t < 3; ++t)
    {
        mk[t] = (a_real *)malloc(sizeof(a_real) * n * n);
        for (unsigned i = 0; i < n * n; ++i) { mk[t][i] = (a_real)vf_range(r, -9, 9); }
    }
    memset(&c, 0x5C, sizeof c); memset(bf, 0x5C, bsz); memset(bf2, 0x5C, bsz);
    set_limits(&c.pid, r);
    c.kp = c.ki = c.kd = 0;
    tw_clear(); tw_add(&c, sizeof c); tw_add(bf, bsz); tw_add(bf2, bsz);
    vf_log("a_pid_fuzzy: order %u scratch N=%u", n, N);
    {
        unsigned opr = (unsigned)vf_below(r, 7);
        a_real g0 = pos_val(r), g1 = pos_val(r), g2 = pos_val(r);
        TWV("a_pid_fuzzy::set_opr", "a_pid_fuzzy_set_opr", a_pid_fuzzy_set_opr(&c, opr), xx_pid_fuzzy_set_opr(&c, opr));
        TWV("a_pid_fuzzy::set_rule", "a_pid_fuzzy_set_rule", a_pid_fuzzy_set_rule(&c, n, me, mec, mk[0], mk[1], mk[2]), xx_pid_fuzzy_set_rule(&c, n, me, mec, mk[0], mk[1], mk[2]));
        TWV("a_pid_fuzzy::set_bfuzz", "a_pid_fuzzy_set_bfuzz", a_pid_fuzzy_set_bfuzz(&c, bf, N), xx_pid_fuzzy_set_bfuzz(&c, bf, N));
        TWV("a_pid_fuzzy::set_kpid", "a_pid_fuzzy_set_kpid", a_pid_fuzzy_set_kpid(&c, g0, g1, g2), xx_pid_fuzzy_set_kpid(&c, g0, g1, g2));
        TWV("a_pid_fuzzy::init", "a_pid_fuzzy_init", a_pid_fuzzy_init(&c), xx_pid_fuzzy_init(&c));
    }
    for (int k = 0; k < 24; ++k)
    {
        /* errors on the 1/8 grid inside the partition: at most 2 sets active per axis (N >= 3) */
        a_real s = (a_real)vf_range(r, 8 * lo, -8 * lo) / 8, f = vf_chance(r, 1, 2) ? 0 : (a_real)vf_range(r, -4, 4) / 8, g0 = pos_val(r), g1 = pos_val(r), g2 = pos_val(r);
        unsigned op = (unsigned)vf_below(r, 14), opr = (unsigned)vf_below(r, 9);
        vf_log("a_pid_fuzzy: op %u set=%.9Lg fdb=%.9Lg opr=%u", op, (long double)s, (long double)f, opr);
        switch (op)
        {
        case 0: TWV("a_pid_fuzzy::set_opr", "a_pid_fuzzy_set_opr", a_pid_fuzzy_set_opr(&c, opr), xx_pid_fuzzy_set_opr(&c, opr)); break;
        case 1: TWV("a_pid_fuzzy::set_kpid", "a_pid_fuzzy_set_kpid", a_pid_fuzzy_set_kpid(&c, g0, g1, g2), xx_pid_fuzzy_set_kpid(&c, g0, g1, g2)); break;
        case 2: TWV("a_pid_fuzzy::zero", "a_pid_fuzzy_zero", a_pid_fuzzy_zero(&c), xx_pid_fuzzy_zero(&c)); break;
        case 3:
        {
            void *nb = a_pid_fuzzy_bfuzz(&c) == bf ? bf2 : bf;
            TWV("a_pid_fuzzy::set_bfuzz", "a_pid_fuzzy_set_bfuzz", a_pid_fuzzy_set_bfuzz(&c, nb, N), xx_pid_fuzzy_set_bfuzz(&c, nb, N));
            break;
        }
        case 4:
        {
            void *p1 = a_pid_fuzzy_bfuzz(&c), *p2 = xx_pid_fuzzy_bfuzz(&c);
            ++vf.evals;
            vf_count_dyn("a_pid_fuzzy::bfuzz", 1);
            if (p1 != p2) { vf_viol("cxx/a_pid_fuzzy::bfuzz/result-differs-from-a_pid_fuzzy_bfuzz", "member returned %p, C function %p", p2, p1); goto done; }
            break;
        }
        case 5:
        {
            a_real const *ki = vf_chance(r, 1, 2) ? NULL : mk[1], *kd = vf_chance(r, 1, 2) ? NULL : mk[2];
            TWV("a_pid_fuzzy::set_rule", "a_pid_fuzzy_set_rule", a_pid_fuzzy_set_rule(&c, n, me, mec, mk[0], ki, kd), xx_pid_fuzzy_set_rule(&c, n, me, mec, mk[0], ki, kd));
            break;
        }
        case 6: case 7: TWR("a_pid_fuzzy::run", "a_pid_fuzzy_run", a_pid_fuzzy_run(&c, s, f), xx_pid_fuzzy_run(&c, s, f)); break;
        case 8: case 9: case 10: TWR("a_pid_fuzzy::pos", "a_pid_fuzzy_pos", a_pid_fuzzy_pos(&c, s, f), xx_pid_fuzzy_pos(&c, s, f)); break;
        default: TWR("a_pid_fuzzy::inc", "a_pid_fuzzy_inc", a_pid_fuzzy_inc(&c, s, f), xx_pid_fuzzy_inc(&c, s, f)); break;
        }
    }
    vf_distinct(vf_hash64(0x1203, n));
done:
    free(me); free(mec); free(mk[0]); free(mk[1]); free(mk[2]); free(bf); free(bf2);
}
static void vf_case(uint64_t c, vf_rng *r)
{
    tw_failed = 0;
#if VF_CXXW == 13
    case_fuzzy(c, r);
#else
    switch (c % 3)
    {
    case 0: case_pid(r); break;
    case 1: case_neuro(r); break;
    default: case_fuzzy(c / 3, r); break;
    }
#endif
}
#endif

/* ================================================================== C16 */
#if VF_CXXW == 16
static void case_tf(vf_rng *r)
{
    a_tf c;
    a_real num[8], den[8], num2[8], den2[8], *in = (a_real *)malloc(sizeof(a_real) * 8), *out = (a_real *)malloc(sizeof(a_real) * 8),
                                             *in2 = (a_real *)malloc(sizeof(a_real) * 8), *out2 = (a_real *)malloc(sizeof(a_real) * 8);
    unsigned nn = 1 + (unsigned)vf_below(r, 8), dn = (unsigned)vf_below(r, 9);
    for (int i = 0; i < 8; ++i)
    {
        num[i] = val(r); num2[i] = val(r); den[i] = (a_real)vf_uniform(r, -0.12, 0.12); den2[i] = (a_real)vf_uniform(r, -0.12, 0.12);
    }
    memset(&c, 0x5C, sizeof c); memset(in, 0x5C, sizeof(a_real) * 8); memset(out, 0x5C, sizeof(a_real) * 8); memset(in2, 0x5C, sizeof(a_real) * 8); memset(out2, 0x5C, sizeof(a_real) * 8);
    tw_clear(); tw_add(&c, sizeof c); tw_add(in, sizeof(a_real) * 8); tw_add(out, sizeof(a_real) * 8); tw_add(in2, sizeof(a_real) * 8); tw_add(out2, sizeof(a_real) * 8);
    vf_log("a_tf: init num_n=%u den_n=%u", nn, dn);
    TWV("a_tf::init", "a_tf_init", a_tf_init(&c, nn, num, in, dn, den, out), xx_tf_init(&c, nn, num, in, dn, den, out));
    for (int k = 0; k < 32; ++k)
    {
        a_real x = val(r);
        unsigned op = (unsigned)vf_below(r, 12), m = (unsigned)vf_below(r, 9);
        vf_log("a_tf: op %u x=%.9Lg m=%u", op, (long double)x, m);
        switch (op)
        {
        case 0: TWV("a_tf::zero", "a_tf_zero", a_tf_zero(&c), xx_tf_zero(&c)); break;
        case 1:
        {
            a_real *ni = c.input == in ? in2 : in;
            a_real const *np = c.num_p == num ? num2 : num;
            if (m == 0) { m = 1; }
            TWV("a_tf::set_num", "a_tf_set_num", a_tf_set_num(&c, m, np, ni), xx_tf_set_num(&c, m, np, ni));
            break;
        }
        case 2:
        {
            a_real *no = c.output == out ? out2 : out;
            a_real const *dp = c.den_p == den ? den2 : den;
            TWV("a_tf::set_den", "a_tf_set_den", a_tf_set_den(&c, m, dp, no), xx_tf_set_den(&c, m, dp, no));
            break;
        }
        case 3:
        {
            unsigned m2 = (unsigned)vf_below(r, 9);
            if (m == 0) { m = 1; }
            TWV("a_tf::init", "a_tf_init", a_tf_init(&c, m, num2, in2, m2, den2, out2), xx_tf_init(&c, m, num2, in2, m2, den2, out2));
            break;
        }
        default: TWR("a_tf::operator()", "a_tf_iter", a_tf_iter(&c, x), xx_tf_iter(&c, x)); break;
        }
    }
    vf_distinct(vf_hash64(vf_hash64(0x1601, nn), dn));
done:
    free(in); free(out); free(in2); free(out2);
}
static void case_rc(vf_rng *r)
{
    a_lpf l;
    a_hpf h;
    memset(&l, 0x5C, sizeof l); memset(&h, 0x5C, sizeof h);
    a_lpf_init(&l, (a_real)vf_uniform(r, 0, 1));
    a_hpf_init(&h, (a_real)vf_uniform(r, 0, 1));
    tw_clear(); tw_add(&l, sizeof l); tw_add(&h, sizeof h);
    for (int k = 0; k < 40; ++k)
    {
        a_real x = val(r), fc = (a_real)vf_logu(r, -4, 4), ts = (a_real)vf_logu(r, -4, 4);
        unsigned op = (unsigned)vf_below(r, 12);
        vf_log("rc: op %u x=%.9Lg fc=%.9Lg ts=%.9Lg", op, (long double)x, (long double)fc, (long double)ts);
        switch (op)
        {
        /* the C idiom for "gen" on an object is  alpha = a_xpf_gen(fc, ts)  (a_xpf_init would also clear the state) */
        case 0: TWV("a_lpf::gen", "a_lpf_gen", l.alpha = a_lpf_gen(fc, ts), xx_lpf_gen(&l, fc, ts)); break;
        case 1: TWV("a_hpf::gen", "a_hpf_gen", h.alpha = a_hpf_gen(fc, ts), xx_hpf_gen(&h, fc, ts)); break;
        case 2: TWV("a_lpf::zero", "a_lpf_zero", a_lpf_zero(&l), xx_lpf_zero(&l)); break;
        case 3: TWV("a_hpf::zero", "a_hpf_zero", a_hpf_zero(&h), xx_hpf_zero(&h)); break;
        case 4: case 5: case 6: case 7: TWR("a_lpf::operator()", "a_lpf_iter", a_lpf_iter(&l, x), xx_lpf_iter(&l, x)); break;
        default: TWR("a_hpf::operator()", "a_hpf_iter", a_hpf_iter(&h, x), xx_hpf_iter(&h, x)); break;
        }
    }
    vf_distinct(0x1602);
done:;
}
static void vf_case(uint64_t c, vf_rng *r)
{
    tw_failed = 0;
    if (c % 2) { case_rc(r); }
    else { case_tf(r); }
}
#endif

/* ================================================================== C14 */
#if VF_CXXW == 14
static void vf_case(uint64_t c, vf_rng *r)
{
    a_real lim[3], p0 = val(r), p1 = val(r), v0 = val(r) / 4, v1 = val(r) / 4, T;
    int form = (int)vf_below(r, 3); /* how many of the defaulted end velocities are passed */
    tw_failed = 0;
    for (int i = 0; i < 3; ++i) { lim[i] = pos_val(r); }
    if (form < 2) { v1 = 0; }
    if (form < 1) { v0 = 0; }
    if (c % 2)
    {
        a_trajtrap t;
        memset(&t, 0x5C, sizeof t);
        tw_clear(); tw_add(&t, sizeof t);
        vf_log("a_trajtrap::gen form %d vm=%.9Lg ac=%.9Lg de=%.9Lg p0=%.9Lg p1=%.9Lg v0=%.9Lg v1=%.9Lg", form, (long double)lim[0], (long double)lim[1], (long double)-lim[2], (long double)p0, (long double)p1, (long double)v0, (long double)v1);
        switch (form)
        {
        case 0: TWR("a_trajtrap::gen(5 args)", "a_trajtrap_gen(...,0,0)", a_trajtrap_gen(&t, lim[0], lim[1], -lim[2], p0, p1, 0, 0), xx_trajtrap_gen5(&t, lim[0], lim[1], -lim[2], p0, p1)); break;
        case 1: TWR("a_trajtrap::gen(6 args)", "a_trajtrap_gen(...,v0,0)", a_trajtrap_gen(&t, lim[0], lim[1], -lim[2], p0, p1, v0, 0), xx_trajtrap_gen6(&t, lim[0], lim[1], -lim[2], p0, p1, v0)); break;
        default: TWR("a_trajtrap::gen", "a_trajtrap_gen", a_trajtrap_gen(&t, lim[0], lim[1], -lim[2], p0, p1, v0, v1), xx_trajtrap_gen(&t, lim[0], lim[1], -lim[2], p0, p1, v0, v1)); break;
        }
        T = t.t;
        for (int k = 0; k < 16; ++k)
        {
            a_real x = (T > 0 && T < A_REAL_MAX ? T : 1) * (a_real)vf_uniform(r, -0.2, 1.2);
            vf_log("a_trajtrap: sample x=%.9Lg", (long double)x);
            TWR("a_trajtrap::pos", "a_trajtrap_pos", a_trajtrap_pos(&t, x), xx_trajtrap_pos(&t, x));
            TWR("a_trajtrap::vel", "a_trajtrap_vel", a_trajtrap_vel(&t, x), xx_trajtrap_vel(&t, x));
            TWR("a_trajtrap::acc", "a_trajtrap_acc", a_trajtrap_acc(&t, x), xx_trajtrap_acc(&t, x));
        }
        vf_distinct(vf_hash64(0x1401, (uint64_t)form));
    }
    else
    {
        a_trajbell t;
        memset(&t, 0x5C, sizeof t);
        tw_clear(); tw_add(&t, sizeof t);
        vf_log("a_trajbell::gen form %d jm=%.9Lg am=%.9Lg vm=%.9Lg p0=%.9Lg p1=%.9Lg v0=%.9Lg v1=%.9Lg", form, (long double)lim[0], (long double)lim[1], (long double)lim[2], (long double)p0, (long double)p1, (long double)v0, (long double)v1);
        switch (form)
        {
        case 0: TWR("a_trajbell::gen(5 args)", "a_trajbell_gen(...,0,0)", a_trajbell_gen(&t, lim[0], lim[1], lim[2], p0, p1, 0, 0), xx_trajbell_gen5(&t, lim[0], lim[1], lim[2], p0, p1)); break;
        case 1: TWR("a_trajbell::gen(6 args)", "a_trajbell_gen(...,v0,0)", a_trajbell_gen(&t, lim[0], lim[1], lim[2], p0, p1, v0, 0), xx_trajbell_gen6(&t, lim[0], lim[1], lim[2], p0, p1, v0)); break;
        default: TWR("a_trajbell::gen", "a_trajbell_gen", a_trajbell_gen(&t, lim[0], lim[1], lim[2], p0, p1, v0, v1), xx_trajbell_gen(&t, lim[0], lim[1], lim[2], p0, p1, v0, v1)); break;
        }
        T = t.t;
        for (int k = 0; k < 16; ++k)
        {
            a_real x = (T > 0 && T < A_REAL_MAX ? T : 1) * (a_real)vf_uniform(r, -0.2, 1.2);
            vf_log("a_trajbell: sample x=%.9Lg", (long double)x);
            TWR("a_trajbell::pos", "a_trajbell_pos", a_trajbell_pos(&t, x), xx_trajbell_pos(&t, x));
            TWR("a_trajbell::vel", "a_trajbell_vel", a_trajbell_vel(&t, x), xx_trajbell_vel(&t, x));
            TWR("a_trajbell::acc", "a_trajbell_acc", a_trajbell_acc(&t, x), xx_trajbell_acc(&t, x));
            TWR("a_trajbell::jer", "a_trajbell_jer", a_trajbell_jer(&t, x), xx_trajbell_jer(&t, x));
        }
        vf_distinct(vf_hash64(0x1402, (uint64_t)form));
    }
done:;
}
#endif

/* ================================================================== C15 */
#if VF_CXXW == 15
static void vf_case(uint64_t c, vf_rng *r)
{
    a_real v[8], ts = pos_val(r), *co = (a_real *)malloc(sizeof(a_real) * 8);
    int deg = (int)(c % 3), maxna = deg == 0 ? 2 : deg == 1 ? 4 : 6, na = (int)vf_below(r, (uint64_t)maxna + 1);
    char nm[64], cn[64];
    tw_failed = 0;
    for (int i = 0; i < 8; ++i) { v[i] = i < 2 + na ? val(r) : 0; }
    memset(co, 0x5C, sizeof(a_real) * 8);
    vf_log("a_trajpoly%d::gen with %d of the defaulted arguments: ts=%.9Lg p0=%.9Lg p1=%.9Lg v0=%.9Lg v1=%.9Lg a0=%.9Lg a1=%.9Lg j0=%.9Lg j1=%.9Lg", 3 + 2 * deg, na, (long double)ts,
           (long double)v[0], (long double)v[1], (long double)v[2], (long double)v[3], (long double)v[4], (long double)v[5], (long double)v[6], (long double)v[7]);
    snprintf(nm, sizeof nm, "a_trajpoly%d::gen(%d args)", 3 + 2 * deg, 3 + na);
    snprintf(cn, sizeof cn, "a_trajpoly%d_gen(...,0)", 3 + 2 * deg);
#define SAMPLE(T, P, HASJ)                                                                                                    \
    for (int k = 0; k < 12; ++k)                                                                                              \
    {                                                                                                                         \
        a_real x = ts * (a_real)vf_uniform(r, -0.2, 1.2);                                                                     \
        vf_log("a_" #T ": sample x=%.9Lg", (long double)x);                                                                   \
        TWR("a_" #T "::pos", "a_" #T "_pos", a_##T##_pos(&P, x), xx_##T##_pos(&P, x));                                        \
        TWR("a_" #T "::vel", "a_" #T "_vel", a_##T##_vel(&P, x), xx_##T##_vel(&P, x));                                        \
        TWR("a_" #T "::acc", "a_" #T "_acc", a_##T##_acc(&P, x), xx_##T##_acc(&P, x));                                        \
    }
    if (deg == 0)
    {
        a_trajpoly3 p;
        memset(&p, 0x5C, sizeof p);
        tw_clear(); tw_add(&p, sizeof p); tw_add(co, sizeof(a_real) * 8);
        TWV(nm, cn, a_trajpoly3_gen(&p, ts, v[0], v[1], v[2], v[3]), xx_trajpoly3_gen(&p, ts, v, na));
        SAMPLE(trajpoly3, p, 0)
        TWV("a_trajpoly3::c0", "a_trajpoly3_c0", a_trajpoly3_c0(&p, co), xx_trajpoly3_c(&p, 0, co));
        TWV("a_trajpoly3::c1", "a_trajpoly3_c1", a_trajpoly3_c1(&p, co), xx_trajpoly3_c(&p, 1, co));
        TWV("a_trajpoly3::c2", "a_trajpoly3_c2", a_trajpoly3_c2(&p, co), xx_trajpoly3_c(&p, 2, co));
    }
    else if (deg == 1)
    {
        a_trajpoly5 p;
        memset(&p, 0x5C, sizeof p);
        tw_clear(); tw_add(&p, sizeof p); tw_add(co, sizeof(a_real) * 8);
        TWV(nm, cn, a_trajpoly5_gen(&p, ts, v[0], v[1], v[2], v[3], v[4], v[5]), xx_trajpoly5_gen(&p, ts, v, na));
        SAMPLE(trajpoly5, p, 0)
        TWV("a_trajpoly5::c0", "a_trajpoly5_c0", a_trajpoly5_c0(&p, co), xx_trajpoly5_c(&p, 0, co));
        TWV("a_trajpoly5::c1", "a_trajpoly5_c1", a_trajpoly5_c1(&p, co), xx_trajpoly5_c(&p, 1, co));
        TWV("a_trajpoly5::c2", "a_trajpoly5_c2", a_trajpoly5_c2(&p, co), xx_trajpoly5_c(&p, 2, co));
    }
    else
    {
        a_trajpoly7 p;
        memset(&p, 0x5C, sizeof p);
        tw_clear(); tw_add(&p, sizeof p); tw_add(co, sizeof(a_real) * 8);
        TWV(nm, cn, a_trajpoly7_gen(&p, ts, v[0], v[1], v[2], v[3], v[4], v[5], v[6], v[7]), xx_trajpoly7_gen(&p, ts, v, na));
        SAMPLE(trajpoly7, p, 1)
        for (int k = 0; k < 12; ++k)
        {
            a_real x = ts * (a_real)vf_uniform(r, -0.2, 1.2);
            vf_log("a_trajpoly7: jerk sample x=%.9Lg", (long double)x);
            TWR("a_trajpoly7::jer", "a_trajpoly7_jer", a_trajpoly7_jer(&p, x), xx_trajpoly7_jer(&p, x));
        }
        TWV("a_trajpoly7::c0", "a_trajpoly7_c0", a_trajpoly7_c0(&p, co), xx_trajpoly7_c(&p, 0, co));
        TWV("a_trajpoly7::c1", "a_trajpoly7_c1", a_trajpoly7_c1(&p, co), xx_trajpoly7_c(&p, 1, co));
        TWV("a_trajpoly7::c2", "a_trajpoly7_c2", a_trajpoly7_c2(&p, co), xx_trajpoly7_c(&p, 2, co));
        TWV("a_trajpoly7::c3", "a_trajpoly7_c3", a_trajpoly7_c3(&p, co), xx_trajpoly7_c(&p, 3, co));
    }
    vf_distinct(vf_hash64(vf_hash64(0x1500, (uint64_t)deg), (uint64_t)na));
done:
    free(co);
}
#endif
