/* C01 (AVL), C02 (red-black), C03 (iterators + tear-down, both trees).
 *
 * Compile-time selection:  -DVF_TREE_RBT (else AVL)   -DVF_MODE_ITER (C03; else structure = C01/C02)
 *
 * Workload 1: bounded-exhaustive enumeration of every tree shape reachable through the real
 *   library with <= N nodes (every worker repeats the cheap enumeration in vf_init; the cases are
 *   chunks of the canonical shape list).  Structure mode executes EVERY insert (n+1 gaps), every
 *   remove (n nodes), every duplicate insert and every lookup on every shape and runs the full
 *   invariant walker + model comparison after each call.  Iterator mode runs all eight traversal
 *   protocols, every single-step from every node and three tear-down variants on every shape.
 * Workload 2: seeded random / adversarial long histories (trees up to 4096 nodes).
 *
 * Nodes are individual malloc blocks; a node is free()d the moment the library has removed it /
 * handed it out, so any later read by the library or by the walker is an ASan use-after-free.
 */
#ifdef VF_TREE_RBT
#include "a/rbt.h"
#define TN "rbt"
typedef a_rbt_node tnode;
typedef a_rbt troot;
#define T_(x) a_rbt_##x
#define META_MASK ((a_uptr)1)
#else
#include "a/avl.h"
#define TN "avl"
typedef a_avl_node tnode;
typedef a_avl troot;
#define T_(x) a_avl_##x
#define META_MASK ((a_uptr)3)
#endif

#ifdef VF_MODE_ITER
#define VF_PROP "C03"
#elif defined(VF_TREE_RBT)
#define VF_PROP "C02"
#else
#define VF_PROP "C01"
#endif
#define VF_HAVE_INIT
#include "vf_common.h"
#include <limits.h>

#define MAXN 4200
#define NODE_MAGIC 0x7E57A11Du

typedef struct hnode
{
    tnode n; /* must stay first */
    int key;
    uint32_t id;
    uint32_t magic;
    uint32_t shift; /* configuration "minalign": distance from the start of the malloc block */
} hnode;

/* The documented comparator contract is only the SIGN of the result (avl.h/rbt.h: ==0 equivalent, <0 before, >0 after), so
   the comparators return, per case, -1/0/+1, the key difference, or the extreme values of int (seeded change C01-F: a search
   that dispatches on the values -1 and +1). */
static int cmp_style;
static int cmp_shape(int a, int b)
{
    switch (cmp_style)
    {
    case 1: return a - b; /* keys are small: no overflow */
    case 2: return a < b ? INT_MIN : a > b ? INT_MAX : 0;
    case 3: return a < b ? -2 - (b - a) % 5 : a > b ? 2 + (a - b) % 7 : 0;
    default: return (a > b) - (a < b);
    }
}
static int cmp_node(void const *l, void const *r)
{
    return cmp_shape(((hnode const *)l)->key, ((hnode const *)r)->key);
}
static int cmp_key(void const *ctx, void const *r)
{
    return cmp_shape(*(int const *)ctx, ((hnode const *)r)->key);
}
/* the lookup key carried IN the context pointer ((void *)(uintptr_t)key): the header documents ctx only as "specified content" handed to cmp(ctx, node), so it is
   opaque to the library - key 0 is then the null pointer (seeded change C02-K: a_rbt_search returning early for a null ctx "so that the comparator never
   sees a null pointer") */
static int cmp_key_by_value(void const *ctx, void const *r)
{
    return cmp_shape((int)(uintptr_t)ctx, ((hnode const *)r)->key);
}

/* heterogeneous lookup: the context is a RESIDENT element, and the comparator reads something other than the key that element is stored under (parent id
   vs own id, foreign key, interval end ...). ctx is opaque to the library, so the address of the probe says nothing about the key asked for (seeded
   changes C01-M / C02-M: `if (ctx == cur) return cur;` as a "membership test" fast path returns the probe itself for whatever key is asked) */
static int alt_key;
static int cmp_alt(void const *ctx, void const *r)
{
    if (((hnode const *)ctx)->magic != NODE_MAGIC) { vf_viol(TN "/search/comparator-got-a-context-it-was-not-given", "ctx does not point at the probe element"); }
    return cmp_shape(alt_key, ((hnode const *)r)->key);
}

/* node layout: packed parent/meta word (A_SIZE_POINTER large enough) or separate members (-DA_SIZE_POINTER=1 build) */
#ifdef VF_TREE_RBT
#if defined(A_SIZE_POINTER) && (A_SIZE_POINTER + 0 > 1)
#define VF_PACKED 1
#else
#define VF_PACKED 0
#endif
#else
#if defined(A_SIZE_POINTER) && (A_SIZE_POINTER + 0 > 3)
#define VF_PACKED 1
#else
#define VF_PACKED 0
#endif
#endif
#if VF_PACKED
static inline unsigned meta_of(tnode const *n) { return (unsigned)(n->parent_ & META_MASK); }
static inline tnode *parent_of(tnode const *n) { return (tnode *)(n->parent_ & ~META_MASK); }
static inline void set_parent_meta(tnode *n, tnode *parent, unsigned meta) { n->parent_ = (a_uptr)parent | (a_uptr)meta; }
#elif defined(VF_TREE_RBT)
/* colour member: 0 red, 1 black; anything else is reported as 2 (never equal to a legal colour) */
static inline unsigned meta_of(tnode const *n) { return n->color <= 1 ? n->color : 2u; }
static inline tnode *parent_of(tnode const *n) { return n->parent; }
static inline void set_parent_meta(tnode *n, tnode *parent, unsigned meta) { n->parent = parent; n->color = meta; }
#else
/* factor member -1/0/+1 is reported as factor+1 like the packed form; anything else as 3 ("undefined") */
static inline unsigned meta_of(tnode const *n) { return (n->factor >= -1 && n->factor <= 1) ? (unsigned)(n->factor + 1) : 3u; }
static inline tnode *parent_of(tnode const *n) { return n->parent; }
static inline void set_parent_meta(tnode *n, tnode *parent, unsigned meta) { n->parent = parent; n->factor = (int)meta - 1; }
#endif

/* ============================================================ shape store */
/* encoding: pre-order, one byte per node: bit0 has-left, bit1 has-right, bits 2.. meta */
typedef struct
{
    uint8_t *bytes;
    size_t nbytes, cap;
    uint32_t *off; /* offset of each shape */
    uint8_t *len;
    size_t nshapes, scap;
    uint32_t *ht;
    size_t htcap;
} shapestore;
static shapestore SS;
static int bfsN;

static uint64_t enc_hash(uint8_t const *e, unsigned n) { return vf_hash_bytes(0x1234ABCD5678EF01ULL ^ n, e, n); }

static void ss_grow_ht(void)
{
    size_t ncap = SS.htcap ? SS.htcap * 2 : 1u << 12;
    uint32_t *h = (uint32_t *)malloc(ncap * sizeof(uint32_t));
    memset(h, 0xFF, ncap * sizeof(uint32_t));
    for (size_t i = 0; i < SS.nshapes; ++i)
    {
        size_t p = (size_t)enc_hash(SS.bytes + SS.off[i], SS.len[i]) & (ncap - 1);
        while (h[p] != UINT32_MAX) { p = (p + 1) & (ncap - 1); }
        h[p] = (uint32_t)i;
    }
    free(SS.ht);
    SS.ht = h;
    SS.htcap = ncap;
}
/* returns 1 if newly added */
static int ss_add(uint8_t const *e, unsigned n)
{
    if ((SS.nshapes + 1) * 10 > SS.htcap * 6) { ss_grow_ht(); }
    size_t p = (size_t)enc_hash(e, n) & (SS.htcap - 1);
    while (SS.ht[p] != UINT32_MAX)
    {
        uint32_t i = SS.ht[p];
        if (SS.len[i] == n && (n == 0 || memcmp(SS.bytes + SS.off[i], e, n) == 0)) { return 0; }
        p = (p + 1) & (SS.htcap - 1);
    }
    if (SS.nbytes + n > SS.cap)
    {
        SS.cap = SS.cap ? SS.cap * 2 : 1u << 16;
        SS.bytes = (uint8_t *)realloc(SS.bytes, SS.cap);
    }
    if (SS.nshapes == SS.scap)
    {
        SS.scap = SS.scap ? SS.scap * 2 : 1024;
        SS.off = (uint32_t *)realloc(SS.off, SS.scap * sizeof(uint32_t));
        SS.len = (uint8_t *)realloc(SS.len, SS.scap);
    }
    if (n) { memcpy(SS.bytes + SS.nbytes, e, n); }
    SS.off[SS.nshapes] = (uint32_t)SS.nbytes;
    SS.len[SS.nshapes] = (uint8_t)n;
    SS.ht[p] = (uint32_t)SS.nshapes;
    SS.nbytes += n;
    ++SS.nshapes;
    return 1;
}

/* materialise an encoding into nodes; keys are 2*rank+1 (in-order rank), so gap g <-> key 2g */
typedef struct
{
    hnode **nodes; /* nodes[i] in pre-order */
    uint8_t const *e;
    unsigned n, pos;
    int rank;
} matctx;
static tnode *mat_rec(matctx *m, tnode *parent)
{
    unsigned i = m->pos++;
    uint8_t b = m->e[i];
    hnode *h = m->nodes[i];
    set_parent_meta(&h->n, parent, (unsigned)(b >> 2));
    h->n.left = (b & 1) ? mat_rec(m, &h->n) : NULL;
    h->key = 2 * m->rank++ + 1;
    h->n.right = (b & 2) ? mat_rec(m, &h->n) : NULL;
    return &h->n;
}
static void materialise(troot *root, uint8_t const *e, unsigned n, hnode **nodes)
{
    matctx m = {nodes, e, n, 0, 0};
    root->node = n ? mat_rec(&m, NULL) : NULL;
}
/* encode by child links only (bounded); returns node count or -1 if more than maxn nodes / cycle */
static int encode(troot const *root, uint8_t *e, int maxn)
{
    tnode *stack[72];
    int sp = 0, n = 0;
    if (root->node) { stack[sp++] = root->node; }
    while (sp)
    {
        tnode *x = stack[--sp];
        if (n >= maxn) { return -1; }
        e[n++] = (uint8_t)((x->left ? 1 : 0) | (x->right ? 2 : 0) | (meta_of(x) << 2));
        if (x->right) { if (sp >= 70) { return -1; } stack[sp++] = x->right; }
        if (x->left) { if (sp >= 70) { return -1; } stack[sp++] = x->left; }
    }
    return n;
}

static void enumerate_shapes(int N)
{
    static hnode pool[40];
    hnode *nodes[40];
    hnode extra;
    uint8_t enc[40];
    troot root;
    for (int i = 0; i < 40; ++i) { nodes[i] = &pool[i]; }
    ss_add(enc, 0);
    /* fixpoint: process shapes in discovery order; inserts while n < N, removes always */
    for (size_t s = 0; s < SS.nshapes; ++s)
    {
        unsigned n = SS.len[s];
        uint8_t cur[40];
        if (n) { memcpy(cur, SS.bytes + SS.off[s], n); }
        if ((int)n < N)
        {
            for (unsigned g = 0; g <= n; ++g)
            {
                materialise(&root, cur, n, nodes);
                extra.key = 2 * (int)g;
                T_(insert)(&root, &extra.n, cmp_node);
                int m = encode(&root, enc, 40);
                if (m > 0) { ss_add(enc, (unsigned)m); }
            }
        }
        for (unsigned k = 0; k < n; ++k)
        {
            materialise(&root, cur, n, nodes);
            T_(remove)(&root, &nodes[k]->n);
            int m = encode(&root, enc, 40);
            if (m >= 0) { ss_add(enc, (unsigned)m); }
        }
    }
}

/* ============================================================ live nodes */
static hnode *live[MAXN + 8]; /* by id */
static uint32_t nlive_ids;
/* address set of live nodes: membership is decided WITHOUT dereferencing the candidate pointer, so a
   stale or wild link is reported by a monitor clause with a meaningful key instead of crashing the walker */
#define PSET_CAP 16384u
static hnode *pset[PSET_CAP];
static inline size_t pset_slot(void const *p) { return (size_t)(((uintptr_t)p >> 4) * 0x9E3779B97F4A7C15ULL >> 50) & (PSET_CAP - 1); }
static void pset_add(hnode *h)
{
    size_t i = pset_slot(h);
    while (pset[i]) { i = (i + 1) & (PSET_CAP - 1); }
    pset[i] = h;
}
static void pset_del(hnode *h)
{
    size_t i = pset_slot(h), j;
    while (pset[i] != h)
    {
        if (!pset[i]) { return; }
        i = (i + 1) & (PSET_CAP - 1);
    }
    /* backward-shift deletion */
    for (j = (i + 1) & (PSET_CAP - 1); pset[j]; j = (j + 1) & (PSET_CAP - 1))
    {
        size_t k = pset_slot(pset[j]);
        if ((i <= j) ? (k <= i || k > j) : (k <= i && k > j))
        {
            pset[i] = pset[j];
            i = j;
        }
    }
    pset[i] = NULL;
}
static hnode *node_new(int key)
{
#ifdef VF_MINALIGN
    /* Configuration "minalign" (built with -fno-sanitize=alignment): every second node lives at an address that has exactly the
       alignment the header documents as sufficient for the packed parent word ("It must be N-byte aligned": rbt.h 2, avl.h 4) and
       no more, as on an ABI with that pointer alignment.  malloc blocks are 16-aligned, so without this the low four bits of
       every node address are zero and a mask that takes more bits than documented is invisible (seeded change C02-I). */
    static uint32_t nalloc;
    uint32_t const shift = (++nalloc & 1) ? (uint32_t)(VF_MINALIGN) : 0;
    hnode *h = (hnode *)((char *)malloc(sizeof(hnode) + (VF_MINALIGN)) + shift);
#else
    uint32_t const shift = 0;
    hnode *h = (hnode *)malloc(sizeof(hnode));
#endif
    uint32_t id;
    static uint32_t hint;
    (void)hint;
    for (id = 0; id < nlive_ids; ++id)
    {
        if (!live[id]) { break; }
    }
    if (id == nlive_ids)
    {
        if (nlive_ids >= MAXN + 8) { fprintf(stderr, "h_tree: too many nodes\n"); exit(2); }
        ++nlive_ids;
    }
    memset(h, 0xEE, sizeof(*h));
    h->key = key;
    h->id = id;
    h->magic = NODE_MAGIC;
    h->shift = shift;
    if (shift) { VF_COUNT("node-at-minimum-documented-alignment"); }
    live[id] = h;
    pset_add(h);
    return h;
}
static void node_free(hnode *h)
{
    live[h->id] = NULL;
    pset_del(h);
    h->magic = 0;
    free((char *)h - h->shift);
}
static void free_all_live(void)
{
    for (uint32_t i = 0; i < nlive_ids; ++i)
    {
        if (live[i]) { node_free(live[i]); }
    }
    nlive_ids = 0;
}
static inline int is_live(tnode const *p)
{
    size_t i = pset_slot(p);
    while (pset[i])
    {
        if ((void const *)pset[i] == (void const *)p) { return 1; }
        i = (i + 1) & (PSET_CAP - 1);
    }
    return 0;
}

/* ============================================================ the walker */
typedef struct
{
    int ok;       /* structure sound (all clauses) */
    int n;        /* nodes reached */
    uint64_t hash; /* canonical shape hash (structure + meta) */
    int height;
} walkres;

static tnode *inord[MAXN + 8]; /* filled by walk(): in-order node sequence */
static char const *opname = "op";

#define WFAIL(clause, ...)                                         \
    do {                                                           \
        char key_[96];                                             \
        snprintf(key_, sizeof(key_), TN "/%s/%s", opname, clause); \
        vf_viol(key_, __VA_ARGS__);                                \
        res.ok = 0;                                                \
    } while (0)

/* Walk from the root trusting only child links. expect_keys (sorted) is the model. */
static walkres walk(troot const *root, int const *expect_keys, int expect_n)
{
    walkres res = {1, 0, 0x5eed, 0};
    /* iterative post-order with explicit stack; every node gets (height, blackheight) */
    static struct
    {
        tnode *x;
        int state;
        int hl, bl;
    } st[128];
    int sp = 0, steps = 0, cnt = 0;
    int last_h = 0, last_b = 0; /* results of the subtree just finished */
    VF_COUNT("walker-runs");
    if (!root->node)
    {
        if (expect_n != 0) { WFAIL("lost-elements", "tree empty but model has %d elements", expect_n); }
        return res;
    }
    if (!is_live(root->node)) { WFAIL("foreign-node", "root is not a live node"); return res; }
    if (parent_of(root->node) != NULL) { WFAIL("root-parent-not-null", "root's parent link is %p", (void *)parent_of(root->node)); }
#ifdef VF_TREE_RBT
    if (meta_of(root->node) != 1) { WFAIL("root-not-black", "root is red"); }
#endif
    st[sp].x = root->node;
    st[sp].state = 0;
    ++sp;
    while (sp)
    {
        tnode *x = st[sp - 1].x;
        if (++steps > 3 * (expect_n + 2) + 8) { WFAIL("walk-does-not-terminate", "more than %d steps for %d expected nodes", steps, expect_n); return res; }
        if (st[sp - 1].state == 0)
        {
            st[sp - 1].state = 1;
            if (x->left)
            {
                if (!is_live(x->left)) { WFAIL("foreign-node", "left child of key %d is not a live node", ((hnode *)x)->key); return res; }
                if (parent_of(x->left) != x) { WFAIL("parent-link-mismatch", "left child (key %d) of key %d has parent link %p", ((hnode *)x->left)->key, ((hnode *)x)->key, (void *)parent_of(x->left)); }
                if (sp >= 126) { WFAIL("too-deep", "depth > 126"); return res; }
                st[sp].x = x->left;
                st[sp].state = 0;
                ++sp;
                continue;
            }
            last_h = 0;
            last_b = 0;
        }
        if (st[sp - 1].state == 1)
        {
            st[sp - 1].hl = last_h;
            st[sp - 1].bl = last_b;
            st[sp - 1].state = 2;
            /* in-order visit */
            if (cnt > MAXN) { WFAIL("too-many-nodes", "more than %d nodes", MAXN); return res; }
            inord[cnt++] = x;
            if (x->right)
            {
                if (!is_live(x->right)) { WFAIL("foreign-node", "right child of key %d is not a live node", ((hnode *)x)->key); return res; }
                if (parent_of(x->right) != x) { WFAIL("parent-link-mismatch", "right child (key %d) of key %d has parent link %p", ((hnode *)x->right)->key, ((hnode *)x)->key, (void *)parent_of(x->right)); }
                if (sp >= 126) { WFAIL("too-deep", "depth > 126"); return res; }
                st[sp].x = x->right;
                st[sp].state = 0;
                ++sp;
                continue;
            }
            last_h = 0;
            last_b = 0;
        }
        /* state 2: both subtrees done; last_* = right results */
        {
            int hl = st[sp - 1].hl, hr = last_h, bl = st[sp - 1].bl, br = last_b;
            unsigned m = meta_of(x);
#ifdef VF_TREE_RBT
            if (m > 1) { WFAIL("colour-undefined", "key %d: colour member holds neither red (0) nor black (1)", ((hnode *)x)->key); }
            if (bl != br) { WFAIL("black-height-mismatch", "key %d: black height left %d right %d", ((hnode *)x)->key, bl, br); }
            if (m == 0)
            {
                if ((x->left && meta_of(x->left) == 0) || (x->right && meta_of(x->right) == 0))
                {
                    WFAIL("red-red", "red key %d has a red child", ((hnode *)x)->key);
                }
            }
            last_b = bl + (m ? 1 : 0);
#else
            int f = (int)m - 1;
            if (m == 3) { WFAIL("factor-undefined", "key %d: stored factor bits are 11", ((hnode *)x)->key); }
            else if (f != hr - hl) { WFAIL("factor-mismatch", "key %d: stored factor %d, heights left %d right %d", ((hnode *)x)->key, f, hl, hr); }
            if (hr - hl > 1 || hl - hr > 1) { WFAIL("unbalanced", "key %d: heights left %d right %d", ((hnode *)x)->key, hl, hr); }
            last_b = 0;
            (void)br;
#endif
            last_h = 1 + (hl > hr ? hl : hr);
            res.hash = vf_hash64(res.hash, (uint64_t)((x->left ? 1 : 0) | (x->right ? 2 : 0) | (m << 2)) + ((uint64_t)sp << 8) + ((uint64_t)hl << 20));
        }
        --sp;
    }
    res.n = cnt;
    res.height = last_h;
    /* order + contents against the model */
    for (int i = 1; i < cnt; ++i)
    {
        if (((hnode *)inord[i - 1])->key >= ((hnode *)inord[i])->key)
        {
            WFAIL("order-violated", "in-order keys %d then %d", ((hnode *)inord[i - 1])->key, ((hnode *)inord[i])->key);
            break;
        }
    }
    if (cnt != expect_n) { WFAIL("element-count", "tree holds %d nodes, model %d", cnt, expect_n); }
    else
    {
        for (int i = 0; i < cnt; ++i)
        {
            if (((hnode *)inord[i])->key != expect_keys[i])
            {
                WFAIL("element-set", "position %d: tree key %d, model key %d", i, ((hnode *)inord[i])->key, expect_keys[i]);
                break;
            }
        }
    }
    return res;
}

/* ============================================================ model */
static int mkeys[MAXN + 8]; /* sorted */
static int mn;
static int model_find(int key)
{
    int lo = 0, hi = mn;
    while (lo < hi)
    {
        int mid = (lo + hi) / 2;
        if (mkeys[mid] < key) { lo = mid + 1; }
        else { hi = mid; }
    }
    return lo;
}
static int model_has(int key)
{
    int p = model_find(key);
    return p < mn && mkeys[p] == key;
}
static void model_add(int key)
{
    int p = model_find(key);
    memmove(mkeys + p + 1, mkeys + p, (size_t)(mn - p) * sizeof(int));
    mkeys[p] = key;
    ++mn;
}
static void model_del(int key)
{
    int p = model_find(key);
    memmove(mkeys + p, mkeys + p + 1, (size_t)(mn - p - 1) * sizeof(int));
    --mn;
}

/* manual descent + link + a_*_insert_adjust, as a user of the low-level API does */
static tnode *insert_lowlevel(troot *root, hnode *h)
{
    tnode *parent = NULL, **link = &root->node;
    while (*link)
    {
        int c;
        parent = *link;
        c = cmp_node(h, parent);
        if (c < 0) { link = &parent->left; }
        else if (c > 0) { link = &parent->right; }
        else { return parent; }
    }
    *link = T_(init)(&h->n, parent);
    T_(insert_adjust)(root, &h->n);
    return NULL;
}

/* ---- operations with full checking (structure mode) */
static uint64_t last_hash;
static hnode *find_node(troot *root, int key) { return (hnode *)T_(search)(root, &key, cmp_key); }

static int dup_toggle;
static int do_insert(troot *root, int key, int lowlevel)
{
    hnode *h;
    int had = model_has(key);
    tnode *ret;
    walkres before = {0};
    opname = had ? "dup-insert" : (lowlevel ? "insert_adjust" : "insert");
    if (had && (++dup_toggle & 1))
    {
        /* the element handed in is the resident object itself: must come back untouched */
        hnode *res = (hnode *)T_(search)(root, &key, cmp_key);
        if (res && is_live(&res->n))
        {
            opname = "dup-insert-same-object";
            before = walk(root, mkeys, mn);
            ret = T_(insert)(root, &res->n, cmp_node);
            ++vf.evals;
            VF_COUNT("dup-insert-of-resident-object");
            if (ret != &res->n) { vf_viol(TN "/dup-insert-same-object/did-not-return-resident", "re-inserting the resident node of key %d returned %p", key, (void *)ret); }
            {
                walkres after = walk(root, mkeys, mn);
                if (before.ok && after.ok && before.hash != after.hash) { vf_viol(TN "/dup-insert-same-object/tree-changed", "re-inserting the resident node of key %d changed the tree", key); }
                last_hash = after.hash;
                return after.ok;
            }
        }
    }
    h = node_new(key);
    if (had) { before = walk(root, mkeys, mn); }
    ret = lowlevel ? insert_lowlevel(root, h) : T_(insert)(root, &h->n, cmp_node);
    ++vf.evals;
    if (had)
    {
        VF_COUNT("dup-insert-returns-resident");
        if (!ret || !is_live(ret) || ((hnode *)ret)->key != key || ret == &h->n)
        {
            char key_[64];
            snprintf(key_, sizeof(key_), TN "/dup-insert/did-not-return-resident");
            vf_viol(key_, "duplicate insert of key %d returned %p", key, (void *)ret);
        }
        node_free(h); /* if it was linked in anyway the walker hits freed memory */
        walkres after = walk(root, mkeys, mn);
        if (before.ok && after.ok && before.hash != after.hash)
        {
            char key_[64];
            snprintf(key_, sizeof(key_), TN "/dup-insert/tree-changed");
            vf_viol(key_, "duplicate insert of key %d changed the tree shape", key);
        }
        last_hash = after.hash;
        return after.ok;
    }
    VF_COUNT("insert-returns-null-for-new-key");
    if (ret != NULL)
    {
        char key_[64];
        snprintf(key_, sizeof(key_), TN "/%s/new-key-reported-as-duplicate", opname);
        vf_viol(key_, "insert of absent key %d returned %p", key, (void *)ret);
    }
    model_add(key);
    walkres w = walk(root, mkeys, mn);
    last_hash = w.hash;
    return w.ok;
}
static int do_remove(troot *root, int key)
{
    hnode *h;
    opname = "remove";
    h = find_node(root, key);
    if (!h || !is_live(&h->n) || h->key != key)
    {
        vf_viol(TN "/search/present-key-not-found", "key %d is in the model but search returned %p", key, (void *)h);
        return 0;
    }
    T_(remove)(root, &h->n);
    ++vf.evals;
    node_free(h);
    model_del(key);
    walkres w = walk(root, mkeys, mn);
    last_hash = w.hash;
    return w.ok;
}
static void do_search(troot *root, int key)
{
    hnode *h = find_node(root, key);
    int has = model_has(key);
    ++vf.evals;
    VF_COUNT("search-agrees-with-model");
    if (has && (!h || !is_live(&h->n) || h->key != key)) { vf_viol(TN "/search/present-key-not-found", "key %d", key); }
    if (!has && h) { vf_viol(TN "/search/absent-key-found", "key %d -> node with key %d", key, is_live(&h->n) ? h->key : -1); }
    if (key >= 0)
    {
        hnode *v = (hnode *)T_(search)(root, (void const *)(uintptr_t)(unsigned)key, cmp_key_by_value);
        VF_COUNT("search-with-the-key-carried-in-the-context-pointer");
        if (key == 0) { VF_COUNT("search-with-a-null-context-pointer"); }
        if (v != h) { vf_viol(TN "/search/opaque-context-pointer", "key %d carried in the context pointer (%s): search returns %s, with a pointer to the key it returns %s", key, key ? "non-null" : "NULL", v ? "a node" : "null", h ? "a node" : "null"); }
    }
    /* probes: the root element and the next element on the descent for `key` - both lie on the search path of the key asked for */
    for (tnode *e = root->node; e; e = key < ((hnode *)e)->key ? e->left : e->right)
    {
        hnode *v;
        alt_key = key;
        v = (hnode *)T_(search)(root, e, cmp_alt);
        VF_COUNT("search-with-a-resident-element-as-context");
        if (((hnode *)e)->key != key) { VF_COUNT("search-resident-probe-stored-under-another-key"); }
        if (v != h) { vf_viol(TN "/search/resident-element-as-context", "key %d asked for through a comparator that reads it from elsewhere, context = the resident element with key %d: search returns %s (key %d), the lookup by key returns %s", key, ((hnode *)e)->key, v ? "a node" : "null", v ? v->key : -1, h ? "a node" : "null"); }
        if (e != root->node || ((hnode *)e)->key == key) { break; }
    }
}

/* ============================================================ iterator mode */
static tnode *ref_seq[5][MAXN + 8]; /* 0 in-order, 1 NLR, 2 NRL, 3 LRN, 4 RLN */
static int ref_n[5];
static void ref_build(tnode *x)
{
    /* plain recursion over child links (depth <= ~30 for balanced trees) */
    if (!x) { return; }
    ref_seq[1][ref_n[1]++] = x;
    ref_build(x->left);
    ref_seq[0][ref_n[0]++] = x;
    ref_build(x->right);
    ref_seq[3][ref_n[3]++] = x;
}
static void ref_build_mirror(tnode *x)
{
    if (!x) { return; }
    ref_seq[2][ref_n[2]++] = x;
    ref_build_mirror(x->right);
    ref_build_mirror(x->left);
    ref_seq[4][ref_n[4]++] = x;
}
static int posidx[5][MAXN + 8]; /* by node id */

static void seq_check(char const *name, tnode **got, int ngot, int overflow, tnode **ref, int n)
{
    char key[96];
    vf_count_dyn(name, 1);
    ++vf.evals;
    if (overflow)
    {
        snprintf(key, sizeof(key), TN "/%s/does-not-terminate", name);
        vf_viol(key, "%s produced more than %d elements", name, n + 1);
        return;
    }
    if (ngot != n)
    {
        snprintf(key, sizeof(key), TN "/%s/wrong-element-count", name);
        vf_viol(key, "%s visited %d elements, tree has %d", name, ngot, n);
        return;
    }
    for (int i = 0; i < n; ++i)
    {
        if (got[i] != ref[i])
        {
            snprintf(key, sizeof(key), TN "/%s/wrong-order", name);
            vf_viol(key, "%s position %d: got key %d expected key %d", name, i, ((hnode *)got[i])->key, ((hnode *)ref[i])->key);
            return;
        }
    }
}

static void step_check(char const *name, tnode *(*fn)(tnode *), int seq)
{
    char key[96];
    int n = ref_n[seq];
    for (int i = 0; i < n; ++i)
    {
        tnode *x = ref_seq[seq][i];
        tnode *want = i + 1 < n ? ref_seq[seq][i + 1] : NULL;
        tnode *got = fn(x);
        ++vf.evals;
        if (got != want)
        {
            snprintf(key, sizeof(key), TN "/%s/wrong-successor", name);
            vf_viol(key, "%s(key %d) = %s%d, expected %s%d", name, ((hnode *)x)->key, got ? "key " : "null ", got && is_live(got) ? ((hnode *)got)->key : -1,
                    want ? "key " : "null ", want ? ((hnode *)want)->key : -1);
            return;
        }
    }
    vf_count_dyn(name, (uint64_t)n);
}

#define COLLECT(loop)                                   \
    do {                                                \
        ngot = 0;                                       \
        overflow = 0;                                   \
        loop                                            \
        {                                               \
            if (ngot > n) { overflow = 1; break; }      \
            got[ngot++] = cur;                          \
        }                                               \
    } while (0)

static void check_iterators(troot *root, int n)
{
    static tnode *got[MAXN + 8];
    int ngot, overflow;
    for (int s = 0; s < 5; ++s) { ref_n[s] = 0; }
    ref_build(root->node);
    ref_build_mirror(root->node);
#ifdef VF_TREE_RBT
    COLLECT(a_rbt_foreach(cur, root));
    seq_check("foreach", got, ngot, overflow, ref_seq[0], n);
    COLLECT(a_rbt_foreach_reverse(cur, root));
#else
    COLLECT(a_avl_foreach(cur, root));
    seq_check("foreach", got, ngot, overflow, ref_seq[0], n);
    COLLECT(a_avl_foreach_reverse(cur, root));
#endif
    {
        /* reverse of in-order */
        static tnode *rev[MAXN + 8];
        for (int i = 0; i < n; ++i) { rev[i] = ref_seq[0][n - 1 - i]; }
        seq_check("foreach_reverse", got, ngot, overflow, rev, n);
    }
#ifdef VF_TREE_RBT
    COLLECT(a_rbt_pre_foreach(cur, root));
    seq_check("pre_foreach", got, ngot, overflow, ref_seq[1], n);
    COLLECT(a_rbt_pre_foreach_reverse(cur, root));
    seq_check("pre_foreach_reverse", got, ngot, overflow, ref_seq[2], n);
    COLLECT(a_rbt_post_foreach(cur, root));
    seq_check("post_foreach", got, ngot, overflow, ref_seq[3], n);
    COLLECT(a_rbt_post_foreach_reverse(cur, root));
    seq_check("post_foreach_reverse", got, ngot, overflow, ref_seq[4], n);
#else
    COLLECT(a_avl_pre_foreach(cur, root));
    seq_check("pre_foreach", got, ngot, overflow, ref_seq[1], n);
    COLLECT(a_avl_pre_foreach_reverse(cur, root));
    seq_check("pre_foreach_reverse", got, ngot, overflow, ref_seq[2], n);
    COLLECT(a_avl_post_foreach(cur, root));
    seq_check("post_foreach", got, ngot, overflow, ref_seq[3], n);
    COLLECT(a_avl_post_foreach_reverse(cur, root));
    seq_check("post_foreach_reverse", got, ngot, overflow, ref_seq[4], n);
#endif
    /* the upper-case macro forms (caller-declared iteration variable) */
    {
        tnode *cur;
#define COLLECT2(loop)                                  \
    do {                                                \
        ngot = 0;                                       \
        overflow = 0;                                   \
        loop                                            \
        {                                               \
            if (ngot > n) { overflow = 1; break; }      \
            got[ngot++] = cur;                          \
        }                                               \
    } while (0)
#ifdef VF_TREE_RBT
        COLLECT2(A_RBT_FOREACH(cur, root));
        seq_check("FOREACH-macro", got, ngot, overflow, ref_seq[0], n);
        COLLECT2(A_RBT_PRE_FOREACH(cur, root));
        seq_check("PRE_FOREACH-macro", got, ngot, overflow, ref_seq[1], n);
        COLLECT2(A_RBT_PRE_FOREACH_REVERSE(cur, root));
        seq_check("PRE_FOREACH_REVERSE-macro", got, ngot, overflow, ref_seq[2], n);
        COLLECT2(A_RBT_POST_FOREACH(cur, root));
        seq_check("POST_FOREACH-macro", got, ngot, overflow, ref_seq[3], n);
        COLLECT2(A_RBT_POST_FOREACH_REVERSE(cur, root));
        seq_check("POST_FOREACH_REVERSE-macro", got, ngot, overflow, ref_seq[4], n);
#else
        COLLECT2(A_AVL_FOREACH(cur, root));
        seq_check("FOREACH-macro", got, ngot, overflow, ref_seq[0], n);
        COLLECT2(A_AVL_PRE_FOREACH(cur, root));
        seq_check("PRE_FOREACH-macro", got, ngot, overflow, ref_seq[1], n);
        COLLECT2(A_AVL_PRE_FOREACH_REVERSE(cur, root));
        seq_check("PRE_FOREACH_REVERSE-macro", got, ngot, overflow, ref_seq[2], n);
        COLLECT2(A_AVL_POST_FOREACH(cur, root));
        seq_check("POST_FOREACH-macro", got, ngot, overflow, ref_seq[3], n);
        COLLECT2(A_AVL_POST_FOREACH_REVERSE(cur, root));
        seq_check("POST_FOREACH_REVERSE-macro", got, ngot, overflow, ref_seq[4], n);
#endif
    }
    /* single steps from every node: the iterator started anywhere yields exactly the suffix */
    step_check("next", T_(next), 0);
    step_check("pre_next", T_(pre_next), 1);
    step_check("pre_prev", T_(pre_prev), 2);
    step_check("post_next", T_(post_next), 3);
    step_check("post_prev", T_(post_prev), 4);
    /* prev: predecessor in-order; and mutual inverses */
    for (int i = 0; i < n; ++i)
    {
        tnode *x = ref_seq[0][i];
        tnode *want = i ? ref_seq[0][i - 1] : NULL;
        tnode *p = T_(prev)(x);
        ++vf.evals;
        if (p != want)
        {
            vf_viol(TN "/prev/wrong-predecessor", "prev(key %d) wrong", ((hnode *)x)->key);
            break;
        }
        if (p && T_(next)(p) != x) { vf_viol(TN "/next-prev/not-inverse", "next(prev(key %d)) != itself", ((hnode *)x)->key); break; }
        {
            tnode *q = T_(next)(x);
            if (q && T_(prev)(q) != x) { vf_viol(TN "/next-prev/not-inverse", "prev(next(key %d)) != itself", ((hnode *)x)->key); break; }
        }
    }
    VF_ADD("prev+inverse", n);
    /* head/tail/post_head/post_tail */
    VF_COUNT("head-tail");
    if (T_(head)(root) != (n ? ref_seq[0][0] : NULL)) { vf_viol(TN "/head/not-first-in-order", "head wrong"); }
    if (T_(tail)(root) != (n ? ref_seq[0][n - 1] : NULL)) { vf_viol(TN "/tail/not-last-in-order", "tail wrong"); }
    if (T_(post_head)(root) != (n ? ref_seq[3][0] : NULL)) { vf_viol(TN "/post_head/not-first-post-order", "post_head wrong"); }
    if (T_(post_tail)(root) != (n ? ref_seq[4][0] : NULL)) { vf_viol(TN "/post_tail/not-first-mirrored-post-order", "post_tail wrong"); }
}

/* reachable set from the root by child links == the not yet handed out nodes? */
static int reach_check(troot *root, uint8_t const *handed, hnode **nodes, int n, int nhanded)
{
    tnode *stack[160];
    int sp = 0, cnt = 0;
    (void)nodes;
    if (root->node) { stack[sp++] = root->node; }
    while (sp)
    {
        tnode *x = stack[--sp];
        hnode *h = (hnode *)x;
        if (++cnt > n + 1) { return -1; }
        if (!is_live(x)) { return -2; }
        if (handed[h->id]) { return -3; }
        if (x->left) { if (sp > 150) { return -4; } stack[sp++] = x->left; }
        if (x->right) { if (sp > 150) { return -4; } stack[sp++] = x->right; }
    }
    return cnt == n - nhanded ? 0 : -5;
}

/* tear-down; variant 0: plain; 1: reset `next` to null at step k; 2: stop after k steps;
   3: start from the explicit node nodes[k] (the documented "input starting node") */
static void check_tear(troot *root, hnode **nodes, int n, int variant, int k)
{
    static uint8_t handed[MAXN + 8];
    static int lchild[MAXN + 8], rchild[MAXN + 8]; /* original children by id, -1 none */
    tnode *next = NULL, *cur;
    int steps = 0;
    memset(handed, 0, nlive_ids + 1);
    for (int i = 0; i < n; ++i)
    {
        hnode *h = nodes[i];
        lchild[h->id] = h->n.left ? (int)((hnode *)h->n.left)->id : -1;
        rchild[h->id] = h->n.right ? (int)((hnode *)h->n.right)->id : -1;
    }
    vf_count_dyn(variant == 0 ? "tear-full" : variant == 1 ? "tear-reset-next" : variant == 2 ? "tear-interrupted" : variant == 3 ? "tear-from-explicit-node" : "tear-fortear-macro-runs", 1);
    if (variant == 3 && n) { next = &nodes[k % n]->n; }
    if (variant == 4)
    {
        /* the documented macro form: children must come before parents, every element exactly once, freed at once */
        int cnt = 0, bad = 0;
#ifdef VF_TREE_RBT
        a_rbt_fortear(c4, nx4, root)
#else
        a_avl_fortear(c4, nx4, root)
#endif
        {
            hnode *h = (hnode *)c4;
            ++vf.evals;
            if (cnt >= n || !is_live(c4)) { bad = 1; break; }
            if ((lchild[h->id] >= 0 && !handed[lchild[h->id]]) || (rchild[h->id] >= 0 && !handed[rchild[h->id]])) { bad = 2; break; }
            handed[h->id] = 1;
            node_free(h);
            ++cnt;
        }
        vf_count_dyn("tear-fortear-macro", 1);
        if (bad || cnt != n || root->node) { vf_viol(TN "/fortear-macro/not-every-element-once-children-first", "macro tear-down: %d of %d handed out, code %d, root %s", cnt, n, bad, root->node ? "not null" : "null"); }
        VF_ADD("tear-steps", cnt);
        return;
    }
    for (;;)
    {
        if (variant == 2 && steps == k) { break; }
        if (variant == 1 && steps == k) { next = NULL; }
        cur = T_(tear)(root, &next);
        ++vf.evals;
        if (!cur) { break; }
        if (steps >= n) { vf_viol(TN "/tear/hands-out-more-than-n", "more than %d elements handed out", n); return; }
        {
            hnode *h = (hnode *)cur;
            uint32_t id;
            if (!is_live(cur)) { vf_viol(TN "/tear/handed-out-twice-or-foreign", "step %d: node is not live (already handed out?)", steps); return; }
            id = h->id;
            if ((lchild[id] >= 0 && !handed[lchild[id]]) || (rchild[id] >= 0 && !handed[rchild[id]]))
            {
                vf_viol(TN "/tear/parent-before-child", "step %d: key %d handed out before one of its children", steps, h->key);
                return;
            }
            handed[id] = 1;
            /* free at once: any later read of it by the library is an ASan use-after-free */
            {
                node_free(h);
            }
        }
        ++steps;
        {
            int rc = reach_check(root, handed, nodes, n, steps);
            if (rc)
            {
                vf_viol(TN "/tear/remaining-set-wrong", "after %d steps nodes reachable from root != nodes not yet handed out (code %d)", steps, rc);
                return;
            }
        }
    }
    VF_ADD("tear-steps", steps);
    if (variant != 2)
    {
        if (steps != n) { vf_viol(TN "/tear/not-all-handed-out", "%d of %d handed out", steps, n); }
        if (root->node) { vf_viol(TN "/tear/tree-not-empty", "root not null after tear-down"); }
        if (T_(tear)(root, &next)) { vf_viol(TN "/tear/returns-after-empty", "non-null after exhaustion"); }
    }
}

/* ============================================================ cases */
#define CHUNK 64
static uint64_t n_bfs_cases, n_rand_cases;

static void vf_init(void)
{
#ifdef VF_TREE_RBT
#ifdef VF_MODE_ITER
    bfsN = vf.tier ? 17 : 12;
#else
    bfsN = vf.tier ? 16 : 12;
#endif
#else
#ifdef VF_MODE_ITER
    bfsN = vf.tier ? 22 : 15;
#else
    bfsN = vf.tier ? 20 : 15;
#endif
#endif
    if (!VF_PACKED && !vf.tier) { bfsN -= 2; }
    if (getenv("VF_TREE_N")) { bfsN = atoi(getenv("VF_TREE_N")); }
    enumerate_shapes(bfsN);
    n_bfs_cases = (SS.nshapes + CHUNK - 1) / CHUNK;
#ifdef VF_MODE_ITER
    n_rand_cases = vf.tier ? 12000 : 150;
#else
    n_rand_cases = vf.tier ? 20000 : (VF_PACKED ? 400 : 200);
#endif
}
static uint64_t vf_ncases(int tier) { (void)tier; return n_bfs_cases + n_rand_cases; }

static void enc_hex(char *out, uint8_t const *e, unsigned n)
{
    for (unsigned i = 0; i < n; ++i) { sprintf(out + 2 * i, "%02x", e[i]); }
    out[2 * n] = 0;
}

/* build shape s into freshly malloc'ed nodes + model */
static void build_shape(troot *root, size_t s, hnode **nodes)
{
    unsigned n = SS.len[s];
    for (unsigned i = 0; i < n; ++i) { nodes[i] = node_new(0); }
    materialise(root, SS.bytes + SS.off[s], n, nodes);
    mn = 0;
    for (unsigned i = 0; i < n; ++i) { mkeys[i] = 2 * (int)i + 1; }
    mn = (int)n;
}

static void bfs_case_struct(uint64_t c)
{
    hnode *nodes[48];
    troot root;
    char hex[100];
    size_t s0 = c * CHUNK, s1 = s0 + CHUNK < SS.nshapes ? s0 + CHUNK : SS.nshapes;
    for (size_t s = s0; s < s1; ++s)
    {
        unsigned n = SS.len[s];
        enc_hex(hex, SS.bytes + SS.off[s], n);
        /* certify the shape itself */
        build_shape(&root, s, nodes);
        opname = "enumerated-shape";
        {
            walkres w = walk(&root, mkeys, mn);
            vf_distinct(w.hash);
            if (!w.ok) { free_all_live(); continue; }
        }
        /* every lookup */
        for (int k = 0; k <= 2 * (int)n; ++k) { do_search(&root, k); }
        free_all_live();
        /* every insert position */
        for (unsigned g = 0; g <= n; ++g)
        {
            build_shape(&root, s, nodes);
            vf_log("shape %s (n=%u) insert at gap %u%s", hex, n, g, (g & 1) ? " [low-level]" : "");
            do_insert(&root, 2 * (int)g, (int)((g + s) & 1));
            VF_COUNT("bfs-insert-transitions");
            free_all_live();
        }
        /* every remove */
        for (unsigned k = 0; k < n; ++k)
        {
            build_shape(&root, s, nodes);
            vf_log("shape %s (n=%u) remove in-order rank %u", hex, n, k);
            do_remove(&root, 2 * (int)k + 1);
            VF_COUNT("bfs-remove-transitions");
            free_all_live();
        }
        /* every duplicate insert */
        if (n)
        {
            build_shape(&root, s, nodes);
            for (unsigned k = 0; k < n; ++k)
            {
                vf_log("shape %s (n=%u) duplicate insert of rank %u", hex, n, k);
                do_insert(&root, 2 * (int)k + 1, (int)(k & 1));
            }
            free_all_live();
        }
        if (vf_want_sample() && n >= 5 && (s % 7) == 0)
        {
            vf_sample(TN " shape %s (pre-order bytes: bit0 left, bit1 right, bits2+ %s), n=%u: all %u inserts, %u removes, %u duplicate inserts, %u lookups executed and walker-checked",
                      hex, META_MASK == 3 ? "factor+1" : "colour(1=black)", n, n + 1, n, n, 2 * n + 1);
        }
    }
}

static void bfs_case_iter(uint64_t c, vf_rng *r)
{
    hnode *nodes[48];
    troot root;
    char hex[100];
    size_t s0 = c * CHUNK, s1 = s0 + CHUNK < SS.nshapes ? s0 + CHUNK : SS.nshapes;
    for (size_t s = s0; s < s1; ++s)
    {
        unsigned n = SS.len[s];
        enc_hex(hex, SS.bytes + SS.off[s], n);
        build_shape(&root, s, nodes);
        opname = "enumerated-shape";
        walkres w = walk(&root, mkeys, mn);
        if (!w.ok) { VF_COUNT("skipped-structure-broken"); free_all_live(); continue; }
        if (n && (s & 1))
        {
            /* the documented duplicate path with the resident node object ITSELF as the argument (one node object per key is
               what a caller keeps): the tree must be unchanged - judged by the traversals that follow (seeded change C03-G: the new
               node is initialised as a leaf before the descent, which wipes the links of a node that is already in the tree) */
            unsigned const q = (unsigned)vf_below(r, n);
            vf_log("shape %s (n=%u): insert of the resident node object of pre-order node %u", hex, n, q);
            if ((void *)T_(insert)(&root, &nodes[q]->n, cmp_node) != (void *)&nodes[q]->n)
            {
                vf_viol(TN "/dup-insert-same-object/did-not-return-resident", "shape %s: inserting the resident node %u did not return it", hex, q);
            }
            VF_COUNT("iter-after-same-object-duplicate-insert");
        }
        vf_log("shape %s (n=%u): eight traversal orders, single steps from every node", hex, n);
        check_iterators(&root, (int)n);
        vf_distinct(w.hash);
        vf_log("shape %s (n=%u): full tear-down", hex, n);
        check_tear(&root, nodes, (int)n, 0, 0);
        free_all_live();
        if (n)
        {
            int k = (int)vf_below(r, n + 1);
            build_shape(&root, s, nodes);
            vf_log("shape %s (n=%u): tear-down with next reset to null at step %d", hex, n, k);
            check_tear(&root, nodes, (int)n, 1, k);
            free_all_live();
            k = (int)vf_below(r, n + 1);
            build_shape(&root, s, nodes);
            vf_log("shape %s (n=%u): tear-down interrupted after %d steps", hex, n, k);
            check_tear(&root, nodes, (int)n, 2, k);
            free_all_live();
            build_shape(&root, s, nodes);
            vf_log("shape %s (n=%u): tear-down through the fortear macro", hex, n);
            check_tear(&root, nodes, (int)n, 4, 0);
            free_all_live();
            /* every node as the explicit starting node */
            for (unsigned q = 0; q < n; ++q)
            {
                build_shape(&root, s, nodes);
                vf_log("shape %s (n=%u): tear-down started from pre-order node %u", hex, n, q);
                check_tear(&root, nodes, (int)n, 3, (int)q);
                free_all_live();
            }
        }
        if (vf_want_sample() && n >= 5 && (s % 7) == 0)
        {
            vf_sample(TN " shape %s n=%u: foreach/reverse/pre/pre_reverse/post/post_reverse == recursive reference; next/prev/pre_next/pre_prev/post_next/post_prev from each of %u nodes; 3 tear-down variants with free-on-hand-out", hex, n, n);
        }
    }
}

/* random / adversarial histories */
static void random_case(uint64_t c, vf_rng *r)
{
    static int const spaces[] = {8, 32, 256, 4096};
    troot root;
    int ks = spaces[vf_below(r, (c % 10 == 0) ? 4 : 3)];
    int pattern = (int)vf_below(r, 9);
    int nops = ks == 4096 ? 6000 : ks == 256 ? 1200 : 400;
    int lowlevel = vf_chance(r, 1, 4);
    T_(root)(&root);
    mn = 0;
    nlive_ids = 0;
    vf_log("random history: keyspace %d pattern %d ops %d lowlevel %d", ks, pattern, nops, lowlevel);
#ifdef VF_MODE_ITER
    /* build a random tree through the library, then check iterators/tear-down on it at a few points */
    {
        int target = 1 + (int)vf_below(r, (uint64_t)ks);
        int checks = 0;
        for (int i = 0; i < nops; ++i)
        {
            int key = (int)vf_below(r, (uint64_t)ks);
            int ins = mn < target ? vf_chance(r, 3, 4) : vf_chance(r, 1, 4);
            if (pattern == 1) { key = i % ks; }
            if (pattern == 2) { key = ks - 1 - (i % ks); }
            if (ins)
            {
                if (!model_has(key))
                {
                    hnode *h = node_new(key);
                    T_(insert)(&root, &h->n, cmp_node);
                    model_add(key);
                }
                else if (vf_chance(r, 1, 2))
                {
                    /* key already present: hand the resident node object itself to insert (must come back, tree unchanged) */
                    hnode *h = find_node(&root, key);
                    if (h && (void *)T_(insert)(&root, &h->n, cmp_node) != (void *)&h->n)
                    {
                        vf_viol(TN "/dup-insert-same-object/did-not-return-resident", "key %d: inserting the resident node did not return it", key);
                    }
                    VF_COUNT("iter-after-same-object-duplicate-insert");
                }
            }
            else if (mn)
            {
                int k2 = mkeys[vf_below(r, (uint64_t)mn)];
                hnode *h = find_node(&root, k2);
                if (h) { T_(remove)(&root, &h->n); node_free(h); model_del(k2); }
            }
            if ((i % (nops / 4 + 1)) == nops / 8 || i == nops - 1)
            {
                opname = "random-tree";
                walkres w = walk(&root, mkeys, mn);
                if (!w.ok) { VF_COUNT("skipped-structure-broken"); break; }
                vf_log("after %d ops: n=%d height=%d: traversal orders + single steps", i + 1, mn, w.height);
                check_iterators(&root, mn);
                vf_distinct(w.hash);
                ++checks;
            }
        }
        /* final tear-down of the random tree */
        {
            static hnode *nodes[MAXN + 8];
            int n = 0, variant = (int)vf_below(r, 4), k;
            for (uint32_t i = 0; i < nlive_ids; ++i)
            {
                if (live[i]) { nodes[n++] = live[i]; }
            }
            k = (int)vf_below(r, (uint64_t)n + 1);
            vf_log("tear-down variant %d k=%d of random tree n=%d", variant, k, n);
            opname = "random-tree";
            walkres w = walk(&root, mkeys, mn);
            if (w.ok) { check_tear(&root, nodes, n, variant, k); }
        }
        free_all_live();
        return;
    }
#else
    for (int i = 0; i < nops; ++i)
    {
        int key, op;
        switch (pattern)
        {
        case 0: /* uniform random */
            key = (int)vf_below(r, (uint64_t)ks);
            op = (int)vf_below(r, 8);
            break;
        case 1: /* ascending fill then random drain */
            key = i < ks ? i : (int)vf_below(r, (uint64_t)ks);
            op = i < ks ? 0 : 4;
            break;
        case 2: /* descending fill then drain in same order */
            key = i < ks ? ks - 1 - i : ks - 1 - (i - ks) % ks;
            op = i < ks ? 0 : 4;
            break;
        case 3: /* zig-zag */
            key = (i & 1) ? ks - 1 - (i / 2) % ks : (i / 2) % ks;
            op = (i / ks) & 1 ? 4 : 0;
            break;
        case 4: /* remove the root repeatedly after fill */
            key = (int)vf_below(r, (uint64_t)ks);
            op = i < ks ? 0 : 5;
            break;
        case 5: /* remove min / max alternately after fill */
            key = (int)vf_below(r, (uint64_t)ks);
            op = i < ks ? 0 : 6;
            break;
        case 6: /* remove then immediately re-insert */
            key = (int)vf_below(r, (uint64_t)ks);
            op = i < ks / 2 ? 0 : 7;
            break;
        case 7: /* duplicate bursts */
            key = (int)vf_below(r, (uint64_t)(ks / 4 + 1));
            op = (int)vf_below(r, 3) ? 0 : 4;
            break;
        default: /* mostly grow */
            key = (int)vf_below(r, (uint64_t)ks);
            op = (int)vf_below(r, 10) < 7 ? 0 : 4;
            break;
        }
        if (op <= 3)
        {
            vf_log("ins %d", key);
            if (!do_insert(&root, key, lowlevel)) { break; }
        }
        else if (op == 4)
        {
            if (model_has(key)) { vf_log("rem %d", key); if (!do_remove(&root, key)) { break; } }
            else { vf_log("find %d (absent)", key); do_search(&root, key); }
        }
        else if (op == 5)
        {
            if (root.node) { int k2 = ((hnode *)root.node)->key; vf_log("rem root %d", k2); if (!do_remove(&root, k2)) { break; } }
        }
        else if (op == 6)
        {
            if (mn) { int k2 = (i & 1) ? mkeys[0] : mkeys[mn - 1]; vf_log("rem %s %d", (i & 1) ? "min" : "max", k2); if (!do_remove(&root, k2)) { break; } }
        }
        else
        {
            if (mn)
            {
                int k2 = mkeys[vf_below(r, (uint64_t)mn)];
                vf_log("rem %d then re-insert", k2);
                if (!do_remove(&root, k2)) { break; }
                if (!do_insert(&root, k2, lowlevel)) { break; }
            }
        }
        vf_distinct(last_hash);
        if ((i & 7) == 0)
        {
            int k3 = (int)vf_below(r, (uint64_t)ks + 2) - 1;
            do_search(&root, k3);
        }
    }
    if (vf_want_sample() && c % 5 == 0)
    {
        vf_sample(TN " random history: keyspace %d, pattern %d, %d ops via %s; walker (order, balance/colour, parent links, element set vs model) after every call; final size %d",
                  ks, pattern, nops, lowlevel ? "manual link + insert_adjust" : "insert", mn);
    }
    free_all_live();
#endif
}

static void vf_case(uint64_t c, vf_rng *r)
{
    nlive_ids = 0;
    mn = 0;
    cmp_style = (int)(vf_hash64(0xC3, c) >> 7 & 3);
    vf_count_dyn(cmp_style == 0 ? "comparator-returns-sign" : cmp_style == 1 ? "comparator-returns-difference" : cmp_style == 2 ? "comparator-returns-int-extremes" : "comparator-returns-varying-magnitudes", 1);
    vf_log("comparator result style %d (0 sign, 1 difference, 2 INT_MIN/INT_MAX, 3 varying magnitudes)", cmp_style);
    if (c < n_bfs_cases)
    {
#ifdef VF_MODE_ITER
        bfs_case_iter(c, r);
#else
        (void)r;
        bfs_case_struct(c);
#endif
    }
    else { random_case(c - n_bfs_cases, r); }
}
