/* C19 - integer square root, gcd/lcm, bit reversal, byte-order accessors: exact oracles. */
#define VF_PROP "C19"
#define VF_HAVE_INIT
#include "vf_common.h"
#include "a/a.h"
#include "a/math.h"

uint8_t vfx_u8_rev(uint8_t x);
uint16_t vfx_u16_rev(uint16_t x);
uint32_t vfx_u32_rev(uint32_t x);
uint64_t vfx_u64_rev(uint64_t x);
uint16_t vfx_u16_getl(void const *b);
uint16_t vfx_u16_getb(void const *b);
uint32_t vfx_u32_getl(void const *b);
uint32_t vfx_u32_getb(void const *b);
uint64_t vfx_u64_getl(void const *b);
uint64_t vfx_u64_getb(void const *b);
void vfx_u16_setl(void *b, uint16_t x);
void vfx_u16_setb(void *b, uint16_t x);
void vfx_u32_setl(void *b, uint32_t x);
void vfx_u32_setb(void *b, uint32_t x);
void vfx_u64_setl(void *b, uint64_t x);
void vfx_u64_setb(void *b, uint64_t x);
void vfx_setget16(void *b, uint16_t x, uint16_t y, uint16_t out[4]);
void vfx_setget32(void *b, uint32_t x, uint32_t y, uint32_t out[4]);
void vfx_setget64(void *b, uint64_t x, uint64_t y, uint64_t out[4]);
uint16_t vfx_setget_loop16(void *b, uint16_t const *v, unsigned n);
uint32_t vfx_setget_loop32(void *b, uint32_t const *v, unsigned n);
uint64_t vfx_setget_loop64(void *b, uint64_t const *v, unsigned n);

enum
{
    K_SQRT32_RANGE, /* arg = chunk of 2^20 consecutive x */
    K_SQRT32_SQUARES, /* arg = chunk of 4096 k: k^2-1, k^2, k^2+1 */
    K_SQRT32_POW2,
    K_SQRT32_RANDOM,
    K_SQRT64_RANGE, /* x < 2^24 in chunks of 2^20 */
    K_SQRT64_SQUARES_RANDOM,
    K_SQRT64_SQUARES_TOP, /* k within 2^16 of 2^32-1 */
    K_SQRT64_POW2,
    K_SQRT64_RANDOM,
    K_GCD_GRID, /* all pairs < 1024, arg = a-range chunk of 64 */
    K_GCD_RANDOM,
    K_GCD_SPECIAL,
    K_REV_SMALL, /* u8/u16 exhaustive */
    K_REV32_RANGE, /* arg = chunk of 2^24 */
    K_REV32_RANDOM,
    K_REV64,
    K_ACCESS,
};
typedef struct { int kind; uint64_t arg; } plan_t;
static plan_t *plan;
static uint64_t nplan;
static void plan_add(int kind, uint64_t arg)
{
    static uint64_t cap;
    if (nplan == cap)
    {
        cap = cap ? cap * 2 : 1024;
        plan = (plan_t *)realloc(plan, cap * sizeof(*plan));
    }
    plan[nplan].kind = kind;
    plan[nplan].arg = arg;
    ++nplan;
}

static void vf_init(void)
{
    uint64_t i;
    if (vf.tier)
    {
        for (i = 0; i < 4096; ++i) { plan_add(K_SQRT32_RANGE, i); } /* all 2^32 arguments */
    }
    else
    {
        plan_add(K_SQRT32_RANGE, 0);
        plan_add(K_SQRT32_RANGE, 4095);
        for (i = 0; i < 16; ++i) { plan_add(K_SQRT32_RANDOM, i); }
    }
    for (i = 0; i < 16; ++i) { plan_add(K_SQRT32_SQUARES, i); }
    plan_add(K_SQRT32_POW2, 0);
    for (i = 0; i < (vf.tier ? 16u : 2u); ++i) { plan_add(K_SQRT64_RANGE, i); }
    for (i = 0; i < (vf.tier ? 64u : 8u); ++i) { plan_add(K_SQRT64_SQUARES_RANDOM, i); }
    for (i = 0; i < 16; ++i) { plan_add(K_SQRT64_SQUARES_TOP, i); }
    plan_add(K_SQRT64_POW2, 0);
    for (i = 0; i < (vf.tier ? 1024u : 16u); ++i) { plan_add(K_SQRT64_RANDOM, i); }
    for (i = 0; i < 16; ++i) { plan_add(K_GCD_GRID, i); }
    for (i = 0; i < (vf.tier ? 256u : 16u); ++i) { plan_add(K_GCD_RANDOM, i); }
    plan_add(K_GCD_SPECIAL, 0);
    plan_add(K_REV_SMALL, 0);
    if (vf.tier)
    {
        for (i = 0; i < 256; ++i) { plan_add(K_REV32_RANGE, i); }
    }
    for (i = 0; i < 8; ++i) { plan_add(K_REV32_RANDOM, i); }
    for (i = 0; i < (vf.tier ? 64u : 8u); ++i) { plan_add(K_REV64, i); }
    for (i = 0; i < (vf.tier ? 64u : 8u); ++i) { plan_add(K_ACCESS, i); }
}
static uint64_t vf_ncases(int tier) { (void)tier; return nplan; }

/* ---- cells for distinct_nontrivial: (function, bit length, class) */
static unsigned bitlen64(uint64_t x) { return x ? 64u - (unsigned)__builtin_clzll(x) : 0u; }
static uint64_t cellmap[8][4]; /* [fn][class] -> bitmap over bit lengths 0..64 (65 bits: fold 64 into 63) */
static void cell(int fn, unsigned cls, uint64_t x)
{
    unsigned b = bitlen64(x);
    if (b > 63) { b = 63; }
    cellmap[fn][cls & 3] |= 1ULL << b;
}
static void cells_flush(void)
{
    for (int f = 0; f < 8; ++f)
    {
        for (int c = 0; c < 4; ++c)
        {
            for (unsigned b = 0; b < 64; ++b)
            {
                if (cellmap[f][c] >> b & 1) { vf_distinct(vf_hash64(vf_hash64(vf_hash64(7, (uint64_t)f), (uint64_t)c), b)); }
            }
            cellmap[f][c] = 0;
        }
    }
}

/* ---- sqrt monitors */
static inline void chk_sqrt32(uint32_t x, unsigned cls)
{
    uint64_t r = a_u32_sqrt(x);
    ++vf.evals;
    if (!(r * r <= x && (r + 1) * (r + 1) > x))
    {
        char key[64];
        snprintf(key, sizeof(key), "u32_sqrt/not-floor-root/bitlen-%s", (bitlen64(x) & 1) ? "odd" : "even");
        vf_viol(key, "a_u32_sqrt(%" PRIu32 ") = %" PRIu64 " (r^2=%" PRIu64 ", (r+1)^2=%" PRIu64 ")", x, r, r * r, (r + 1) * (r + 1));
    }
    cell(0, cls, x);
}
static inline void chk_sqrt64(uint64_t x, unsigned cls)
{
    unsigned __int128 r = a_u64_sqrt(x);
    ++vf.evals;
    if (!(r * r <= x && (r + 1) * (r + 1) > x))
    {
        char key[64];
        snprintf(key, sizeof(key), "u64_sqrt/not-floor-root/bitlen-%s", (bitlen64(x) & 1) ? "odd" : "even");
        vf_viol(key, "a_u64_sqrt(%" PRIu64 ") = %" PRIu64, x, (uint64_t)r);
    }
    cell(1, cls, x);
}

/* ---- gcd oracle: independent binary gcd */
static uint64_t ref_gcd(uint64_t a, uint64_t b)
{
    if (!a) { return b; }
    if (!b) { return a; }
    int s = __builtin_ctzll(a | b);
    a >>= __builtin_ctzll(a);
    while (b)
    {
        b >>= __builtin_ctzll(b);
        if (a > b) { uint64_t t = a; a = b; b = t; }
        b -= a;
    }
    return a << s;
}
static void chk_gcd32(uint32_t a, uint32_t b)
{
    uint32_t g = a_u32_gcd(a, b);
    uint64_t rg = ref_gcd(a, b);
    ++vf.evals;
    VF_COUNT("gcd32");
    if (g != rg) { vf_viol("u32_gcd/not-greatest-common-divisor", "a_u32_gcd(%u,%u)=%u expected %" PRIu64, a, b, g, rg); }
    if (g && ((a % g) || (b % g))) { vf_viol("u32_gcd/does-not-divide", "a_u32_gcd(%u,%u)=%u", a, b, g); }
    if ((g == 0) != (a == 0 && b == 0)) { vf_viol("u32_gcd/zero-iff-both-zero", "a_u32_gcd(%u,%u)=%u", a, b, g); }
    if (rg)
    {
        unsigned __int128 l = (unsigned __int128)a / rg * b;
        if (l <= UINT32_MAX)
        {
            uint32_t m = a_u32_lcm(a, b);
            VF_COUNT("lcm32");
            if (m != (uint32_t)l || (uint64_t)m * g != (uint64_t)a * b)
            {
                vf_viol("u32_lcm/lcm-times-gcd-ne-product", "a_u32_lcm(%u,%u)=%u expected %" PRIu64, a, b, m, (uint64_t)l);
            }
        }
    }
    else
    {
        VF_COUNT("lcm32");
        if (a_u32_lcm(a, b) != 0) { vf_viol("u32_lcm/zero-args", "a_u32_lcm(0,0)!=0"); }
    }
    cell(2, g == 1 ? 1 : g == 0 ? 2 : 0, a | b);
}
static void chk_gcd64(uint64_t a, uint64_t b)
{
    uint64_t g = a_u64_gcd(a, b);
    uint64_t rg = ref_gcd(a, b);
    ++vf.evals;
    VF_COUNT("gcd64");
    if (g != rg) { vf_viol("u64_gcd/not-greatest-common-divisor", "a_u64_gcd(%" PRIu64 ",%" PRIu64 ")=%" PRIu64 " expected %" PRIu64, a, b, g, rg); }
    if (g && ((a % g) || (b % g))) { vf_viol("u64_gcd/does-not-divide", "a_u64_gcd(%" PRIu64 ",%" PRIu64 ")=%" PRIu64, a, b, g); }
    if ((g == 0) != (a == 0 && b == 0)) { vf_viol("u64_gcd/zero-iff-both-zero", "a_u64_gcd(%" PRIu64 ",%" PRIu64 ")=%" PRIu64, a, b, g); }
    if (rg)
    {
        unsigned __int128 l = (unsigned __int128)(a / rg) * b;
        if (l <= UINT64_MAX)
        {
            uint64_t m = a_u64_lcm(a, b);
            VF_COUNT("lcm64");
            if (m != (uint64_t)l || (unsigned __int128)m * g != (unsigned __int128)a * b)
            {
                vf_viol("u64_lcm/lcm-times-gcd-ne-product", "a_u64_lcm(%" PRIu64 ",%" PRIu64 ")=%" PRIu64 " expected %" PRIu64, a, b, m, (uint64_t)l);
            }
        }
    }
    cell(3, g == 1 ? 1 : g == 0 ? 2 : 0, a | b);
}

/* ---- bit reversal oracle: bit i -> bit w-1-i, one bit at a time */
static uint64_t ref_rev(uint64_t x, unsigned w)
{
    uint64_t r = 0;
    for (unsigned i = 0; i < w; ++i)
    {
        if (x >> i & 1) { r |= 1ULL << (w - 1 - i); }
    }
    return r;
}
static void chk_rev(unsigned w, uint64_t x)
{
    uint64_t r, rr, e, rx;
    switch (w)
    {
    case 8: r = a_u8_rev((uint8_t)x); rr = a_u8_rev((uint8_t)r); rx = vfx_u8_rev((uint8_t)x); break;
    case 16: r = a_u16_rev((uint16_t)x); rr = a_u16_rev((uint16_t)r); rx = vfx_u16_rev((uint16_t)x); break;
    case 32: r = a_u32_rev((uint32_t)x); rr = a_u32_rev((uint32_t)r); rx = vfx_u32_rev((uint32_t)x); break;
    default: r = a_u64_rev(x); rr = a_u64_rev(r); rx = vfx_u64_rev(x); break;
    }
    e = ref_rev(x, w);
    ++vf.evals;
    VF_COUNT("rev");
    if (r != e)
    {
        char key[48];
        snprintf(key, sizeof(key), "u%u_rev/bit-i-not-mapped-to-w-1-i", w);
        vf_viol(key, "a_u%u_rev(0x%" PRIx64 ")=0x%" PRIx64 " expected 0x%" PRIx64, w, x, r, e);
    }
    if (rr != x)
    {
        char key[48];
        snprintf(key, sizeof(key), "u%u_rev/not-involution", w);
        vf_viol(key, "rev(rev(0x%" PRIx64 "))=0x%" PRIx64, x, rr);
    }
    if (rx != r)
    {
        char key[48];
        snprintf(key, sizeof(key), "u%u_rev/inline-vs-exported", w);
        vf_viol(key, "inline 0x%" PRIx64 " exported 0x%" PRIx64 " for 0x%" PRIx64, r, rx, x);
    }
    cell(w == 8 ? 4 : w == 16 ? 5 : w == 32 ? 6 : 7, (unsigned)__builtin_popcountll(x) & 3, x);
}

/* ---- byte-order accessors */
static void chk_access(vf_rng *r)
{
    /* exact-size heap block so that an access one byte too wide hits an ASan red zone;
       every alignment offset inside it */
    for (unsigned w = 2; w <= 8; w *= 2)
    {
        for (unsigned off = 0; off < 8; ++off)
        {
            size_t n = off + w;
            unsigned char *blk = (unsigned char *)malloc(n);
            unsigned char *p = blk + off;
            uint64_t x = vf_u64(r);
            uint64_t m = w == 8 ? ~0ULL : ((1ULL << (8 * w)) - 1);
            unsigned char le[8], be[8];
            if (vf_chance(r, 1, 8)) { x = 0x0102030405060708ULL; }
            x &= m;
            for (unsigned i = 0; i < w; ++i)
            {
                le[i] = (unsigned char)(x >> (8 * i));
                be[i] = (unsigned char)(x >> (8 * (w - 1 - i)));
            }
            for (int ext = 0; ext < 2; ++ext)
            {
                uint64_t gl, gb, gx;
                char key[64];
                memset(blk, 0xA5, n);
                if (w == 2) { ext ? vfx_u16_setl(p, (uint16_t)x) : a_u16_setl(p, (uint16_t)x); }
                else if (w == 4) { ext ? vfx_u32_setl(p, (uint32_t)x) : a_u32_setl(p, (uint32_t)x); }
                else { ext ? vfx_u64_setl(p, x) : a_u64_setl(p, x); }
                ++vf.evals;
                VF_COUNT("setl-layout");
                if (memcmp(p, le, w) != 0)
                {
                    snprintf(key, sizeof(key), "u%u_setl/not-little-endian-layout", 8 * w);
                    vf_viol(key, "x=0x%" PRIx64 " ext=%d", x, ext);
                }
                for (unsigned i = 0; i < off; ++i)
                {
                    if (blk[i] != 0xA5) { vf_viol("setl/wrote-before-buffer", "w=%u off=%u", w, off); }
                }
                if (w == 2) { gl = ext ? vfx_u16_getl(p) : a_u16_getl(p); gb = ext ? vfx_u16_getb(p) : a_u16_getb(p); }
                else if (w == 4) { gl = ext ? vfx_u32_getl(p) : a_u32_getl(p); gb = ext ? vfx_u32_getb(p) : a_u32_getb(p); }
                else { gl = ext ? vfx_u64_getl(p) : a_u64_getl(p); gb = ext ? vfx_u64_getb(p) : a_u64_getb(p); }
                VF_COUNT("getl-inverse");
                if (gl != x)
                {
                    snprintf(key, sizeof(key), "u%u_getl/not-inverse-of-setl", 8 * w);
                    vf_viol(key, "x=0x%" PRIx64 " got 0x%" PRIx64, x, gl);
                }
                /* reading a little-endian layout big-endian gives the byte-swapped word */
                gx = 0;
                for (unsigned i = 0; i < w; ++i) { gx |= (uint64_t)le[i] << (8 * (w - 1 - i)); }
                if (gb != gx)
                {
                    snprintf(key, sizeof(key), "u%u_getb/not-big-endian-read", 8 * w);
                    vf_viol(key, "x=0x%" PRIx64 " got 0x%" PRIx64 " expected 0x%" PRIx64, x, gb, gx);
                }
                memset(blk, 0x5A, n);
                if (w == 2) { ext ? vfx_u16_setb(p, (uint16_t)x) : a_u16_setb(p, (uint16_t)x); }
                else if (w == 4) { ext ? vfx_u32_setb(p, (uint32_t)x) : a_u32_setb(p, (uint32_t)x); }
                else { ext ? vfx_u64_setb(p, x) : a_u64_setb(p, x); }
                VF_COUNT("setb-layout");
                if (memcmp(p, be, w) != 0)
                {
                    snprintf(key, sizeof(key), "u%u_setb/not-big-endian-layout", 8 * w);
                    vf_viol(key, "x=0x%" PRIx64 " ext=%d", x, ext);
                }
                for (unsigned i = 0; i < off; ++i)
                {
                    if (blk[i] != 0x5A) { vf_viol("setb/wrote-before-buffer", "w=%u off=%u", w, off); }
                }
                if (w == 2) { gb = ext ? vfx_u16_getb(p) : a_u16_getb(p); }
                else if (w == 4) { gb = ext ? vfx_u32_getb(p) : a_u32_getb(p); }
                else { gb = ext ? vfx_u64_getb(p) : a_u64_getb(p); }
                VF_COUNT("getb-inverse");
                if (gb != x)
                {
                    snprintf(key, sizeof(key), "u%u_getb/not-inverse-of-setb", 8 * w);
                    vf_viol(key, "x=0x%" PRIx64 " got 0x%" PRIx64, x, gb);
                }
            }
            {
                /* exported accessors called back to back on one buffer inside one optimised function (h_int_ext.c) */
                uint64_t const y = vf_u64(r) & m, rx = __builtin_bswap64(x) >> (64 - 8 * w), ry = __builtin_bswap64(y) >> (64 - 8 * w);
                uint64_t o[4], acc = 0, want = 0;
                uint64_t v64[5];
                memset(blk, 0xA5, n);
                for (int i = 0; i < 5; ++i) { v64[i] = vf_u64(r) & m; want = (want * 31u + v64[i]) & m; }
                if (w == 2)
                {
                    uint16_t o16[4], v16[5];
                    for (int i = 0; i < 5; ++i) { v16[i] = (uint16_t)v64[i]; }
                    vfx_setget16(blk + off, (uint16_t)x, (uint16_t)y, o16);
                    for (int i = 0; i < 4; ++i) { o[i] = o16[i]; }
                    acc = vfx_setget_loop16(blk + off, v16, 5);
                }
                else if (w == 4)
                {
                    uint32_t o32[4], v32[5];
                    for (int i = 0; i < 5; ++i) { v32[i] = (uint32_t)v64[i]; }
                    vfx_setget32(blk + off, (uint32_t)x, (uint32_t)y, o32);
                    for (int i = 0; i < 4; ++i) { o[i] = o32[i]; }
                    acc = vfx_setget_loop32(blk + off, v32, 5);
                }
                else
                {
                    vfx_setget64(blk + off, x, y, o);
                    acc = vfx_setget_loop64(blk + off, v64, 5);
                }
                ++vf.evals;
                VF_COUNT("exported-accessors-back-to-back");
                if (o[0] != x || o[1] != rx || o[2] != y || o[3] != ry || acc != want)
                {
                    char key[80];
                    snprintf(key, sizeof(key), "u%u_get/exported/stale-value-after-store", 8 * w);
                    vf_viol(key, "setl(x=0x%" PRIx64 "); getl=0x%" PRIx64 " getb=0x%" PRIx64 " (want 0x%" PRIx64 "); setb(y=0x%" PRIx64 "); getb=0x%" PRIx64 " getl=0x%" PRIx64 " (want 0x%" PRIx64
                                 "); loop of 5 store/load pairs folds to 0x%" PRIx64 " (want 0x%" PRIx64 ")",
                            x, o[0], o[1], rx, y, o[2], o[3], ry, acc, want);
                }
            }
            vf_distinct(vf_hash64(vf_hash64(99, w), off));
            if (vf_want_sample() && off == 3 && w == 4)
            {
                vf_sample("a_u32_setb/setl/getb/getl at unaligned offset 3, x=0x%" PRIx64 ": layouts and round trips exact", x);
            }
            free(blk);
        }
    }
}

static void vf_case(uint64_t c, vf_rng *r)
{
    plan_t p = plan[c];
    uint64_t i;
#if defined(VF_X87PC_ROTATE) && (defined(__x86_64__) || defined(__i386__))
    /* the square-root families are few plan items: instead of the one precision-control setting the case was given (vf_common.h), they run under all three */
    {
        static int inner;
        if (!inner && (p.kind == K_SQRT32_RANDOM || p.kind == K_SQRT64_SQUARES_RANDOM || p.kind == K_SQRT64_SQUARES_TOP || p.kind == K_SQRT64_POW2 || p.kind == K_SQRT64_RANDOM))
        {
            static unsigned short const pcs[2] = {_FPU_DOUBLE, _FPU_SINGLE};
            fpu_control_t cw0, cw;
            _FPU_GETCW(cw0);
            inner = 1;
            for (int k = 0; k < 2; ++k)
            {
                vf_rng r2 = *r;
                cw = (fpu_control_t)((cw0 & ~_FPU_EXTENDED) | pcs[k]);
                _FPU_SETCW(cw);
                vf_case(c, &r2);
            }
            _FPU_SETCW(cw0);
            inner = 0;
            VF_COUNT("sqrt-families-under-every-x87-precision-setting");
        }
    }
#endif
    switch (p.kind)
    {
    case K_SQRT32_RANGE:
    {
        uint64_t lo = p.arg << 20, hi = lo + (1u << 20);
        vf_log("a_u32_sqrt over [%" PRIu64 ", %" PRIu64 ")", lo, hi);
        for (i = lo; i < hi; ++i) { chk_sqrt32((uint32_t)i, 0); }
        VF_ADD("sqrt32", 1u << 20);
        if (vf_want_sample()) { vf_sample("a_u32_sqrt on every x in [%" PRIu64 ",%" PRIu64 "): r^2<=x<(r+1)^2", lo, hi); }
        break;
    }
    case K_SQRT32_SQUARES:
        vf_log("a_u32_sqrt at k^2-1,k^2,k^2+1 for k in [%" PRIu64 ",%" PRIu64 ")", p.arg * 4096, p.arg * 4096 + 4096);
        for (i = p.arg * 4096; i < p.arg * 4096 + 4096; ++i)
        {
            uint64_t s = i * i;
            if (s - 1 <= UINT32_MAX && s) { chk_sqrt32((uint32_t)(s - 1), 1); }
            if (s <= UINT32_MAX) { chk_sqrt32((uint32_t)s, 2); }
            if (s + 1 <= UINT32_MAX) { chk_sqrt32((uint32_t)(s + 1), 3); }
            VF_ADD("sqrt32", 3);
        }
        break;
    case K_SQRT32_POW2:
        vf_log("a_u32_sqrt at 2^n, 2^n+-1");
        for (i = 0; i < 32; ++i)
        {
            uint32_t b = 1u << i;
            chk_sqrt32(b, 0);
            chk_sqrt32(b - 1, 0);
            chk_sqrt32(b + 1, 0);
            VF_ADD("sqrt32", 3);
        }
        chk_sqrt32(UINT32_MAX, 0);
        break;
    case K_SQRT32_RANDOM:
        vf_log("a_u32_sqrt at 2^20 random arguments");
        for (i = 0; i < (1u << 20); ++i)
        {
            uint64_t v = vf_u64(r);
            uint32_t x = (uint32_t)v >> ((v >> 32) & 31); /* all bit lengths equally likely */
            chk_sqrt32(x, 0);
        }
        VF_ADD("sqrt32", 1u << 20);
        break;
    case K_SQRT64_RANGE:
    {
        uint64_t lo = p.arg << 20, hi = lo + (1u << 20);
        vf_log("a_u64_sqrt over [%" PRIu64 ", %" PRIu64 ")", lo, hi);
        for (i = lo; i < hi; ++i) { chk_sqrt64(i, 0); }
        VF_ADD("sqrt64", 1u << 20);
        break;
    }
    case K_SQRT64_SQUARES_RANDOM:
        vf_log("a_u64_sqrt at k^2-1,k^2,k^2+1 for 65536 random k");
        for (i = 0; i < 65536; ++i)
        {
            uint64_t v = vf_u64(r);
            uint64_t k = (v & 0xFFFFFFFFu) >> ((v >> 32) & 31);
            uint64_t s = k * k;
            if (s) { chk_sqrt64(s - 1, 1); }
            chk_sqrt64(s, 2);
            chk_sqrt64(s + 1, 3);
            VF_ADD("sqrt64", 3);
        }
        /* the same boundaries one level down, where a divide-and-conquer root (root of the upper half first, then one division for the lower
           digits) has its carries and clamps: the UPPER word next to a perfect square m^2 with any lower word, and (m * 2^16)^2 -+ j
           (seeded change C19-M: a Karatsuba root compiled only under -Os keeps the remainder of an unclamped quotient digit and returns
           floor - 1 when the upper word is m^2 - 1) */
        for (i = 0; i < 65536; ++i)
        {
            uint64_t v = vf_u64(r);
            uint64_t m = (v & 0xFFFFu) >> ((v >> 16) & 15);
            uint64_t lowsel = (v >> 20) & 3, low = lowsel == 0 ? 0 : lowsel == 1 ? 0xFFFFFFFFu : (uint32_t)vf_u64(r) >> ((v >> 24) & 31);
            uint64_t sq = m * m, j = (v >> 32) & 0xFFFFF;
            unsigned sh = ((v >> 52) & 1) ? 32 : 2 * (unsigned)((v >> 53) % 17); /* any even split, the word split most often */
            if (i & 1) { m |= 0x8000u; sq = m * m; } /* roots with the top bit set: the normalised case of such algorithms */
            if (sq && sh < 64 && ((sq - 1) << sh) >> sh == sq - 1) { chk_sqrt64(((sq - 1) << sh) | (low & ((1ull << sh) - 1)), 0); }
            if (sh < 64 && (sq << sh) >> sh == sq) { chk_sqrt64((sq << sh) | (low & ((1ull << sh) - 1)), 0); }
            if (sh < 64 && ((sq + 1) << sh) >> sh == sq + 1) { chk_sqrt64(((sq + 1) << sh) | (low & ((1ull << sh) - 1)), 0); }
            if (m) { chk_sqrt64((m << 16) * (m << 16) - 1 - j, 0); chk_sqrt64((m << 16) * (m << 16) + j, 0); }
            VF_ADD("sqrt64", 5);
            VF_ADD("sqrt64-upper-part-next-to-a-perfect-square", 3);
        }
        if (vf_want_sample()) { vf_sample("a_u64_sqrt at k^2-1, k^2, k^2+1 for 65536 random k < 2^32"); }
        break;
    case K_SQRT64_SQUARES_TOP:
        vf_log("a_u64_sqrt at k^2-1,k^2,k^2+1 for k in top range chunk %" PRIu64, p.arg);
        for (i = 0; i < 4096; ++i)
        {
            uint64_t k = 0xFFFFFFFFull - (p.arg * 4096 + i);
            uint64_t s = k * k;
            chk_sqrt64(s - 1, 1);
            chk_sqrt64(s, 2);
            chk_sqrt64(s + 1, 3);
            VF_ADD("sqrt64", 3);
        }
        break;
    case K_SQRT64_POW2:
        vf_log("a_u64_sqrt at 2^n, 2^n+-1");
        for (i = 0; i < 64; ++i)
        {
            uint64_t b = 1ull << i;
            chk_sqrt64(b, 0);
            chk_sqrt64(b - 1, 0);
            chk_sqrt64(b + 1, 0);
            VF_ADD("sqrt64", 3);
        }
        /* where a starting-value or digit-recurrence case split of ANY shape would sit: a * 2^j for small a, and the stretch just
           below and above it (t from 0 up to 2^-24 of the value): the top of each mantissa class x = m * 4^k, 1 <= m < 4, is where a
           start chosen from the leading bits is closest to the root (seeded change C19-G: a table start rounded down is below the root
           only for x within 2^-31 below 3 * 4^30 and 3 * 4^31) */
        for (unsigned j = 0; j < 64; ++j)
        {
            for (uint64_t a = 1; a <= 15; ++a)
            {
                uint64_t const base = a << j;
                if (base >> j != a) { continue; }
                for (unsigned w = 0; w <= 40; w += 4)
                {
                    uint64_t const t = w == 0 ? 0 : (vf_u64(r) & ((1ull << w) - 1));
                    if (j >= w + 20 || w == 0)
                    {
                        chk_sqrt64(base - 1 - t, 0);
                        chk_sqrt64(base + t, 0);
                        VF_ADD("sqrt64", 2);
                        VF_ADD("sqrt64-around-small-multiples-of-powers-of-two", 2);
                    }
                }
            }
        }
        chk_sqrt64(UINT64_MAX, 0);
        chk_sqrt64(UINT64_MAX - 1, 0);
        chk_sqrt64(0xFFFFFFFE00000001ull, 2); /* (2^32-1)^2 */
        chk_sqrt64(0xFFFFFFFE00000000ull, 1);
        break;
    case K_SQRT64_RANDOM:
        vf_log("a_u64_sqrt at 2^20 random arguments");
        for (i = 0; i < (1u << 20); ++i)
        {
            uint64_t v = vf_u64(r);
            uint64_t x = vf_u64(r) >> (v & 63);
            chk_sqrt64(x, 0);
        }
        VF_ADD("sqrt64", 1u << 20);
        break;
    case K_GCD_GRID:
        vf_log("gcd/lcm on all pairs a in [%" PRIu64 ",%" PRIu64 "), b < 1024", p.arg * 64, p.arg * 64 + 64);
        for (uint32_t a = (uint32_t)p.arg * 64; a < p.arg * 64 + 64; ++a)
        {
            for (uint32_t b = 0; b < 1024; ++b)
            {
                chk_gcd32(a, b);
                chk_gcd64(a, b);
            }
        }
        if (vf_want_sample()) { vf_sample("a_u32_gcd/a_u64_gcd/lcm on all pairs (a,b), a in [%" PRIu64 ",%" PRIu64 "), b<1024 vs binary gcd", p.arg * 64, p.arg * 64 + 64); }
        break;
    case K_GCD_RANDOM:
        vf_log("gcd/lcm on 65536 random structured pairs");
        for (i = 0; i < 65536; ++i)
        {
            uint64_t v = vf_u64(r);
            uint64_t g = (vf_u64(r) >> (32 + (v & 31))) | 1;
            uint64_t a = vf_u64(r) >> ((v >> 8) & 63), b = vf_u64(r) >> ((v >> 16) & 63);
            if (v >> 24 & 1) { a = (a >> 33) * g; b = (b >> 33) * g; } /* planted common factor */
            chk_gcd64(a, b);
            chk_gcd32((uint32_t)a, (uint32_t)b);
            chk_gcd32((uint32_t)(a >> 32), (uint32_t)b);
        }
        break;
    case K_GCD_SPECIAL:
    {
        uint64_t f0 = 1, f1 = 1;
        vf_log("gcd/lcm special: fibonacci neighbours, powers of two, zeros, near-max");
        for (i = 0; i < 92; ++i)
        {
            uint64_t t = f0 + f1;
            chk_gcd64(f1, f0);
            chk_gcd64(f0, f1);
            if (f1 <= UINT32_MAX) { chk_gcd32((uint32_t)f1, (uint32_t)f0); chk_gcd32((uint32_t)f0, (uint32_t)f1); }
            f0 = f1;
            f1 = t;
        }
        /* the longest Euclid chains (Lame): pairs built from their quotient sequence - all ones, with a two in one position -
           by continuants, BOTH argument orders (the smaller first costs one more step).  Seeded change C19-E bounds the loop
           at 45 steps: wrong for exactly five ordered 32-bit pairs, all of this family, none reachable by random draws. */
        for (unsigned L = 1; L <= 92; ++L)
        {
            for (int pos = -1; pos < (int)L; ++pos)
            {
                unsigned __int128 a = 1, b = 0;
                int ok = 1;
                for (int k = (int)L - 1; k >= 0 && ok; --k)
                {
                    unsigned __int128 const q = (k == pos || (pos < 0 && k == (int)L - 1)) ? 2 : 1, t = q * a + b;
                    b = a;
                    a = t;
                    if (a > (unsigned __int128)UINT64_MAX) { ok = 0; }
                }
                if (!ok) { continue; }
                VF_COUNT("gcd-longest-euclid-chains");
                chk_gcd64((uint64_t)a, (uint64_t)b);
                chk_gcd64((uint64_t)b, (uint64_t)a);
                if (a <= UINT32_MAX) { chk_gcd32((uint32_t)a, (uint32_t)b); chk_gcd32((uint32_t)b, (uint32_t)a); }
            }
        }
        for (i = 0; i < 64; ++i)
        {
            for (uint64_t j = 0; j < 64; ++j)
            {
                chk_gcd64(1ull << i, 1ull << j);
                chk_gcd64((1ull << i) - 1, (1ull << j) - 1);
                chk_gcd64(UINT64_MAX - i, UINT64_MAX - j);
                chk_gcd64(0, 1ull << j);
                chk_gcd64(1ull << i, 0);
                if (i < 32 && j < 32)
                {
                    chk_gcd32(1u << i, 1u << j);
                    chk_gcd32((1u << i) - 1, (1u << j) - 1);
                    chk_gcd32(UINT32_MAX - (uint32_t)i, UINT32_MAX - (uint32_t)j);
                    chk_gcd32(0, 1u << j);
                    chk_gcd32(1u << i, 0);
                }
            }
        }
        chk_gcd32(0, 0);
        chk_gcd64(0, 0);
        break;
    }
    case K_REV_SMALL:
        vf_log("a_u8_rev, a_u16_rev exhaustive");
        for (i = 0; i < 256; ++i) { chk_rev(8, i); }
        for (i = 0; i < 65536; ++i) { chk_rev(16, i); }
        if (vf_want_sample()) { vf_sample("a_u8_rev on all 256 and a_u16_rev on all 65536 words vs bit-by-bit reference, involution, inline==exported"); }
        break;
    case K_REV32_RANGE:
    {
        uint64_t lo = p.arg << 24, hi = lo + (1u << 24);
        vf_log("a_u32_rev over [%" PRIu64 ",%" PRIu64 ")", lo, hi);
        /* fast exact path: compare with table-composed reference, full check every 257th */
        for (i = lo; i < hi; ++i)
        {
            uint32_t x = (uint32_t)i, y = a_u32_rev(x);
            uint32_t e = (uint32_t)a_u8_rev((uint8_t)x) << 24 | (uint32_t)a_u8_rev((uint8_t)(x >> 8)) << 16 |
                         (uint32_t)a_u8_rev((uint8_t)(x >> 16)) << 8 | (uint32_t)a_u8_rev((uint8_t)(x >> 24));
            ++vf.evals;
            if (y != e || a_u32_rev(y) != x) { chk_rev(32, x); if (y != e && !vf.case_viol) { vf_viol("u32_rev/bytewise-composition", "x=0x%x", x); } }
            else if ((i & 0xFF) == 1) { chk_rev(32, x); }
        }
        VF_ADD("rev32-sweep", 1u << 24);
        break;
    }
    case K_REV32_RANDOM:
        vf_log("a_u32_rev on single bits, and 65536 random words");
        for (i = 0; i < 32; ++i) { chk_rev(32, 1ull << i); chk_rev(32, ~(1ull << i) & 0xFFFFFFFFu); }
        for (i = 0; i < 65536; ++i) { chk_rev(32, vf_u64(r) & 0xFFFFFFFFu); }
        break;
    case K_REV64:
        vf_log("a_u64_rev on the 64 single-bit words, complements, random words and XOR-linearity on random pairs");
        for (i = 0; i < 64; ++i) { chk_rev(64, 1ull << i); chk_rev(64, ~(1ull << i)); }
        chk_rev(64, 0);
        chk_rev(64, ~0ull);
        for (i = 0; i < (1u << 16); ++i)
        {
            uint64_t a = vf_u64(r), b = vf_u64(r);
            if (i & 1) { a >>= (b & 63); }
            chk_rev(64, a);
            VF_COUNT("rev64-xor-linearity");
            if ((a_u64_rev(a) ^ a_u64_rev(b)) != a_u64_rev(a ^ b))
            {
                vf_viol("u64_rev/not-xor-linear", "a=0x%" PRIx64 " b=0x%" PRIx64, a, b);
            }
        }
        if (vf_want_sample()) { vf_sample("a_u64_rev on 64 single-bit words + XOR-linearity on 65536 random pairs"); }
        break;
    case K_ACCESS:
        vf_log("byte-order accessors: widths 2/4/8 x offsets 0..7 x inline/exported, 64 rounds");
        for (i = 0; i < 64; ++i) { chk_access(r); }
        break;
    default: break;
    }
    cells_flush();
}
