/* second translation unit for C13: reaches the *exported* twins of the inline fuzzy operators in
 * a/fuzzy.h (what the language bindings link against) by switching the inline bodies off. */
#define A_HAVE_INLINE 0
#include "a/a.h"
#include "a/fuzzy.h"

double vfx_fuzzy_not(double x) { return a_fuzzy_not(x); }
double vfx_fuzzy_cap(double a, double b) { return a_fuzzy_cap(a, b); }
double vfx_fuzzy_cap_algebra(double a, double b) { return a_fuzzy_cap_algebra(a, b); }
double vfx_fuzzy_cap_bounded(double a, double b) { return a_fuzzy_cap_bounded(a, b); }
double vfx_fuzzy_cup(double a, double b) { return a_fuzzy_cup(a, b); }
double vfx_fuzzy_cup_algebra(double a, double b) { return a_fuzzy_cup_algebra(a, b); }
double vfx_fuzzy_cup_bounded(double a, double b) { return a_fuzzy_cup_bounded(a, b); }
