/* C17 - CRC (8/16/32/64 bit, msb-first and lsb-first) and the two multiplicative string hashes:
 *   - every table entry equals c(x)*x^w mod G(x) computed by plain long division (unsigned __int128),
 *   - the lsb-first table/CRC is the bit reflection of the msb-first one (polynomial, data bytes, value),
 *   - the CRC of a byte string equals the remainder of bit-by-bit polynomial division (two independent
 *     references: coefficient-array long division and a one-bit-at-a-time shift register),
 *   - feeding a message in two or three pieces (every split point for lengths 0..64, random ones up to
 *     4096 bytes) with the running value carried over equals feeding it at once,
 *   - a_hash_bkdr/a_hash_sdbm equal their length-delimited forms, the sum definition mod 2^32, and compose.
 * All library-visible data live in exact-size heap blocks whose last byte is the last byte of the piece
 * (zero-length pieces point one past the end of a block), tables are exact 256-entry heap blocks.
 * All oracles are exact (integer) - no tolerances.
 */
#define VF_PROP "C17"
#define VF_HAVE_INIT
#include "vf_common.h"
#include "a/a.h"
#include "a/crc.h"
#include "a/hash.h"

/* ------------------------------------------------------------------ plan */
enum
{
    K_TAB8,       /* arg = chunk of 32 polynomials: all 256 */
    K_TAB16,      /* arg = chunk of 256 polynomials (exhaustive) or random chunk */
    K_TAB32,      /* arg = chunk of random polynomials (chunk 0 starts with the standard ones) */
    K_TAB64,
    K_SPLIT,      /* arg = width index * 4096 + idx: lengths 0..64, every 2- and 3-piece split */
    K_LONG,       /* random lengths up to 4096, all widths/orders, random splits, chunked feeding */
    K_HASH_SPLIT, /* both hashes, lengths 0..64, every 2- and 3-piece split, both forms */
    K_HASH_LONG,
};
typedef struct { int kind; uint64_t arg; } plan_t;
static plan_t *plan;
static uint64_t nplan;
static void plan_add(int kind, uint64_t arg)
{
    static uint64_t cap;
    if (nplan == cap)
    {
        cap = cap ? cap * 2 : 1024;
        plan = (plan_t *)realloc(plan, cap * sizeof(*plan));
    }
    plan[nplan].kind = kind;
    plan[nplan].arg = arg;
    ++nplan;
}

#define TAB_PER_CASE_QUICK 250u
#define TAB_PER_CASE_THOROUGH 1000u
static unsigned tab_per_case;
static uint8_t rev8_lut[256];

static void vf_init(void)
{
    uint64_t i;
    for (i = 0; i < 256; ++i)
    {
        unsigned x = 0;
        for (unsigned b = 0; b < 8; ++b)
        {
            if (i >> b & 1) { x |= 1u << (7 - b); }
        }
        rev8_lut[i] = (uint8_t)x;
    }
    tab_per_case = vf.tier ? TAB_PER_CASE_THOROUGH : TAB_PER_CASE_QUICK;
    /* interleave kinds so that a spread sample (coverage run) and every worker sees all of them */
    uint64_t const n_tab8 = 8, n_tab16 = 256;
    uint64_t const n_tab32 = vf.tier ? 1000 : 40; /* x tab_per_case: 10^6 / 10^4 polynomials */
    uint64_t const n_tab64 = n_tab32;
    uint64_t const n_split = vf.tier ? 96 : 10; /* per width */
    uint64_t const n_long = vf.tier ? 1024 : 64;
    uint64_t const n_hsplit = vf.tier ? 96 : 12;
    uint64_t const n_hlong = vf.tier ? 512 : 32;
    uint64_t const rounds = n_tab32;
    uint64_t done[8] = {0};
    for (uint64_t k = 0; k < rounds; ++k)
    {
#define UPTO(kind, total) \
    for (uint64_t lim = ((k + 1) * (total) + rounds - 1) / rounds; done[kind] < lim && done[kind] < (total); ++done[kind])
        UPTO(K_TAB8, n_tab8) { plan_add(K_TAB8, done[K_TAB8]); }
        UPTO(K_TAB16, n_tab16) { plan_add(K_TAB16, done[K_TAB16]); }
        plan_add(K_TAB32, k);
        plan_add(K_TAB64, k);
        UPTO(K_SPLIT, 4 * n_split) { plan_add(K_SPLIT, (done[K_SPLIT] & 3) * 4096 + (done[K_SPLIT] >> 2)); }
        UPTO(K_LONG, n_long) { plan_add(K_LONG, done[K_LONG]); }
        UPTO(K_HASH_SPLIT, n_hsplit) { plan_add(K_HASH_SPLIT, done[K_HASH_SPLIT]); }
        UPTO(K_HASH_LONG, n_hlong) { plan_add(K_HASH_LONG, done[K_HASH_LONG]); }
#undef UPTO
    }
}
static uint64_t vf_ncases(int tier) { (void)tier; return nplan; }

/* ------------------------------------------------------------ primitives */
static inline uint64_t wmask(unsigned w) { return w == 64 ? ~0ULL : ((1ULL << w) - 1); }

/* harness-internal inconsistency: never a verdict about liba */
static void self_check_failed(char const *what)
{
    fprintf(stderr, "h_crc: harness self-check failed: %s (case %" PRIu64 ")\n", what, vf.case_no);
    exit(2);
}

/* bit i -> bit w-1-i, byte-wise through a lookup table that vf_init built one bit at a time
   (independent of a_u8_rev..a_u64_rev, which the library's *_init use) */
static uint64_t ref_rev(uint64_t x, unsigned w)
{
    uint64_t r = 0;
    for (unsigned i = 0; i < w; i += 8) { r |= (uint64_t)rev8_lut[(x >> i) & 0xFF] << (w - 8 - i); }
    return r;
}

/* exact-size block: p[0..n) valid, p[n] is an ASan red zone also for n == 0 */
typedef struct { uint8_t *base, *p; } blk_t;
static blk_t blk_new(size_t n)
{
    blk_t b;
    b.base = (uint8_t *)malloc(n ? n : 1);
    if (!b.base) { fprintf(stderr, "h_crc: out of memory\n"); exit(2); }
    b.p = n ? b.base : b.base + 1;
    return b;
}
static blk_t blk_copy(void const *src, size_t n)
{
    blk_t b = blk_new(n);
    if (n) { memcpy(b.p, src, n); }
    else { b.base[0] = 0xEE; }
    return b;
}
static void blk_free(blk_t b) { free(b.base); }

static void log_rewind(uint32_t mark)
{
    if (vf.jr->text_len > mark)
    {
        vf.jr->text_len = mark;
        vf.jr->text[mark] = 0;
    }
    vf.jr->truncated = 0;
}

static char const *hexs(uint8_t const *d, size_t n)
{
    static char buf[2 * 72 + 8];
    size_t m = n < 72 ? n : 72, i;
    for (i = 0; i < m; ++i) { snprintf(buf + 2 * i, 3, "%02x", d[i]); }
    if (n > m) { snprintf(buf + 2 * m, 4, "..."); }
    else { buf[2 * m] = 0; }
    return buf;
}

/* ------------------------------------------------------- library dispatch */
static void lib_init(unsigned w, int lsb, void *t, uint64_t poly)
{
    switch (w)
    {
    case 8: lsb ? a_crc8l_init((a_u8 *)t, (a_u8)poly) : a_crc8m_init((a_u8 *)t, (a_u8)poly); break;
    case 16: lsb ? a_crc16l_init((a_u16 *)t, (a_u16)poly) : a_crc16m_init((a_u16 *)t, (a_u16)poly); break;
    case 32: lsb ? a_crc32l_init((a_u32 *)t, (a_u32)poly) : a_crc32m_init((a_u32 *)t, (a_u32)poly); break;
    default: lsb ? a_crc64l_init((a_u64 *)t, poly) : a_crc64m_init((a_u64 *)t, poly); break;
    }
}
static uint64_t lib_crc(unsigned w, int lsb, void const *t, void const *p, size_t n, uint64_t v)
{
    switch (w)
    {
    case 8: return a_crc8((a_u8 const *)t, p, n, (a_u8)v);
    case 16: return lsb ? a_crc16l((a_u16 const *)t, p, n, (a_u16)v) : a_crc16m((a_u16 const *)t, p, n, (a_u16)v);
    case 32: return lsb ? a_crc32l((a_u32 const *)t, p, n, (a_u32)v) : a_crc32m((a_u32 const *)t, p, n, (a_u32)v);
    default: return lsb ? a_crc64l((a_u64 const *)t, p, n, v) : a_crc64m((a_u64 const *)t, p, n, v);
    }
}
static inline uint64_t tab_get(unsigned w, void const *t, unsigned c)
{
    switch (w)
    {
    case 8: return ((uint8_t const *)t)[c];
    case 16: return ((uint16_t const *)t)[c];
    case 32: return ((uint32_t const *)t)[c];
    default: return ((uint64_t const *)t)[c];
    }
}
static inline void tab_set(unsigned w, void *t, unsigned c, uint64_t v)
{
    switch (w)
    {
    case 8: ((uint8_t *)t)[c] = (uint8_t)v; break;
    case 16: ((uint16_t *)t)[c] = (uint16_t)v; break;
    case 32: ((uint32_t *)t)[c] = (uint32_t)v; break;
    default: ((uint64_t *)t)[c] = v; break;
    }
}
static void key_init(char *k, size_t sz, unsigned w, int lsb, char const *clause)
{
    snprintf(k, sz, "crc%u%c_init/%s", w, lsb ? 'l' : 'm', clause);
}
static void key_upd(char *k, size_t sz, unsigned w, int lsb, char const *clause)
{
    if (w == 8) { snprintf(k, sz, "crc8/%s/%s-table", clause, lsb ? "lsb-first" : "msb-first"); }
    else { snprintf(k, sz, "crc%u%c/%s", w, lsb ? 'l' : 'm', clause); }
}
static char const *upd_name(unsigned w, int lsb)
{
    static char b[24];
    if (w == 8) { snprintf(b, sizeof(b), "a_crc8[%c-table]", lsb ? 'l' : 'm'); }
    else { snprintf(b, sizeof(b), "a_crc%u%c", w, lsb ? 'l' : 'm'); }
    return b;
}

/* ------------------------------------------------------------- references */
/* table entry by textbook long division: c(x) * x^w mod G(x), G = x^w + poly.
   lsb-first: index and entry hold the coefficient of the highest power in bit 0. */
static uint64_t ref_entry(unsigned w, int lsb, uint64_t poly, unsigned c)
{
    unsigned __int128 const g = ((unsigned __int128)1 << w) | poly;
    unsigned __int128 v = (unsigned __int128)(lsb ? rev8_lut[c] : c) << w;
    for (int i = 7; i >= 0; --i)
    {
        if ((v >> (w + (unsigned)i)) & 1) { v ^= g << i; }
    }
    uint64_t rem = (uint64_t)v & wmask(w);
    return lsb ? ref_rev(rem, w) : rem;
}

/* one message bit at a time through a w-bit shift register */
static uint64_t ref_serial(unsigned w, int lsb, uint64_t poly, uint8_t const *d, size_t n, uint64_t v)
{
    uint64_t const m = wmask(w);
    if (!lsb)
    {
        for (size_t k = 0; k < n; ++k)
        {
            for (int i = 7; i >= 0; --i)
            {
                unsigned top = (unsigned)((v >> (w - 1)) & 1) ^ ((d[k] >> i) & 1u);
                v = (v << 1) & m;
                if (top) { v ^= poly; }
            }
        }
    }
    else
    {
        uint64_t const rp = ref_rev(poly, w);
        for (size_t k = 0; k < n; ++k)
        {
            for (int i = 0; i < 8; ++i)
            {
                unsigned top = (unsigned)(v & 1) ^ ((d[k] >> i) & 1u);
                v >>= 1;
                if (top) { v ^= rp; }
            }
        }
    }
    return v;
}

/* definition: remainder of (init(x)*x^(8n) + M(x)*x^w) / G(x) on an explicit coefficient array,
   coefficients taken in transmission order (msb-first or lsb-first per byte / per register) */
static uint64_t ref_longdiv(unsigned w, int lsb, uint64_t poly, uint8_t const *d, size_t n, uint64_t init)
{
    size_t const nb = 8 * n + w;
    uint8_t *bits = (uint8_t *)calloc(nb + 1, 1);
    uint8_t g[65];
    uint64_t v = 0;
    if (!bits) { fprintf(stderr, "h_crc: out of memory\n"); exit(2); }
    for (size_t k = 0; k < n; ++k)
    {
        for (unsigned i = 0; i < 8; ++i) { bits[8 * k + i] = (uint8_t)(lsb ? (d[k] >> i) & 1 : (d[k] >> (7 - i)) & 1); }
    }
    for (unsigned i = 0; i < w; ++i) { bits[i] ^= (uint8_t)(lsb ? (init >> i) & 1 : (init >> (w - 1 - i)) & 1); }
    g[0] = 1;
    for (unsigned i = 0; i < w; ++i) { g[1 + i] = (uint8_t)((poly >> (w - 1 - i)) & 1); }
    for (size_t p = 0; p < 8 * n; ++p)
    {
        if (bits[p])
        {
            for (unsigned i = 0; i <= w; ++i) { bits[p + i] ^= g[i]; }
        }
    }
    for (unsigned i = 0; i < w; ++i)
    {
        if (bits[8 * n + i]) { v |= 1ULL << (lsb ? i : w - 1 - i); }
    }
    free(bits);
    return v;
}

/* ---------------------------------------------------------------- tables */
typedef struct
{
    unsigned w;
    uint64_t poly;
    void *lib[2]; /* built by the library, exact 256-entry heap blocks: [0] msb-first, [1] lsb-first */
    void *ref[2]; /* built by ref_entry */
    void const *use[2]; /* what the update functions are fed: lib[] if it is correct, else ref[] */
} tabs_t;

static void tabs_free(tabs_t *T)
{
    for (int o = 0; o < 2; ++o)
    {
        free(T->lib[o]);
        free(T->ref[o]);
    }
}

/* build both tables with the library, judge all 512 entries, and the reflection relation between them */
static void tabs_build(tabs_t *T, unsigned w, uint64_t poly)
{
    size_t const sz = 256 * (w / 8);
    char key[96];
    T->w = w;
    T->poly = poly;
    for (int o = 0; o < 2; ++o)
    {
        unsigned bad = 0, first = 0;
        T->ref[o] = malloc(sz);
        T->lib[o] = malloc(sz); /* exactly 256 entries: entry 256 is an ASan red zone */
        if (!T->ref[o] || !T->lib[o]) { fprintf(stderr, "h_crc: out of memory\n"); exit(2); }
        for (unsigned c = 0; c < 256; ++c)
        {
            uint64_t e = ref_entry(w, o, poly, c);
            tab_set(w, T->ref[o], c, e);
            tab_set(w, T->lib[o], c, ~e); /* an entry the library leaves unwritten is wrong for sure */
        }
        vf_log("a_crc%u%c_init(table[256], poly=0x%" PRIx64 ")", w, o ? 'l' : 'm', poly);
        lib_init(w, o, T->lib[o], poly);
        for (unsigned c = 0; c < 256; ++c)
        {
            if (tab_get(w, T->lib[o], c) != tab_get(w, T->ref[o], c))
            {
                if (!bad) { first = c; }
                ++bad;
            }
        }
        if (o) { VF_ADD("table-entry-lsb-first", 256); }
        else { VF_ADD("table-entry-msb-first", 256); }
        ++vf.evals;
        if (bad)
        {
            key_init(key, sizeof(key), w, o, "entry-ne-polynomial-division");
            vf_viol(key, "a_crc%u%c_init(poly=0x%" PRIx64 "): %u of 256 entries wrong, first table[0x%02x]=0x%" PRIx64
                         " expected %s(0x%02x * x^%u mod (x^%u+0x%" PRIx64 "))=0x%" PRIx64,
                    w, o ? 'l' : 'm', poly, bad, first, tab_get(w, T->lib[o], first), o ? "reflect" : "", o ? rev8_lut[first] : first, w, w,
                    poly, tab_get(w, T->ref[o], first));
        }
        T->use[o] = bad ? T->ref[o] : T->lib[o];
    }
    /* A table is a function of the polynomial alone, whatever the buffer held before (a caller re-purposes one buffer for another
       polynomial or the other bit order).  Re-initialise over contents chosen to satisfy any cheap "already built?" probe:
         1. the correct table of this polynomial and order with ONE entry wrong,
         2. the correct table of this polynomial in the OTHER order,
         3. the other order's table of this polynomial Q, handed to the init of a polynomial P derived from it so that the entry a
            probe would most likely look at agrees: l_init(P) with reflect(P) = m_Q[0x80] (entry 0x80 of a reflected table is the
            reflected polynomial), and m_init(P') with P' = l_Q[1] (entry 1 of an msb-first table is the polynomial).
       (Seeded change C17-H: a_crc64l_init returns early when table[0x80] == reflected poly && table[0] == 0.) */
    for (int o = 0; o < 2; ++o)
    {
        void *t = malloc(sz);
        uint64_t const mask = wmask(w);
        if (!t) { fprintf(stderr, "h_crc: out of memory\n"); exit(2); }
        for (int variant = 0; variant < 3; ++variant)
        {
            uint64_t p2 = poly;
            unsigned bad = 0, first = 0, k = 2 + (unsigned)((poly >> 3) % 125); /* 2..126: neither 0, 1 nor 0x80 */
            memcpy(t, variant == 1 ? T->ref[1 - o] : T->ref[o], sz);
            if (variant == 0) { tab_set(w, t, k, tab_get(w, t, k) ^ 1); }
            if (variant == 2)
            {
                memcpy(t, T->ref[1 - o], sz);
                p2 = (o == 1 ? ref_rev(tab_get(w, T->ref[0], 0x80), w) : tab_get(w, T->ref[1], 1)) & mask;
            }
            lib_init(w, o, t, p2);
            for (unsigned c = 0; c < 256; ++c)
            {
                if (tab_get(w, t, c) != ref_entry(w, o, p2, c)) { if (!bad) { first = c; } ++bad; }
            }
            ++vf.evals;
            VF_COUNT("table-reinitialised-over-adversarial-contents");
            if (bad)
            {
                key_init(key, sizeof(key), w, o, "table-depends-on-previous-contents");
                vf_viol(key, "a_crc%u%c_init(poly=0x%" PRIx64 ") over a buffer holding %s: %u of 256 entries wrong, first table[0x%02x]=0x%" PRIx64 " expected 0x%" PRIx64,
                        w, o ? 'l' : 'm', p2,
                        variant == 0 ? "the correct table with one entry changed" : variant == 1 ? "the other bit order's table of the same polynomial" : "the other bit order's table of the polynomial this one was derived from",
                        bad, first, tab_get(w, t, first), ref_entry(w, o, p2, first));
            }
        }
        free(t);
    }
    /* stated relation between the two orders, on the library's own tables */
    {
        unsigned bad = 0, first = 0;
        for (unsigned c = 0; c < 256; ++c)
        {
            if (tab_get(w, T->lib[1], rev8_lut[c]) != ref_rev(tab_get(w, T->lib[0], c), w))
            {
                if (!bad) { first = c; }
                ++bad;
            }
        }
        VF_ADD("table-reflection-relation", 256);
        if (bad)
        {
            snprintf(key, sizeof(key), "crc%u_init/l-table-ne-reflected-m-table", w);
            vf_viol(key, "poly=0x%" PRIx64 ": %u entries, first: l[reflect(0x%02x)]=0x%" PRIx64 " but reflect(m[0x%02x])=0x%" PRIx64, poly, bad,
                    first, tab_get(w, T->lib[1], rev8_lut[first]), first, ref_rev(tab_get(w, T->lib[0], first), w));
        }
    }
    vf_distinct(vf_hash64(vf_hash64(vf_hash64(17, w), 0), poly));
    vf_distinct(vf_hash64(vf_hash64(vf_hash64(17, w), 1), poly));
}

/* ------------------------------------------------- CRC of one whole message */
static uint64_t draw_init(vf_rng *r, unsigned w, unsigned cls)
{
    switch (cls % 5)
    {
    case 0: return 0;
    case 1: return wmask(w);
    case 2: return vf_u64(r) & wmask(w);
    case 3: return 1;
    default: return 1ULL << (w - 1);
    }
}
static void draw_bytes(vf_rng *r, uint8_t *d, size_t n, unsigned cls)
{
    for (size_t i = 0; i < n; ++i)
    {
        uint64_t v = vf_u64(r);
        switch (cls % 5)
        {
        case 0: d[i] = (uint8_t)v; break;                               /* all byte values */
        case 1: d[i] = (uint8_t)(v | 0x80); break;                      /* high bit set */
        case 2: d[i] = (v & 0x300) ? ((v & 0x400) ? 0x00 : 0xFF) : (uint8_t)v; break; /* runs of 00/FF */
        case 3: d[i] = (uint8_t)(1u << (v & 7)); break;                 /* single-bit bytes */
        default: d[i] = (uint8_t)('0' + v % 10); break;                 /* what the repo tests use */
        }
    }
}

/* whole-message checks for both orders of T: vs references, reflection relation.
   Returns the library's values in got[2]. B is an exact block with the data. */
static void check_whole(tabs_t const *T, uint8_t const *B, size_t n, uint64_t init, uint64_t got[2])
{
    unsigned const w = T->w;
    char key[96];
    blk_t R = blk_new(n); /* every byte bit-reflected */
    uint64_t rinit = ref_rev(init, w);
    for (size_t i = 0; i < n; ++i) { R.p[i] = rev8_lut[B[i]]; }
    for (int o = 0; o < 2; ++o)
    {
        uint64_t e = ref_serial(w, o, T->poly, B, n, init);
        if (n <= 256)
        {
            uint64_t e2 = ref_longdiv(w, o, T->poly, B, n, init);
            if (e != e2) { self_check_failed("shift-register reference != long-division reference"); }
            VF_COUNT("crc-vs-coefficient-long-division");
        }
        vf_log("%s(poly=0x%" PRIx64 ", data[%zu]=%s, value=0x%" PRIx64 ")", upd_name(w, o), T->poly, n, hexs(B, n), init);
        got[o] = lib_crc(w, o, T->use[o], B, n, init);
        ++vf.evals;
        if (o) { VF_COUNT("crc-vs-bitwise-division-lsb-first"); }
        else { VF_COUNT("crc-vs-bitwise-division-msb-first"); }
        if (got[o] != e)
        {
            key_upd(key, sizeof(key), w, o, "ne-bitwise-polynomial-division");
            vf_viol(key, "%s(poly=0x%" PRIx64 ", data[%zu]=%s, value=0x%" PRIx64 ")=0x%" PRIx64 " expected 0x%" PRIx64, upd_name(w, o), T->poly, n,
                    hexs(B, n), init, got[o], e);
        }
    }
    /* l(poly, data, init) == reflect(m(poly, reflect-each-byte(data), reflect(init))) and vice versa */
    for (int o = 0; o < 2; ++o)
    {
        uint64_t other = lib_crc(w, !o, T->use[!o], R.p, n, rinit);
        ++vf.evals;
        VF_COUNT("crc-reflection-relation");
        if (got[o] != ref_rev(other, w))
        {
            snprintf(key, sizeof(key), "crc%u/%s", w, o ? "l-ne-reflected-m-of-reflected-input" : "m-ne-reflected-l-of-reflected-input");
            vf_viol(key, "poly=0x%" PRIx64 " data[%zu]=%s value=0x%" PRIx64 ": %s=0x%" PRIx64 " but reflect(other order on reflected bytes/value)=0x%" PRIx64,
                    T->poly, n, hexs(B, n), init, upd_name(w, o), got[o], ref_rev(other, w));
        }
    }
    blk_free(R);
}

/* feed d[0..n) in the pieces delimited by cut[0..ncut) (ascending, each in [0,n]); every piece is copied
   to the end of its own exact block */
static uint64_t feed_pieces(tabs_t const *T, int o, uint8_t const *d, size_t n, size_t const *cut, unsigned ncut, uint64_t v)
{
    size_t a = 0;
    for (unsigned k = 0; k <= ncut; ++k)
    {
        size_t b = k < ncut ? cut[k] : n;
        blk_t P = blk_copy(d + a, b - a);
        v = lib_crc(T->w, o, T->use[o], P.p, b - a, v);
        blk_free(P);
        a = b;
    }
    return v;
}

static int cmp_size(void const *a, void const *b)
{
    size_t x = *(size_t const *)a, y = *(size_t const *)b;
    return (x > y) - (x < y);
}

/* message of length n from class cls: whole checks + random 2/3-piece splits + random chunking */
static void check_message(tabs_t const *T, vf_rng *r, size_t n, unsigned dcls, unsigned icls, unsigned nsplit, int chunked)
{
    unsigned const w = T->w;
    char key[96];
    blk_t B = blk_new(n);
    uint64_t init = draw_init(r, w, icls);
    uint64_t got[2];
    draw_bytes(r, B.p, n, dcls);
    if (!n) { B.base[0] = 0x5A; }
    check_whole(T, B.p, n, init, got);
    for (int o = 0; o < 2; ++o)
    {
        for (unsigned s = 0; s < nsplit; ++s)
        {
            size_t cut[2];
            unsigned nc = 1 + (s & 1);
            cut[0] = (size_t)vf_below(r, n + 1);
            cut[1] = (size_t)vf_below(r, n + 1);
            if (s < 2) { cut[0] = s ? n : 0; } /* empty first / last piece */
            if (nc == 2) { qsort(cut, 2, sizeof(cut[0]), cmp_size); }
            vf_log("%s(poly=0x%" PRIx64 ", n=%zu, value=0x%" PRIx64 ") fed in %u pieces cut at %zu,%zu", upd_name(w, o), T->poly, n, init, nc + 1,
                   cut[0], nc == 2 ? cut[1] : n);
            uint64_t v = feed_pieces(T, o, B.p, n, cut, nc, init);
            ++vf.evals;
            if (nc == 1) { VF_COUNT("crc-two-pieces-random-split"); }
            else { VF_COUNT("crc-three-pieces-random-split"); }
            if (v != got[o])
            {
                key_upd(key, sizeof(key), w, o, nc == 1 ? "two-pieces-ne-whole" : "three-pieces-ne-whole");
                vf_viol(key, "poly=0x%" PRIx64 " data[%zu]=%s value=0x%" PRIx64 " cuts %zu,%zu: pieces 0x%" PRIx64 " whole 0x%" PRIx64, T->poly, n,
                        hexs(B.p, n), init, cut[0], nc == 2 ? cut[1] : n, v, got[o]);
            }
        }
        if (chunked)
        {
            /* many small chunks (0..17 bytes, zero-length ones included) */
            size_t a = 0;
            uint64_t v = init;
            unsigned nchunks = 0;
            vf_log("%s(poly=0x%" PRIx64 ", n=%zu, value=0x%" PRIx64 ") fed in random chunks of 0..17 bytes", upd_name(w, o), T->poly, n, init);
            while (a < n)
            {
                size_t len = (size_t)vf_below(r, 18);
                if (len > n - a) { len = n - a; }
                blk_t P = blk_copy(B.p + a, len);
                v = lib_crc(w, o, T->use[o], P.p, len, v);
                blk_free(P);
                a += len;
                ++nchunks;
            }
            ++vf.evals;
            VF_COUNT("crc-many-chunks");
            if (v != got[o])
            {
                key_upd(key, sizeof(key), w, o, "chunked-ne-whole");
                vf_viol(key, "poly=0x%" PRIx64 " n=%zu value=0x%" PRIx64 " %u chunks: 0x%" PRIx64 " whole 0x%" PRIx64, T->poly, n, init, nchunks, v, got[o]);
            }
        }
    }
    blk_free(B);
}

/* messages that contain their own running register: prefix | register after the prefix, serialised (either byte order, exact or with
   one bit flipped) | 0..2w/8+3 zero bytes | tail.  "payload | crc | reserved = 0" records, residue checks over padded frames and a footer
   {crc, 0} fed as its own piece are ordinary uses, and they are the inputs for which data XOR register vanishes over a whole word - a
   relation random bytes meet with probability 2^-w per position (seeded change C17-J: a word-at-a-time loop that skips a round when
   (data ^ register) | next word == 0 and so keeps the old register).  The expected register comes from the bit-serial reference. */
static void check_embedded(tabs_t const *T, vf_rng *r, unsigned dcls)
{
    unsigned const w = T->w, wb = w / 8;
    for (int o = 0; o < 2; ++o)
    {
        size_t const pre = (size_t)vf_below(r, 41), nz = (size_t)vf_below(r, 2 * wb + 4), tail = (size_t)vf_below(r, 21);
        int const big = (int)vf_below(r, 2) ? !o : o; /* mostly the order in which this variant consumes a word: msb-first = big-endian */
        int const flip = vf_chance(r, 1, 4) ? (int)vf_below(r, w) : -1;
        size_t const n = pre + wb + nz + tail;
        blk_t B = blk_new(n);
        uint64_t const init = draw_init(r, w, (unsigned)vf_below(r, 4));
        uint64_t run, got[2];
        draw_bytes(r, B.p, pre, dcls);
        run = ref_serial(w, o, T->poly, B.p, pre, init);
        if (flip >= 0) { run ^= 1ULL << flip; }
        for (unsigned k = 0; k < wb; ++k) { B.p[pre + k] = (uint8_t)(run >> (big ? 8 * (wb - 1 - k) : 8 * k)); }
        memset(B.p + pre + wb, 0, nz);
        draw_bytes(r, B.p + pre + wb + nz, tail, dcls + 1);
        vf_log("crc%u: %zu bytes, then the %s register after them serialised %s-endian%s, then %zu zero bytes, then %zu more", w, pre, o ? "lsb-first" : "msb-first",
               big ? "big" : "little", flip >= 0 ? " with one bit flipped" : "", nz, tail);
        check_whole(T, B.p, n, init, got);
        VF_COUNT("crc-message-containing-its-own-running-register");
        /* ... and the same bytes with the register word starting a piece of its own (the running value carried in) */
        {
            size_t cut[2] = {pre, pre + wb + nz};
            uint64_t const v = feed_pieces(T, o, B.p, n, cut, 2, init);
            ++vf.evals;
            if (v != got[o])
            {
                char key[96];
                key_upd(key, sizeof(key), w, o, "register-word-as-own-piece-ne-whole");
                vf_viol(key, "poly=0x%" PRIx64 " data[%zu]=%s value=0x%" PRIx64 " cut at %zu,%zu: pieces 0x%" PRIx64 " whole 0x%" PRIx64, T->poly, n, hexs(B.p, n), init,
                        cut[0], cut[1], v, got[o]);
            }
        }
        blk_free(B);
    }
}

/* ------------------------------------------------------------ polynomials */
static uint64_t const STD8[] = {0x07, 0x31, 0x1D, 0x9B, 0xD5, 0x2F, 0xA7, 0x00, 0x01, 0x80, 0xFF};
static uint64_t const STD16[] = {0x1021, 0x8005, 0x3D65, 0x0589, 0x8BB7, 0xA097, 0xC867, 0x0000, 0x0001, 0x8000, 0xFFFF};
static uint64_t const STD32[] = {0x04C11DB7, 0x1EDC6F41, 0x741B8CD7, 0xA833982B, 0x814141AB, 0x000000AF, 0xF4ACFB13,
                                 0x00000000, 0x00000001, 0x80000000, 0xFFFFFFFF, 0x00000100, 0x00FF0000};
static uint64_t const STD64[] = {0x42F0E1EBA9EA3693ULL, 0x000000000000001BULL, 0xAD93D23594C935A9ULL, 0x259C84CBA6426349ULL,
                                 0x0000000000000000ULL, 0x0000000000000001ULL, 0x8000000000000000ULL, 0xFFFFFFFFFFFFFFFFULL,
                                 0x0000000100000000ULL, 0x00000000FFFFFFFFULL, 0xFFFFFFFF00000000ULL};
static uint64_t const *std_list(unsigned w, unsigned *n)
{
    switch (w)
    {
    case 8: *n = sizeof(STD8) / sizeof(STD8[0]); return STD8;
    case 16: *n = sizeof(STD16) / sizeof(STD16[0]); return STD16;
    case 32: *n = sizeof(STD32) / sizeof(STD32[0]); return STD32;
    default: *n = sizeof(STD64) / sizeof(STD64[0]); return STD64;
    }
}
static uint64_t draw_poly(vf_rng *r, unsigned w)
{
    uint64_t v = vf_u64(r), p = vf_u64(r);
    switch (v & 7)
    {
    case 0: p >>= (v >> 8) & 63; break;                               /* any bit length */
    case 1: p = (1ULL << ((v >> 8) & 63)) | (1ULL << ((v >> 16) & 63)) | 1; break; /* sparse */
    case 2: p = ~((1ULL << ((v >> 8) & 63)) | (1ULL << ((v >> 16) & 63))); break;  /* dense */
    case 3: p |= 1; break;                                            /* odd (proper generator) */
    default: break;
    }
    if (w < 64) { p = (v & 0x1000000) ? p >> (64 - w) : p; } /* take the high or the low bits */
    return p & wmask(w);
}

/* one polynomial in a table sweep: both tables + one short message through them */
static void sweep_poly(vf_rng *r, unsigned w, uint64_t poly, unsigned i)
{
    tabs_t T;
    tabs_build(&T, w, poly);
    check_message(&T, r, (size_t)vf_below(r, 25), i, i >> 1, (i & 7) == 0 ? 4 : 0, (i & 15) == 0);
    if ((i & 3) == 1) { check_embedded(&T, r, i >> 2); }
    tabs_free(&T);
}

/* --------------------------------------- every split point, lengths 0..64 */
#define SPLIT_MAX 64
static void case_split(unsigned w, uint64_t idx, vf_rng *r)
{
    unsigned nstd;
    uint64_t const *st = std_list(w, &nstd);
    uint64_t poly = idx < nstd ? st[idx] : draw_poly(r, w);
    uint64_t init = draw_init(r, w, (unsigned)(idx + (idx >= nstd ? 2 : 0)));
    uint8_t D[SPLIT_MAX];
    blk_t P[SPLIT_MAX + 1]; /* P[j] = exact block holding D[0..j): the piece [i,j) is P[j].p+i and ends at the block's end */
    tabs_t T;
    char key[96];
    uint32_t mark, mark2;
    draw_bytes(r, D, SPLIT_MAX, (unsigned)(idx >> 1));
    vf_log("crc%u every split: poly=0x%" PRIx64 " value=0x%" PRIx64 " data[64]=%s", w, poly, init, hexs(D, SPLIT_MAX));
    tabs_build(&T, w, poly);
    for (size_t j = 0; j <= SPLIT_MAX; ++j) { P[j] = blk_copy(D, j); }
    mark = vf.jr->text_len;
    for (int o = 0; o < 2; ++o)
    {
        uint64_t pre[SPLIT_MAX + 1];
        uint64_t n2 = 0, n3 = 0;
        for (size_t n = 0; n <= SPLIT_MAX; ++n)
        {
            uint64_t got[2];
            log_rewind(mark);
            if (o == 0)
            {
                check_whole(&T, P[n].p, n, init, got);
                pre[n] = got[0];
            }
            else { pre[n] = lib_crc(w, 1, T.use[1], P[n].p, n, init); /* judged by check_whole in the o==0 pass */ }
        }
        log_rewind(mark);
        vf_log("%s: all 2-piece and 3-piece splits of data[0..n), n=0..64, pieces end at the end of exact blocks", upd_name(w, o));
        mark2 = vf.jr->text_len;
        for (size_t n = 0; n <= SPLIT_MAX; ++n)
        {
            log_rewind(mark2);
            vf_log("  n=%zu: cuts 0<=i<=j<=n", n);
            for (size_t i = 0; i <= n; ++i)
            {
                uint64_t a = lib_crc(w, o, T.use[o], P[i].p, i, init);
                uint64_t v = lib_crc(w, o, T.use[o], P[n].p + i, n - i, a);
                ++n2;
                if (v != pre[n])
                {
                    key_upd(key, sizeof(key), w, o, "two-pieces-ne-whole");
                    vf_viol(key, "poly=0x%" PRIx64 " data[%zu]=%s value=0x%" PRIx64 " cut at %zu: first piece 0x%" PRIx64 ", pieces 0x%" PRIx64
                                 " whole 0x%" PRIx64, poly, n, hexs(D, n), init, i, a, v, pre[n]);
                }
                for (size_t j = i; j <= n; ++j)
                {
                    uint64_t b = lib_crc(w, o, T.use[o], P[j].p + i, j - i, a);
                    uint64_t c = lib_crc(w, o, T.use[o], P[n].p + j, n - j, b);
                    ++n3;
                    if (c != pre[n])
                    {
                        key_upd(key, sizeof(key), w, o, "three-pieces-ne-whole");
                        vf_viol(key, "poly=0x%" PRIx64 " data[%zu]=%s value=0x%" PRIx64 " cuts at %zu,%zu: 0x%" PRIx64 " -> 0x%" PRIx64 " -> 0x%" PRIx64
                                     " whole 0x%" PRIx64, poly, n, hexs(D, n), init, i, j, a, b, c, pre[n]);
                    }
                }
            }
        }
        VF_ADD("crc-two-pieces-every-split", n2);
        VF_ADD("crc-three-pieces-every-split", n3);
        vf.evals += n2 + n3;
        if (vf_want_sample() && idx < 2)
        {
            vf_sample("%s poly=0x%" PRIx64 " value=0x%" PRIx64 " data[64]=%.24s..: lengths 0..64 vs long division + shift register, "
                      "%" PRIu64 " two-piece and %" PRIu64 " three-piece feeds == whole (0x%" PRIx64 " for n=64)",
                      upd_name(w, o), poly, init, hexs(D, SPLIT_MAX), n2, n3, pre[SPLIT_MAX]);
        }
    }
    for (size_t j = 0; j <= SPLIT_MAX; ++j) { blk_free(P[j]); }
    tabs_free(&T);
}

/* ---------------------------------------------------------------- hashes */
typedef a_u32 (*hstr_f)(void const *, a_u32);
typedef a_u32 (*hlen_f)(void const *, a_size, a_u32);
static struct
{
    char const *name;
    hstr_f s;
    hlen_f l;
    uint32_t mul; /* header: "a hash function whose prime number is 131 / 65599" */
} const HF[2] = {{"hash_bkdr", a_hash_bkdr, a_hash_bkdr_, 131u}, {"hash_sdbm", a_hash_sdbm, a_hash_sdbm_, 65599u}};

/* sum definition: v*m^n + sum s[i]*m^(n-1-i) mod 2^32, accumulated from the last byte (not Horner) */
static uint32_t ref_hash(uint32_t mul, uint8_t const *d, size_t n, uint32_t v)
{
    uint32_t acc = 0, p = 1;
    for (size_t i = n; i-- > 0;)
    {
        acc += (uint32_t)d[i] * p;
        p *= mul;
    }
    return acc + v * p;
}
static uint32_t draw_hinit(vf_rng *r, unsigned cls)
{
    switch (cls % 4)
    {
    case 0: return 0;
    case 1: return 0xFFFFFFFFu;
    case 2: return (uint32_t)vf_u64(r);
    default: return 1;
    }
}
static void draw_text(vf_rng *r, uint8_t *d, size_t n, unsigned cls, int allow_nul)
{
    for (size_t i = 0; i < n; ++i)
    {
        uint64_t v = vf_u64(r);
        uint8_t b;
        switch (cls % 4)
        {
        case 0: b = (uint8_t)v; break;
        case 1: b = (uint8_t)(v | 0x80); break; /* would be negative as a signed char */
        case 2: b = (uint8_t)(0x20 + v % 0x5F); break; /* printable */
        default: b = (v & 0x100) ? 0xFF : (uint8_t)v; break;
        }
        if (!b && !allow_nul) { b = (uint8_t)(1 + (v >> 16) % 255); }
        d[i] = b;
    }
}
/* exact NUL-terminated block of d[a..b) */
static blk_t zstr(uint8_t const *d, size_t a, size_t b)
{
    blk_t z = blk_new(b - a + 1);
    if (b > a) { memcpy(z.p, d + a, b - a); }
    z.p[b - a] = 0;
    return z;
}

#define HSPLIT_MAX 64
static void case_hash_split(uint64_t idx, vf_rng *r)
{
    uint8_t D[HSPLIT_MAX], E[HSPLIT_MAX];
    blk_t P[HSPLIT_MAX + 1], Q[HSPLIT_MAX + 1];
    static blk_t Z[HSPLIT_MAX + 1][HSPLIT_MAX + 1];
    char key[96];
    draw_text(r, D, HSPLIT_MAX, (unsigned)idx, 0);
    draw_text(r, E, HSPLIT_MAX, (unsigned)idx, 1);
    for (size_t i = 0; i < HSPLIT_MAX; ++i)
    {
        if (vf_chance(r, 1, 4)) { E[i] = 0; } /* zero bytes are ordinary data for the length-delimited form */
    }
    for (size_t j = 0; j <= HSPLIT_MAX; ++j)
    {
        P[j] = blk_copy(D, j);
        Q[j] = blk_copy(E, j);
        for (size_t i = 0; i <= j; ++i) { Z[i][j] = zstr(D, i, j); }
    }
    for (int h = 0; h < 2; ++h)
    {
        uint32_t v0 = draw_hinit(r, (unsigned)(idx + (unsigned)h));
        uint32_t pre[HSPLIT_MAX + 1], preq[HSPLIT_MAX + 1], sw[HSPLIT_MAX + 1]; /* whole: length form, length form with zero bytes, string form */
        uint64_t n2 = 0, n3 = 0;
        vf_log("a_%s / a_%s_: value=0x%x text[64]=%s, lengths 0..64, every split, string and length forms", HF[h].name, HF[h].name, v0,
               hexs(D, HSPLIT_MAX));
        for (size_t n = 0; n <= HSPLIT_MAX; ++n)
        {
            uint32_t e = ref_hash(HF[h].mul, D, n, v0);
            pre[n] = HF[h].l(P[n].p, n, v0);
            ++vf.evals;
            VF_COUNT("hash-len-form-vs-sum-definition");
            if (pre[n] != e)
            {
                snprintf(key, sizeof(key), "%s_/ne-sum-definition", HF[h].name);
                vf_viol(key, "a_%s_(%s, %zu, 0x%x)=0x%x expected 0x%x (multiplier %u)", HF[h].name, hexs(D, n), n, v0, pre[n], e, HF[h].mul);
            }
            uint32_t s = sw[n] = HF[h].s(Z[0][n].p, v0);
            ++vf.evals;
            VF_COUNT("hash-str-form-vs-sum-definition");
            if (s != e)
            {
                snprintf(key, sizeof(key), "%s/ne-sum-definition", HF[h].name);
                vf_viol(key, "a_%s(\"%s\"[%zu], 0x%x)=0x%x expected 0x%x (multiplier %u)", HF[h].name, hexs(D, n), n, v0, s, e, HF[h].mul);
            }
            VF_COUNT("hash-str-form-vs-len-form");
            if (s != pre[n])
            {
                snprintf(key, sizeof(key), "%s/str-form-ne-len-form", HF[h].name);
                vf_viol(key, "text[%zu]=%s value=0x%x: a_%s=0x%x a_%s_=0x%x", n, hexs(D, n), v0, HF[h].name, s, HF[h].name, pre[n]);
            }
            /* data with zero bytes, length form only */
            e = ref_hash(HF[h].mul, E, n, v0);
            preq[n] = HF[h].l(Q[n].p, n, v0);
            ++vf.evals;
            VF_COUNT("hash-len-form-vs-sum-definition");
            if (preq[n] != e)
            {
                snprintf(key, sizeof(key), "%s_/ne-sum-definition", HF[h].name);
                vf_viol(key, "a_%s_(%s, %zu, 0x%x)=0x%x expected 0x%x (data with zero bytes)", HF[h].name, hexs(E, n), n, v0, preq[n], e);
            }
            /* string form stops at the first NUL: text D[0..n) with a NUL planted at k, rest of the block is more text */
            if (n >= 1)
            {
                size_t k = (size_t)vf_below(r, n);
                blk_t z = zstr(D, 0, n);
                z.p[k] = 0;
                s = HF[h].s(z.p, v0);
                ++vf.evals;
                VF_COUNT("hash-str-form-stops-at-first-nul");
                e = ref_hash(HF[h].mul, D, k, v0);
                if (s != e)
                {
                    snprintf(key, sizeof(key), "%s/embedded-nul-ne-hash-of-prefix", HF[h].name);
                    vf_viol(key, "text[%zu]=%s with NUL at %zu value=0x%x: a_%s=0x%x, sum definition over the first %zu bytes=0x%x", n, hexs(D, n), k, v0,
                            HF[h].name, s, k, e);
                }
                blk_free(z);
            }
        }
        uint32_t const mark = vf.jr->text_len;
        for (size_t n = 0; n <= HSPLIT_MAX; ++n)
        {
            log_rewind(mark);
            vf_log("  every 2-piece and 3-piece split of text[0..%zu), both forms", n);
            for (size_t i = 0; i <= n; ++i)
            {
                uint32_t al = HF[h].l(P[i].p, i, v0);
                uint32_t as = HF[h].s(Z[0][i].p, v0);
                uint32_t aq = HF[h].l(Q[i].p, i, v0);
                uint32_t vl = HF[h].l(P[n].p + i, n - i, al);
                uint32_t vs = HF[h].s(Z[i][n].p, as);
                uint32_t vq = HF[h].l(Q[n].p + i, n - i, aq);
                uint32_t vx = HF[h].s(Z[i][n].p, al); /* mixed: length form first, string form second */
                n2 += 4;
                if (vl != pre[n] || vq != preq[n])
                {
                    snprintf(key, sizeof(key), "%s_/two-pieces-ne-whole", HF[h].name);
                    vf_viol(key, "n=%zu cut %zu value=0x%x text=%s: pieces 0x%x whole 0x%x; with zero bytes: pieces 0x%x whole 0x%x", n, i, v0,
                            hexs(D, n), vl, pre[n], vq, preq[n]);
                }
                if (vs != sw[n])
                {
                    snprintf(key, sizeof(key), "%s/two-pieces-ne-whole", HF[h].name);
                    vf_viol(key, "n=%zu cut %zu value=0x%x text=%s: pieces 0x%x whole 0x%x", n, i, v0, hexs(D, n), vs, sw[n]);
                }
                if (vx != sw[n] || vx != pre[n])
                {
                    snprintf(key, sizeof(key), "%s/len-form-then-str-form-ne-whole", HF[h].name);
                    vf_viol(key, "n=%zu cut %zu value=0x%x text=%s: a_%s_ on [0,cut) then a_%s on the rest 0x%x, whole: string form 0x%x length form 0x%x", n,
                            i, v0, hexs(D, n), HF[h].name, HF[h].name, vx, sw[n], pre[n]);
                }
                for (size_t j = i; j <= n; ++j)
                {
                    uint32_t bl = HF[h].l(P[j].p + i, j - i, al);
                    uint32_t cl = HF[h].l(P[n].p + j, n - j, bl);
                    uint32_t bs = HF[h].s(Z[i][j].p, as);
                    uint32_t cs = HF[h].s(Z[j][n].p, bs);
                    n3 += 2;
                    if (cl != pre[n])
                    {
                        snprintf(key, sizeof(key), "%s_/three-pieces-ne-whole", HF[h].name);
                        vf_viol(key, "n=%zu cuts %zu,%zu value=0x%x text=%s: 0x%x -> 0x%x -> 0x%x whole 0x%x", n, i, j, v0, hexs(D, n), al, bl, cl, pre[n]);
                    }
                    if (cs != sw[n])
                    {
                        snprintf(key, sizeof(key), "%s/three-pieces-ne-whole", HF[h].name);
                        vf_viol(key, "n=%zu cuts %zu,%zu value=0x%x text=%s: 0x%x -> 0x%x -> 0x%x whole 0x%x", n, i, j, v0, hexs(D, n), as, bs, cs, sw[n]);
                    }
                }
            }
        }
        VF_ADD("hash-two-pieces-every-split", n2);
        VF_ADD("hash-three-pieces-every-split", n3);
        vf.evals += n2 + n3;
        if (vf_want_sample() && idx < 2)
        {
            vf_sample("a_%s/a_%s_ value=0x%x text[64]=%.24s..: lengths 0..64 string form == length form == sum definition (mult %u), "
                      "%" PRIu64 " two-piece and %" PRIu64 " three-piece feeds == whole (0x%x for n=64)",
                      HF[h].name, HF[h].name, v0, hexs(D, HSPLIT_MAX), HF[h].mul, n2, n3, pre[HSPLIT_MAX]);
        }
    }
    for (size_t j = 0; j <= HSPLIT_MAX; ++j)
    {
        blk_free(P[j]);
        blk_free(Q[j]);
        for (size_t i = 0; i <= j; ++i) { blk_free(Z[i][j]); }
    }
}

/* i < 12: the fixed small lengths; 100 + k: the k-th large length (around 2^16 and, in thorough, 2^20: a length or index kept in a
   16-bit quantity, a block-wise loop with a remainder, a table index computed from a wide running value) */
static size_t draw_len(vf_rng *r, unsigned i)
{
    static size_t const fixed[] = {0, 1, 2, 3, 7, 8, 9, 255, 256, 257, 4095, 4096};
    static size_t const large[] = {65535, 65536, 65537, 131075, 70001, 1048575, 1048577};
    if (i >= 100)
    {
        unsigned k = i - 100, nl = vf.tier ? 7 : 4;
        VF_COUNT("large-message-lengths");
        return large[k % nl];
    }
    if (i < sizeof(fixed) / sizeof(fixed[0])) { return fixed[i]; }
    /* bit length uniform in 0..12, then uniform below */
    unsigned b = (unsigned)vf_below(r, 13);
    size_t n = (size_t)vf_below(r, (1ULL << b)) + ((1ULL << b) >> 1);
    return n > 4096 ? 4096 : n;
}

static void case_hash_long(uint64_t idx, vf_rng *r)
{
    char key[96];
    uint32_t mark;
    vf_log("hashes: 24 texts of random length <= 4096, both forms, random three-piece feeds (chunk %" PRIu64 ")", idx);
    mark = vf.jr->text_len;
    for (unsigned m = 0; m < 24; ++m)
    {
        size_t n = draw_len(r, idx == 0 ? m : (idx == 1 && m < (vf.tier ? 7u : 4u)) ? 100 + m : 99);
        log_rewind(mark);
        blk_t S = blk_new(n + 1); /* text + NUL, exact */
        blk_t L;                  /* same text, no NUL, exact */
        draw_text(r, S.p, n, m + (unsigned)idx, 0);
        S.p[n] = 0;
        L = blk_copy(S.p, n);
        for (int h = 0; h < 2; ++h)
        {
            uint32_t v0 = draw_hinit(r, m + (unsigned)h);
            uint32_t e = ref_hash(HF[h].mul, S.p, n, v0);
            vf_log("a_%s(text[%zu]=%s, 0x%x) and a_%s_(text, %zu, 0x%x)", HF[h].name, n, hexs(S.p, n), v0, HF[h].name, n, v0);
            uint32_t s = HF[h].s(S.p, v0);
            uint32_t l = HF[h].l(L.p, n, v0);
            vf.evals += 2;
            VF_COUNT("hash-str-form-vs-sum-definition");
            VF_COUNT("hash-len-form-vs-sum-definition");
            VF_COUNT("hash-str-form-vs-len-form");
            if (s != e)
            {
                snprintf(key, sizeof(key), "%s/ne-sum-definition", HF[h].name);
                vf_viol(key, "a_%s(text[%zu]=%s, 0x%x)=0x%x expected 0x%x", HF[h].name, n, hexs(S.p, n), v0, s, e);
            }
            if (l != e)
            {
                snprintf(key, sizeof(key), "%s_/ne-sum-definition", HF[h].name);
                vf_viol(key, "a_%s_(text[%zu]=%s, %zu, 0x%x)=0x%x expected 0x%x", HF[h].name, n, hexs(S.p, n), n, v0, l, e);
            }
            if (s != l)
            {
                snprintf(key, sizeof(key), "%s/str-form-ne-len-form", HF[h].name);
                vf_viol(key, "text[%zu]=%s value=0x%x: a_%s=0x%x a_%s_=0x%x", n, hexs(S.p, n), v0, HF[h].name, s, HF[h].name, l);
            }
            for (unsigned k = 0; k < 6; ++k)
            {
                size_t cut[2];
                cut[0] = (size_t)vf_below(r, n + 1);
                cut[1] = (size_t)vf_below(r, n + 1);
                qsort(cut, 2, sizeof(cut[0]), cmp_size);
                blk_t z0 = zstr(S.p, 0, cut[0]), z1 = zstr(S.p, cut[0], cut[1]), z2 = zstr(S.p, cut[1], n);
                blk_t p0 = blk_copy(S.p, cut[0]), p1 = blk_copy(S.p + cut[0], cut[1] - cut[0]), p2 = blk_copy(S.p + cut[1], n - cut[1]);
                vf_log("a_%s/_ text[%zu] value=0x%x in three pieces cut at %zu,%zu", HF[h].name, n, v0, cut[0], cut[1]);
                uint32_t vs = HF[h].s(z2.p, HF[h].s(z1.p, HF[h].s(z0.p, v0)));
                uint32_t vl = HF[h].l(p2.p, n - cut[1], HF[h].l(p1.p, cut[1] - cut[0], HF[h].l(p0.p, cut[0], v0)));
                vf.evals += 2;
                VF_ADD("hash-three-pieces-random-split", 2);
                if (vs != s)
                {
                    snprintf(key, sizeof(key), "%s/three-pieces-ne-whole", HF[h].name);
                    vf_viol(key, "text[%zu]=%s value=0x%x cuts %zu,%zu: 0x%x whole 0x%x", n, hexs(S.p, n), v0, cut[0], cut[1], vs, s);
                }
                if (vl != l)
                {
                    snprintf(key, sizeof(key), "%s_/three-pieces-ne-whole", HF[h].name);
                    vf_viol(key, "text[%zu]=%s value=0x%x cuts %zu,%zu: 0x%x whole 0x%x", n, hexs(S.p, n), v0, cut[0], cut[1], vl, l);
                }
                blk_free(z0); blk_free(z1); blk_free(z2);
                blk_free(p0); blk_free(p1); blk_free(p2);
            }
        }
        if (vf_want_sample() && idx == 1 && m < 1)
        {
            vf_sample("a_hash_bkdr/a_hash_sdbm on text[%zu]=%.32s..: string form (exact NUL-terminated block) == length form (exact block) == "
                      "sum definition, 6 random three-piece feeds each",
                      n, hexs(S.p, n));
        }
        blk_free(S);
        blk_free(L);
    }
}

/* ------------------------------------------------------------------ cases */
static void vf_case(uint64_t c, vf_rng *r)
{
    plan_t p = plan[c];
    static unsigned const W[4] = {8, 16, 32, 64};
    switch (p.kind)
    {
    case K_TAB8:
    case K_TAB16:
    {
        unsigned w = p.kind == K_TAB8 ? 8 : 16;
        uint64_t per = p.kind == K_TAB8 ? 32 : 256;
        uint64_t lo = p.arg * per, hi = lo + per;
        uint32_t mark;
        vf_log("crc%u tables for every polynomial in [0x%" PRIx64 ",0x%" PRIx64 "), both bit orders, + one short message each", w, lo, hi);
        mark = vf.jr->text_len;
        for (uint64_t poly = lo; poly < hi; ++poly)
        {
            log_rewind(mark);
            sweep_poly(r, w, poly, (unsigned)poly);
        }
        if (vf_want_sample() && p.arg == 0)
        {
            vf_sample("a_crc%um_init/a_crc%ul_init for all polynomials in [0x%" PRIx64 ",0x%" PRIx64 "): 2x256 entries each == c(x)*x^%u mod G(x) by long "
                      "division, l[reflect(c)] == reflect(m[c]), one message of 0..24 bytes through both tables",
                      w, w, lo, hi, w);
        }
        break;
    }
    case K_TAB32:
    case K_TAB64:
    {
        unsigned w = p.kind == K_TAB32 ? 32 : 64;
        unsigned nstd;
        uint64_t const *st = std_list(w, &nstd);
        uint32_t mark;
        vf_log("crc%u tables for %u random polynomials (chunk %" PRIu64 "), both bit orders, + one short message each", w, tab_per_case, p.arg);
        mark = vf.jr->text_len;
        for (unsigned i = 0; i < tab_per_case; ++i)
        {
            uint64_t poly = (p.arg == 0 && i < nstd) ? st[i] : draw_poly(r, w);
            log_rewind(mark);
            sweep_poly(r, w, poly, i);
            if (vf_want_sample() && p.arg == 0 && i == 0)
            {
                vf_sample("a_crc%um_init/a_crc%ul_init(poly=0x%" PRIx64 "): 2x256 entries == long division, tables are reflections of each other", w, w, poly);
            }
        }
        break;
    }
    case K_SPLIT:
        case_split(W[p.arg / 4096], p.arg % 4096, r);
        break;
    case K_LONG:
    {
        uint32_t mark;
        vf_log("crc 8/16/32/64, both orders: 12 messages of random length <= 4096, random splits and chunked feeding (chunk %" PRIu64 ")", p.arg);
        mark = vf.jr->text_len;
        for (unsigned m = 0; m < 12; ++m)
        {
            size_t n = draw_len(r, p.arg == 0 ? m : (p.arg == 1 && m < (vf.tier ? 7u : 4u)) ? 100 + m : 99);
            log_rewind(mark);
            for (unsigned wi = 0; wi < 4; ++wi)
            {
                unsigned nstd;
                uint64_t const *st = std_list(W[wi], &nstd);
                tabs_t T;
                uint64_t poly = vf_chance(r, 1, 3) ? st[vf_below(r, nstd)] : draw_poly(r, W[wi]);
                tabs_build(&T, W[wi], poly);
                check_message(&T, r, n, m + (unsigned)p.arg, m + wi, 6, 1);
                check_embedded(&T, r, m);
                check_embedded(&T, r, m + 1);
                tabs_free(&T);
            }
        }
        break;
    }
    case K_HASH_SPLIT:
        case_hash_split(p.arg, r);
        break;
    case K_HASH_LONG:
        case_hash_long(p.arg, r);
        break;
    default: break;
    }
}
