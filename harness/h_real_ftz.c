/* C11, configuration "ftz": the norm clause ("norms do not overflow or underflow when the true result is representable") with the
 * calling thread in flush-to-zero / denormals-are-zero mode (MXCSR.FTZ | MXCSR.DAZ).
 *
 * Why this is an environment worth a configuration: FTZ is what audio / DSP hosts run in, what a process gets as soon as any
 * object linked with -ffast-math (gcc < 13) or built by icc is loaded, and it is per thread - the library cannot know.  The
 * norms are written so that no intermediate depends on gradual underflow (largest magnitude factored out first), so on the
 * pinned tree their results for NORMAL inputs with a NORMAL true result are as accurate under FTZ as without it.  A rewrite
 * that sums plain squares whenever "the largest square is a normal number" is correct under gradual underflow and loses every
 * component below sqrt(MIN) under FTZ (seeded change C11-J: -47 % for {1.5,-1.4,1.4,1.4}e-154).
 *
 * What is judged, and only this: n-component norms (a_real_norm2, a_real_norm3, a_real_norm, a_real_norm_, the radii of
 * a_real_cart2pol and a_real_cart2sph) of components that are all normal numbers or exactly zero, whose true norm (binary128
 * reference; the mode is switched on only around the library call) is a normal number at least 2^6 above MIN and
 * at most MAX: the result must be within K = 8 ulp-sized units (K * eps * |r|, the bound the main configurations use for the
 * same functions) of the reference.  Nothing is demanded for subnormal inputs or results: FTZ defines those away.
 * Calibration on the pinned tree: worst ratio 0.13 * K over seeds 1..5 (both bindings of hypot, float and double). */
#define VF_PROP "C11"
#include "vf_common.h"
#include <xmmintrin.h>
#include <quadmath.h>
#include <float.h>
#include "a/a.h"
#include "a/math.h"

#if A_SIZE_REAL + 0 == 4
#define R_MIN FLT_MIN
#define R_MAX FLT_MAX
#define R_EPS FLT_EPSILON
#define R_MINEXP (-125)
#define R_MAXEXP 127
#else
#define R_MIN DBL_MIN
#define R_MAX DBL_MAX
#define R_EPS DBL_EPSILON
#define R_MINEXP (-1021)
#define R_MAXEXP 1023
#endif
#define K_NORM 8.0

static int is_normal_or_zero(a_real x)
{
    volatile a_real v = x;
    unsigned char b[sizeof(a_real)];
    a_real a;
    memcpy(b, (void const *)&v, sizeof b);
    b[sizeof b - 1] &= 0x7F;
    memcpy(&a, b, sizeof a);
    /* comparisons under DAZ treat subnormals as zero, so classify by the bits */
    {
#if A_SIZE_REAL + 0 == 4
        uint32_t u; memcpy(&u, b, 4);
        unsigned const e = (u >> 23) & 0xFF; uint32_t const m = u & 0x7FFFFF;
        return (e > 0 && e < 0xFF) || (e == 0 && m == 0);
#else
        uint64_t u; memcpy(&u, b, 8);
        unsigned const e = (unsigned)(u >> 52) & 0x7FF; uint64_t const m = u & 0xFFFFFFFFFFFFFull;
        return (e > 0 && e < 0x7FF) || (e == 0 && m == 0);
#endif
    }
}

/* a normal number with a chosen binary exponent and a random significand, built from bits (no arithmetic that could be flushed) */
static a_real mk(vf_rng *r, int e2, int neg)
{
#if A_SIZE_REAL + 0 == 4
    uint32_t u = ((uint32_t)(e2 + 127) << 23) | ((uint32_t)vf_u64(r) & 0x7FFFFF) | (neg ? 0x80000000u : 0);
    float f; memcpy(&f, &u, 4); return f;
#else
    uint64_t u = ((uint64_t)(e2 + 1023) << 52) | (vf_u64(r) & 0xFFFFFFFFFFFFFull) | (neg ? 0x8000000000000000ull : 0);
    double d; memcpy(&d, &u, 8); return d;
#endif
}

static void judge(char const *fn, a_real got, a_real const *p, size_t n, size_t stride)
{
    __float128 s = 0, ref;
    char key[96], txt[400];
    int o = 0;
    for (size_t i = 0; i < n; ++i) { __float128 q = p[i * stride]; s += q * q; }
    ref = sqrtq(s);
    if (!(ref >= (__float128)R_MIN * 64 && ref <= (__float128)R_MAX)) { VF_COUNT("ftz/not-judged-result-near-subnormal"); return; }
    ++vf.evals;
    vf_count_dyn("ftz/norms-judged-under-flush-to-zero", 1);
    {
        __float128 const err = fabsq((__float128)got - ref), bound = (__float128)(K_NORM * R_EPS) * ref;
        double const ratio = (double)(err / bound);
        vf_max_dyn("ftz/worst-error-over-bound", got == got ? ratio : 1e300, fn);
        if (!(err <= bound))
        {
            for (size_t i = 0; i < n && i < 8 && o < 300; ++i) { o += snprintf(txt + o, sizeof txt - (size_t)o, "%s%a", i ? ", " : "", (double)p[i * stride]); }
            snprintf(key, sizeof key, "real/%s/flush-to-zero-mode/normal-components-normal-result", fn);
            vf_viol(key, "MXCSR.FTZ|DAZ set: %s of %zu normal components {%s%s} = %a, true norm %a (%.3g x the bound of %g eps)", fn, n, txt, n > 8 ? ", ..." : "",
                    (double)got, (double)ref, ratio, K_NORM);
        }
    }
}

/* the mode is on only while the library runs: generation, reference and judgement use the default environment */
#define FTZ(expr) (_mm_setcsr(_mm_getcsr() | 0x8040u), (expr))
#define FTZ_OFF() _mm_setcsr(_mm_getcsr() & ~0x8040u)

static uint64_t vf_ncases(int tier) { return tier ? 4000 : 400; }

static void vf_case(uint64_t c, vf_rng *r)
{
    (void)c;
    for (int rep = 0; rep < 200; ++rep)
    {
        a_real v[40 * 3 + 1];
        size_t const n = 2 + (size_t)vf_below(r, rep % 4 == 0 ? 38 : 4), stride = 1 + (size_t)vf_below(r, 3);
        /* the largest exponent: anywhere, but half of the time in the bands where squares leave the normal range:
           around sqrt(MIN) (squares of the smaller components flush) and around sqrt(MAX) */
        int const band = (int)vf_below(r, 4);
        int const etop = band == 0 ? (int)vf_range(r, R_MINEXP / 2 - 3, R_MINEXP / 2 + 30) : band == 1 ? (int)vf_range(r, R_MAXEXP / 2 - 8, R_MAXEXP / 2 + 4)
                         : (int)vf_range(r, R_MINEXP + 8, R_MAXEXP - 8);
        int ok = 1;
        for (size_t i = 0; i < n; ++i)
        {
            /* the other components: comparable with the largest (within a few octaves), far below it, or zero */
            int const d = (int)vf_below(r, 10);
            int e = etop - (d < 6 ? (int)vf_below(r, 4) : d < 9 ? (int)vf_below(r, 60) : 0);
            if (i == 0) { e = etop; }
            if (e < R_MINEXP) { e = R_MINEXP; }
            v[i * stride] = d == 9 && i ? (a_real)0 : mk(r, e, (int)vf_below(r, 2));
            for (size_t j = 1; j < stride; ++j) { v[i * stride + j] = mk(r, R_MAXEXP - 2, 0); } /* never to be read */
            if (!is_normal_or_zero(v[i * stride])) { ok = 0; }
        }
        if (!ok) { continue; }
        vf_log("norms under MXCSR.FTZ|DAZ: n=%zu stride=%zu top exponent 2^%d first=%a second=%a", n, stride, etop, (double)v[0], (double)v[stride]);
        {
            a_real packed[40];
            for (size_t i = 0; i < n; ++i) { packed[i] = v[i * stride]; }
            { a_real g = FTZ(a_real_norm_(n, v, stride)); FTZ_OFF(); judge("norm_", g, v, n, stride); }
            { a_real g = FTZ(a_real_norm(n, packed)); FTZ_OFF(); judge("norm", g, packed, n, 1); }
            { a_real g = FTZ(a_real_norm2(packed[0], packed[1])); FTZ_OFF(); judge("norm2", g, packed, 2, 1); }
            if (n >= 3)
            {
                a_real rho, th, al;
                { a_real g = FTZ(a_real_norm3(packed[0], packed[1], packed[2])); FTZ_OFF(); judge("norm3", g, packed, 3, 1); }
                FTZ(a_real_cart2sph(packed[0], packed[1], packed[2], &rho, &th, &al)); FTZ_OFF();
                judge("cart2sph.rho", rho, packed, 3, 1);
            }
            {
                a_real rho, th;
                FTZ(a_real_cart2pol(packed[0], packed[1], &rho, &th)); FTZ_OFF();
                judge("cart2pol.rho", rho, packed, 2, 1);
            }
        }
    }
}
