/* C15 - polynomial trajectories (a_trajpoly3/5/7) meet all boundary conditions with consistent derivatives;
 *       a_poly_eval / a_poly_evar / a_poly_swap equal the Horner value of the polynomial they denote.
 *
 * Oracles (DESIGN.md section 4, C15):
 *   time 0      pos(0)==p0, vel(0)==v0, acc(0)==a0 exactly (the code stores them without arithmetic; "exactly" is ==,
 *               i.e. bitwise for every non-zero value, the sign of a zero is not judged); jer(0) within 4 ulps of j0
 *               (the stored coefficient is j0*fl(1/6), three roundings, so bitwise is not what correct code yields).
 *   time ts     |pos-p1|, |vel-v1|*ts, |acc-a1|*ts^2, |jer-j1|*ts^3  <=  C * eps * S,
 *               S = |p0|+|p1| + (|v0|+|v1|)ts + (|a0|+|a1|)ts^2 + (|j0|+|j1|)ts^3, eps = DBL_EPSILON = 2^-52,
 *               C = 2^8 / 2^13 / 2^19 for cubic / quintic / septic.  Calibration (DESIGN.md): worst ratio over 300 000
 *               random data sets on the unchanged code 20 / 532 / 2.8e4; re-measured by this harness and reported as
 *               worst_observed end3/..., end5/..., end7/...: thorough, seeds 1..5, 12.6M main-regime
 *               data sets each: 18.0 / 578 / 3.48e4, i.e. >= 14x head-room.  A-priori worst case (all roundings aligned,
 *               S concentrated in p): sum of term magnitudes 18 480 S (septic jerk) x about 12u = 1.1e5 eps S < 2^19 eps S.
 *   accessors   c0 == stored coefficients bitwise; c1/c2/c3[i] within 4 ulps of (i+k)!/i! * c[i+k] (at most 3 roundings).
 *   outputs     pos/vel/acc/jer(x) vs a __float128 Horner of the accessor coefficients, bound gamma_{2m} * sum|c_i||x|^i
 *               (m coefficients; the classical a-priori bound for Horner's rule, u = 2^-53), and vs the exact k-th
 *               derivative of the stored position polynomial, bound gamma_{2m+4} * sum (3 accessor roundings more).
 *               Whenever every intermediate of the documented recurrence is exactly representable in binary64
 *               (decided in __float128), the output must equal the exact value.
 *   exact regime integer boundary data, ts in {1, 2, 1/2}, jerks multiples of 3: every quantity in gen and in Horner at
 *               x = ts is a dyadic rational of < 40 bits, fl(1/6)*(3m*2^e) rounds to m*2^(e-1) exactly
 *               (fl(1/6) = (1/6)(1-2^-54), and m(1-2^-54) rounds to m), so ALL coefficients must equal the documented
 *               closed forms exactly and ALL end conditions (and jer(0)) must hold exactly - for all three orders.
 *   a_poly_*    eval vs sum a_i x^i, evar vs sum a_i x^(n-1-i) (power-sum reference in __float128, bound
 *               gamma_{2n} * sum|a_i||x|^i), exact on exactly computable data, n = 0 -> 0, swap reverses, swap∘swap = id,
 *               eval(swap(a)) == evar(a) and evar(swap(a)) == eval(a) (identical operation sequences), the pointer-pair
 *               forms a_poly_eval_/a_poly_evar_/a_poly_swap_ and the exported twins (h_poly_ext.c) agree with the
 *               inline forms.  Coefficient vectors are exact-size heap blocks (ASan red zone at the first byte past).
 */
#define VF_PROP "C15"
#include "vf_common.h"
#include <math.h>
#include <float.h>
#include <quadmath.h>
#include "a/a.h"
#include "a/poly.h"
#include "a/trajpoly3.h"
#include "a/trajpoly5.h"
#include "a/trajpoly7.h"

double vfx_poly_eval(double const *a, a_size n, double x);
double vfx_poly_evar(double const *a, a_size n, double x);
void vfx_poly_swap(double *a, a_size n);

typedef __float128 q_t;
#define U53 0x1p-53
#define EPS DBL_EPSILON
#define BATCH 128

/* calibrated end-condition constants, DESIGN.md C15 (index 0/1/2 = cubic/quintic/septic) */
static double const C_END[3] = {0x1p8, 0x1p13, 0x1p19};
#define ULP_TOL 4.0

static double gam(int m) { return m * U53 / (1.0 - m * U53); }

/* --------------------------------------------------------------- cached dynamic counters / maxima */
enum
{
    M_END = 0,      /* 3 orders x 4 clauses */
    M_JER0 = 12,
    M_ACC = 13,     /* c1,c2,c3 ulps: 3 */
    M_HORNER = 16,  /* pos,vel,acc,jer */
    M_DERIV = 20,   /* vel,acc,jer */
    M_PEVAL = 24,
    M_PEVAR = 25,
    M_EXACT_END7 = 26,
    M_SLOTS = 32
};
static int mx_id[M_SLOTS];
static void mx(int slot, char const *name, double v, char const *where)
{
    vf_counter *c;
    if (!mx_id[slot])
    {
        int id = vf_counter_id(name);
        vf.ctr[id].is_max = 1;
        mx_id[slot] = id + 1;
    }
    c = &vf.ctr[mx_id[slot] - 1];
    ++c->n;
    if (!(v == v)) { v = INFINITY; }
    if (v > c->max || c->n == 1)
    {
        c->max = v;
        if (where) { snprintf(c->arg, sizeof(c->arg), "%s", where); }
    }
}
static int ct_id[64];
static void ct(int slot, char const *name)
{
    if (!ct_id[slot]) { ct_id[slot] = vf_counter_id(name) + 1; }
    ++vf.ctr[ct_id[slot] - 1].n;
}

static char const *const DN[4] = {"pos", "vel", "acc", "jer"};
static char const *const END_MAX[3][4] = {
    {"end3/pos", "end3/vel*ts", NULL, NULL},
    {"end5/pos", "end5/vel*ts", "end5/acc*ts^2", NULL},
    {"end7/pos", "end7/vel*ts", "end7/acc*ts^2", "end7/jer*ts^3"}};
static char const *const END_CT[3][4] = {
    {"end3/pos==p1", "end3/vel==v1", NULL, NULL},
    {"end5/pos==p1", "end5/vel==v1", "end5/acc==a1", NULL},
    {"end7/pos==p1", "end7/vel==v1", "end7/acc==a1", "end7/jer==j1"}};
static char const *const T0_CT[4] = {"t0/pos==p0-bitwise", "t0/vel==v0-bitwise", "t0/acc==a0-bitwise", "t0/jer==j0-4ulp"};
static char const *const ACC_CT[4] = {"c0==stored", "c1[i]==(i+1)c[i+1]-4ulp", "c2[i]==(i+2)(i+1)c[i+2]-4ulp", "c3[i]==(i+3)(i+2)(i+1)c[i+3]-4ulp"};
static char const *const ACC_MAX[4] = {NULL, "c1-ulps", "c2-ulps", "c3-ulps"};
static char const *const HOR_CT[4] = {"pos==horner(c0)", "vel==horner(c1)", "acc==horner(c2)", "jer==horner(c3)"};
static char const *const HOR_MAX[4] = {"pos-vs-horner(c0)/gamma-bound", "vel-vs-horner(c1)/gamma-bound", "acc-vs-horner(c2)/gamma-bound", "jer-vs-horner(c3)/gamma-bound"};
static char const *const DER_CT[4] = {NULL, "vel==d/dx-pos", "acc==d2/dx2-pos", "jer==d3/dx3-pos"};
static char const *const DER_MAX[4] = {NULL, "vel-vs-d1(pos)/gamma-bound", "acc-vs-d2(pos)/gamma-bound", "jer-vs-d3(pos)/gamma-bound"};

/* --------------------------------------------------------------- references */
typedef struct
{
    q_t val;   /* value of the documented recurrence in __float128 */
    q_t mag;   /* sum |c_i| |x|^i */
    int exact; /* every intermediate (product and sum) is a binary64 number: binary64 Horner is then exact too */
} href;

static inline int is_d(q_t v) { return (q_t)(double)v == v; }

/* S_n = a_n, S_i = x S_{i+1} + a_i : coefficients in ascending order of power */
static href horner_asc(double const *c, int n, double x)
{
    href h;
    q_t y = c[n - 1], m = fabsq((q_t)c[n - 1]), ax = fabs(x);
    int ex = 1;
    for (int i = n - 2; i >= 0; --i)
    {
        q_t p = y * x;
        ex &= is_d(p);
        y = p + c[i];
        ex &= is_d(y);
        m = m * ax + fabs(c[i]);
    }
    h.val = y;
    h.mag = m;
    h.exact = ex;
    return h;
}
/* S_0 = a_0, S_i = x S_{i-1} + a_i : coefficients in descending order of power */
static href horner_desc(double const *c, int n, double x)
{
    href h;
    q_t y = c[0], m = fabsq((q_t)c[0]), ax = fabs(x);
    int ex = 1;
    for (int i = 1; i < n; ++i)
    {
        q_t p = y * x;
        ex &= is_d(p);
        y = p + c[i];
        ex &= is_d(y);
        m = m * ax + fabs(c[i]);
    }
    h.val = y;
    h.mag = m;
    h.exact = ex;
    return h;
}
/* sum c_i x^i by explicit powers (independent of any recurrence), __float128 coefficients */
static q_t powsum_q(q_t const *c, int n, double x, q_t *mag)
{
    q_t s = 0, m = 0, xp = 1, ax = fabs(x), axp = 1;
    for (int i = 0; i < n; ++i)
    {
        s += c[i] * xp;
        m += fabsq(c[i]) * axp;
        xp *= x;
        axp *= ax;
    }
    *mag = m;
    return s;
}

/* distance of got from ref in units of ulp(ref) */
static double ulps_off(double got, q_t ref)
{
    q_t e;
    if (!(got == got) || isinf(got)) { return INFINITY; }
    e = fabsq((q_t)got - ref);
    if (e == 0) { return 0; }
    if (ref == 0) { return INFINITY; }
    return (double)(e / scalbnq(1, ilogbq(ref) - 52));
}

static double ratio_of(q_t err, q_t bound)
{
    if (!(err == err)) { return INFINITY; }
    if (bound > 0) { return (double)(err / bound); }
    return err == 0 ? 0.0 : INFINITY;
}

/* --------------------------------------------------------------- trajectory wrapper */
typedef struct
{
    int ord;       /* 3, 5, 7 */
    int oi;        /* 0, 1, 2 */
    int nd;        /* derivative levels with boundary data: 2, 3, 4 */
    int nf;        /* derivative levels with an output function/accessor: 3, 3, 4 */
    int nc;        /* ord + 1 coefficients */
    void *ctx;     /* exact-size heap block holding the a_trajpolyN */
    double *c;     /* -> ctx->c */
    double *cd[4]; /* exact-size heap blocks for the c0..c3 accessors */
} traj_t;

static void traj_new(traj_t *t, int ord)
{
    memset(t, 0, sizeof(*t));
    t->ord = ord;
    t->oi = (ord - 3) / 2;
    t->nd = (ord + 1) / 2;
    t->nf = ord == 7 ? 4 : 3;
    t->nc = ord + 1;
    switch (ord)
    {
    case 3: t->ctx = malloc(sizeof(a_trajpoly3)); t->c = ((a_trajpoly3 *)t->ctx)->c; break;
    case 5: t->ctx = malloc(sizeof(a_trajpoly5)); t->c = ((a_trajpoly5 *)t->ctx)->c; break;
    default: t->ctx = malloc(sizeof(a_trajpoly7)); t->c = ((a_trajpoly7 *)t->ctx)->c; break;
    }
    for (int k = 0; k < t->nf; ++k) { t->cd[k] = (double *)malloc(sizeof(double) * (size_t)(t->nc - k)); }
}
static void traj_del(traj_t *t)
{
    for (int k = 0; k < t->nf; ++k) { free(t->cd[k]); }
    free(t->ctx);
}
static void traj_gen(traj_t *t, double ts, double const *b0, double const *b1)
{
    memset(t->c, 0xCB, sizeof(double) * (size_t)t->nc); /* a coefficient gen forgets to write stays a huge negative number */
    switch (t->ord)
    {
    case 3: a_trajpoly3_gen((a_trajpoly3 *)t->ctx, ts, b0[0], b1[0], b0[1], b1[1]); break;
    case 5: a_trajpoly5_gen((a_trajpoly5 *)t->ctx, ts, b0[0], b1[0], b0[1], b1[1], b0[2], b1[2]); break;
    default: a_trajpoly7_gen((a_trajpoly7 *)t->ctx, ts, b0[0], b1[0], b0[1], b1[1], b0[2], b1[2], b0[3], b1[3]); break;
    }
}
static double traj_out(traj_t const *t, int k, double x)
{
    switch (t->ord * 4 + k)
    {
    case 3 * 4 + 0: return a_trajpoly3_pos((a_trajpoly3 const *)t->ctx, x);
    case 3 * 4 + 1: return a_trajpoly3_vel((a_trajpoly3 const *)t->ctx, x);
    case 3 * 4 + 2: return a_trajpoly3_acc((a_trajpoly3 const *)t->ctx, x);
    case 5 * 4 + 0: return a_trajpoly5_pos((a_trajpoly5 const *)t->ctx, x);
    case 5 * 4 + 1: return a_trajpoly5_vel((a_trajpoly5 const *)t->ctx, x);
    case 5 * 4 + 2: return a_trajpoly5_acc((a_trajpoly5 const *)t->ctx, x);
    case 7 * 4 + 0: return a_trajpoly7_pos((a_trajpoly7 const *)t->ctx, x);
    case 7 * 4 + 1: return a_trajpoly7_vel((a_trajpoly7 const *)t->ctx, x);
    case 7 * 4 + 2: return a_trajpoly7_acc((a_trajpoly7 const *)t->ctx, x);
    case 7 * 4 + 3: return a_trajpoly7_jer((a_trajpoly7 const *)t->ctx, x);
    default: return NAN;
    }
}
static void traj_coef(traj_t const *t, int k)
{
    memset(t->cd[k], 0xFF, sizeof(double) * (size_t)(t->nc - k)); /* NaN: an element the accessor does not write fails every test */
    switch (t->ord * 4 + k)
    {
    case 3 * 4 + 0: a_trajpoly3_c0((a_trajpoly3 const *)t->ctx, t->cd[k]); break;
    case 3 * 4 + 1: a_trajpoly3_c1((a_trajpoly3 const *)t->ctx, t->cd[k]); break;
    case 3 * 4 + 2: a_trajpoly3_c2((a_trajpoly3 const *)t->ctx, t->cd[k]); break;
    case 5 * 4 + 0: a_trajpoly5_c0((a_trajpoly5 const *)t->ctx, t->cd[k]); break;
    case 5 * 4 + 1: a_trajpoly5_c1((a_trajpoly5 const *)t->ctx, t->cd[k]); break;
    case 5 * 4 + 2: a_trajpoly5_c2((a_trajpoly5 const *)t->ctx, t->cd[k]); break;
    case 7 * 4 + 0: a_trajpoly7_c0((a_trajpoly7 const *)t->ctx, t->cd[k]); break;
    case 7 * 4 + 1: a_trajpoly7_c1((a_trajpoly7 const *)t->ctx, t->cd[k]); break;
    case 7 * 4 + 2: a_trajpoly7_c2((a_trajpoly7 const *)t->ctx, t->cd[k]); break;
    case 7 * 4 + 3: a_trajpoly7_c3((a_trajpoly7 const *)t->ctx, t->cd[k]); break;
    default: break;
    }
}

/* falling factorial i (i-1) ... (i-k+1) */
static int ffact(int i, int k)
{
    int f = 1;
    for (int j = 0; j < k; ++j) { f *= i - j; }
    return f;
}

/* documented closed forms (include/a/trajpoly{3,5,7}.h) in __float128; exact on the exact regime */
static void doc_coef(int ord, double ts, double const *b0, double const *b1, q_t *c)
{
    q_t const t = ts, t2 = t * t, t3 = t2 * t, t4 = t2 * t2, t5 = t4 * t, t6 = t3 * t3, t7 = t6 * t;
    q_t const p0 = b0[0], p1 = b1[0], v0 = b0[1], v1 = b1[1], a0 = b0[2], a1 = b1[2], j0 = b0[3], j1 = b1[3];
    q_t const p = p1 - p0;
    c[0] = p0;
    c[1] = v0;
    switch (ord)
    {
    case 3:
        c[2] = ((-2 * v0 - v1) * t + 3 * p) / t2;
        c[3] = ((v0 + v1) * t - 2 * p) / t3;
        break;
    case 5:
        c[2] = a0 / 2;
        c[3] = ((a1 - 3 * a0) * t2 + (-12 * v0 - 8 * v1) * t + 20 * p) / (2 * t3);
        c[4] = ((3 * a0 - 2 * a1) * t2 + (16 * v0 + 14 * v1) * t - 30 * p) / (2 * t4);
        c[5] = ((a1 - a0) * t2 + (-6 * v0 - 6 * v1) * t + 12 * p) / (2 * t5);
        break;
    default:
        c[2] = a0 / 2;
        c[3] = j0 / 6;
        c[4] = ((-4 * j0 - j1) * t3 + (15 * a1 - 30 * a0) * t2 + (-120 * v0 - 90 * v1) * t + 210 * p) / (6 * t4);
        c[5] = ((2 * j0 + j1) * t3 + (20 * a0 - 14 * a1) * t2 + (90 * v0 + 78 * v1) * t - 168 * p) / (2 * t5);
        c[6] = ((-4 * j0 - 3 * j1) * t3 + (39 * a1 - 45 * a0) * t2 + (-216 * v0 - 204 * v1) * t + 420 * p) / (6 * t6);
        c[7] = ((j0 + j1) * t3 + (12 * a0 - 12 * a1) * t2 + (60 * v0 + 60 * v1) * t - 120 * p) / (6 * t7);
        break;
    }
}

static void fmt_data(char *buf, size_t n, int nd, double ts, double const *b0, double const *b1)
{
    static char const L[4] = {'p', 'v', 'a', 'j'};
    int o = snprintf(buf, n, "ts=%a", ts);
    for (int k = 0; k < nd && o > 0 && (size_t)o < n; ++k)
    {
        o += snprintf(buf + o, n - (size_t)o, " %c0=%a %c1=%a", L[k], b0[k], L[k], b1[k]);
    }
}
static void fmt_data_g(char *buf, size_t n, int nd, double ts, double const *b0, double const *b1)
{
    static char const L[4] = {'p', 'v', 'a', 'j'};
    int o = snprintf(buf, n, "ts=%.9g", ts);
    for (int k = 0; k < nd && o > 0 && (size_t)o < n; ++k)
    {
        o += snprintf(buf + o, n - (size_t)o, " %c0=%.6g %c1=%.6g", L[k], b0[k], L[k], b1[k]);
    }
}

enum { MODE_MAIN, MODE_SPARSE, MODE_EXACT };
static int sampled[12]; /* 0..8: trajectory (mode*3 + order index), 9/10: poly small-int/real */

static void check_traj(traj_t *t, double ts, double const *b0, double const *b1, int mode, vf_rng *r, unsigned idx)
{
    int const ord = t->ord, oi = t->oi, nd = t->nd, nf = t->nf, nc = t->nc;
    char data[420], key[96], where[120];
    double S = 0, tp = 1, endratio[4] = {0, 0, 0, 0}, jer0 = 0;
    q_t dq[8], docc[8];

    fmt_data(data, sizeof(data), nd, ts, b0, b1);
    vf_log("a_trajpoly%d_gen %s, then c0..c%d, pos/vel/acc%s at 0, ts and query points", ord, data, nf - 1, ord == 7 ? "/jer" : "");
    traj_gen(t, ts, b0, b1);
    ++vf.evals;
    snprintf(where, sizeof(where), "case %" PRIu64 " #%u ts=%.6g", vf.case_no, idx, ts);
    for (int k = 0; k < nd; ++k)
    {
        S += (fabs(b0[k]) + fabs(b1[k])) * tp;
        tp *= ts;
    }

    /* c0 accessor: the stored coefficients */
    traj_coef(t, 0);
    ct(0, ACC_CT[0]);
    if (memcmp(t->cd[0], t->c, sizeof(double) * (size_t)nc) != 0)
    {
        snprintf(key, sizeof(key), "trajpoly%d/c0/not-the-stored-coefficients", ord);
        vf_viol(key, "%s", data);
    }

    /* exact regime: stored coefficients equal the documented closed forms exactly */
    if (mode == MODE_EXACT)
    {
        doc_coef(ord, ts, b0, b1, docc);
        for (int i = 0; i < nc; ++i)
        {
            ct(1, "exact/coefficient==documented-closed-form");
            if (!((q_t)t->c[i] == docc[i]))
            {
                snprintf(key, sizeof(key), "trajpoly%d/exact/c%d-not-documented-value", ord, i);
                vf_viol(key, "%s: c[%d]=%a documented closed form gives %a", data, i, t->c[i], (double)docc[i]);
            }
        }
    }

    /* initial conditions */
    for (int k = 0; k < nd; ++k)
    {
        double got = traj_out(t, k, 0.0);
        ct(2 + k, T0_CT[k]);
        if (k < 3)
        {
            if (!(got == b0[k]))
            {
                snprintf(key, sizeof(key), "trajpoly%d/t0/%s-not-exactly-initial-value", ord, DN[k]);
                vf_viol(key, "%s: %s(0)=%a wanted %a", data, DN[k], got, b0[k]);
            }
        }
        else
        {
            jer0 = b0[k] == 0 ? (got == 0 ? 0 : INFINITY) : ulps_off(got, b0[k]);
            mx(M_JER0, "t0/jer-ulps", jer0, where);
            if (!(jer0 <= ULP_TOL))
            {
                snprintf(key, sizeof(key), "trajpoly%d/t0/jer-more-than-4ulp-from-initial-value", ord);
                vf_viol(key, "%s: jer(0)=%a wanted %a (%g ulp)", data, got, b0[k], jer0);
            }
            if (mode == MODE_EXACT)
            {
                ct(6, "exact/jer(0)==j0-bitwise");
                if (!(got == b0[k]))
                {
                    snprintf(key, sizeof(key), "trajpoly%d/exact/jer0-not-exact", ord);
                    vf_viol(key, "%s: jer(0)=%a wanted %a", data, got, b0[k]);
                }
            }
        }
    }

    /* final conditions */
    tp = 1;
    for (int k = 0; k < nd; ++k)
    {
        double got = traj_out(t, k, ts);
        double res = (double)fabsq((q_t)got - b1[k]) * tp;
        double ratio = S > 0 ? res / (EPS * S) : (res == 0 ? 0.0 : INFINITY);
        tp *= ts;
        endratio[k] = ratio;
        ct(8 + oi * 4 + k, END_CT[oi][k]);
        mx(M_END + oi * 4 + k, END_MAX[oi][k], ratio, where);
        if (!(ratio <= C_END[oi]))
        {
            snprintf(key, sizeof(key), "trajpoly%d/end/%s-misses-final-value", ord, DN[k]);
            vf_viol(key, "%s: %s(ts)=%a wanted %a; scaled residual %.3g = %.3g*eps*S > %g*eps*S (S=%.6g)", data, DN[k], got, b1[k],
                    res, ratio, C_END[oi], S);
        }
        if (mode == MODE_EXACT)
        {
            ct(20 + oi, oi == 0 ? "exact/end3-bitwise" : oi == 1 ? "exact/end5-bitwise" : "exact/end7-bitwise");
            if (!(got == b1[k]))
            {
                snprintf(key, sizeof(key), "trajpoly%d/exact/end-%s-not-exact", ord, DN[k]);
                vf_viol(key, "%s: %s(ts)=%a wanted exactly %a", data, DN[k], got, b1[k]);
            }
        }
    }

    /* derivative coefficient accessors */
    for (int k = 1; k < nf; ++k)
    {
        traj_coef(t, k);
        for (int i = 0; i < nc - k; ++i)
        {
            q_t ref = (q_t)t->c[i + k] * ffact(i + k, k); /* exact: 53 + 8 bits */
            double u = ref == 0 ? (t->cd[k][i] == 0 ? 0 : INFINITY) : ulps_off(t->cd[k][i], ref);
            ct(24 + k, ACC_CT[k]);
            mx(M_ACC + k - 1, ACC_MAX[k], u, where);
            if (!(u <= ULP_TOL))
            {
                snprintf(key, sizeof(key), "trajpoly%d/c%d/element-not-derivative-coefficient", ord, k);
                vf_viol(key, "%s: c%d[%d]=%a wanted %d*c[%d]=%a (%g ulp)", data, k, i, t->cd[k][i], ffact(i + k, k), i + k, (double)ref, u);
            }
        }
    }

    /* outputs at query times: Horner of the accessor coefficients, and the exact derivative of the position polynomial */
    for (int q = 0; q < 3; ++q)
    {
        double x;
        if (mode == MODE_EXACT)
        {
            static int const Q4[8] = {-2, -1, 1, 2, 3, 4, 5, 6};
            x = ts * (double)Q4[vf_below(r, 8)] / 4;
        }
        else if (q < 2) { x = ts * vf_unit(r); }
        else { x = ts * vf_uniform(r, -0.5, 1.5); }
        for (int k = 0; k < nf; ++k)
        {
            int const m = nc - k;
            double got = traj_out(t, k, x);
            href h = horner_asc(t->cd[k], m, x);
            double ratio = ratio_of(fabsq((q_t)got - h.val), gam(2 * m) * h.mag);
            ct(28 + k, HOR_CT[k]);
            mx(M_HORNER + k, HOR_MAX[k], ratio, where);
            if (!(ratio <= 1))
            {
                snprintf(key, sizeof(key), "trajpoly%d/%s/not-horner-of-c%d", ord, DN[k], k);
                vf_viol(key, "%s: %s(%a)=%a, Horner of c%d gives %a (error %.3g x bound)", data, DN[k], x, got, k, (double)h.val, ratio);
            }
            if (h.exact)
            {
                ct(32, "output-exact-when-recurrence-is-exact");
                if (!(got == (double)h.val))
                {
                    snprintf(key, sizeof(key), "trajpoly%d/%s/inexact-on-exactly-computable-data", ord, DN[k]);
                    vf_viol(key, "%s: %s(%a)=%a, exact value %a", data, DN[k], x, got, (double)h.val);
                }
            }
            if (k >= 1)
            {
                q_t mag, ref;
                for (int i = 0; i < m; ++i) { dq[i] = (q_t)t->c[i + k] * ffact(i + k, k); }
                ref = powsum_q(dq, m, x, &mag);
                ratio = ratio_of(fabsq((q_t)got - ref), gam(2 * m + 4) * mag);
                ct(33 + k, DER_CT[k]);
                mx(M_DERIV + k - 1, DER_MAX[k], ratio, where);
                if (!(ratio <= 1))
                {
                    snprintf(key, sizeof(key), "trajpoly%d/%s/not-derivative-of-position-polynomial", ord, DN[k]);
                    vf_viol(key, "%s: %s(%a)=%a, d^%d/dx^%d of the stored position polynomial is %a (error %.3g x bound)", data, DN[k], x,
                            got, k, k, (double)ref, ratio);
                }
            }
        }
    }

    /* cell: (order, decade of ts, sign pattern of the boundary data) */
    {
        uint64_t signs = 0;
        int dec = (int)floor(log10(ts));
        for (int k = 0; k < nd; ++k) { signs = signs << 2 | (uint64_t)(signbit(b0[k]) ? 2 : 0) | (uint64_t)(signbit(b1[k]) ? 1 : 0); }
        vf_distinct(vf_hash64(vf_hash64(vf_hash64(15, (uint64_t)ord), (uint64_t)(dec + 100)), signs));
    }

    if (!vf.case_viol && !sampled[mode * 3 + oi] && vf_want_sample() && (mode != MODE_SPARSE))
    {
        char g[300], js[48] = "";
        sampled[mode * 3 + oi] = 1;
        if (ord == 7) { snprintf(js, sizeof(js), ", jer(0) %.2g ulp off j0", jer0); }
        fmt_data_g(g, sizeof(g), nd, ts, b0, b1);
        if (mode == MODE_EXACT)
        {
            vf_sample("exact regime, a_trajpoly%d_gen(%s): all %d coefficients equal the documented closed forms exactly, "
                      "pos/vel%s at ts equal the final values exactly, outputs at ts*k/4 exact",
                      ord, g, nc, ord == 3 ? "" : ord == 5 ? "/acc" : "/acc/jer and jer(0)");
        }
        else
        {
            char rs[160];
            int o2 = 0;
            for (int k = 0; k < nd; ++k) { o2 += snprintf(rs + o2, sizeof(rs) - (size_t)o2, " %s %.3g", END_MAX[oi][k] + 5, endratio[k]); }
            vf_sample("a_trajpoly%d_gen(%s): pos(0),vel(0)%s exact%s; end residuals/(eps*S):%s (bound %g); c1..c%d within 4 ulp; "
                      "outputs at 3 query times vs quad Horner of c0..c%d and vs exact derivative of pos",
                      ord, g, ord == 3 ? "" : ",acc(0)", js, rs, C_END[oi], nf - 1, nf - 1);
        }
    }
}

/* --------------------------------------------------------------- data generators */
static double gen_ts(vf_rng *r)
{
    if (vf_chance(r, 1, 4)) { return ldexp(1.0, (int)vf_range(r, -13, 13)); }
    /* "all positive durations over many orders of magnitude": one draw in five uses the wide range over which
       ts^-7 * |data| (septic) still stays finite; the end-condition bound C*eps*S scales with ts by construction */
    if (vf_chance(r, 1, 5)) { return vf_logu(r, getenv("VF_TSLO") ? atof(getenv("VF_TSLO")) : -38, getenv("VF_TSHI") ? atof(getenv("VF_TSHI")) : 38); }
    return vf_logu(r, -4, 4);
}
static double gen_val(vf_rng *r) { return vf_sign(r) * vf_logu(r, -3, 3); }
static double gen_sparse(vf_rng *r)
{
    switch (vf_below(r, 3))
    {
    case 0: return 0.0;
    case 1: return vf_sign(r) * (double)vf_range(r, 1, 100);
    default: return gen_val(r);
    }
}
static double gen_int(vf_rng *r, int hi)
{
    return vf_sign(r) * (double)vf_range(r, 1, hi);
}

static void case_main(int ord, vf_rng *r)
{
    traj_t t;
    traj_new(&t, ord);
    for (unsigned i = 0; i < BATCH; ++i)
    {
        double b0[4] = {0, 0, 0, 0}, b1[4] = {0, 0, 0, 0};
        double ts = gen_ts(r);
        int sparse = (i % 16) == 15;
        for (int k = 0; k < t.nd; ++k)
        {
            b0[k] = sparse ? gen_sparse(r) : gen_val(r);
            b1[k] = sparse ? gen_sparse(r) : gen_val(r);
        }
        if ((i % 16) == 7)
        {
            /* boundary data that is ALMOST what a lower-order motion (rest, constant velocity, constant acceleration) would have: consistent data with the end position
               moved by a relative 2^-k, k = 6..52 - every scale between "clearly different" and "one rounding". Exactly consistent data (round numbers, grids) and
               rounding-level deviations (1 +- ulps) bracket this band without entering it (seeded change C15-N: a "cruise segment" shortcut that zeroes the higher
               coefficients when p1 - p0 is within sqrt(eps) of v0 ts, "to remove rounding noise at segment joints") */
            int const m = (int)vf_below(r, 3), kk = (int)vf_range(r, 6, 52);
            double const dl = ldexp(vf_sign(r), -kk), v = gen_val(r), a = t.nd > 2 ? gen_val(r) : 0;
            for (int k = 0; k < t.nd; ++k) { b0[k] = b1[k] = 0; }
            b0[0] = vf_chance(r, 1, 2) ? 0 : gen_val(r);
            if (m == 0) { b1[0] = b0[0] + (b0[0] != 0 ? b0[0] * dl : dl); }
            else if (m == 1 || t.nd <= 2) { b0[1] = b1[1] = v; b1[0] = b0[0] + v * ts * (1 + dl); }
            else { b0[1] = v; b0[2] = b1[2] = a; b1[1] = v + a * ts; b1[0] = b0[0] + (v * ts + a * ts * ts / 2) * (1 + dl); }
            VF_COUNT("data-almost-consistent-with-a-lower-order-motion");
        }
        check_traj(&t, ts, b0, b1, sparse ? MODE_SPARSE : MODE_MAIN, r, i);
    }
    traj_del(&t);
}

/* --------------------------------------------------------------- the same evaluator called with the same (object, time) around a change of the object
 * A caller that re-plans ONE object (chained segments, one scratch object for several axes, ctx->c[0] += offset) and evaluates it before and after calls
 * the same function with the same argument values twice in one function.  If the header promises the compiler more than the evaluators keep - e.g. that
 * they read nothing but their arguments (seeded change C15-L: `__attribute__((const))` on pos / vel / acc / jer, which read ctx->c[]) - the second call is
 * merged with the first and returns the value of the OLD plan.  The library itself is byte-identical; only callers compiled with optimisation and the
 * header in view see it.  Each function below is such a caller; the expected values come from a second object planned once (twin). */
#define NOINL __attribute__((noinline))
static NOINL void replan3(a_trajpoly3 *c, double ts, double const *a, double const *b, double x, double *o)
{
    a_trajpoly3_gen(c, ts, a[0], a[1], a[2], a[3]);
    o[0] = a_trajpoly3_pos(c, x); o[1] = a_trajpoly3_vel(c, x); o[2] = a_trajpoly3_acc(c, x);
    a_trajpoly3_gen(c, ts, b[0], b[1], b[2], b[3]);
    o[3] = a_trajpoly3_pos(c, x); o[4] = a_trajpoly3_vel(c, x); o[5] = a_trajpoly3_acc(c, x);
    c->c[0] += 0.5;
    o[6] = a_trajpoly3_pos(c, x);
}
static NOINL void replan5(a_trajpoly5 *c, double ts, double const *a, double const *b, double x, double *o)
{
    a_trajpoly5_gen(c, ts, a[0], a[1], a[2], a[3], a[4], a[5]);
    o[0] = a_trajpoly5_pos(c, x); o[1] = a_trajpoly5_vel(c, x); o[2] = a_trajpoly5_acc(c, x);
    a_trajpoly5_gen(c, ts, b[0], b[1], b[2], b[3], b[4], b[5]);
    o[3] = a_trajpoly5_pos(c, x); o[4] = a_trajpoly5_vel(c, x); o[5] = a_trajpoly5_acc(c, x);
    c->c[0] += 0.5;
    o[6] = a_trajpoly5_pos(c, x);
}
static NOINL void replan7(a_trajpoly7 *c, double ts, double const *a, double const *b, double x, double *o)
{
    a_trajpoly7_gen(c, ts, a[0], a[1], a[2], a[3], a[4], a[5], a[6], a[7]);
    o[0] = a_trajpoly7_pos(c, x); o[1] = a_trajpoly7_vel(c, x); o[2] = a_trajpoly7_acc(c, x); o[7] = a_trajpoly7_jer(c, x);
    a_trajpoly7_gen(c, ts, b[0], b[1], b[2], b[3], b[4], b[5], b[6], b[7]);
    o[3] = a_trajpoly7_pos(c, x); o[4] = a_trajpoly7_vel(c, x); o[5] = a_trajpoly7_acc(c, x); o[8] = a_trajpoly7_jer(c, x);
    c->c[0] += 0.5;
    o[6] = a_trajpoly7_pos(c, x);
}
static NOINL void once3(a_trajpoly3 *c, double ts, double const *b, double x, double *o) { a_trajpoly3_gen(c, ts, b[0], b[1], b[2], b[3]); o[3] = a_trajpoly3_pos(c, x); o[4] = a_trajpoly3_vel(c, x); o[5] = a_trajpoly3_acc(c, x); }
static NOINL void once5(a_trajpoly5 *c, double ts, double const *b, double x, double *o) { a_trajpoly5_gen(c, ts, b[0], b[1], b[2], b[3], b[4], b[5]); o[3] = a_trajpoly5_pos(c, x); o[4] = a_trajpoly5_vel(c, x); o[5] = a_trajpoly5_acc(c, x); }
static NOINL void once7(a_trajpoly7 *c, double ts, double const *b, double x, double *o) { a_trajpoly7_gen(c, ts, b[0], b[1], b[2], b[3], b[4], b[5], b[6], b[7]); o[3] = a_trajpoly7_pos(c, x); o[4] = a_trajpoly7_vel(c, x); o[5] = a_trajpoly7_acc(c, x); o[8] = a_trajpoly7_jer(c, x); }
static void case_replan(vf_rng *r)
{
    static char const *const Q[9] = {"pos", "vel", "acc", "pos", "vel", "acc", "pos-after-c0-changed", "jer", "jer"};
    for (unsigned i = 0; i < BATCH / 4 + 1; ++i)
    {
        int const ord = 3 + 2 * (int)vf_below(r, 3);
        double a[8], b[8], o[9] = {0}, w[9] = {0}, ts = vf_logu(r, -1, 1), x;
        for (int k = 0; k < 8; ++k) { a[k] = vf_uniform(r, -10, 10); b[k] = vf_uniform(r, -10, 10); }
        x = ts * vf_uniform(r, 0.05, 0.95);
        vf_log("trajpoly%d: plan, evaluate at x=%a, re-plan the same object, evaluate at the same x, c[0] += 0.5, evaluate again", ord, x);
        ++vf.evals;
        VF_COUNT("trajpoly/evaluator-called-again-after-object-changed");
        if (ord == 3) { a_trajpoly3 c, t; replan3(&c, ts, a, b, x, o); once3(&t, ts, b, x, w); }
        else if (ord == 5) { a_trajpoly5 c, t; replan5(&c, ts, a, b, x, o); once5(&t, ts, b, x, w); }
        else { a_trajpoly7 c, t; replan7(&c, ts, a, b, x, o); once7(&t, ts, b, x, w); }
        for (int k = 3; k < 9; ++k)
        {
            double const want = k == 6 ? w[3] + 0.5 : w[k];
            int const ok = k == 6 ? fabs(o[6] - want) <= 4 * DBL_EPSILON * (fabs(want) + 0.5) : memcmp(&o[k], &w[k], sizeof(double)) == 0;
            if ((k == 7) || (k == 8 && ord != 7)) { continue; }
            if (!ok)
            {
                char key[96];
                snprintf(key, sizeof(key), "trajpoly%d/%s/value-of-the-previous-plan-after-the-object-changed", ord, Q[k]);
                vf_viol(key, "trajpoly%d: %s(ctx, %a) = %a after the object was re-planned / changed in the same function; a second object planned once gives %a (first plan gave %a)", ord, Q[k], x, o[k],
                        want, o[k == 6 ? 3 : k == 8 ? 7 : k - 3]);
            }
        }
    }
}

static void case_exact(vf_rng *r)
{
    static double const TS[3] = {1.0, 2.0, 0.5};
    traj_t t[3];
    traj_new(&t[0], 3);
    traj_new(&t[1], 5);
    traj_new(&t[2], 7);
    for (unsigned i = 0; i < BATCH; ++i)
    {
        traj_t *tt = &t[i % 3];
        double b0[4] = {0, 0, 0, 0}, b1[4] = {0, 0, 0, 0};
        double ts = TS[vf_below(r, 3)];
        int hi = vf_chance(r, 1, 4) ? 9 : 1000;
        for (int k = 0; k < tt->nd; ++k)
        {
            if (k < 3)
            {
                b0[k] = gen_int(r, hi);
                b1[k] = gen_int(r, hi);
            }
            else
            {
                /* jerks are multiples of 3: then every septic coefficient is a dyadic rational (header comment) */
                b0[k] = 3 * gen_int(r, hi > 9 ? 333 : 3);
                b1[k] = 3 * gen_int(r, hi > 9 ? 333 : 3);
            }
        }
        check_traj(tt, ts, b0, b1, MODE_EXACT, r, i);
    }
    traj_del(&t[0]);
    traj_del(&t[1]);
    traj_del(&t[2]);
}

/* --------------------------------------------------------------- a_poly_eval / a_poly_evar / a_poly_swap */
static double *dup_exact(double const *a, int n)
{
    double *b = (double *)malloc(sizeof(double) * (size_t)n);
    if (n) { memcpy(b, a, sizeof(double) * (size_t)n); }
    return b;
}
static int is_reversed(double const *b, double const *a, int n)
{
    for (int i = 0; i < n; ++i)
    {
        if (memcmp(&b[i], &a[n - 1 - i], sizeof(double)) != 0) { return 0; }
    }
    return 1;
}

static void check_poly(vf_rng *r, unsigned idx)
{
    int const n = (int)vf_range(r, 0, 13); /* degrees 0..12, and the empty polynomial */
    int const cls = (int)vf_below(r, 4);
    double *a = (double *)malloc(sizeof(double) * (size_t)n); /* exact size; n = 0: zero-byte block, any read is an ASan report */
    double x;
    char txt[700], where[100];
    int o;
    static char const *const CLS[4] = {"small-int", "real", "wide-range", "special-x"};

    switch (cls)
    {
    case 0:
    {
        static double const X[12] = {0.5, -0.5, 0.25, -0.25, 1.5, -1.5, 2, -2, 3, -3, 4, -4};
        for (int i = 0; i < n; ++i) { x = (double)vf_range(r, -9, 9); a[i] = x; }
        x = X[vf_below(r, 12)];
        break;
    }
    case 1:
        for (int i = 0; i < n; ++i) { a[i] = gen_val(r); }
        x = vf_sign(r) * vf_logu(r, -2, 1.5);
        break;
    case 2:
        for (int i = 0; i < n; ++i) { a[i] = vf_sign(r) * vf_logu(r, -6, 6); }
        x = vf_sign(r) * vf_logu(r, -3, 2);
        break;
    default:
    {
        static double const X[6] = {0.0, 1.0, -1.0, 2.0, -0.5, 10.0};
        for (int i = 0; i < n; ++i) { a[i] = vf_chance(r, 1, 3) ? 0.0 : vf_chance(r, 1, 2) ? (double)vf_range(r, -100, 100) : gen_val(r); }
        x = X[vf_below(r, 6)];
        break;
    }
    }
    o = snprintf(txt, sizeof(txt), "n=%d x=%a a={", n, x);
    for (int i = 0; i < n && (size_t)o < sizeof(txt) - 40; ++i) { o += snprintf(txt + o, sizeof(txt) - (size_t)o, "%s%a", i ? "," : "", a[i]); }
    snprintf(txt + o, sizeof(txt) - (size_t)o, "}");
    vf_log("a_poly_eval/a_poly_evar/a_poly_swap (+ pointer-pair forms, exported twins) %s %s", CLS[cls], txt);
    snprintf(where, sizeof(where), "case %" PRIu64 " #%u n=%d x=%.6g", vf.case_no, idx, n, x);
    ++vf.evals;

    if (n == 0)
    {
        double e = a_poly_eval(a, 0, x), v = a_poly_evar(a, 0, x), xe = vfx_poly_eval(a, 0, x), xv = vfx_poly_evar(a, 0, x);
        VF_COUNT("poly/n=0-returns-0");
        if (!(e == 0)) { vf_viol("poly_eval/n=0-not-0", "a_poly_eval(a,0,%a)=%a", x, e); }
        if (!(v == 0)) { vf_viol("poly_evar/n=0-not-0", "a_poly_evar(a,0,%a)=%a", x, v); }
        if (!(xe == 0)) { vf_viol("poly_eval/exported/n=0-not-0", "exported a_poly_eval(a,0,%a)=%a", x, xe); }
        if (!(xv == 0)) { vf_viol("poly_evar/exported/n=0-not-0", "exported a_poly_evar(a,0,%a)=%a", x, xv); }
        a_poly_swap(a, 0); /* must not touch anything */
        vfx_poly_swap(a, 0);
        free(a);
        return;
    }

    {
        q_t qa[16], qr[16], mag_e, mag_v, ref_e, ref_v;
        href he = horner_asc(a, n, x), hv = horner_desc(a, n, x);
        double ye = a_poly_eval(a, (a_size)n, x), yv = a_poly_evar(a, (a_size)n, x);
        double pe = a_poly_eval_(a, a + n, x), pv = a_poly_evar_(a, a + n, x);
        double xe = vfx_poly_eval(a, (a_size)n, x), xv = vfx_poly_evar(a, (a_size)n, x);
        double re, rv;
        /* the same calls with the length as a literal at the call site: the header's inline copies see a compile-time constant there
         * (that is how applications usually call them: a literal, A_LEN(c)), and a body that tests __builtin_constant_p(n) takes
         * another path than for the run-time n above (seeded change C15-J: an unrolled "constant length" path for 3 <= n <= 8 in
         * a_poly_evar with a mirrored index) */
        {
            double le = 0, lv = 0, *b = dup_exact(a, n);
            switch (n)
            {
#define LIT(N) case N: le = a_poly_eval(a, N, x); lv = a_poly_evar(a, N, x); a_poly_swap(b, N); break;
                LIT(1) LIT(2) LIT(3) LIT(4) LIT(5) LIT(6) LIT(7) LIT(8) LIT(9) LIT(10) LIT(11) LIT(12) LIT(13)
#undef LIT
            default: le = ye; lv = yv; a_poly_swap(b, (a_size)n); break;
            }
            VF_COUNT("poly/literal-length-call-site");
            if (memcmp(&le, &ye, sizeof(double)) != 0) { vf_viol("poly_eval/literal-length-call-site-differs", "%s: a_poly_eval(a, <literal %d>, x)=%a, with a run-time length %a", txt, n, le, ye); }
            if (memcmp(&lv, &yv, sizeof(double)) != 0) { vf_viol("poly_evar/literal-length-call-site-differs", "%s: a_poly_evar(a, <literal %d>, x)=%a, with a run-time length %a", txt, n, lv, yv); }
            if (!is_reversed(b, a, n)) { vf_viol("poly_swap/literal-length-call-site-not-reversed", "%s: a_poly_swap(a, <literal %d>) did not reverse the coefficients", txt, n); }
            free(b);
        }
        for (int i = 0; i < n; ++i) { qa[i] = a[i]; qr[i] = a[n - 1 - i]; }
        ref_e = powsum_q(qa, n, x, &mag_e); /* sum a_i x^i */
        ref_v = powsum_q(qr, n, x, &mag_v); /* sum a_i x^(n-1-i) */

        re = ratio_of(fabsq((q_t)ye - ref_e), gam(2 * n) * mag_e);
        rv = ratio_of(fabsq((q_t)yv - ref_v), gam(2 * n) * mag_v);
        VF_COUNT("poly/eval==sum-a[i]x^i");
        mx(M_PEVAL, "poly_eval-vs-quad/gamma-bound", re, where);
        if (!(re <= 1))
        {
            vf_viol(cls == 0 ? "poly_eval/not-ascending-order-polynomial/small-int" : "poly_eval/not-ascending-order-polynomial/real",
                    "%s: a_poly_eval=%a, sum a[i]x^i=%a (error %.3g x bound)", txt, ye, (double)ref_e, re);
        }
        VF_COUNT("poly/evar==sum-a[i]x^(n-1-i)");
        mx(M_PEVAR, "poly_evar-vs-quad/gamma-bound", rv, where);
        if (!(rv <= 1))
        {
            vf_viol(cls == 0 ? "poly_evar/not-descending-order-polynomial/small-int" : "poly_evar/not-descending-order-polynomial/real",
                    "%s: a_poly_evar=%a, sum a[i]x^(n-1-i)=%a (error %.3g x bound)", txt, yv, (double)ref_v, rv);
        }
        if (he.exact)
        {
            VF_COUNT("poly/eval-bitwise-on-exact-data");
            if (!(ye == (double)he.val)) { vf_viol("poly_eval/inexact-on-exactly-computable-data", "%s: got %a exact %a", txt, ye, (double)he.val); }
        }
        if (hv.exact)
        {
            VF_COUNT("poly/evar-bitwise-on-exact-data");
            if (!(yv == (double)hv.val)) { vf_viol("poly_evar/inexact-on-exactly-computable-data", "%s: got %a exact %a", txt, yv, (double)hv.val); }
        }
        if (cls == 0)
        {
            /* small integers, dyadic x: both recurrences are exact in binary64 by construction */
            VF_COUNT("poly/small-int-data-is-exact");
            if (!he.exact || !hv.exact) { vf_viol("harness/small-int-class-not-exact", "%s", txt); }
        }
        VF_COUNT("poly/pointer-pair-form==size-form");
        if (memcmp(&pe, &ye, sizeof(double)) != 0) { vf_viol("poly_eval_/differs-from-a_poly_eval", "%s: %a vs %a", txt, pe, ye); }
        if (memcmp(&pv, &yv, sizeof(double)) != 0) { vf_viol("poly_evar_/differs-from-a_poly_evar", "%s: %a vs %a", txt, pv, yv); }
        VF_COUNT("poly/exported==inline");
        if (memcmp(&xe, &ye, sizeof(double)) != 0) { vf_viol("poly_eval/exported-differs-from-inline", "%s: %a vs %a", txt, xe, ye); }
        if (memcmp(&xv, &yv, sizeof(double)) != 0) { vf_viol("poly_evar/exported-differs-from-inline", "%s: %a vs %a", txt, xv, yv); }
        if (n == 1)
        {
            VF_COUNT("poly/n=1-returns-a[0]");
            if (memcmp(&ye, &a[0], sizeof(double)) != 0) { vf_viol("poly_eval/n=1-not-a0", "%s: %a", txt, ye); }
            if (memcmp(&yv, &a[0], sizeof(double)) != 0) { vf_viol("poly_evar/n=1-not-a0", "%s: %a", txt, yv); }
        }

        /* order reversal */
        {
            double *b = dup_exact(a, n), *c = dup_exact(a, n), *d = dup_exact(a, n);
            double es, vs;
            a_poly_swap(b, (a_size)n);
            VF_COUNT("poly/swap-reverses");
            if (!is_reversed(b, a, n))
            {
                vf_viol(n & 1 ? "poly_swap/not-a-reversal/odd-n" : "poly_swap/not-a-reversal/even-n", "%s: b[0]=%a b[n-1]=%a b[n/2]=%a", txt, b[0],
                        b[n - 1], b[n / 2]);
            }
            a_poly_swap_(c, c + n);
            if (!is_reversed(c, a, n)) { vf_viol(n & 1 ? "poly_swap_/not-a-reversal/odd-n" : "poly_swap_/not-a-reversal/even-n", "%s", txt); }
            vfx_poly_swap(d, (a_size)n);
            if (!is_reversed(d, a, n)) { vf_viol("poly_swap/exported/not-a-reversal", "%s", txt); }
            es = a_poly_eval(b, (a_size)n, x);
            vs = a_poly_evar(b, (a_size)n, x);
            VF_COUNT("poly/eval(swap(a))==evar(a)-bitwise");
            if (memcmp(&es, &yv, sizeof(double)) != 0) { vf_viol("poly_eval/eval-of-swapped-differs-from-evar", "%s: eval(swap(a))=%a evar(a)=%a", txt, es, yv); }
            if (memcmp(&vs, &ye, sizeof(double)) != 0) { vf_viol("poly_evar/evar-of-swapped-differs-from-eval", "%s: evar(swap(a))=%a eval(a)=%a", txt, vs, ye); }
            a_poly_swap(b, (a_size)n);
            a_poly_swap_(c, c + n);
            vfx_poly_swap(d, (a_size)n);
            VF_COUNT("poly/swap-is-involution");
            if (memcmp(b, a, sizeof(double) * (size_t)n) != 0) { vf_viol("poly_swap/swap-twice-not-identity", "%s", txt); }
            if (memcmp(c, a, sizeof(double) * (size_t)n) != 0) { vf_viol("poly_swap_/swap-twice-not-identity", "%s", txt); }
            if (memcmp(d, a, sizeof(double) * (size_t)n) != 0) { vf_viol("poly_swap/exported/swap-twice-not-identity", "%s", txt); }
            free(b);
            free(c);
            free(d);
        }

        if (!vf.case_viol && vf_want_sample() && n >= 5 && ((cls == 0 && !sampled[9]) || (cls == 1 && !sampled[10])))
        {
            sampled[cls == 0 ? 9 : 10] = 1;
            vf_sample("a_poly_eval/evar %s (%s): eval=%.17g evar=%.17g, %s; swap reverses, swap twice = identity, eval(swap)==evar bitwise, "
                      "pointer-pair and exported forms identical",
                      txt, CLS[cls], ye, yv,
                      cls == 0 ? "both equal the exact integer-arithmetic value bitwise" : "errors vs __float128 power sums within gamma_2n*sum|a_i||x|^i");
            (void)re;
        }
    }
    free(a);
}

static void case_poly(vf_rng *r)
{
    for (unsigned i = 0; i < 2 * BATCH; ++i) { check_poly(r, i); }
}

/* --------------------------------------------------------------- plan */
static uint64_t vf_ncases(int tier) { return tier ? 131072 : 4096; }

static void vf_case(uint64_t c, vf_rng *r)
{
    /* the kind is a hash of the case number, so every stride through the plan (8/16 workers, --spread) meets every kind:
       1/8 cubic, 2/8 quintic, 3/8 septic (main + sparse regime), 1/8 exact regime (all orders), 1/8 a_poly_* */
    uint64_t z = c;
    switch (vf_splitmix(&z) % 8)
    {
    case 0: case_main(3, r); break;
    case 1:
    case 2: case_main(5, r); break;
    case 3:
    case 4:
    case 5: case_main(7, r); break;
    case 6: case_exact(r); case_replan(r); break;
    default: case_poly(r); break;
    }
}
