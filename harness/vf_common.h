/* vf_common.h - shared plumbing for the liba runtime-monitoring harnesses.
 *
 * A harness includes this header once (it defines main) and provides
 *   #define VF_PROP "Cxx"                               (before the include)
 *   static uint64_t vf_ncases(int tier);               tier 0 = quick, 1 = thorough
 *   static void vf_case(uint64_t case_no, vf_rng *r);   one fully deterministic case
 * and optionally vf_init()/vf_fini() by defining VF_HAVE_INIT / VF_HAVE_FINI.
 *
 * Protocol with bin/check (stdout, one JSON object per line):
 *   {"t":"viol","key":K,"case":N,"msg":M}       a monitor saw a refuting event
 *   {"t":"sum", ...}                             end-of-run accounting
 * A worker that dies (sanitizer abort, signal) leaves the number of the case it
 * was executing and the case's op log in the mmap'ed journal file.
 */
#ifndef VF_COMMON_H
#define VF_COMMON_H

#ifndef _GNU_SOURCE
#define _GNU_SOURCE 1
#endif
#include <stdint.h>
#include <stddef.h>
#include <stdio.h>
#include <stdlib.h>
#include <string.h>
#include <stdarg.h>
#include <inttypes.h>
#include <unistd.h>
#include <errno.h>
#include <fcntl.h>
#include <signal.h>
#include <sys/mman.h>
#ifdef VF_FENV_ROTATE
#include <fenv.h>
#endif
#if defined(VF_X87PC_ROTATE) && (defined(__x86_64__) || defined(__i386__))
#include <fpu_control.h>
#endif
#include <time.h>

/* ------------------------------------------------------------------ PRNG */
typedef struct
{
    uint64_t s[4];
} vf_rng;

static inline uint64_t vf_splitmix(uint64_t *x)
{
    uint64_t z = (*x += 0x9E3779B97F4A7C15ULL);
    z = (z ^ (z >> 30)) * 0xBF58476D1CE4E5B9ULL;
    z = (z ^ (z >> 27)) * 0x94D049BB133111EBULL;
    return z ^ (z >> 31);
}

static inline void vf_rng_seed(vf_rng *r, uint64_t a, uint64_t b, uint64_t c)
{
    uint64_t x = a * 0xD6E8FEB86659FD93ULL + 0x1234567;
    x ^= vf_splitmix(&x) + b * 0xA0761D6478BD642FULL;
    x ^= vf_splitmix(&x) + c * 0xE7037ED1A0B428DBULL;
    for (int i = 0; i < 4; ++i) { r->s[i] = vf_splitmix(&x); }
}

static inline uint64_t vf_rotl(uint64_t x, int k) { return (x << k) | (x >> (64 - k)); }

static inline uint64_t vf_u64(vf_rng *r)
{
    uint64_t const result = vf_rotl(r->s[1] * 5, 7) * 9;
    uint64_t const t = r->s[1] << 17;
    r->s[2] ^= r->s[0];
    r->s[3] ^= r->s[1];
    r->s[1] ^= r->s[2];
    r->s[0] ^= r->s[3];
    r->s[2] ^= t;
    r->s[3] = vf_rotl(r->s[3], 45);
    return result;
}

/* uniform in [0, n), n > 0 */
static inline uint64_t vf_below(vf_rng *r, uint64_t n)
{
    return (uint64_t)(((unsigned __int128)vf_u64(r) * n) >> 64);
}
/* uniform integer in [lo, hi] */
static inline int64_t vf_range(vf_rng *r, int64_t lo, int64_t hi)
{
    return lo + (int64_t)vf_below(r, (uint64_t)(hi - lo) + 1);
}
static inline int vf_chance(vf_rng *r, unsigned num, unsigned den)
{
    return vf_below(r, den) < num;
}
/* uniform in [0,1) with 53 bits */
static inline double vf_unit(vf_rng *r)
{
    return (double)(vf_u64(r) >> 11) * 0x1p-53;
}
/* uniform in [lo,hi) */
static inline double vf_uniform(vf_rng *r, double lo, double hi)
{
    return lo + (hi - lo) * vf_unit(r);
}
/* log-uniform magnitude in [10^lo, 10^hi) */
static inline double vf_logu(vf_rng *r, double lo, double hi)
{
    extern double pow(double, double);
    return pow(10.0, vf_uniform(r, lo, hi));
}
static inline double vf_sign(vf_rng *r) { return (vf_u64(r) & 1) ? -1.0 : 1.0; }

static inline uint64_t vf_hash64(uint64_t h, uint64_t v)
{
    h ^= v + 0x9E3779B97F4A7C15ULL + (h << 6) + (h >> 2);
    h *= 0xFF51AFD7ED558CCDULL;
    h ^= h >> 33;
    return h;
}
static inline uint64_t vf_hash_bytes(uint64_t h, void const *p, size_t n)
{
    unsigned char const *b = (unsigned char const *)p;
    for (size_t i = 0; i < n; ++i) { h = (h ^ b[i]) * 0x100000001B3ULL; }
    return vf_hash64(h, n);
}
static inline uint64_t vf_hash_str(char const *s) { return vf_hash_bytes(0xCBF29CE484222325ULL, s, strlen(s)); }

/* ------------------------------------------------------------- run state */
#define VF_JOURNAL_TEXT (1u << 16)
typedef struct
{
    uint64_t magic;
    uint64_t case_no;    /* case being executed, ~0 if none */
    uint64_t cases_done; /* completed by this process */
    uint32_t text_len;
    uint32_t truncated;
    char text[VF_JOURNAL_TEXT];
} vf_journal;

#define VF_MAX_COUNTERS 256
typedef struct
{
    char name[56];
    uint64_t n;
    double max;
    int is_max;
    char arg[120]; /* where the max was attained */
} vf_counter;

static struct
{
    uint64_t seed;
    unsigned worker, nworkers;
    int tier;
    int explain;
    int64_t only;
    uint64_t start;
    uint64_t maxcases;
    char const *config;
    char const *dfile;
    uint64_t case_no;
    uint64_t evals;
    uint64_t nviol;
    int case_viol;
    vf_journal *jr;
    vf_journal jr_local;
    vf_counter ctr[VF_MAX_COUNTERS];
    int nctr;
    /* distinct set */
    uint64_t *dset;
    size_t dcap, dnum;
    /* per-key violation print limiter */
    struct { uint64_t h; unsigned n; } vk[256];
    int nvk;
    char samples[8][480];
    int nsamples;
} vf;

/* ------------------------------------------------------------- JSON out */
static void vf_json_str(FILE *f, char const *s)
{
    fputc('"', f);
    for (; *s; ++s)
    {
        unsigned char c = (unsigned char)*s;
        if (c == '"' || c == '\\') { fputc('\\', f); fputc(c, f); }
        else if (c == '\n') { fputs("\\n", f); }
        else if (c < 0x20 || c >= 0x7f) { fprintf(f, "\\u%04x", c); }
        else { fputc(c, f); }
    }
    fputc('"', f);
}

/* ---------------------------------------------------------- op journal */
static void vf_log(char const *fmt, ...) __attribute__((format(printf, 1, 2)));
static void vf_log(char const *fmt, ...)
{
    va_list ap;
    vf_journal *j = vf.jr;
    if (vf.explain)
    {
        va_start(ap, fmt);
        vfprintf(stderr, fmt, ap);
        va_end(ap);
        fputc('\n', stderr);
    }
    if (j->truncated) { return; }
    va_start(ap, fmt);
    int room = (int)(VF_JOURNAL_TEXT - j->text_len);
    int n = vsnprintf(j->text + j->text_len, (size_t)room, fmt, ap);
    va_end(ap);
    if (n < 0 || n + 2 >= room)
    {
        j->truncated = 1;
        j->text[j->text_len] = 0;
        return;
    }
    j->text_len += (uint32_t)n;
    j->text[j->text_len++] = '\n';
    j->text[j->text_len] = 0;
}

/* keep the op log bounded in sweep cases: remember a position, rewind to it later */
static inline uint32_t vf_log_mark(void) { return vf.jr->text_len; }
static inline void vf_log_rewind(uint32_t mark)
{
    if (mark <= vf.jr->text_len)
    {
        vf.jr->text_len = mark;
        vf.jr->text[mark] = 0;
        vf.jr->truncated = 0;
    }
}

/* ------------------------------------------------------------ violations */
static void vf_viol(char const *key, char const *fmt, ...) __attribute__((format(printf, 2, 3)));
static void vf_viol(char const *key, char const *fmt, ...)
{
    char msg[1500];
    va_list ap;
    va_start(ap, fmt);
    vsnprintf(msg, sizeof(msg), fmt, ap);
    va_end(ap);
    ++vf.nviol;
    vf.case_viol = 1;
    uint64_t h = vf_hash_str(key);
    int i;
    for (i = 0; i < vf.nvk; ++i)
    {
        if (vf.vk[i].h == h) { break; }
    }
    if (i == vf.nvk)
    {
        if (vf.nvk < 256) { vf.vk[vf.nvk].h = h; vf.vk[vf.nvk].n = 0; ++vf.nvk; }
        else { i = 255; }
    }
    if (vf.vk[i].n++ >= 3 && !vf.explain) { return; }
    fputs("{\"t\":\"viol\",\"key\":", stdout);
    vf_json_str(stdout, key);
    fprintf(stdout, ",\"case\":%" PRIu64 ",\"config\":", vf.case_no);
    vf_json_str(stdout, vf.config);
    fputs(",\"msg\":", stdout);
    vf_json_str(stdout, msg);
    fputs(",\"log\":", stdout);
    {
        /* tail of the op log (at most 6000 bytes) */
        char const *t = vf.jr->text;
        size_t n = vf.jr->text_len;
        if (n > 6000) { t += n - 6000; }
        vf_json_str(stdout, t);
    }
    fputs("}\n", stdout);
    fflush(stdout);
    if (vf.explain) { fprintf(stderr, "VIOL %s: %s\n", key, msg); }
}

/* --------------------------------------------------------------- counters */
static int vf_counter_id(char const *name)
{
    for (int i = 0; i < vf.nctr; ++i)
    {
        if (strcmp(vf.ctr[i].name, name) == 0) { return i; }
    }
    if (vf.nctr >= VF_MAX_COUNTERS)
    {
        fprintf(stderr, "vf: too many counters (%s)\n", name);
        exit(2);
    }
    snprintf(vf.ctr[vf.nctr].name, sizeof(vf.ctr[0].name), "%s", name);
    return vf.nctr++;
}
/* count one evaluation of a monitor clause (name must be a string literal) */
#define VF_COUNT(name) VF_ADD(name, 1)
#define VF_ADD(name, k)                                  \
    do {                                                 \
        static int vf_i_ = -1;                           \
        if (vf_i_ < 0) { vf_i_ = vf_counter_id(name); } \
        vf.ctr[vf_i_].n += (uint64_t)(k);                \
    } while (0)
/* dynamic-name variants (slower) */
static inline void vf_count_dyn(char const *name, uint64_t k) { vf.ctr[vf_counter_id(name)].n += k; }
static inline void vf_max_dyn(char const *name, double v, char const *arg)
{
    vf_counter *c = &vf.ctr[vf_counter_id(name)];
    c->is_max = 1;
    ++c->n;
    if (v > c->max || c->n == 1)
    {
        c->max = v;
        if (arg) { snprintf(c->arg, sizeof(c->arg), "%s", arg); }
    }
}
#define VF_MAX(name, v)                                  \
    do {                                                 \
        static int vf_i_ = -1;                           \
        if (vf_i_ < 0) { vf_i_ = vf_counter_id(name); vf.ctr[vf_i_].is_max = 1; } \
        ++vf.ctr[vf_i_].n;                               \
        if ((v) > vf.ctr[vf_i_].max) { vf.ctr[vf_i_].max = (v); } \
    } while (0)

/* check a clause: counts the evaluation, reports if it fails */
#define VF_CHECK(name, cond, key, ...)           \
    do {                                         \
        VF_COUNT(name);                          \
        if (!(cond)) { vf_viol(key, __VA_ARGS__); } \
    } while (0)

/* ---------------------------------------------------------- distinct set */
static void vf_distinct(uint64_t h)
{
    if (h == 0) { h = 1; }
    if ((vf.dnum + 1) * 10 > vf.dcap * 7)
    {
        size_t ncap = vf.dcap ? vf.dcap * 2 : 1024;
        uint64_t *n = (uint64_t *)calloc(ncap, sizeof(uint64_t));
        if (!n) { fprintf(stderr, "vf: out of memory in distinct set\n"); exit(2); }
        for (size_t i = 0; i < vf.dcap; ++i)
        {
            uint64_t v = vf.dset[i];
            if (v)
            {
                size_t p = (size_t)(v * 0x9E3779B97F4A7C15ULL) & (ncap - 1);
                while (n[p]) { p = (p + 1) & (ncap - 1); }
                n[p] = v;
            }
        }
        free(vf.dset);
        vf.dset = n;
        vf.dcap = ncap;
    }
    size_t p = (size_t)(h * 0x9E3779B97F4A7C15ULL) & (vf.dcap - 1);
    while (vf.dset[p])
    {
        if (vf.dset[p] == h) { return; }
        p = (p + 1) & (vf.dcap - 1);
    }
    vf.dset[p] = h;
    ++vf.dnum;
}
static inline void vf_distinct_str(char const *s) { vf_distinct(vf_hash_str(s)); }

static void vf_sample(char const *fmt, ...) __attribute__((format(printf, 1, 2)));
static void vf_sample(char const *fmt, ...)
{
    if (vf.nsamples >= 8) { return; }
    va_list ap;
    va_start(ap, fmt);
    vsnprintf(vf.samples[vf.nsamples++], sizeof(vf.samples[0]), fmt, ap);
    va_end(ap);
}
static inline int vf_want_sample(void) { return vf.nsamples < 8; }

/* ---------------------------------------------------------------- driver */
/* ------------------------------------------------------------------ read-only operands
 * A `const` operand may live in storage that cannot be written at all (a static const table in .rodata or flash, a read-only mapping, an
 * object shared with other threads).  A routine that modifies such an operand temporarily and restores it before returning is invisible to
 * every snapshot comparison made after the call (seeded change C09-L: a_real_mulTT transposes its const operand Y in place, multiplies, and
 * transposes it back).  vf_ro_dup() gives a copy of an operand in an anonymous mapping that is PROT_READ while the library runs: any write
 * is a SIGSEGV with the library frame on the stack.  The copy ENDS at the end of the mapping, so a read past the operand faults as well.
 * vf_ro_pick(): deterministic 1-in-`every` choice per (case, call index), so that a replay of the case makes the same choices. */
static inline int vf_ro_pick(unsigned every)
{
    static uint64_t last_case = UINT64_MAX;
    static unsigned idx;
    if (vf.case_no != last_case) { last_case = vf.case_no; idx = 0; }
    return (vf_hash64(vf.case_no * 0x9E3779B97F4A7C15ULL + 0x726f, idx++) >> 33) % every == 0;
}
static inline void *vf_ro_dup(void const *src, size_t n)
{
    size_t const pg = 4096, len = ((n + pg - 1) / pg + (n ? 0 : 1)) * pg;
    unsigned char *m = (unsigned char *)mmap(NULL, len, PROT_READ | PROT_WRITE, MAP_PRIVATE | MAP_ANONYMOUS, -1, 0);
    if (m == MAP_FAILED) { fprintf(stderr, "vf: mmap failed\n"); exit(2); }
    if (n) { memcpy(m + len - n, src, n); }
    if (mprotect(m, len, PROT_READ)) { fprintf(stderr, "vf: mprotect failed\n"); exit(2); }
    return m + len - n;
}
static inline void vf_ro_free(void *p, size_t n)
{
    size_t const pg = 4096, len = ((n + pg - 1) / pg + (n ? 0 : 1)) * pg;
    munmap((unsigned char *)p + n - len, len);
}

static uint64_t vf_ncases(int tier);
static void vf_case(uint64_t case_no, vf_rng *r);
#ifdef VF_HAVE_INIT
static void vf_init(void);
#endif
#ifdef VF_HAVE_FINI
static void vf_fini(void);
#endif
#ifndef VF_PROP
#error "define VF_PROP before including vf_common.h"
#endif

static double vf_now(void)
{
    struct timespec ts;
    clock_gettime(CLOCK_MONOTONIC, &ts);
    return (double)ts.tv_sec + 1e-9 * (double)ts.tv_nsec;
}

static void vf_alarm_handler(int sig)
{
    (void)sig;
    static char const m[] = "\nvf: case watchdog fired\n";
    ssize_t w = write(2, m, sizeof(m) - 1);
    (void)w;
    _exit(124);
}

int main(int argc, char **argv)
{
    char const *journal = NULL;
    unsigned case_timeout = 0;
    uint64_t spread = 0; /* run about this many cases spread evenly over the plan (coverage measurement) */
    int hashed = 0;      /* shares of the case list by hash of the case number instead of by stride: a side configuration that runs only k of n
                            shares must not alias with a periodic case plan (case number -> function / container kind) */
    vf.seed = 1;
    vf.nworkers = 1;
    vf.only = -1;
    vf.config = "default";
    vf.maxcases = UINT64_MAX;
    for (int i = 1; i < argc; ++i)
    {
        char const *a = argv[i];
        char const *v = (i + 1 < argc) ? argv[i + 1] : "";
        if (!strcmp(a, "--seed")) { vf.seed = strtoull(v, NULL, 0); ++i; }
        else if (!strcmp(a, "--worker")) { vf.worker = (unsigned)strtoul(v, NULL, 0); ++i; }
        else if (!strcmp(a, "--nworkers")) { vf.nworkers = (unsigned)strtoul(v, NULL, 0); ++i; }
        else if (!strcmp(a, "--tier")) { vf.tier = !strcmp(v, "thorough"); ++i; }
        else if (!strcmp(a, "--only")) { vf.only = (int64_t)strtoull(v, NULL, 0); ++i; }
        else if (!strcmp(a, "--start")) { vf.start = strtoull(v, NULL, 0); ++i; }
        else if (!strcmp(a, "--maxcases")) { vf.maxcases = strtoull(v, NULL, 0); ++i; }
        else if (!strcmp(a, "--config")) { vf.config = v; ++i; }
        else if (!strcmp(a, "--journal")) { journal = v; ++i; }
        else if (!strcmp(a, "--dfile")) { vf.dfile = v; ++i; }
        else if (!strcmp(a, "--case-timeout")) { case_timeout = (unsigned)strtoul(v, NULL, 0); ++i; }
        else if (!strcmp(a, "--spread")) { spread = strtoull(v, NULL, 0); ++i; }
        else if (!strcmp(a, "--explain")) { vf.explain = 1; }
        else if (!strcmp(a, "--hashed-shares")) { hashed = 1; }
        else { fprintf(stderr, "vf: unknown option %s\n", a); return 2; }
    }
    if (vf.nworkers == 0) { vf.nworkers = 1; }
    vf.jr = &vf.jr_local;
    if (journal)
    {
        int fd = open(journal, O_RDWR | O_CREAT | O_TRUNC, 0644);
        if (fd < 0 || ftruncate(fd, (off_t)sizeof(vf_journal)) != 0) { perror("vf: journal"); return 2; }
        void *p = mmap(NULL, sizeof(vf_journal), PROT_READ | PROT_WRITE, MAP_SHARED, fd, 0);
        if (p == MAP_FAILED) { perror("vf: mmap"); return 2; }
        vf.jr = (vf_journal *)p;
        close(fd);
    }
    vf.jr->magic = 0x56464A524E4C3031ULL;
    vf.jr->case_no = UINT64_MAX;
    vf.jr->cases_done = 0;
    signal(SIGALRM, vf_alarm_handler);
    double t0 = vf_now();
#ifdef VF_HAVE_INIT
    vf_init();
#endif
    uint64_t total = vf_ncases(vf.tier);
    uint64_t ran = 0;
    uint64_t first, step, end = total;
    if (vf.only >= 0) { first = (uint64_t)vf.only; step = 1; end = first + 1; }
    else
    {
        step = vf.nworkers;
        first = vf.worker;
        if (spread || hashed) { step = 1; first = 0; }
        if (vf.start > first)
        {
            uint64_t k = (vf.start - first + step - 1) / step;
            first += k * step;
        }
    }
    for (uint64_t ci = first; ci < end && ran < vf.maxcases; ci += step)
    {
        vf_rng r;
        uint64_t c = ci;
        if (hashed && !spread && vf.only < 0 && (vf_hash64(0x5348415245ULL, ci) >> 17) % vf.nworkers != vf.worker) { continue; }
        if (spread && vf.only < 0)
        {
            /* coverage measurement: a pseudo-random spread over the plan (a fixed stride would alias with periodic plans) */
            if (ran >= spread) { break; }
            c = (uint64_t)(((unsigned __int128)(ran * 0x9E3779B97F4A7C15ULL + 0x1234567ULL) * total) >> 64);
        }
        vf_rng_seed(&r, vf.seed, vf_hash_str(VF_PROP), c);
        vf.case_no = c;
        vf.case_viol = 0;
        vf.jr->text_len = 0;
        vf.jr->truncated = 0;
        vf.jr->text[0] = 0;
        vf.jr->case_no = c;
#ifdef VF_FENV_ROTATE
        /* configuration "fenv": the caller's floating-point rounding mode is part of the execution environment and is never varied by an
         * ordinary test run; routines whose results are integers, bytes or links must not depend on it (seeded change C19-J: a square root
         * started from (a_u64)sqrt((double)x), exact under round-to-nearest, one too small under FE_DOWNWARD / FE_TOWARDZERO) */
        {
            static int const vf_modes[4] = {FE_DOWNWARD, FE_TOWARDZERO, FE_UPWARD, FE_TONEAREST};
            unsigned const m = (unsigned)(vf_hash64(vf.seed * 0x9E3779B97F4A7C15ULL + 0xfe, c) >> 40) & 3; /* a pure function of (seed, case): replays agree */
            fesetround(vf_modes[m]);
            vf_count_dyn("cases-run-under-a-directed-rounding-mode", m != 3);
        }
#endif
#if defined(VF_X87PC_ROTATE) && (defined(__x86_64__) || defined(__i386__))
        /* configuration "fenv" of the integer / container / codec checks only: the x87 PRECISION-CONTROL field of the calling thread (64-bit significand by default on
         * Linux, 53 bits on the BSDs and under MSVC, 24 bits under Direct3D 9 and some JIT runtimes) is thread state like the rounding mode, and routines whose results
         * are integers, bytes or links must not depend on it either (seeded change C19-O: an integer root through sqrtl((long double)x) and a +-1 fix-up, exact with a
         * 64-bit significand, off by up to 2^8 with 24 bits). Never applied where the library legitimately computes in long double. */
        {
            static unsigned short const vf_pc[3] = {_FPU_EXTENDED, _FPU_DOUBLE, _FPU_SINGLE};
            unsigned const k = (unsigned)((vf_hash64(vf.seed * 0x9E3779B97F4A7C15ULL + 0x87, c) >> 33) % 3);
            fpu_control_t cw;
            _FPU_GETCW(cw);
            cw = (fpu_control_t)((cw & ~_FPU_EXTENDED) | vf_pc[k]);
            _FPU_SETCW(cw);
            vf_count_dyn("cases-run-with-reduced-x87-precision-control", k != 0);
        }
#endif
        /* every configuration: the calling thread's errno is execution environment too. It is whatever an earlier, unrelated call left there; a
         * routine that tests it must have cleared it first (seeded change C15-M: `errno == ERANGE` after pow() without `errno = 0` before it
         * turns every plan into "hold position" for callers whose errno is stale). A pure function of (seed, case). */
        {
            static int const vf_errnos[8] = {0, ERANGE, EDOM, ENOMEM, EINTR, EINVAL, EAGAIN, ERANGE};
            unsigned const m = (unsigned)(vf_hash64(vf.seed * 0x9E3779B97F4A7C15ULL + 0xe44, c) >> 37) & 7;
            errno = vf_errnos[m];
            vf_count_dyn("cases-entered-with-a-stale-errno", m != 0);
        }
        if (case_timeout) { alarm(case_timeout); }
        if (vf.explain) { fprintf(stderr, "=== %s case %" PRIu64 " seed %" PRIu64 " config %s\n", VF_PROP, c, vf.seed, vf.config); }
#if defined(__x86_64__) && !defined(VF_OWN_FP_CONTROL)
        /* the floating-point CONTROL state of the calling thread (MXCSR rounding / flush-to-zero / denormals-are-zero / exception masks, x87 control word) is an
         * OUTPUT of every library call too: a routine that changes it for speed and forgets to put it back on one path leaves every later computation of the thread
         * in another arithmetic (seeded change C11-O: flush-to-zero set inside the norms and not restored on the early return for an infinite component). Compared
         * around the whole case; the harnesses that set it themselves restore it before they return (or define VF_OWN_FP_CONTROL). */
        {
            unsigned const mx0 = __builtin_ia32_stmxcsr() & 0xFFC0u;
            unsigned short cw0, cw1;
            __asm__ volatile("fnstcw %0" : "=m"(cw0));
            vf_case(c, &r);
            __asm__ volatile("fnstcw %0" : "=m"(cw1));
            if ((__builtin_ia32_stmxcsr() & 0xFFC0u) != mx0 || cw1 != cw0)
            {
                vf_viol("env/fp-control-state-left-changed", "MXCSR control bits 0x%04X -> 0x%04X, x87 control word 0x%04X -> 0x%04X across the case: a call returned with the thread's rounding / flush-to-zero / precision / mask settings changed",
                        mx0, __builtin_ia32_stmxcsr() & 0xFFC0u, cw0, cw1);
                __builtin_ia32_ldmxcsr((__builtin_ia32_stmxcsr() & ~0xFFC0u) | mx0);
                __asm__ volatile("fldcw %0" : : "m"(cw0));
            }
            vf_count_dyn("fp-control-state-compared-around-the-case", 1);
        }
#else
        vf_case(c, &r);
#endif
        if (case_timeout) { alarm(0); }
        vf.jr->case_no = UINT64_MAX;
        ++vf.jr->cases_done;
        ++ran;
    }
#ifdef VF_HAVE_FINI
    vf_fini();
#endif
    if (vf.dfile && vf.dnum)
    {
        FILE *f = fopen(vf.dfile, "wb");
        if (f)
        {
            for (size_t i = 0; i < vf.dcap; ++i)
            {
                if (vf.dset[i]) { fwrite(&vf.dset[i], 8, 1, f); }
            }
            fclose(f);
        }
    }
    fprintf(stdout, "{\"t\":\"sum\",\"prop\":\"%s\",\"config\":", VF_PROP);
    vf_json_str(stdout, vf.config);
    fprintf(stdout, ",\"worker\":%u,\"cases\":%" PRIu64 ",\"total_cases\":%" PRIu64 ",\"evals\":%" PRIu64
                    ",\"nviol\":%" PRIu64 ",\"distinct\":%zu,\"wall\":%.3f,\"counters\":{",
            vf.worker, ran, total, vf.evals, vf.nviol, vf.dnum, vf_now() - t0);
    int firstc = 1;
    for (int i = 0; i < vf.nctr; ++i)
    {
        if (vf.ctr[i].is_max) { continue; }
        if (!firstc) { fputc(',', stdout); }
        firstc = 0;
        vf_json_str(stdout, vf.ctr[i].name);
        fprintf(stdout, ":%" PRIu64, vf.ctr[i].n);
    }
    fputs("},\"max\":{", stdout);
    firstc = 1;
    for (int i = 0; i < vf.nctr; ++i)
    {
        if (!vf.ctr[i].is_max) { continue; }
        if (!firstc) { fputc(',', stdout); }
        firstc = 0;
        vf_json_str(stdout, vf.ctr[i].name);
        double m = vf.ctr[i].max;
        if (!(m == m) || m > 1e300 || m < -1e300) { m = 1e300; }
        fprintf(stdout, ":[%.6g,%" PRIu64 ",", m, vf.ctr[i].n);
        vf_json_str(stdout, vf.ctr[i].arg);
        fputc(']', stdout);
    }
    fputs("},\"samples\":[", stdout);
    for (int i = 0; i < vf.nsamples; ++i)
    {
        if (i) { fputc(',', stdout); }
        vf_json_str(stdout, vf.samples[i]);
    }
    fputs("]}\n", stdout);
    fflush(stdout);
    return 0;
}

#endif /* VF_COMMON_H */
