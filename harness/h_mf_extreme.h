/* C13, range clause over the WHOLE parameter domain (included by h_fuzzy.c and h_fuzzy_w.c; type-generic).
 *
 * "For every input and every well-ordered parameter set, each membership function returns a value in [0,1]."  The formula,
 * continuity and complementarity clauses of the main harness need parameters whose widths are well resolved; this one
 * needs nothing: parameters and inputs come from the edges of the working type - +-MAX, MAX/2, MAX/3, sqrt(MAX), 1, 3, eps,
 * MIN, the smallest subnormal, 0 - and from ADJACENT representable values (nextafter), sorted into a <= b <= c <= d, with
 * x taken from the same pool, from the parameters themselves, their neighbours and their midpoints.  What goes wrong
 * there: (a + b) / 2 overflowing or rounding onto an end point so that the wrong branch formula is evaluated (S/Z/Pi
 * shapes returned 2 and -1), inf/inf in a ramp whose width b - a overflows (NaN).  Only the range is judged (NaN is
 * outside it); nothing is said about the value inside [0,1].
 */
#include <math.h>
#define MFX_NEXT(x, y) _Generic((a_real)0, float: nextafterf, long double: nextafterl, default: nextafter)(x, y)

static a_real mfx_pool(vf_rng *r)
{
    a_real const M = A_REAL_MAX, m = A_REAL_MIN, e = A_REAL_EPSILON;
    a_real v;
    switch (vf_below(r, 14))
    {
    case 0: v = M; break;
    case 1: v = M / 2; break;
    case 2: v = M / 3; break;
    case 3: v = (a_real)sqrtl((long double)M); break;
    case 4: v = 1; break;
    case 5: v = 3; break;
    case 6: v = e; break;
    case 7: v = m; break;
    case 8: v = m * e; break; /* smallest subnormal */
    case 9: v = 0; break;
    case 10: v = M / 4 * 3; break;
    case 11: v = (a_real)vf_logu(r, -6, 6); break;
    case 12: v = (a_real)vf_range(r, 0, 9); break;
    default: v = m * e * (a_real)vf_range(r, 1, 9); break; /* small multiples of the smallest subnormal */
    }
    if (vf_chance(r, 1, 2)) { v = -v; }
    /* one time in four step to a neighbour (adjacent parameters) */
    switch (vf_below(r, 8))
    {
    case 0: v = MFX_NEXT(v, (a_real)INFINITY); break;
    case 1: v = MFX_NEXT(v, -(a_real)INFINITY); break;
    default: break;
    }
    if (!(v <= M)) { v = M; }
    if (!(v >= -M)) { v = -M; }
    return v;
}
static int mfx_cmp(void const *l, void const *r_)
{
    a_real const a = *(a_real const *)l, b = *(a_real const *)r_;
    return (a > b) - (a < b);
}
static void mfx_judge(char const *fam, char const *wsfx, a_real v, a_real x, a_real const *p, int np)
{
    ++vf.evals;
    VF_COUNT("mf-range-extreme-parameters");
    if (!(v >= 0 && v <= 1))
    {
        char key[96], par[200];
        int o = 0;
        for (int i = 0; i < np; ++i) { o += snprintf(par + o, sizeof(par) - (size_t)o, "%s%La", i ? ", " : "", (long double)p[i]); }
        snprintf(key, sizeof key, "mf_%s/range/extreme-parameters%s", fam, wsfx);
        vf_viol(key, "a_mf_%s(x=%La; %s) = %La (%.9Lg), outside [0,1]", fam, (long double)x, par, (long double)v, (long double)v);
    }
}
/* W: "" in the double harness, "/f32" or "/f80" in the companions */
static void mf_extreme(vf_rng *r, char const *wsfx, int ndraws)
{
    for (int k = 0; k < ndraws && !vf.case_viol; ++k)
    {
        a_real p[4], x, q[4];
        for (int i = 0; i < 4; ++i) { p[i] = mfx_pool(r); }
        /* often make two of them adjacent or equal */
        switch (vf_below(r, 6))
        {
        case 0: p[1] = MFX_NEXT(p[0], (a_real)INFINITY); break;
        case 1: p[3] = MFX_NEXT(p[2], (a_real)INFINITY); break;
        case 2: p[1] = p[0]; break;
        case 3: p[2] = p[1]; break;
        default: break;
        }
        for (int i = 0; i < 4; ++i) { if (!(p[i] <= A_REAL_MAX)) { p[i] = A_REAL_MAX; } }
        qsort(p, 4, sizeof p[0], mfx_cmp);
        switch (vf_below(r, 8))
        {
        case 0: x = p[vf_below(r, 4)]; break;
        case 1: x = MFX_NEXT(p[vf_below(r, 4)], (a_real)INFINITY); break;
        case 2: x = MFX_NEXT(p[vf_below(r, 4)], -(a_real)INFINITY); break;
        case 3: { int i = (int)vf_below(r, 3); x = p[i] / 2 + p[i + 1] / 2; break; }
        case 4: { int i = (int)vf_below(r, 3); x = p[i] + (p[i + 1] - p[i]) * (a_real)vf_unit(r); break; }
        default: x = mfx_pool(r); break;
        }
        if (!(x <= A_REAL_MAX)) { x = A_REAL_MAX; }
        if (!(x >= -A_REAL_MAX)) { x = -A_REAL_MAX; }
        vf_log("extreme parameters%s: x=%La a=%La b=%La c=%La d=%La", wsfx, (long double)x, (long double)p[0], (long double)p[1], (long double)p[2], (long double)p[3]);
        mfx_judge("trap", wsfx, a_mf_trap(x, p[0], p[1], p[2], p[3]), x, p, 4);
        mfx_judge("tri", wsfx, a_mf_tri(x, p[0], p[1], p[2]), x, p, 3);
        mfx_judge("lins", wsfx, a_mf_lins(x, p[0], p[1]), x, p, 2);
        mfx_judge("linz", wsfx, a_mf_linz(x, p[0], p[1]), x, p, 2);
        if (p[0] < p[1])
        {
            mfx_judge("s", wsfx, a_mf_s(x, p[0], p[1]), x, p, 2);
            mfx_judge("z", wsfx, a_mf_z(x, p[0], p[1]), x, p, 2);
            if (p[2] < p[3]) { mfx_judge("pi", wsfx, a_mf_pi(x, p[0], p[1], p[2], p[3]), x, p, 4); }
        }
        /* smooth families: non-zero width/slope, centres anywhere (ordered for the two-sided ones) */
        if (p[3] != 0)
        {
            q[0] = p[3]; q[1] = p[1];
            mfx_judge("gauss", wsfx, a_mf_gauss(x, q[0], q[1]), x, q, 2);
            mfx_judge("sig", wsfx, a_mf_sig(x, q[0], q[1]), x, q, 2);
            q[0] = p[3]; q[1] = (a_real)vf_range(r, 1, 6); q[2] = p[1];
            mfx_judge("gbell", wsfx, a_mf_gbell(x, q[0], q[1], q[2]), x, q, 3);
            if (p[0] != 0)
            {
                q[0] = p[3]; q[1] = p[1]; q[2] = p[0]; q[3] = p[2];
                mfx_judge("gauss2", wsfx, a_mf_gauss2(x, q[0], q[1], q[2], q[3]), x, q, 4);
                mfx_judge("psig", wsfx, a_mf_psig(x, q[0], q[1], q[2], q[3]), x, q, 4);
            }
        }
    }
}

/* the documented scratch-size macro must be usable with an expression argument (seeded change C13-E: a "factored" form
   lost the parentheses around its last n, so A_PID_FUZZY_BFUZZ(2 + 1) gave 97 bytes instead of 144) */
static void bfuzz_macro_hygiene(char const *wsfx)
{
    for (unsigned n = 1; n <= 9; ++n)
    {
        unsigned const n0 = n - 1, one = 1;
        size_t const want = sizeof(unsigned int) * n * 2 + sizeof(a_real) * n * (2 + n);
        size_t const g1 = A_PID_FUZZY_BFUZZ(n0 + one), g2 = A_PID_FUZZY_BFUZZ(n0 + 1u), g3 = A_PID_FUZZY_BFUZZ(n ? n0 + 1u : 0u), g4 = A_PID_FUZZY_BFUZZ(n);
        ++vf.evals;
        VF_COUNT("bfuzz-macro-with-expression-argument");
        if (g1 != want || g2 != want || g3 != want || g4 != want)
        {
            char key[96];
            snprintf(key, sizeof key, "pid_fuzzy/scratch-size-macro-wrong-for-expression-argument%s", wsfx);
            vf_viol(key, "n = %u: A_PID_FUZZY_BFUZZ(n0 + one) = %zu, (n0 + 1u) = %zu, (n ? n0 + 1u : 0u) = %zu, (n) = %zu; documented size 2n*sizeof(unsigned) + n(n+2)*sizeof(a_real) = %zu",
                    n, g1, g2, g3, g4, want);
            return;
        }
    }
}
