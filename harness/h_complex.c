/* C10 - complex arithmetic and functions against a 113-bit (libquadmath) oracle, compiled once per
 * build configuration (A_HAVE_* switches on/off, A_SIZE_REAL 4/8; bin/check supplies the header).
 *
 * Judgement (norm-wise, as usual for complex functions):
 *      |w~ - w| <= K * eps * |w| * max(1, kappa)
 * w = quad value at the (exactly converted) argument, kappa = relative condition number of the function
 * at that point estimated in quad by relative finite differences, K = 16 when every switch is on
 * (libm-backed bodies) and 64 in configurations with fallback bodies (DESIGN.md C10 calibration).
 * "Away from branch cuts and poles" is an explicit per-function table (relative margin 1e-3) plus the skip
 * rules kappa > 1e6 and |w| outside the representable decades; skipped points are counted.
 */
#define VF_PROP "C10"
#define VF_HAVE_INIT
#include "vf_common.h"
#include "a/complex.h"
#include "a/math.h"
#include <quadmath.h>
#include <float.h>

typedef __float128 q_t;
typedef __complex128 qc_t;

#if A_REAL_TYPE + 0 == A_REAL_SINGLE
#define EPSQ ((q_t)FLT_EPSILON)
#define MAG_LO (-37.5)
#define MAG_HI (38.5)
#define W_LO (1e-32)
#define W_HI (3.3e38)
#define EXP_HI (89.6)
#define TINY_LO (-6.0)
#define INV_DEC (getenv("VF_INVDEC") ? atof(getenv("VF_INVDEC")) * 37 / 307 : 37.0) /* inverse families: the whole range (was 1e-3..1e3 before the extreme-magnitude repair) */
#define INV_HI (getenv("VF_INVHI32") ? atof(getenv("VF_INVHI32")) : 38.53) /* ... up to the largest finite modulus (was 1e34 before the large-argument repair of the fallbacks) */
#else
#define EPSQ ((q_t)DBL_EPSILON)
#define MAG_LO (-307.0)
#define MAG_HI (308.2)
#define W_LO (1e-290)
#define W_HI (1.7e308)
#define EXP_HI (711.0)
#define TINY_LO (-12.0)
#define INV_DEC (getenv("VF_INVDEC") ? atof(getenv("VF_INVDEC")) : 307.0)
#define INV_HI (getenv("VF_INVHI") ? atof(getenv("VF_INVHI")) : 308.25)
#endif

static int all_on; /* configuration has every A_HAVE_* switch on */
static double Kbound;

/* which switches are on in this build (so that a key can say libm|fallback for the function judged) */
enum { SW_NONE, SW_CSQRT, SW_CPOW, SW_CEXP, SW_CLOG, SW_CSIN, SW_CCOS, SW_CTAN, SW_CSINH, SW_CCOSH, SW_CTANH,
       SW_CASIN, SW_CACOS, SW_CATAN, SW_CASINH, SW_CACOSH, SW_CATANH, SW_N };
static int sw_on[SW_N];
static void sw_init(void)
{
#if defined(A_HAVE_CSQRT) && (A_HAVE_CSQRT + 0 > 0)
    sw_on[SW_CSQRT] = 1;
#endif
#if defined(A_HAVE_CPOW) && (A_HAVE_CPOW + 0 > 0)
    sw_on[SW_CPOW] = 1;
#endif
#if defined(A_HAVE_CEXP) && (A_HAVE_CEXP + 0 > 0)
    sw_on[SW_CEXP] = 1;
#endif
#if defined(A_HAVE_CLOG) && (A_HAVE_CLOG + 0 > 0)
    sw_on[SW_CLOG] = 1;
#endif
#if defined(A_HAVE_CSIN) && (A_HAVE_CSIN + 0 > 0)
    sw_on[SW_CSIN] = 1;
#endif
#if defined(A_HAVE_CCOS) && (A_HAVE_CCOS + 0 > 0)
    sw_on[SW_CCOS] = 1;
#endif
#if defined(A_HAVE_CTAN) && (A_HAVE_CTAN + 0 > 0)
    sw_on[SW_CTAN] = 1;
#endif
#if defined(A_HAVE_CSINH) && (A_HAVE_CSINH + 0 > 0)
    sw_on[SW_CSINH] = 1;
#endif
#if defined(A_HAVE_CCOSH) && (A_HAVE_CCOSH + 0 > 0)
    sw_on[SW_CCOSH] = 1;
#endif
#if defined(A_HAVE_CTANH) && (A_HAVE_CTANH + 0 > 0)
    sw_on[SW_CTANH] = 1;
#endif
#if defined(A_HAVE_CASIN) && (A_HAVE_CASIN + 0 > 0)
    sw_on[SW_CASIN] = 1;
#endif
#if defined(A_HAVE_CACOS) && (A_HAVE_CACOS + 0 > 0)
    sw_on[SW_CACOS] = 1;
#endif
#if defined(A_HAVE_CATAN) && (A_HAVE_CATAN + 0 > 0)
    sw_on[SW_CATAN] = 1;
#endif
#if defined(A_HAVE_CASINH) && (A_HAVE_CASINH + 0 > 0)
    sw_on[SW_CASINH] = 1;
#endif
#if defined(A_HAVE_CACOSH) && (A_HAVE_CACOSH + 0 > 0)
    sw_on[SW_CACOSH] = 1;
#endif
#if defined(A_HAVE_CATANH) && (A_HAVE_CATANH + 0 > 0)
    sw_on[SW_CATANH] = 1;
#endif
}

/* ------------------------------------------------------------------ cut table */
enum
{
    CUT_NONE,
    CUT_NEG_REAL,       /* (-inf, 0]                      sqrt log log2 log10 logb pow   */
    CUT_REAL_OUT1,      /* real |x| >= 1                  asin acos atanh               */
    CUT_IMAG_OUT1,      /* imaginary |y| >= 1             atan asinh                    */
    CUT_LE1,            /* (-inf, 1]                      acosh                         */
    CUT_REAL_IN1,       /* real [-1, 1]                   asec acsc acoth               */
    CUT_IMAG_IN1,       /* imaginary [-i, i]              acot acsch                    */
    CUT_ASECH,          /* (-inf, 0] U [1, inf)           asech                         */
};
static int near_cut(int cut, q_t re, q_t im)
{
    q_t const m = 1e-3Q;
    q_t az = hypotq(re, im);
    q_t are = fabsq(re), aim = fabsq(im);
    switch (cut)
    {
    case CUT_NEG_REAL: return aim <= m * az && re <= m * az;
    case CUT_REAL_OUT1: return aim <= m * az && are >= 1 - m;
    case CUT_IMAG_OUT1: return are <= m * az && aim >= 1 - m;
    case CUT_LE1: return aim <= m * (az > 1 ? az : 1) && re <= 1 + m;
    case CUT_REAL_IN1: return aim <= m * az && are <= 1 + m;
    case CUT_IMAG_IN1: return are <= m * az && aim <= 1 + m;
    case CUT_ASECH: return aim <= m * az && !(re > m && re < 1 - m);
    default: return 0;
    }
}

/* ------------------------------------------------------------------ reference functions */
static qc_t mk(q_t re, q_t im) { qc_t z; __real__ z = re; __imag__ z = im; return z; }
static qc_t r_inv(qc_t z) { return 1 / z; }
static qc_t r_neg(qc_t z) { return -z; }
static qc_t r_conj(qc_t z) { return conjq(z); }
static qc_t r_id(qc_t z) { return z; }
static qc_t r_log2(qc_t z) { return clogq(z) / M_LN2q; }
static qc_t r_log10(qc_t z) { return clogq(z) / M_LN10q; }
static qc_t r_sec(qc_t z) { return 1 / ccosq(z); }
static qc_t r_csc(qc_t z) { return 1 / csinq(z); }
static qc_t r_cot(qc_t z) { return 1 / ctanq(z); }
static qc_t r_sech(qc_t z) { return 1 / ccoshq(z); }
static qc_t r_csch(qc_t z) { return 1 / csinhq(z); }
static qc_t r_coth(qc_t z) { return 1 / ctanhq(z); }
static qc_t r_asec(qc_t z) { return cacosq(1 / z); }
static qc_t r_acsc(qc_t z) { return casinq(1 / z); }
static qc_t r_acot(qc_t z) { return catanq(1 / z); }
static qc_t r_asech(qc_t z) { return cacoshq(1 / z); }
static qc_t r_acsch(qc_t z) { return casinhq(1 / z); }
static qc_t r_acoth(qc_t z) { return catanhq(1 / z); }

enum { RG_WIDE, RG_EXP, RG_INV }; /* argument magnitude families */
typedef struct
{
    char const *name;
    void (*fn)(a_complex *, a_complex);
    void (*fn_)(a_complex *);
    qc_t (*ref)(qc_t);
    int cut;
    int range;
    int sw;
} ufun;

#define U(n, ref, cut, rg, sw) {#n, a_complex_##n, a_complex_##n##_, ref, cut, rg, sw}
static ufun const UF[] = {
    U(proj, r_id, CUT_NONE, RG_WIDE, SW_NONE),
    U(conj, r_conj, CUT_NONE, RG_WIDE, SW_NONE),
    U(neg, r_neg, CUT_NONE, RG_WIDE, SW_NONE),
    U(inv, r_inv, CUT_NONE, RG_WIDE, SW_NONE),
    U(sqrt, csqrtq, CUT_NEG_REAL, RG_WIDE, SW_CSQRT),
    U(exp, cexpq, CUT_NONE, RG_EXP, SW_CEXP),
    U(log, clogq, CUT_NEG_REAL, RG_WIDE, SW_CLOG),
    U(log2, r_log2, CUT_NEG_REAL, RG_WIDE, SW_CLOG),
    U(log10, r_log10, CUT_NEG_REAL, RG_WIDE, SW_CLOG),
    U(sin, csinq, CUT_NONE, RG_EXP, SW_CSIN),
    U(cos, ccosq, CUT_NONE, RG_EXP, SW_CCOS),
    U(tan, ctanq, CUT_NONE, RG_EXP, SW_CTAN),
    U(sec, r_sec, CUT_NONE, RG_EXP, SW_CCOS),
    U(csc, r_csc, CUT_NONE, RG_EXP, SW_CSIN),
    U(cot, r_cot, CUT_NONE, RG_EXP, SW_CTAN),
    U(asin, casinq, CUT_REAL_OUT1, RG_INV, SW_CASIN),
    U(acos, cacosq, CUT_REAL_OUT1, RG_INV, SW_CACOS),
    U(atan, catanq, CUT_IMAG_OUT1, RG_INV, SW_CATAN),
    U(asec, r_asec, CUT_REAL_IN1, RG_INV, SW_CACOS),
    U(acsc, r_acsc, CUT_REAL_IN1, RG_INV, SW_CASIN),
    U(acot, r_acot, CUT_IMAG_IN1, RG_INV, SW_CATAN),
    U(sinh, csinhq, CUT_NONE, RG_EXP, SW_CSINH),
    U(cosh, ccoshq, CUT_NONE, RG_EXP, SW_CCOSH),
    U(tanh, ctanhq, CUT_NONE, RG_EXP, SW_CTANH),
    U(sech, r_sech, CUT_NONE, RG_EXP, SW_CCOSH),
    U(csch, r_csch, CUT_NONE, RG_EXP, SW_CSINH),
    U(coth, r_coth, CUT_NONE, RG_EXP, SW_CTANH),
    U(asinh, casinhq, CUT_IMAG_OUT1, RG_INV, SW_CASINH),
    U(acosh, cacoshq, CUT_LE1, RG_INV, SW_CACOSH),
    U(atanh, catanhq, CUT_REAL_OUT1, RG_INV, SW_CATANH),
    U(asech, r_asech, CUT_ASECH, RG_INV, SW_CACOSH),
    U(acsch, r_acsch, CUT_IMAG_IN1, RG_INV, SW_CASINH),
    U(acoth, r_acoth, CUT_REAL_IN1, RG_INV, SW_CATANH),
};
#define NUF ((int)(sizeof(UF) / sizeof(UF[0])))

/* further case kinds after the unary table */
enum { X_ARITH = 0, X_SCALAR, X_POW, X_LOGB, X_POLAR, X_REALARG, X_INVERSE_PAIRS, X_N };
static char const *const xnames[] = {"arith", "scalar", "pow", "logb", "polar", "realarg", "inverse-pairs"};

static uint64_t pts_per_case, chunks;
static void vf_init(void)
{
    int main_cfg = strncmp(vf.config, "all-", 4) == 0;
    all_on = strncmp(vf.config, "all-on", 6) == 0 || strcmp(vf.config, "default") == 0;
    Kbound = all_on ? 16.0 : 64.0;
    sw_init();
    pts_per_case = 2000;
    if (vf.tier) { chunks = main_cfg || all_on ? 120 : 16; }
    else { chunks = main_cfg ? 6 : 2; }
    if (getenv("VF_C10_CHUNKS")) { chunks = strtoull(getenv("VF_C10_CHUNKS"), NULL, 0); }
}
static uint64_t vf_ncases(int tier) { (void)tier; return (uint64_t)(NUF + X_N) * chunks; }

/* ------------------------------------------------------------------ sampling */
static void sample(vf_rng *r, int range, a_real *re, a_real *im, int *region)
{
    double lo, hi, mag, ph, x, y;
    int mode = (int)vf_below(r, 12);
    switch (range)
    {
    case RG_WIDE: lo = MAG_LO; hi = MAG_HI; break;
    case RG_EXP: lo = TINY_LO; hi = log10(EXP_HI); break;
    default: lo = -INV_DEC; hi = INV_HI; break;
    }
    if (vf_chance(r, 1, 2)) { lo = lo < -3 ? -3 : lo; hi = hi > 3 ? 3 : hi; if (range == RG_EXP && hi > 1.5) { hi = 1.5; } }
    mag = pow(10.0, vf_uniform(r, lo, hi));
    ph = vf_uniform(r, -M_PI, M_PI);
    switch (mode)
    {
    case 0: x = mag * vf_sign(r); y = 0; break;                 /* exact real axis */
    case 1: x = 0; y = mag * vf_sign(r); break;                 /* exact imaginary axis */
    case 2: x = mag * vf_sign(r); y = x * pow(10.0, -vf_uniform(r, 0, 14)) * vf_sign(r); break; /* nearly real */
    case 3: y = mag * vf_sign(r); x = y * pow(10.0, -vf_uniform(r, 0, 14)) * vf_sign(r); break; /* nearly imaginary */
    case 4:
    {
        /* approach the branch points +-1, +-i without touching them */
        static double const bx[] = {1, -1, 0, 0}, by[] = {0, 0, 1, -1};
        int k = (int)vf_below(r, 4);
        double d = pow(10.0, vf_uniform(r, TINY_LO, -1));
        x = bx[k] + d * cos(ph);
        y = by[k] + d * sin(ph);
        if (vf_chance(r, 1, 3)) { if (k < 2) { y = 0; } else { x = 0; } } /* along the axis */
        break;
    }
    case 5: x = cos(ph); y = sin(ph); break;                    /* unit circle */
    default: x = mag * cos(ph); y = mag * sin(ph); break;
    }
    if ((range == RG_WIDE && vf_chance(r, 1, 16)) || (range == RG_INV && vf_chance(r, 1, 24)))
    {
        /* both components within a factor two of the largest finite value: z is finite although |z| is not representable
           (seeded change C10-H: pow(|z|, a) in place of exp(a log|z|) overflows there) */
        x = (double)A_REAL_MAX * vf_uniform(r, 0.5, 1.0) * vf_sign(r);
        y = (double)A_REAL_MAX * vf_uniform(r, 0.5, 1.0) * vf_sign(r);
        if (vf_chance(r, 1, 4)) { if (vf_chance(r, 1, 2)) { x *= 1e-3; } else { y *= 1e-3; } }
    }
    if (range != RG_EXP && vf_chance(r, 1, 20))
    {
        /* both components around the square root of the largest (or of the smallest normal) value, nearly equal in size: the band
           in which x*x and y*y are still (already) representable but their sum - or a guard derived from sqrt(MAX) instead of
           sqrt(MAX/2) - is not (seeded change C10-I: a fast path 0.5*log(x*x + y*y) guarded by |x|, |y| < 1e154 returns inf for
           components in (8.93e153, 1e154)); log-uniform sampling of the whole range meets this band about once in 1e8 points */
        double const c = vf_chance(r, 1, 2) ? sqrt((double)A_REAL_MAX) * exp2(vf_uniform(r, -1.5, 0.6)) : sqrt((double)A_REAL_MIN) * exp2(vf_uniform(r, -0.6, 1.5));
        x = c * vf_sign(r);
        y = c * (vf_chance(r, 1, 2) ? 1 + vf_uniform(r, -1e-3, 1e-3) : vf_uniform(r, 0.85, 1.18)) * vf_sign(r);
        if (vf_chance(r, 1, 2)) { double const t = x; x = y; y = t; }
    }
    if (range == RG_EXP && vf_chance(r, 1, 10))
    {
        /* the overflow threshold of the exponential: one component within (-2, +0.4) of ln(MAX), where e^t, cosh t and sinh t are
           about to leave the range but half of them - and the products with a cosine or sine below one - have not yet (seeded
           change C10-G: exp(|y|)/2 in place of cosh/sinh overflows for 709.78 < |y| <= 710.47 although sin z is finite) */
        double const t = (log((double)A_REAL_MAX) + vf_uniform(r, -2.0, 0.4)) * vf_sign(r), u = vf_chance(r, 1, 4) ? vf_uniform(r, -1e-3, 1e-3) : vf_uniform(r, -M_PI, M_PI);
        if (vf_chance(r, 1, 2)) { x = t; y = u; } else { x = u; y = t; }
    }
    if (vf_chance(r, 1, 24))
    {
        /* small lattice points (z = i, -1, 1 + i, 2i, 1/2 ...): exact values a comparison with a constant can single out
           (mutation sweep: `z.imag != 1` for `z.imag != 0` in a_complex_arg is wrong for z = i only).  Points on a cut or pole of
           the function under test are dropped by the cut tables like any other sample. */
        static double const lat[] = {0, 1, -1, 2, -2, 0.5, -0.5, 3, -3};
        x = lat[vf_below(r, 9)];
        y = lat[vf_below(r, 9)];
    }
    *re = (a_real)x;
    *im = (a_real)y;
    *region = (*im == 0 ? 0 : *im > 0 ? 1 : 2) * 3 + (*re == 0 ? 0 : *re > 0 ? 1 : 2); /* quadrant or axis: 9 classes */
}
static int decade(q_t a)
{
    if (a == 0) { return -999; }
    return (int)floorq(log10q(a));
}
static void cell(char const *fn, int region, q_t mag)
{
    vf_distinct(vf_hash64(vf_hash64(vf_hash_str(fn), (uint64_t)region), (uint64_t)(decade(mag) + 2000)));
}

/* ------------------------------------------------------------------ judgement */
static uint64_t n_skip_cut, n_skip_cond, n_skip_range;

/* returns 1 judged, 0 skipped.  w: reference, kappa: condition estimate, got: library result */
static int judge(char const *fn, char const *variant, int sw, qc_t w, q_t kappa, a_complex got, char const *argdesc)
{
    q_t aw = cabsq(w), err, unit, ratio;
    char name[80];
    if (!(kappa <= 1e6Q)) { ++n_skip_cond; return 0; }
    if (!(aw == 0 || (aw >= W_LO && aw <= W_HI))) { ++n_skip_range; return 0; }
    err = cabsq(mk((q_t)got.real - crealq(w), (q_t)got.imag - cimagq(w)));
    unit = EPSQ * aw * (kappa > 1 ? kappa : 1);
    if (aw == 0) { ratio = err == 0 ? 0 : 1e30Q; }
    else if (!(err == err)) { ratio = 1e30Q; }
    else { ratio = err / unit; }
    ++vf.evals;
    snprintf(name, sizeof(name), "ratio/%s", fn);
    {
        double rd = (double)ratio;
        vf_counter *c = &vf.ctr[vf_counter_id(name)];
        c->is_max = 1;
        ++c->n;
        if (rd > c->max) { c->max = rd; snprintf(c->arg, sizeof(c->arg), "%s %s", variant, argdesc); }
    }
    if (ratio > (q_t)Kbound)
    {
        char key[128];
        snprintf(key, sizeof(key), "complex/%s/%s/%s", fn, variant, sw == SW_NONE ? "plain" : sw_on[sw] ? "libm" : "fallback");
        vf_viol(key, "%s %s: got (%.17g, %.17g) expected (%.17g, %.17g): error %.3g = %.3g x eps*|w|*max(1,kappa) (kappa %.3g, bound %.0f) [config %s]",
                fn, argdesc, (double)got.real, (double)got.imag, (double)crealq(w), (double)cimagq(w), (double)err, (double)ratio, (double)kappa, Kbound, vf.config);
    }
    return 1;
}

static q_t kappa1(qc_t (*f)(qc_t), qc_t z, qc_t w)
{
    q_t const h = 0x1p-30Q;
    qc_t w1 = f(z * (1 + h)), w2 = f(z * mk(1, h));
    q_t d1 = cabsq(w1 - w), d2 = cabsq(w2 - w), aw = cabsq(w);
    q_t d = d1 > d2 ? d1 : d2;
    if (aw == 0) { return d == 0 ? 1 : 1e30Q; }
    return d / (h * aw);
}

static void arg_desc(char *out, size_t n, a_real re, a_real im)
{
    snprintf(out, n, "z=(%a, %a)", (double)re, (double)im);
}

/* ------------------------------------------------------------------ unary table cases */
static void unary_case(ufun const *f, vf_rng *r)
{
    char counter[64], d[96];
    snprintf(counter, sizeof(counter), "judged/%s", f->name);
    for (uint64_t i = 0; i < pts_per_case; ++i)
    {
        a_real re, im;
        int region;
        a_complex z, out, inpl;
        qc_t zq, w;
        q_t kap;
        sample(r, f->range, &re, &im, &region);
        if (re == 0 && im == 0) { continue; }
        if (near_cut(f->cut, re, im)) { ++n_skip_cut; continue; }
        zq = mk(re, im);
        w = f->ref(zq);
        kap = kappa1(f->ref, zq, w);
        z.real = re;
        z.imag = im;
        arg_desc(d, sizeof(d), re, im);
        if (i < 3) { vf_log("%s %s", f->name, d); }
        out.real = out.imag = (a_real)12345;
        f->fn(&out, z);
        if (judge(f->name, "value", f->sw, w, kap, out, d))
        {
            vf_count_dyn(counter, 1);
            cell(f->name, region, cabsq(zq));
            inpl = z;
            f->fn_(&inpl);
            if (memcmp(&inpl, &out, sizeof(out)) != 0 && !(inpl.real != inpl.real && out.real != out.real))
            {
                judge(f->name, "in-place", f->sw, w, kap, inpl, d);
            }
            if (vf_want_sample() && i == 7)
            {
                vf_sample("a_complex_%s(%a%+ai) = (%.17g, %.17g); quad reference (%.20Lg, %.20Lg), kappa %.3g [config %s]", f->name, (double)re, (double)im, (double)out.real, (double)out.imag,
                          (long double)crealq(w), (long double)cimagq(w), (double)kap, vf.config);
            }
        }
    }
}

/* ------------------------------------------------------------------ arithmetic */
static void arith_case(vf_rng *r)
{
    char d[160];
    for (uint64_t i = 0; i < pts_per_case; ++i)
    {
        a_real xr, xi, yr, yi, s;
        int reg, reg2;
        a_complex x, y, o, p;
        qc_t xq, yq;
        sample(r, RG_WIDE, &xr, &xi, &reg);
        sample(r, RG_WIDE, &yr, &yi, &reg2);
        if (vf_chance(r, 1, 2))
        {
            /* comparable magnitudes (cancellation in add/sub, no overflow in mul) */
            double sc = pow(10.0, vf_uniform(r, -2, 2));
            double m = hypot((double)xr, (double)xi) * sc / hypot((double)yr, (double)yi);
            yr = (a_real)((double)yr * m);
            yi = (a_real)((double)yi * m);
        }
        if ((xr == 0 && xi == 0) || (yr == 0 && yi == 0) || !isfinite((double)yr) || !isfinite((double)yi)) { continue; }
        s = vf_chance(r, 1, 2) ? yr : (a_real)(vf_sign(r) * pow(10.0, vf_uniform(r, -3, 3)));
        if (s == 0) { s = 1; }
        x.real = xr; x.imag = xi; y.real = yr; y.imag = yi;
        xq = mk(xr, xi);
        yq = mk(yr, yi);
        snprintf(d, sizeof(d), "x=(%a, %a) y=(%a, %a) s=%a", (double)xr, (double)xi, (double)yr, (double)yi, (double)s);
        if (i < 2) { vf_log("arith %s", d); }
#define BIN(name, expr)                                                        \
    do {                                                                       \
        a_complex_##name(&o, x, y);                                            \
        if (judge(#name, "value", SW_NONE, (expr), 1, o, d)) { cell(#name, reg, cabsq(xq)); VF_COUNT("judged/" #name); } \
        p = x;                                                                 \
        a_complex_##name##_(&p, y);                                            \
        if (memcmp(&p, &o, sizeof(o)) != 0) { judge(#name, "in-place", SW_NONE, (expr), 1, p, d); } \
    } while (0)
        /* add/sub: one rounding per component, but the norm-wise bound needs the operand scale, not |w| */
        {
            qc_t w = xq + yq;
            q_t kap = (cabsq(xq) + cabsq(yq)) / (cabsq(w) > 0 ? cabsq(w) : 1);
            a_complex_add(&o, x, y);
            if (kap <= 1e6Q && judge("add", "value", SW_NONE, w, kap, o, d)) { cell("add", reg, cabsq(xq)); VF_COUNT("judged/add"); }
            p = x; a_complex_add_(&p, y);
            if (memcmp(&p, &o, sizeof(o)) != 0) { judge("add", "in-place", SW_NONE, w, kap, p, d); }
            w = xq - yq;
            kap = (cabsq(xq) + cabsq(yq)) / (cabsq(w) > 0 ? cabsq(w) : 1);
            a_complex_sub(&o, x, y);
            if (kap <= 1e6Q && judge("sub", "value", SW_NONE, w, kap, o, d)) { cell("sub", reg, cabsq(xq)); VF_COUNT("judged/sub"); }
            p = x; a_complex_sub_(&p, y);
            if (memcmp(&p, &o, sizeof(o)) != 0) { judge("sub", "in-place", SW_NONE, w, kap, p, d); }
        }
        BIN(mul, xq * yq);
        BIN(div, xq / yq);
#define SCAL(name, expr)                                                       \
    do {                                                                       \
        a_complex_##name(&o, x, s);                                            \
        if (judge(#name, "value", SW_NONE, (expr), 1, o, d)) { cell(#name, reg, cabsq(xq)); VF_COUNT("judged/" #name); } \
        p = x;                                                                 \
        a_complex_##name##_(&p, s);                                            \
        if (memcmp(&p, &o, sizeof(o)) != 0) { judge(#name, "in-place", SW_NONE, (expr), 1, p, d); } \
    } while (0)
        {
            q_t sq = s;
            q_t ka = (cabsq(xq) + fabsq(sq)) / (cabsq(xq + sq) > 0 ? cabsq(xq + sq) : 1);
            a_complex_add_real(&o, x, s);
            if (ka <= 1e6Q && judge("add_real", "value", SW_NONE, xq + sq, ka, o, d)) { VF_COUNT("judged/add_real"); }
            p = x; a_complex_add_real_(&p, s);
            if (memcmp(&p, &o, sizeof(o)) != 0) { judge("add_real", "in-place", SW_NONE, xq + sq, ka, p, d); }
            ka = (cabsq(xq) + fabsq(sq)) / (cabsq(xq - sq) > 0 ? cabsq(xq - sq) : 1);
            a_complex_sub_real(&o, x, s);
            if (ka <= 1e6Q && judge("sub_real", "value", SW_NONE, xq - sq, ka, o, d)) { VF_COUNT("judged/sub_real"); }
            p = x; a_complex_sub_real_(&p, s);
            if (memcmp(&p, &o, sizeof(o)) != 0) { judge("sub_real", "in-place", SW_NONE, xq - sq, ka, p, d); }
            ka = (cabsq(xq) + fabsq(sq)) / (cabsq(xq + mk(0, sq)) > 0 ? cabsq(xq + mk(0, sq)) : 1);
            a_complex_add_imag(&o, x, s);
            if (ka <= 1e6Q && judge("add_imag", "value", SW_NONE, xq + mk(0, sq), ka, o, d)) { VF_COUNT("judged/add_imag"); }
            p = x; a_complex_add_imag_(&p, s);
            if (memcmp(&p, &o, sizeof(o)) != 0) { judge("add_imag", "in-place", SW_NONE, xq + mk(0, sq), ka, p, d); }
            ka = (cabsq(xq) + fabsq(sq)) / (cabsq(xq - mk(0, sq)) > 0 ? cabsq(xq - mk(0, sq)) : 1);
            a_complex_sub_imag(&o, x, s);
            if (ka <= 1e6Q && judge("sub_imag", "value", SW_NONE, xq - mk(0, sq), ka, o, d)) { VF_COUNT("judged/sub_imag"); }
            p = x; a_complex_sub_imag_(&p, s);
            if (memcmp(&p, &o, sizeof(o)) != 0) { judge("sub_imag", "in-place", SW_NONE, xq - mk(0, sq), ka, p, d); }
            SCAL(mul_real, xq * sq);
            SCAL(div_real, xq / sq);
            SCAL(mul_imag, xq * mk(0, sq));
            SCAL(div_imag, xq / mk(0, sq));
        }
    }
}

/* real-valued results */
static void judge_real(char const *fn, q_t w, q_t kappa, a_real got, char const *d)
{
    a_complex g;
    g.real = got;
    g.imag = 0;
    judge(fn, "value", SW_NONE, mk(w, 0), kappa, g, d);
}
static void scalar_case(vf_rng *r)
{
    char d[96];
    for (uint64_t i = 0; i < pts_per_case; ++i)
    {
        a_real re, im;
        int reg;
        a_complex z, y;
        qc_t zq;
        q_t h = 0x1p-30Q, w, k1, k2;
        sample(r, RG_WIDE, &re, &im, &reg);
        if (re == 0 && im == 0) { continue; }
        z.real = re; z.imag = im;
        zq = mk(re, im);
        arg_desc(d, sizeof(d), re, im);
        if (i < 2) { vf_log("scalar %s", d); }
        /* abs */
        judge_real("abs", cabsq(zq), 1, a_complex_abs(z), d);
        VF_COUNT("judged/abs");
        /* abs2 */
        judge_real("abs2", crealq(zq) * crealq(zq) + cimagq(zq) * cimagq(zq), 1, a_complex_abs2(z), d);
        VF_COUNT("judged/abs2");
        /* arg: away from the cut of the argument function */
        if (!near_cut(CUT_NEG_REAL, re, im))
        {
            w = cargq(zq);
            k1 = fabsq(cargq(zq * (1 + h)) - w);
            k2 = fabsq(cargq(zq * mk(1, h)) - w);
            judge_real("arg", w, w == 0 ? 1 : (k1 > k2 ? k1 : k2) / (h * fabsq(w)), a_complex_arg(z), d);
            VF_COUNT("judged/arg");
            cell("arg", reg, cabsq(zq));
        }
        /* logabs */
        w = logq(cabsq(zq));
        k1 = fabsq(logq(cabsq(zq * (1 + h))) - w);
        judge_real("logabs", w, w == 0 ? 1e30Q : k1 / (h * fabsq(w)), a_complex_logabs(z), d);
        VF_COUNT("judged/logabs");
        /* eq / ne / rect */
        a_complex_rect(&y, re, im);
        VF_COUNT("judged/eq-ne-rect");
        ++vf.evals;
        if (!a_complex_eq(z, y) || a_complex_ne(z, y) || y.real != re || y.imag != im) { vf_viol("complex/eq-ne-rect/definition", "%s", d); }
        y.imag = (a_real)(im + (im == 0 ? 1 : im));
        if (a_complex_eq(z, y) || !a_complex_ne(z, y)) { vf_viol("complex/eq-ne-rect/definition", "%s differing imaginary parts compare equal", d); }
    }
}

static qc_t g_pow_a;
static qc_t r_pow_z(qc_t z) { return cpowq(z, g_pow_a); }
static qc_t g_pow_z;
static qc_t r_pow_a(qc_t a) { return cpowq(g_pow_z, a); }
static void pow_case(vf_rng *r)
{
    char d[160];
    for (uint64_t i = 0; i < pts_per_case; ++i)
    {
        a_real zr, zi, ar, ai;
        int reg, reg2;
        a_complex z, a, o, p;
        qc_t zq, aq, w;
        q_t kap;
        sample(r, RG_INV, &zr, &zi, &reg);
        sample(r, RG_INV, &ar, &ai, &reg2);
        if (vf_chance(r, 1, 16))
        {
            /* base with both components within a factor two of the largest finite value (|z| itself not representable) and an
               exponent that brings the power back into range */
            zr = (a_real)((double)A_REAL_MAX * vf_uniform(r, 0.5, 1.0) * vf_sign(r));
            zi = (a_real)((double)A_REAL_MAX * vf_uniform(r, 0.5, 1.0) * vf_sign(r));
            ar = (a_real)(vf_sign(r) * vf_uniform(r, 0.05, 0.9));
            ai = vf_chance(r, 1, 2) ? 0 : (a_real)vf_uniform(r, -0.5, 0.5);
            reg = (zi > 0 ? 1 : 2) * 3 + (zr > 0 ? 1 : 2);
        }
        if ((zr == 0 && zi == 0) || near_cut(CUT_NEG_REAL, zr, zi)) { ++n_skip_cut; continue; }
        if (hypot((double)ar, (double)ai) > 30) { double m = 30 * vf_unit(r) / hypot((double)ar, (double)ai); ar = (a_real)((double)ar * m); ai = (a_real)((double)ai * m); }
        z.real = zr; z.imag = zi; a.real = ar; a.imag = ai;
        zq = mk(zr, zi);
        aq = mk(ar, ai);
        snprintf(d, sizeof(d), "z=(%a, %a) a=(%a, %a)", (double)zr, (double)zi, (double)ar, (double)ai);
        if (i < 2) { vf_log("pow %s", d); }
        w = cpowq(zq, aq);
        g_pow_a = aq;
        g_pow_z = zq;
        kap = kappa1(r_pow_z, zq, w);
        if (ar != 0 || ai != 0) { kap += kappa1(r_pow_a, aq, w); }
        a_complex_pow(&o, z, a);
        if (judge("pow", "value", SW_CPOW, w, kap, o, d)) { cell("pow", reg, cabsq(zq)); VF_COUNT("judged/pow"); }
        p = z;
        a_complex_pow_(&p, a);
        if (memcmp(&p, &o, sizeof(o)) != 0) { judge("pow", "in-place", SW_CPOW, w, kap, p, d); }
        /* real exponent */
        aq = mk(ar, 0);
        w = cpowq(zq, aq);
        g_pow_a = aq;
        kap = kappa1(r_pow_z, zq, w);
        if (ar != 0) { kap += kappa1(r_pow_a, aq, w); }
        a_complex_pow_real(&o, z, ar);
        if (judge("pow_real", "value", SW_NONE, w, kap, o, d)) { VF_COUNT("judged/pow_real"); }
        p = z;
        a_complex_pow_real_(&p, ar);
        if (memcmp(&p, &o, sizeof(o)) != 0) { judge("pow_real", "in-place", SW_NONE, w, kap, p, d); }
    }
}

static qc_t g_b;
static qc_t r_logb_z(qc_t z) { return clogq(z) / clogq(g_b); }
static qc_t g_z;
static qc_t r_logb_b(qc_t b) { return clogq(g_z) / clogq(b); }
static void logb_case(vf_rng *r)
{
    char d[160];
    for (uint64_t i = 0; i < pts_per_case; ++i)
    {
        a_real zr, zi, br, bi;
        int reg, reg2;
        a_complex z, b, o, p;
        qc_t zq, bq, w;
        q_t kap;
        sample(r, RG_WIDE, &zr, &zi, &reg);
        sample(r, RG_INV, &br, &bi, &reg2);
        if ((zr == 0 && zi == 0) || (br == 0 && bi == 0)) { continue; }
        if (near_cut(CUT_NEG_REAL, zr, zi) || near_cut(CUT_NEG_REAL, br, bi)) { ++n_skip_cut; continue; }
        z.real = zr; z.imag = zi; b.real = br; b.imag = bi;
        zq = mk(zr, zi);
        bq = mk(br, bi);
        snprintf(d, sizeof(d), "z=(%a, %a) b=(%a, %a)", (double)zr, (double)zi, (double)br, (double)bi);
        if (i < 2) { vf_log("logb %s", d); }
        w = clogq(zq) / clogq(bq);
        g_b = bq;
        g_z = zq;
        kap = kappa1(r_logb_z, zq, w) + kappa1(r_logb_b, bq, w);
        a_complex_logb(&o, z, b);
        if (judge("logb", "value", SW_CLOG, w, kap, o, d)) { cell("logb", reg, cabsq(zq)); VF_COUNT("judged/logb"); }
        p = z;
        a_complex_logb_(&p, b);
        if (memcmp(&p, &o, sizeof(o)) != 0) { judge("logb", "in-place", SW_CLOG, w, kap, p, d); }
    }
}

static void polar_case(vf_rng *r)
{
    char d[96];
    for (uint64_t i = 0; i < pts_per_case; ++i)
    {
        a_real rho = (a_real)(pow(10.0, vf_uniform(r, MAG_LO, MAG_HI)) * (vf_chance(r, 1, 8) ? -1 : 1));
        a_real th = (a_real)(vf_chance(r, 1, 2) ? vf_uniform(r, -M_PI, M_PI) : vf_sign(r) * pow(10.0, vf_uniform(r, TINY_LO, 3)));
        a_complex o;
        q_t kap = fabsq((q_t)th);
        qc_t w = mk((q_t)rho * cosq((q_t)th), (q_t)rho * sinq((q_t)th));
        snprintf(d, sizeof(d), "rho=%a theta=%a", (double)rho, (double)th);
        if (i < 2) { vf_log("polar %s", d); }
        a_complex_polar(&o, rho, th);
        if (judge("polar", "value", SW_NONE, w, kap + 1, o, d)) { VF_COUNT("judged/polar"); cell("polar", th < 0, fabsq((q_t)rho)); }
    }
}

/* real-argument variants on their off-cut domains, against the complex reference at x + 0i */
static void realarg_case(vf_rng *r)
{
    char d[64];
    for (uint64_t i = 0; i < pts_per_case; ++i)
    {
        a_real in = (a_real)(vf_sign(r) * (vf_chance(r, 1, 3) ? 1 - pow(10.0, vf_uniform(r, TINY_LO / 2, 0)) : vf_unit(r)));       /* |x| < 1 */
        a_real out = (a_real)(vf_sign(r) * (vf_chance(r, 1, 3) ? 1 + pow(10.0, vf_uniform(r, TINY_LO / 2, 0)) : pow(10.0, vf_uniform(r, 0, 6)))); /* |x| > 1 */
        a_real pos = (a_real)pow(10.0, vf_uniform(r, MAG_LO, MAG_HI));
        a_complex o;
        qc_t w;
        if (i < 2) { vf_log("realarg in=%a out=%a pos=%a", (double)in, (double)out, (double)pos); }
#define RA(name, x, ref, dom, sw)                                                   \
    do {                                                                            \
        if (dom)                                                                    \
        {                                                                           \
            snprintf(d, sizeof(d), "x=%a", (double)(x));                            \
            w = ref(mk((x), 0));                                                    \
            a_complex_##name(&o, (x));                                              \
            if (judge(#name, "value", sw, w, kappa1(ref, mk((x), 0), w), o, d)) { VF_COUNT("judged/" #name); cell(#name, (x) < 0, fabsq((q_t)(x))); } \
        }                                                                           \
    } while (0)
        RA(sqrt_real, pos, csqrtq, 1, SW_NONE);
        RA(asin_real, in, casinq, in > -1 && in < 1 && in != 0, SW_NONE);
        RA(acos_real, in, cacosq, in > -1 && in < 1, SW_NONE);
        RA(atanh_real, in, catanhq, in > -1 && in < 1 && in != 0, SW_NONE);
        RA(asec_real, out, r_asec, out > 1 || out < -1, SW_NONE);
        RA(acsc_real, out, r_acsc, out > 1 || out < -1, SW_NONE);
        RA(acosh_real, out, cacoshq, out > 1, SW_NONE);
        /* the same variants ON their cuts (where a real argument is the whole point of having them): which side of the cut a real
           argument belongs to is a convention about signed zeros that the property leaves out ("away from branch cuts"), so only
           the MAGNITUDES of the real and imaginary parts are judged - they are the same on both sides.  A NaN, a swapped part or a
           wrong formula in those branches is reported; the sign convention is not. (mutation sweep: acosh(+1 * x) for acosh(+1 / x)
           in a_complex_asec_real survived) */
#define RC(name, x, ref, dom)                                                                                                     \
    do {                                                                                                                          \
        if (dom)                                                                                                                  \
        {                                                                                                                         \
            q_t const h_ = 0x1p-30Q;                                                                                              \
            qc_t const w0_ = ref(mk((x), 0)), w1_ = ref(mk((q_t)(x) * (1 + h_), 0));                                              \
            qc_t const wa_ = mk(fabsq(crealq(w0_)), fabsq(cimagq(w0_))), wb_ = mk(fabsq(crealq(w1_)), fabsq(cimagq(w1_)));         \
            q_t const k_ = cabsq(wa_) == 0 ? 1 : cabsq(wb_ - wa_) / (h_ * cabsq(wa_));                                            \
            a_complex oa_;                                                                                                        \
            snprintf(d, sizeof(d), "x=%a (on the cut)", (double)(x));                                                             \
            a_complex_##name(&o, (x));                                                                                            \
            oa_.real = o.real < 0 ? -o.real : o.real;                                                                             \
            oa_.imag = o.imag < 0 ? -o.imag : o.imag;                                                                             \
            if (o.real != o.real || o.imag != o.imag) { oa_.real = o.real; oa_.imag = o.imag; }                                   \
            if (judge(#name, "on-cut-magnitudes", SW_NONE, wa_, k_, oa_, d)) { VF_COUNT("judged/" #name "/on-cut"); }             \
        }                                                                                                                         \
    } while (0)
        RC(sqrt_real, -pos, csqrtq, 1);
        RC(asin_real, out, casinq, 1);
        RC(acos_real, out, cacosq, 1);
        RC(atanh_real, out, catanhq, 1);
        RC(asec_real, in, r_asec, in != 0);
        RC(acsc_real, in, r_acsc, in != 0);
        RC(acosh_real, in, cacoshq, 1);
        RC(acosh_real, -out, cacoshq, 1);
    }
}

/* operations documented as inverse of each other compose to the identity */
static void inverse_case(vf_rng *r)
{
    char d[128];
    for (uint64_t i = 0; i < pts_per_case; ++i)
    {
        a_real re, im, s;
        int reg;
        a_complex z, t, y;
        qc_t zq;
        sample(r, RG_INV, &re, &im, &reg);
        if (re == 0 && im == 0) { continue; }
        s = (a_real)(vf_sign(r) * pow(10.0, vf_uniform(r, -3, 3)));
        z.real = re; z.imag = im;
        zq = mk(re, im);
        snprintf(d, sizeof(d), "z=(%a, %a) s=%a", (double)re, (double)im, (double)s);
        if (i < 2) { vf_log("inverse pairs %s", d); }
        /* each composition costs a handful of roundings: identity within (Kbound) * eps * |z|; the intermediate z*s or z/s must be
           representable with full precision, otherwise the composition is not defined in this arithmetic */
        {
            q_t const up = cabsq(zq) * fabsq((q_t)s), dn = cabsq(zq) / fabsq((q_t)s);
            if (up > W_LO * 1e4 && up < W_HI / 1e4)
            {
                a_complex_mul_real(&t, z, s); a_complex_div_real(&y, t, s);
                if (judge("mul_real-div_real", "identity", SW_NONE, zq, 1, y, d)) { VF_COUNT("judged/mul_real-div_real"); }
                a_complex_mul_imag(&t, z, s); a_complex_div_imag(&y, t, s);
                if (judge("mul_imag-div_imag", "identity", SW_NONE, zq, 1, y, d)) { VF_COUNT("judged/mul_imag-div_imag"); }
            }
            if (dn > W_LO * 1e4 && dn < W_HI / 1e4)
            {
                a_complex_div_imag(&t, z, s); a_complex_mul_imag(&y, t, s);
                judge("div_imag-mul_imag", "identity", SW_NONE, zq, 1, y, d);
            }
        }
        {
            a_complex c;
            a_real cr, ci;
            int rg;
            sample(r, RG_INV, &cr, &ci, &rg);
            if (cr != 0 || ci != 0)
            {
                c.real = cr; c.imag = ci;
                {
                    /* the intermediate product must be representable, otherwise the composition is not defined in this arithmetic */
                    q_t pm = cabsq(zq) * cabsq(mk(cr, ci));
                    if (!(pm > W_LO * 1e4 && pm < W_HI / 1e4)) { continue; }
                }
                a_complex_mul(&t, z, c); a_complex_div(&y, t, c);
                if (judge("mul-div", "identity", SW_NONE, zq, 1, y, d)) { VF_COUNT("judged/mul-div"); }
                a_complex_add(&t, z, c); a_complex_sub(&y, t, c);
                if (judge("add-sub", "identity", SW_NONE, zq, (cabsq(zq) + 2 * cabsq(mk(cr, ci))) / cabsq(zq), y, d)) { VF_COUNT("judged/add-sub"); }
            }
        }
        if (1 / cabsq(zq) > W_LO * 1e4 && 1 / cabsq(zq) < W_HI / 1e4)
        {
            a_complex_inv(&t, z); a_complex_inv(&y, t);
            if (judge("inv-inv", "identity", SW_NONE, zq, 1, y, d)) { VF_COUNT("judged/inv-inv"); }
        }
        /* exp(log z) = z, conditioning of exp at log z is |log z| */
        if (!near_cut(CUT_NEG_REAL, re, im))
        {
            q_t kl = cabsq(clogq(zq));
            a_complex_log(&t, z); a_complex_exp(&y, t);
            if (judge("log-exp", "identity", SW_CLOG, zq, kl + 1, y, d)) { VF_COUNT("judged/log-exp"); cell("log-exp", reg, cabsq(zq)); }
        }
        /* log(exp z) = z for |Im z| < pi: absolute error eps, i.e. relative 1/|z| */
        if (fabs((double)im) < 3.1 && fabs((double)re) < log((double)A_REAL_MAX) - 1.5) /* exp z itself must be representable for the identity to make sense */
        {
            a_complex_exp(&t, z); a_complex_log(&y, t);
            if (judge("exp-log", "identity", SW_CEXP, zq, 1 + 1 / cabsq(zq) + fabsq(crealq(zq)) / cabsq(zq), y, d)) { VF_COUNT("judged/exp-log"); }
        }
    }
}

static void vf_case(uint64_t c, vf_rng *r)
{
    uint64_t f = c / chunks;
    if (f < (uint64_t)NUF) { unary_case(&UF[f], r); }
    else
    {
        switch ((int)(f - NUF))
        {
        case X_ARITH: arith_case(r); break;
        case X_SCALAR: scalar_case(r); break;
        case X_POW: pow_case(r); break;
        case X_LOGB: logb_case(r); break;
        case X_POLAR: polar_case(r); break;
        case X_REALARG: realarg_case(r); break;
        default: inverse_case(r); break;
        }
        (void)xnames;
    }
    VF_ADD("skipped/near-branch-cut", n_skip_cut);
    VF_ADD("skipped/condition-number-above-1e6", n_skip_cond);
    VF_ADD("skipped/result-outside-representable-decades", n_skip_range);
    n_skip_cut = n_skip_cond = n_skip_range = 0;
}
