/* Address relations between caller operands and container storage (extra configuration "arena" of C04 and C06; -DVF_ARENA=4|6).
 *
 * The main harnesses keep their operands (sort keys, source blocks, trim sets, destinations) on the stack or in far-away heap
 * blocks, and under ASan two heap objects are never neighbours.  Whether an operand happens to live in the bytes directly
 * behind or in front of the container's storage block is therefore a dimension the other configurations never vary - and it is
 * the normal layout with any header-less arena installed through the documented a_alloc extension point.
 *
 * Here a_alloc is a bump allocator over ONE malloc'ed region that the harness owns byte by byte:
 *   allocate = carve the next block (aligned to 16 / 8 / the element size: drawn per case), filled with 0xA5, followed by a gap;
 *   resize   = grow in place when the block is the last one, nothing of the caller's is in the way and the case allows it
 *              (drawn per case), else carve a new block, copy, and POISON the old block with 0xDD (stale reads show in values);
 *   release  = poison.
 * Before every call that takes a caller operand the operand is placed at an exact distance from the CURRENT storage block of
 * the container: directly behind it (distance 0), one element further, directly in front of it, one element further in front,
 * inside a released former block of the same container, or (control) outside the arena.  Operands never overlap live storage.
 * In half of the calls that may grow, the container is first brought into the exactly-full state: the call then moves the block
 * while the operand stays behind the old one.
 *
 * Judged after every call (never more than the property states):
 *   - count <= capacity, capacity * element size (+ header) <= bytes granted for the block, the block is live;
 *   - count and every content byte == array / byte-vector model; sortedness + old elements + new one for the sorted inserts;
 *   - returned pointers inside the live block on an element boundary; NUL-termination clauses of C06 as in h_str.c;
 *   - the caller's operand bytes are what they were before the call (getn: exactly the popped tail arrived, nothing else);
 *   - a shadow copy of every byte of the region that is NOT inside a live block (gaps, released blocks, operands) is compared
 *     with the region: the library may write anywhere inside its own live blocks (spare capacity included), nowhere else.
 * ASan sees the region as one block, so the shadow comparison is what finds intra-region overruns.
 */
#ifndef VF_ARENA
#error "compile with -DVF_ARENA=4|6"
#endif
#if VF_ARENA == 4
#define VF_PROP "C04"
#else
#define VF_PROP "C06"
#endif
#define VF_HAVE_INIT
#include "vf_common.h"
#include "a/vec.h"
#include "a/buf.h"
#include "a/str.h"
#include <limits.h>
#include <ctype.h>

/* ================================================================== the arena */
#define AR_SIZE ((size_t)3 << 19) /* 1.5 MiB */
#define GAP ((size_t)1536)        /* harness-owned bytes kept free behind every carved block (and so in front of the next one) */
#define OPMAX ((size_t)800)       /* largest operand */
#define NBLK 1024
#define B_BACK 0xB6  /* never handed out */
#define B_FRESH 0xA5 /* freshly carved / grown */
#define B_DEAD 0xDD  /* released */
enum { O_FREE = 0, O_LIVE = 1, O_DEAD = 2, O_OPER = 0x80 };
typedef struct { size_t off, size; int live; } ablk;
static unsigned char *AR, *SH, *OWN;
static ablk BL[NBLK];
static int nbl;
static size_t ar_top, ar_prev_used;
static size_t ar_align;      /* alignment of carved blocks in this case */
static int ar_inplace;       /* growth in place allowed in this case */
static int ar_move_on_shrink;/* a resize that does not grow moves the block as well */
static int ar_tight_next;    /* the next carve goes directly behind the last carved block (no gap): two library blocks back to back */
static int ar_exhausted, ar_misuse;
static int ar_adjacent_in_flight; /* an operand sits directly next to a storage block right now */
static int ar_moved_in_call, ar_grew_in_place_in_call;

static char const *KN = "vec", *opname = "op", *tag = "arena";
static int alive;
#define FAIL(clause, ...)                                                      \
    do {                                                                       \
        char key_[160];                                                        \
        snprintf(key_, sizeof(key_), "%s_%s/%s/%s", KN, opname, clause, tag);  \
        vf_viol(key_, __VA_ARGS__);                                            \
        alive = 0;                                                             \
    } while (0)
/* clauses about the region itself: the class of the operand does not belong into the key */
#define FAILA(clause, ...)                                                     \
    do {                                                                       \
        char key_[160];                                                        \
        snprintf(key_, sizeof(key_), "%s_%s/%s/arena", KN, opname, clause);    \
        vf_viol(key_, __VA_ARGS__);                                            \
        alive = 0;                                                             \
    } while (0)

static inline size_t up_to(size_t x, size_t a) { return (x + a - 1) / a * a; }
static size_t ar_used(void) { size_t u = ar_top + GAP; return u < AR_SIZE ? u : AR_SIZE; }

static void arena_reset(void)
{
    size_t const u = ar_prev_used > ar_used() ? ar_prev_used : ar_used();
    memset(AR, B_BACK, u);
    memset(SH, B_BACK, u);
    memset(OWN, O_FREE, u);
    ar_top = GAP;
    ar_prev_used = 0;
    nbl = 0;
    ar_tight_next = ar_exhausted = ar_misuse = ar_adjacent_in_flight = 0;
}
static int blk_find(void const *p)
{
    if (!p) { return -1; }
    for (int i = nbl - 1; i >= 0; --i)
    {
        if (BL[i].live && AR + BL[i].off == (unsigned char const *)p) { return i; }
    }
    return -1;
}
static size_t blk_size(void const *p) { int i = blk_find(p); return i < 0 ? 0 : BL[i].size; }
static void blk_poison(size_t off, size_t n)
{
    memset(AR + off, B_DEAD, n);
    memset(SH + off, B_DEAD, n);
    memset(OWN + off, O_DEAD, n);
}
static int range_is(size_t off, size_t n, int no_oper_only)
{
    /* no_oper_only: no caller operand inside; else: neither live storage nor a caller operand inside */
    for (size_t i = off; i < off + n; ++i)
    {
        if (OWN[i] & O_OPER) { return 0; }
        if (!no_oper_only && OWN[i] == O_LIVE) { return 0; }
    }
    return 1;
}
static unsigned char *carve(size_t size)
{
    size_t off = up_to(ar_top, ar_align);
    if (ar_tight_next && nbl)
    {
        size_t const t = up_to(BL[nbl - 1].off + BL[nbl - 1].size, ar_align);
        if (t + size + 2 * GAP <= AR_SIZE && range_is(t, size, 0)) { off = t; }
    }
    ar_tight_next = 0;
    if (nbl >= NBLK || size > AR_SIZE || off + size + 2 * GAP > AR_SIZE) { ar_exhausted = 1; return NULL; }
    memset(AR + off, B_FRESH, size);
    memset(OWN + off, O_LIVE, size);
    BL[nbl].off = off; BL[nbl].size = size; BL[nbl].live = 1;
    ++nbl;
    if (off + size + GAP > ar_top) { ar_top = off + size + GAP; }
    return AR + off;
}
static void *arena_alloc(void *addr, a_size size)
{
    int i;
    size_t old;
    if (!addr) { return size ? carve(size) : NULL; }
    i = blk_find(addr);
    if (i < 0)
    {
        ar_misuse = 1;
        vf_viol("allocator/released-or-resized-a-block-it-does-not-own/arena", "a_alloc(%p, %zu): not the start of a live block (arena offset %td)", addr, (size_t)size,
                (unsigned char *)addr - AR);
        return NULL;
    }
    old = BL[i].size;
    if (size == 0)
    {
        blk_poison(BL[i].off, old);
        BL[i].live = 0;
        return NULL;
    }
    if (size <= old && !ar_move_on_shrink)
    {
        blk_poison(BL[i].off + size, old - size);
        BL[i].size = size;
        return addr;
    }
    if (size > old && ar_inplace && i == nbl - 1 && BL[i].off + size + 2 * GAP <= AR_SIZE && range_is(BL[i].off + old, size - old, 1))
    {
        memset(AR + BL[i].off + old, B_FRESH, size - old);
        memset(OWN + BL[i].off + old, O_LIVE, size - old);
        BL[i].size = size;
        if (BL[i].off + size + GAP > ar_top) { ar_top = BL[i].off + size + GAP; }
        ar_grew_in_place_in_call = 1;
        VF_COUNT("arena-growth-in-place");
        return addr;
    }
    {
        unsigned char *q = carve(size);
        if (!q) { return NULL; } /* like realloc: the old block stays */
        memcpy(q, addr, old < size ? old : size);
        blk_poison(BL[i].off, old);
        BL[i].live = 0;
        ar_moved_in_call = 1;
        VF_COUNT("arena-resize-moved-block");
        if (ar_adjacent_in_flight) { VF_COUNT("arena-growth-moved-block-with-adjacent-operand"); }
        return q;
    }
}

/* compare the region's non-live bytes [a, b) with the shadow */
static int diff_report(size_t a, size_t b)
{
    size_t j, last, nbad = 0;
    int near = -1;
    long dist = 0;
    char where[160];
    if (a >= b || memcmp(AR + a, SH + a, b - a) == 0) { return 1; }
    for (j = a; AR[j] == SH[j]; ++j) { }
    last = j;
    for (size_t t = j; t < b; ++t) { if (AR[t] != SH[t]) { ++nbad; last = t; } }
    for (int i = 0; i < nbl; ++i)
    {
        long d;
        if (!BL[i].live) { continue; }
        d = j >= BL[i].off + BL[i].size ? (long)(j - (BL[i].off + BL[i].size)) : -(long)(BL[i].off - j);
        if (near < 0 || labs(d) < labs(dist)) { near = i; dist = d; }
    }
    if (near >= 0)
    {
        snprintf(where, sizeof where, "%ld byte(s) %s live block [arena +%zu, %zu bytes]", labs(dist) + (dist < 0 ? 0 : 0), dist >= 0 ? "behind the end of" : "in front of the start of",
                 BL[near].off, BL[near].size);
    }
    else { snprintf(where, sizeof where, "no live block"); }
    if (OWN[j] & O_OPER)
    {
        FAILA("caller-operand-modified", "%zu byte(s) of a caller operand changed during the call, first at arena +%zu (0x%02x -> 0x%02x), last at +%zu; %s", nbad, j, SH[j], AR[j], last, where);
    }
    else if (OWN[j] == O_DEAD)
    {
        FAILA("write-into-released-storage", "%zu byte(s) of a released block changed, first at arena +%zu (0x%02x -> 0x%02x), last at +%zu; %s", nbad, j, SH[j], AR[j], last, where);
    }
    else
    {
        FAILA("write-outside-owned-storage", "%zu byte(s) outside every live block changed, first at arena +%zu (0x%02x -> 0x%02x), last at +%zu; %s", nbad, j, SH[j], AR[j], last, where);
    }
    memcpy(SH + a, AR + a, b - a);
    return 0;
}
static int arena_verify(void)
{
    size_t pos = 0, const_used = ar_used();
    int ok = 1;
    VF_COUNT("arena-non-owned-bytes-verified");
    for (int i = 0; i < nbl; ++i)
    {
        if (!BL[i].live) { continue; }
        if (BL[i].off > pos) { ok &= diff_report(pos, BL[i].off); }
        if (BL[i].off + BL[i].size > pos) { pos = BL[i].off + BL[i].size; }
    }
    ok &= diff_report(pos, const_used);
    if (const_used > ar_prev_used) { ar_prev_used = const_used; }
    return ok;
}
static int arena_all_released(char const *what)
{
    for (int i = 0; i < nbl; ++i)
    {
        if (BL[i].live)
        {
            FAILA("block-not-released", "%s: block [arena +%zu, %zu bytes] is still live after every object was destroyed", what, BL[i].off, BL[i].size);
            return 0;
        }
    }
    return 1;
}

/* ------------------------------------------------------------------ operands */
enum { R_BEHIND0, R_BEHIND1, R_FRONT0, R_FRONT1, R_FORMER, R_FAR, R_N };
static char const *const rel_name[R_N] = {"directly behind the storage block", "one element behind the storage block", "directly in front of the storage block",
                                          "one element in front of the storage block", "inside a released former storage block", "outside the arena"};
typedef struct
{
    unsigned char *p;
    size_t len;
    int rel;
    unsigned char save[OPMAX + 8];
} operand;
static operand OP[3];
static int nop;
static unsigned char FARBUF[3][OPMAX + 64];

static int draw_rel(vf_rng *r)
{
    unsigned const x = (unsigned)vf_below(r, 100);
    return x < 36 ? R_BEHIND0 : x < 60 ? R_FRONT0 : x < 70 ? R_BEHIND1 : x < 80 ? R_FRONT1 : x < 92 ? R_FORMER : R_FAR;
}
/* bs/bsz: the container's current storage block (allocation start, granted bytes), null if it has none */
static operand *op_place(int rel, unsigned char *bs, size_t bsz, size_t esz, size_t len, int has_former, size_t f_off, size_t f_size)
{
    operand *o = &OP[nop];
    size_t off = SIZE_MAX;
    size_t const base = bs ? (size_t)(bs - AR) : 0;
    if (len > OPMAX) { fprintf(stderr, "h_arena: operand of %zu bytes\n", len); exit(2); }
    switch (rel)
    {
    case R_BEHIND0: if (bs) { off = base + bsz; } break;
    case R_BEHIND1: if (bs) { off = base + bsz + esz; } break;
    case R_FRONT0: if (bs && base >= len) { off = base - len; } break;
    case R_FRONT1: if (bs && base >= len + esz) { off = base - len - esz; } break;
    case R_FORMER: if (has_former && f_size >= len) { off = f_off; } break;
    default: break;
    }
    if (off != SIZE_MAX && (off + len + GAP > AR_SIZE || !range_is(off, len, 0))) { off = SIZE_MAX; }
    if (off == SIZE_MAX)
    {
        if (rel != R_FAR) { VF_COUNT("arena-placement-fell-back-to-far"); }
        rel = R_FAR;
        o->p = FARBUF[nop] + 16;
    }
    else
    {
        o->p = AR + off;
        for (size_t i = 0; i < len; ++i) { OWN[off + i] |= O_OPER; }
        if (off + len + GAP > ar_top && off + len <= ar_top + GAP) { /* inside the tail gap: keep it inside the verified range */ }
    }
    o->len = len;
    o->rel = rel;
    ++nop;
    switch (rel)
    {
    case R_BEHIND0: VF_COUNT("arena-operand-directly-behind-storage"); break;
    case R_BEHIND1: VF_COUNT("arena-operand-one-element-behind-storage"); break;
    case R_FRONT0: VF_COUNT("arena-operand-directly-in-front"); break;
    case R_FRONT1: VF_COUNT("arena-operand-one-element-in-front"); break;
    case R_FORMER: VF_COUNT("arena-operand-in-released-former-block"); break;
    default: VF_COUNT("arena-operand-outside-arena"); break;
    }
    if (rel <= R_FRONT1) { ar_adjacent_in_flight = 1; tag = "arena-adjacent-operand"; }
    else if (rel == R_FORMER) { tag = "arena-operand-in-released-block"; }
    return o;
}
/* the harness has written the operand: remember it, and make the shadow agree */
static void op_commit(operand *o)
{
    if (o->len) { memcpy(o->save, o->p, o->len); }
    if (o->rel != R_FAR && o->len) { memcpy(SH + (o->p - AR), o->p, o->len); }
}
static int op_unchanged(operand *o, char const *what)
{
    VF_COUNT("arena-caller-operand-unchanged");
    if (o->len && memcmp(o->p, o->save, o->len) != 0)
    {
        size_t i = 0;
        while (o->p[i] == o->save[i]) { ++i; }
        FAILA("caller-operand-modified", "%s (%zu bytes, %s): byte %zu was 0x%02x before the call and is 0x%02x after it", what, o->len, rel_name[o->rel], i, o->save[i], o->p[i]);
        if (o->rel != R_FAR) { memcpy(SH + (o->p - AR), o->p, o->len); }
        return 0;
    }
    return 1;
}
static void op_release(void)
{
    for (int k = 0; k < nop; ++k)
    {
        if (OP[k].rel != R_FAR)
        {
            size_t const off = (size_t)(OP[k].p - AR);
            for (size_t i = 0; i < OP[k].len; ++i) { OWN[off + i] &= (unsigned char)~O_OPER; }
        }
    }
    nop = 0;
    ar_adjacent_in_flight = 0;
    tag = "arena";
}

static void vf_init(void)
{
    AR = (unsigned char *)malloc(AR_SIZE);
    SH = (unsigned char *)malloc(AR_SIZE);
    OWN = (unsigned char *)malloc(AR_SIZE);
    if (!AR || !SH || !OWN) { fprintf(stderr, "h_arena: out of memory\n"); exit(2); }
    ar_top = AR_SIZE; /* first reset paints everything */
    ar_prev_used = AR_SIZE;
    arena_reset();
    a_alloc = arena_alloc;
}

/* comparator: only the sign is contractual */
static int cmp_style;
static inline int cmp_result(int d)
{
    if (d == 0) { return 0; }
    switch (cmp_style)
    {
    case 0: return d > 0 ? 1 : -1;
    case 1: return d;
    default: return d > 0 ? INT_MAX : INT_MIN;
    }
}
static int cmp_elem(void const *l, void const *r)
{
    return cmp_result((int)*(unsigned char const *)l - (int)*(unsigned char const *)r);
}
static uint64_t vf_ncases(int tier) { return tier ? 20000 : 2000; }

/* ================================================================== C04: vector and buffer */
#if VF_ARENA == 4
#define MAXN 100
#define MAXZ 100
static size_t const ESZ[] = {1, 2, 4, 8, 12, 16, 24, 33, 100};
#define N_ESZ (sizeof ESZ / sizeof ESZ[0])
typedef struct
{
    int is_buf, by_new;
    a_vec *v;
    a_vec vs; /* header in caller storage when !by_new */
    a_buf *b;
    size_t siz, num;
    unsigned char e[MAXN][MAXZ];
    int sorted;
    int has_former;
    size_t f_off, f_size;
} seq;
static seq S[2];
static size_t g_siz;
static uint32_t serial;
static uint64_t dtor_n;
static int dtor_bad;
static unsigned char *dtor_lo, *dtor_hi;
static void dtor_elem(void *p)
{
    ++dtor_n;
    if ((unsigned char *)p < dtor_lo || (unsigned char *)p + g_siz > dtor_hi) { dtor_bad = 1; }
}
static int copy_elem(void *dst, void const *src)
{
    memcpy(dst, src, g_siz);
    return 0;
}
static size_t L_num(seq *s) { return s->is_buf ? a_buf_num(s->b) : a_vec_num(s->v); }
static size_t L_mem(seq *s) { return s->is_buf ? a_buf_mem(s->b) : a_vec_mem(s->v); }
static size_t L_siz(seq *s) { return s->is_buf ? a_buf_siz(s->b) : a_vec_siz(s->v); }
static unsigned char *L_ptr(seq *s) { return (unsigned char *)(s->is_buf ? a_buf_ptr(s->b) : a_vec_ptr(s->v)); }
static unsigned char *L_blk(seq *s) { return s->is_buf ? (unsigned char *)s->b : (unsigned char *)a_vec_ptr(s->v); }
static size_t L_hdr(seq *s) { return s->is_buf ? sizeof(a_buf) : 0; }
static int idx_of(seq *s) { return (int)(s - S); }

static void mk_elem(vf_rng *r, seq *s, unsigned char *out, int key)
{
    uint32_t const id = ++serial;
    memset(out, 0, MAXZ);
    out[0] = (unsigned char)(key >= 0 ? key : (int)vf_below(r, 24));
    for (size_t i = 1; i < s->siz; ++i) { out[i] = (unsigned char)((id >> (8 * ((i - 1) & 3))) ^ (i > 4 ? 0x5A + i : 0)); }
}
static void model_insert(seq *s, size_t idx, unsigned char const *el)
{
    memmove(s->e[idx + 1], s->e[idx], (s->num - idx) * MAXZ);
    memcpy(s->e[idx], el, MAXZ);
    ++s->num;
}
static void model_remove(seq *s, size_t idx, unsigned char *out)
{
    if (out) { memcpy(out, s->e[idx], MAXZ); }
    memmove(s->e[idx], s->e[idx + 1], (s->num - idx - 1) * MAXZ);
    --s->num;
}
static int model_is_sorted(seq *s)
{
    for (size_t i = 1; i < s->num; ++i) { if (s->e[i - 1][0] > s->e[i][0]) { return 0; } }
    return 1;
}
static size_t model_upper(seq *s, unsigned char key)
{
    size_t i = 0;
    while (i < s->num && s->e[i][0] <= key) { ++i; }
    return i;
}

/* ---- before / after a library call on s */
static unsigned char *pre_blk;
static size_t pre_off, pre_size;
static int pre_had, pre_full;
static void pre_call(seq *s)
{
    int i;
    pre_blk = L_blk(s);
    i = blk_find(pre_blk);
    pre_had = i >= 0;
    pre_off = pre_size = 0;
    if (pre_had) { pre_off = BL[i].off; pre_size = BL[i].size; }
    pre_full = L_num(s) == L_mem(s);
    ar_moved_in_call = ar_grew_in_place_in_call = 0;
    g_siz = s->siz;
}
static void post_call(seq *s)
{
    if (pre_had && L_blk(s) != pre_blk && blk_find(pre_blk) < 0)
    {
        s->has_former = 1;
        s->f_off = pre_off;
        s->f_size = pre_size;
    }
}

/* full judgement after a call */
static int judge(seq *s)
{
    size_t const n = L_num(s), m = L_mem(s), z = L_siz(s);
    unsigned char *const blk = L_blk(s);
    ++vf.evals;
    VF_COUNT("arena-state-compared-with-model");
    if (ar_misuse) { alive = 0; return 0; }
    if (z != s->siz) { FAIL("element-size", "library element size %zu, model %zu", z, s->siz); return 0; }
    if (n > m) { FAIL("count-exceeds-capacity", "num %zu > mem %zu", n, m); return 0; }
    if (blk || m)
    {
        int const i = blk_find(blk);
        if (i < 0) { FAIL("storage-is-not-a-live-block", "capacity %zu but the storage %p (arena offset %td) is not the start of a live block", m, (void *)blk, blk ? blk - AR : 0); return 0; }
        if ((unsigned __int128)m * z + L_hdr(s) > BL[i].size)
        {
            FAIL("capacity-exceeds-granted-storage", "mem %zu x element size %zu + header %zu > %zu bytes granted for the block", m, z, L_hdr(s), BL[i].size);
            return 0;
        }
    }
    if (n != s->num) { FAIL("count", "library count %zu, model %zu", n, s->num); return 0; }
    {
        unsigned char const *p = L_ptr(s);
        for (size_t k = 0; k < n; ++k)
        {
            if (memcmp(p + k * z, s->e[k], z) != 0)
            {
                size_t j = 0;
                while (p[k * z + j] == s->e[k][j]) { ++j; }
                FAIL("contents", "element %zu of %zu, byte %zu: library 0x%02x model 0x%02x (element size %zu; 0xdd = released block, 0xa5 = fresh storage)", k, n, j, p[k * z + j], s->e[k][j], z);
                return 0;
            }
        }
    }
    return arena_verify() && alive;
}
static int owned(seq *s, void *ret, char const *what)
{
    unsigned char *const b = L_ptr(s), *const p = (unsigned char *)ret;
    size_t const z = s->siz, m = L_mem(s);
    VF_COUNT("arena-returned-pointer-inside-live-block");
    if (blk_find(L_blk(s)) < 0 || (unsigned __int128)m * z + L_hdr(s) > blk_size(L_blk(s)))
    {
        FAIL("storage-is-not-a-live-block", "%s: storage %p with capacity %zu is not covered by a live block", what, (void *)b, m);
        return 0;
    }
    if (p < b || p >= b + m * z || (size_t)(p - b) % z != 0)
    {
        FAIL("pointer-outside-owned-storage", "%s %p (offset %td from the payload) is not an element slot of the live block (capacity %zu x %zu bytes)", what, ret, p - b, m, z);
        return 0;
    }
    return 1;
}

/* ---- thin call wrappers */
static void *L_push_back(seq *s) { return s->is_buf ? a_buf_push_back(s->b) : a_vec_push_back(s->v); }
static void *L_push_fore(seq *s) { return s->is_buf ? a_buf_push_fore(s->b) : a_vec_push_fore(s->v); }
static void *L_insert(seq *s, size_t i) { return s->is_buf ? a_buf_insert(s->b, i) : a_vec_insert(s->v, i); }
static void *L_push_sort(seq *s, void const *k) { return s->is_buf ? a_buf_push_sort(s->b, k, cmp_elem) : a_vec_push_sort(s->v, k, cmp_elem); }
static void *L_search(seq *s, void const *k) { return s->is_buf ? a_buf_search(s->b, k, cmp_elem) : a_vec_search(s->v, k, cmp_elem); }
static void *L_remove(seq *s, size_t i) { return s->is_buf ? a_buf_remove(s->b, i) : a_vec_remove(s->v, i); }
static void *L_pull_fore(seq *s) { return s->is_buf ? a_buf_pull_fore(s->b) : a_vec_pull_fore(s->v); }
static void *L_pull_back(seq *s) { return s->is_buf ? a_buf_pull_back(s->b) : a_vec_pull_back(s->v); }
static int L_store(seq *s, size_t i, void *p, size_t n, int (*cp)(void *, void const *)) { return s->is_buf ? a_buf_store(s->b, i, p, n, cp) : a_vec_store(s->v, i, p, n, cp); }
static int L_erase(seq *s, size_t i, size_t n, void (*d)(void *)) { return s->is_buf ? a_buf_erase(s->b, i, n, d) : a_vec_erase(s->v, i, n, d); }
static void L_sort(seq *s) { if (s->is_buf) { a_buf_sort(s->b, cmp_elem); } else { a_vec_sort(s->v, cmp_elem); } }
static void L_sort_fore(seq *s) { if (s->is_buf) { a_buf_sort_fore(s->b, cmp_elem); } else { a_vec_sort_fore(s->v, cmp_elem); } }
static void L_sort_back(seq *s) { if (s->is_buf) { a_buf_sort_back(s->b, cmp_elem); } else { a_vec_sort_back(s->v, cmp_elem); } }

static void cell(seq *s, int op, int rel, int full, int moved)
{
    size_t zc = 0;
    while (zc < N_ESZ && ESZ[zc] != s->siz) { ++zc; }
    vf_distinct(vf_hash64(vf_hash64(vf_hash64(0xA400 + (uint64_t)s->is_buf, (uint64_t)op * 16 + (uint64_t)rel), zc * 4 + (uint64_t)full * 2 + (uint64_t)moved), 4));
}
static operand *place_for(seq *s, int rel, size_t len)
{
    unsigned char *const bs = L_blk(s);
    return op_place(rel, blk_find(bs) >= 0 ? bs : NULL, blk_size(bs), s->siz, len, s->has_former, s->f_off, s->f_size);
}

/* ---- bringing the container into a capacity state (unjudged single pushes; the judgement of the next call covers them) */
static int quiet_push(seq *s, vf_rng *r)
{
    unsigned char el[MAXZ];
    void *p;
    size_t idx;
    mk_elem(r, s, el, -1);
    idx = s->sorted ? model_upper(s, el[0]) : s->num;
    opname = "insert";
    vf_log("  %s %d: filling push at %zu key %u (num %zu mem %zu)", KN, idx_of(s), idx, el[0], s->num, L_mem(s));
    pre_call(s);
    p = L_insert(s, idx);
    post_call(s);
    if (!p)
    {
        if (ar_exhausted) { alive = 0; return 0; }
        FAIL("unexpected-null", "insert(%zu) returned null with num %zu mem %zu", idx, s->num, L_mem(s));
        return 0;
    }
    if (!owned(s, p, "new element")) { return 0; }
    memcpy(p, el, s->siz);
    model_insert(s, idx, el);
    return arena_verify() && alive;
}
/* leave exactly k spare slots (k = 0: exactly full) if that is reachable by pushing */
static void fill_until(seq *s, vf_rng *r, size_t k)
{
    if (!s->is_buf && L_mem(s) == 0 && s->num + 12 < MAXN) { quiet_push(s, r); }
    while (alive && L_mem(s) - L_num(s) > k && s->num + 12 < MAXN)
    {
        if (!quiet_push(s, r)) { return; }
    }
}
/* a fixed buffer that is full gets room through a_buf_setm (the documented way to enlarge it) */
static void buf_room(seq *s, vf_rng *r, size_t need)
{
    if (s->is_buf && L_num(s) + need > L_mem(s))
    {
        size_t const m = L_num(s) + need + (size_t)vf_below(r, 6);
        a_buf *nb;
        opname = "setm";
        vf_log("  buf %d: a_buf_setm(%zu) to make room (num %zu mem %zu)", idx_of(s), m, s->num, L_mem(s));
        pre_call(s);
        nb = a_buf_setm(s->b, m);
        if (!nb) { alive = 0; if (!ar_exhausted) { FAIL("unexpected-null", "a_buf_setm(%zu) returned null", m); } return; }
        s->b = nb;
        post_call(s);
        arena_verify();
    }
}

/* result == old sequence with `el` inserted at a position that keeps it sorted (position among equal keys not prescribed) */
static int check_sorted_insert(seq *s, unsigned char (*old)[MAXZ], size_t oldn, unsigned char const *el)
{
    unsigned char *p = L_ptr(s);
    size_t const z = s->siz, n = L_num(s);
    VF_COUNT("arena-sorted-insert-keeps-order-and-elements");
    if (n != oldn + 1) { FAIL("count", "count %zu after sorted insert into %zu", n, oldn); return 0; }
    for (size_t i = 1; i < n; ++i)
    {
        if (p[(i - 1) * z] > p[i * z]) { FAIL("not-sorted", "keys %u then %u at index %zu of %zu (new key %u)", p[(i - 1) * z], p[i * z], i, n, el[0]); return 0; }
    }
    for (size_t pos = 0; pos < n; ++pos)
    {
        size_t j = 0;
        int match = 1;
        if (memcmp(p + pos * z, el, z) != 0) { continue; }
        for (size_t i = 0; i < n && match; ++i)
        {
            if (i == pos) { continue; }
            if (memcmp(p + i * z, old[j++], z) != 0) { match = 0; }
        }
        if (match)
        {
            for (size_t i = 0, k = 0; i < n; ++i)
            {
                if (i == pos) { memcpy(s->e[i], el, MAXZ); }
                else { memcpy(s->e[i], old[k++], MAXZ); }
            }
            s->num = n;
            return 1;
        }
    }
    FAIL("element-lost-or-reordered", "result is not the old sequence plus the new element");
    return 0;
}
static unsigned char OLD[MAXN][MAXZ];

enum { OP_PUSH_BACK, OP_PUSH_FORE, OP_INSERT, OP_PUSH_SORT, OP_SEARCH, OP_STORE, OP_SORT_FORE, OP_SORT_BACK, OP_SORT, OP_REMOVE, OP_PULL_FORE, OP_PULL_BACK,
       OP_ERASE, OP_SETN, OP_SETM, OP_SETZ, OP_SWAP, OP_RECREATE, OP_N };
static char const *const op_name[OP_N] = {"push_back", "push_fore", "insert", "push_sort", "search", "store", "sort_fore", "sort_back", "sort", "remove", "pull_fore", "pull_back",
                                          "erase", "setn", "setm", "setz", "swap", "recreate"};

static void do_sort(seq *s)
{
    size_t const z = s->siz, n = s->num;
    opname = "sort";
    vf_log("%s %d: sort (num %zu)", KN, idx_of(s), n);
    if (!L_ptr(s) || n == 0) { s->sorted = 1; return; } /* the empty / unallocated container is the main harness's business */
    pre_call(s);
    L_sort(s);
    post_call(s);
    ++vf.evals;
    VF_COUNT("arena-sort-sorted-permutation");
    if (L_num(s) != n) { FAIL("count", "count %zu after sorting %zu elements", L_num(s), n); return; }
    {
        /* sorted by key, and a permutation of the model: every model element is matched by exactly one library element */
        unsigned char *p = L_ptr(s);
        static unsigned char used[MAXN];
        memset(used, 0, sizeof used);
        for (size_t i = 1; i < n; ++i) { if (p[(i - 1) * z] > p[i * z]) { FAIL("not-sorted", "keys %u then %u at %zu", p[(i - 1) * z], p[i * z], i); return; } }
        for (size_t i = 0; i < n; ++i)
        {
            size_t k;
            for (k = 0; k < n; ++k) { if (!used[k] && memcmp(p + i * z, s->e[k], z) == 0) { used[k] = 1; break; } }
            if (k == n) { FAIL("not-a-permutation", "element %zu of the sorted result is not an element of the sequence before the call", i); return; }
        }
        for (size_t i = 0; i < n; ++i) { memset(s->e[i], 0, MAXZ); memcpy(s->e[i], p + i * z, z); }
    }
    s->sorted = 1;
    judge(s);
}

/* push_back / push_fore / insert [+ sort_fore / sort_back]: the element the caller stores into the returned slot is the operand */
static void do_push(seq *s, vf_rng *r, int op)
{
    unsigned char el[MAXZ];
    int const with_sort = op == OP_SORT_FORE || op == OP_SORT_BACK;
    int const rel = draw_rel(r);
    int refuse, state = (int)vf_below(r, 4);
    size_t idx, num;
    operand *o;
    void *p;
    if (s->num + 14 >= MAXN) { return; }
    if (with_sort && !s->sorted) { do_sort(s); if (!alive) { return; } }
    /* capacity state: 0,1 exactly full before the call (the vector grows and moves, the buffer refuses); 2 one spare slot (exactly full after the push:
       the in-place paths of sort_fore / sort_back); 3 as it is */
    if (s->is_buf)
    {
        if (state <= 1 && vf_chance(r, 1, 2)) { state = 3; }
        if (state <= 1) { fill_until(s, r, 0); }
        else { buf_room(s, r, 1); if (state == 2) { fill_until(s, r, 1); } }
    }
    else if (state <= 1) { fill_until(s, r, 0); }
    else if (state == 2) { fill_until(s, r, 1); }
    if (!alive) { return; }
    num = s->num;
    refuse = s->is_buf && num >= L_mem(s);
    mk_elem(r, s, el, -1);
    idx = op == OP_PUSH_FORE || op == OP_SORT_FORE ? 0 : op == OP_INSERT ? (vf_chance(r, 1, 8) ? SIZE_MAX : (size_t)vf_below(r, num + 1)) : num;
    o = place_for(s, rel, s->siz);
    memcpy(o->p, el, s->siz);
    op_commit(o);
    opname = op == OP_SORT_FORE ? "push_fore" : op == OP_SORT_BACK ? "push_back" : op_name[op];
    pre_call(s);
    vf_log("%s %d: %s idx %zu key %u; the element to store lies %s (arena %td); num %zu mem %zu siz %zu block +%zu/%zu%s", KN, idx_of(s), opname, idx, el[0], rel_name[o->rel],
           o->rel == R_FAR ? (ptrdiff_t)-1 : o->p - AR, num, L_mem(s), s->siz, pre_off, pre_size, pre_full ? " EXACTLY FULL" : "");
    p = op == OP_INSERT ? L_insert(s, idx) : idx == 0 && op != OP_PUSH_BACK && op != OP_SORT_BACK ? L_push_fore(s) : L_push_back(s);
    post_call(s);
    ++vf.evals;
    cell(s, op, o->rel, pre_full, ar_moved_in_call);
    if (refuse)
    {
        VF_COUNT("arena-buf-refuses-when-full");
        if (p) { FAIL("accepted-although-full", "returned %p with num == mem == %zu", p, num); }
        else { op_unchanged(o, "element to store"); judge(s); }
        op_release();
        return;
    }
    if (!p)
    {
        if (!ar_exhausted) { FAIL("unexpected-null", "returned null with num %zu mem %zu", num, L_mem(s)); }
        alive = 0;
        op_release();
        return;
    }
    if (ar_moved_in_call && o->rel <= R_FRONT1) { VF_COUNT("arena-push-moved-block-with-adjacent-element-source"); }
    if (!owned(s, p, "new element") || !op_unchanged(o, "element to store")) { op_release(); return; }
    memcpy(p, o->p, s->siz); /* the caller's copy, from where the caller keeps the element */
    if (with_sort) { memcpy(OLD, s->e, sizeof(unsigned char[MAXZ]) * num); }
    {
        size_t const at = idx < num ? idx : num;
        model_insert(s, at, el);
    }
    if (!with_sort) { s->sorted = s->sorted && model_is_sorted(s); }
    if (!judge(s)) { op_release(); return; }
    op_release();
    if (with_sort)
    {
        int const full = L_num(s) == L_mem(s);
        opname = op_name[op];
        vf_log("%s %d: %s (num %zu mem %zu%s)", KN, idx_of(s), opname, s->num, L_mem(s), full ? " EXACTLY FULL" : "");
        pre_call(s);
        if (op == OP_SORT_FORE) { L_sort_fore(s); } else { L_sort_back(s); }
        post_call(s);
        ++vf.evals;
        if (full) { VF_COUNT("arena-sort_fore-sort_back-path-full"); } else { VF_COUNT("arena-sort_fore-sort_back-path-spare"); }
        cell(s, op + 32, R_FAR, full, 0);
        if (check_sorted_insert(s, OLD, num, el)) { judge(s); }
    }
}

static void do_push_sort(seq *s, vf_rng *r)
{
    unsigned char el[MAXZ];
    int const rel = draw_rel(r);
    int refuse, want_full = vf_chance(r, 1, 2);
    size_t num, pos;
    operand *o;
    void *p;
    if (s->num + 14 >= MAXN) { return; }
    if (!s->sorted) { do_sort(s); if (!alive) { return; } }
    if (s->is_buf)
    {
        if (want_full && vf_chance(r, 1, 2)) { fill_until(s, r, 0); }
        else { buf_room(s, r, 1); }
    }
    else if (want_full) { fill_until(s, r, 0); }
    if (!alive) { return; }
    num = s->num;
    refuse = s->is_buf && num >= L_mem(s);
    mk_elem(r, s, el, -1);
    o = place_for(s, rel, s->siz);
    memcpy(o->p, el, s->siz);
    op_commit(o);
    opname = "push_sort";
    pre_call(s);
    vf_log("%s %d: push_sort key %u; the key object lies %s (arena %td); num %zu mem %zu siz %zu block +%zu/%zu%s", KN, idx_of(s), el[0], rel_name[o->rel],
           o->rel == R_FAR ? (ptrdiff_t)-1 : o->p - AR, num, L_mem(s), s->siz, pre_off, pre_size, pre_full ? " EXACTLY FULL" : "");
    p = L_push_sort(s, o->p);
    post_call(s);
    ++vf.evals;
    VF_COUNT("arena-push_sort");
    cell(s, OP_PUSH_SORT, o->rel, pre_full, ar_moved_in_call);
    if (refuse)
    {
        VF_COUNT("arena-buf-refuses-when-full");
        if (p) { FAIL("accepted-although-full", "returned %p with num == mem == %zu", p, num); }
        else { op_unchanged(o, "key"); judge(s); }
        op_release();
        return;
    }
    if (!p)
    {
        if (!ar_exhausted) { FAIL("unexpected-null", "returned null with num %zu mem %zu", num, L_mem(s)); }
        alive = 0;
        op_release();
        return;
    }
    if (!s->is_buf && pre_full && pre_had && o->rel == R_BEHIND0)
    {
        VF_COUNT("arena-push_sort-exactly-full-key-directly-behind");
        if (vf_want_sample() && ar_moved_in_call)
        {
            vf_sample("arena: a_vec_push_sort(key %u) on an exactly full vector (%zu elements of %zu bytes, block at arena +%zu) with the key object in the bytes directly behind the block (arena +%td): "
                      "block moved to arena +%td, slot %zu returned", el[0], num, s->siz, pre_off, o->p - AR, L_blk(s) - AR, (size_t)((unsigned char *)p - L_ptr(s)) / s->siz);
        }
    }
    if (ar_moved_in_call && o->rel <= R_FRONT1) { VF_COUNT("arena-push_sort-moved-block-with-adjacent-key"); }
    if (!owned(s, p, "new element") || !op_unchanged(o, "key")) { op_release(); return; }
    pos = (size_t)((unsigned char *)p - L_ptr(s)) / s->siz;
    if (pos > num) { FAIL("pointer-outside-live-range", "slot %zu returned for a sorted insert into %zu elements", pos, num); op_release(); return; }
    memcpy(p, o->p, s->siz);
    memcpy(OLD, s->e, sizeof(unsigned char[MAXZ]) * num);
    if (check_sorted_insert(s, OLD, num, el)) { judge(s); }
    op_release();
}

static void do_search(seq *s, vf_rng *r)
{
    unsigned char keyel[MAXZ];
    int const rel = draw_rel(r);
    int present = 0;
    operand *o;
    void *p;
    if (!s->sorted) { do_sort(s); if (!alive) { return; } }
    if (!L_ptr(s) || s->num == 0) { return; }
    memset(keyel, 0x3C, sizeof keyel);
    keyel[0] = vf_chance(r, 1, 2) ? s->e[vf_below(r, s->num)][0] : (unsigned char)vf_below(r, 26);
    for (size_t k = 0; k < s->num; ++k) { present |= s->e[k][0] == keyel[0]; }
    o = place_for(s, rel, s->siz);
    memcpy(o->p, keyel, s->siz);
    op_commit(o);
    opname = "search";
    pre_call(s);
    vf_log("%s %d: search key %u (present %d); the key object lies %s (arena %td); num %zu mem %zu siz %zu block +%zu/%zu", KN, idx_of(s), keyel[0], present, rel_name[o->rel],
           o->rel == R_FAR ? (ptrdiff_t)-1 : o->p - AR, s->num, L_mem(s), s->siz, pre_off, pre_size);
    p = L_search(s, o->p);
    post_call(s);
    ++vf.evals;
    VF_COUNT("arena-search-finds-iff-present");
    cell(s, OP_SEARCH, o->rel, pre_full, 0);
    if (present != (p != NULL)) { FAIL("found-iff-present", "key %u present=%d but search returned %p", keyel[0], present, p); }
    else if (p)
    {
        unsigned char *b = L_ptr(s);
        if ((unsigned char *)p < b || (unsigned char *)p >= b + s->num * s->siz || (size_t)((unsigned char *)p - b) % s->siz || *(unsigned char *)p != keyel[0])
        {
            FAIL("wrong-element", "search returned %p which is not a live element with key %u", p, keyel[0]);
        }
    }
    if (alive && op_unchanged(o, "key")) { judge(s); }
    op_release();
}

static void do_store(seq *s, vf_rng *r)
{
    static unsigned char blk[OPMAX];
    int const rel = draw_rel(r), with_copy = vf_chance(r, 1, 2);
    size_t maxc = OPMAX / s->siz, cnt, idx, num;
    int rc, refuse;
    operand *o;
    if (maxc > 8) { maxc = 8; }
    cnt = vf_chance(r, 1, 10) ? 0 : 1 + (size_t)vf_below(r, maxc);
    if (s->num + cnt + 14 >= MAXN) { return; }
    if (s->is_buf) { if (vf_chance(r, 3, 4)) { buf_room(s, r, cnt); } }
    else if (vf_chance(r, 1, 2)) { fill_until(s, r, 0); }
    if (!alive) { return; }
    num = s->num;
    refuse = s->is_buf && num + cnt > L_mem(s);
    idx = vf_chance(r, 1, 8) ? SIZE_MAX : (size_t)vf_below(r, num + 1);
    for (size_t k = 0; k < cnt; ++k)
    {
        unsigned char el[MAXZ];
        mk_elem(r, s, el, -1);
        memcpy(blk + k * s->siz, el, s->siz);
    }
    o = place_for(s, rel, cnt * s->siz);
    memcpy(o->p, blk, cnt * s->siz);
    op_commit(o);
    opname = "store";
    pre_call(s);
    vf_log("%s %d: store idx %zu, %zu element(s)%s; the source block lies %s (arena %td); num %zu mem %zu siz %zu block +%zu/%zu%s", KN, idx_of(s), idx, cnt, with_copy ? " with copy callback" : "",
           rel_name[o->rel], o->rel == R_FAR ? (ptrdiff_t)-1 : o->p - AR, num, L_mem(s), s->siz, pre_off, pre_size, pre_full ? " EXACTLY FULL" : "");
    rc = L_store(s, idx, o->p, cnt, with_copy ? copy_elem : NULL);
    post_call(s);
    ++vf.evals;
    VF_COUNT("arena-store");
    cell(s, OP_STORE, o->rel, pre_full, ar_moved_in_call);
    if (refuse)
    {
        VF_COUNT("arena-buf-refuses-when-full");
        if (rc == 0) { FAIL("accepted-although-full", "store of %zu into num %zu mem %zu returned 0", cnt, num, L_mem(s)); }
    }
    else if (rc != 0)
    {
        if (!ar_exhausted) { FAIL("unexpected-failure", "store of %zu element(s) returned %d (num %zu mem %zu)", cnt, rc, num, L_mem(s)); }
        alive = 0;
    }
    else
    {
        size_t const at = idx < num ? idx : num;
        if (ar_moved_in_call && o->rel <= R_FRONT1 && cnt) { VF_COUNT("arena-store-growth-with-adjacent-source"); }
        for (size_t k = 0; k < cnt; ++k)
        {
            unsigned char el[MAXZ];
            memset(el, 0, sizeof el);
            memcpy(el, blk + k * s->siz, s->siz);
            model_insert(s, at + k, el);
        }
        if (cnt) { s->sorted = s->sorted && model_is_sorted(s); }
    }
    if (alive && op_unchanged(o, "source block")) { judge(s); }
    op_release();
}

static void do_pull(seq *s, vf_rng *r, int op)
{
    unsigned char want[MAXZ];
    size_t const num = s->num;
    size_t idx = 0;
    void *p;
    (void)num;
    if (op == OP_REMOVE)
    {
        idx = vf_chance(r, 1, 8) ? (vf_chance(r, 1, 2) ? SIZE_MAX : num) : (size_t)vf_below(r, num ? num : 1);
        /* both implementations: exactly full (rotation in place) and spare slot (scratch copy) */
        if (vf_chance(r, 1, 3) && s->num + 14 < MAXN) { fill_until(s, r, 0); }
    }
    if (!alive) { return; }
    opname = op_name[op];
    pre_call(s);
    vf_log("%s %d: %s idx %zu (num %zu mem %zu siz %zu)%s", KN, idx_of(s), opname, idx, s->num, L_mem(s), s->siz, pre_full ? " EXACTLY FULL" : "");
    p = op == OP_REMOVE ? L_remove(s, idx) : op == OP_PULL_FORE ? L_pull_fore(s) : L_pull_back(s);
    post_call(s);
    ++vf.evals;
    cell(s, op, R_FAR, pre_full, 0);
    if (s->num == 0)
    {
        if (p) { FAIL("non-null-from-empty", "returned %p from an empty container", p); return; }
        judge(s);
        return;
    }
    {
        size_t const n = s->num;
        size_t const at = op == OP_PULL_BACK ? n - 1 : op == OP_PULL_FORE ? 0 : (idx < n - 1 ? idx : n - 1);
        model_remove(s, at, want);
    }
    if (!p) { FAIL("unexpected-null", "returned null with %zu elements", s->num + 1); return; }
    if (!owned(s, p, "removed element")) { return; }
    VF_COUNT("arena-removed-element-intact-and-past-live-range");
    {
        size_t const slot = (size_t)((unsigned char *)p - L_ptr(s)) / s->siz;
        if (slot < s->num) { FAIL("removed-ptr-overlaps-live-element", "removed element parked at slot %zu but %zu elements remain", slot, s->num); return; }
        if (memcmp(p, want, s->siz) != 0) { FAIL("removed-element-not-intact", "bytes behind the returned pointer are not the removed element"); return; }
    }
    judge(s);
}

static void do_erase(seq *s, vf_rng *r)
{
    size_t const num = s->num;
    size_t const idx = vf_chance(r, 1, 8) ? num + (size_t)vf_below(r, 2) : (size_t)vf_below(r, num + 1);
    size_t const cnt = vf_chance(r, 1, 8) ? (vf_chance(r, 1, 2) ? SIZE_MAX : SIZE_MAX - 1) : (size_t)vf_below(r, 6);
    size_t const end = idx + cnt < idx ? SIZE_MAX : idx + cnt;
    int const with_dtor = vf_chance(r, 1, 2);
    int rc, want_rc;
    uint64_t want_d = 0;
    if (!L_blk(s)) { return; }
    opname = "erase";
    pre_call(s);
    vf_log("%s %d: erase idx %zu count %zu%s (num %zu mem %zu siz %zu)", KN, idx_of(s), idx, cnt, with_dtor ? " with destructor" : "", num, L_mem(s), s->siz);
    dtor_n = 0; dtor_bad = 0;
    dtor_lo = L_ptr(s); dtor_hi = dtor_lo + num * s->siz;
    rc = L_erase(s, idx, cnt, with_dtor ? dtor_elem : NULL);
    post_call(s);
    ++vf.evals;
    VF_COUNT("arena-erase");
    cell(s, OP_ERASE, R_FAR, pre_full, 0);
    if (end < num)
    {
        want_rc = 0;
        want_d = cnt;
        memmove(s->e[idx], s->e[idx + cnt], (num - end) * MAXZ);
        s->num -= cnt;
    }
    else if (idx < num) { want_rc = 0; want_d = num - idx; s->num = idx; }
    else { want_rc = 1; }
    if ((rc != 0) != want_rc) { FAIL("return-value", "erase(%zu, %zu) on %zu elements returned %d", idx, cnt, num, rc); return; }
    if (with_dtor && (dtor_n != want_d || dtor_bad)) { FAIL("destructor-calls", "destructor ran %" PRIu64 " times (expected %" PRIu64 ")%s", dtor_n, want_d, dtor_bad ? ", on a pointer outside the live range" : ""); return; }
    judge(s);
}

static void do_setn(seq *s, vf_rng *r)
{
    size_t const num = s->num;
    size_t nn = (size_t)vf_below(r, num + 7);
    int const with_dtor = vf_chance(r, 1, 2);
    int rc = 0;
    if (nn + 14 >= MAXN) { return; }
    if (s->is_buf && !s->b) { return; }
    opname = "setn";
    pre_call(s);
    vf_log("%s %d: setn %zu%s (num %zu mem %zu siz %zu)%s", KN, idx_of(s), nn, with_dtor ? " with destructor" : "", num, L_mem(s), s->siz, pre_full ? " EXACTLY FULL" : "");
    dtor_n = 0; dtor_bad = 0;
    dtor_lo = L_ptr(s); dtor_hi = dtor_lo + num * s->siz;
    if (s->is_buf) { a_buf_setn(s->b, nn, with_dtor ? dtor_elem : NULL); if (nn > L_mem(s)) { nn = L_mem(s); } }
    else { rc = a_vec_setn(s->v, nn, with_dtor ? dtor_elem : NULL); }
    post_call(s);
    ++vf.evals;
    VF_COUNT("arena-setn");
    cell(s, OP_SETN, R_FAR, pre_full, ar_moved_in_call);
    if (rc != 0) { if (!ar_exhausted) { FAIL("unexpected-failure", "setn(%zu) returned %d", nn, rc); } alive = 0; return; }
    if (L_num(s) != nn) { FAIL("count", "count %zu after setn(%zu)", L_num(s), nn); return; }
    if (with_dtor && (dtor_n != (nn < num ? num - nn : 0) || dtor_bad)) { FAIL("destructor-calls", "destructor ran %" PRIu64 " times for setn %zu -> %zu", dtor_n, num, nn); return; }
    if (L_num(s) > L_mem(s) || (unsigned __int128)L_mem(s) * s->siz + L_hdr(s) > blk_size(L_blk(s))) { judge(s); return; }
    /* the new elements have no defined value: the caller initialises them */
    for (size_t k = num; k < nn; ++k)
    {
        unsigned char el[MAXZ];
        mk_elem(r, s, el, -1);
        memcpy(L_ptr(s) + k * s->siz, el, s->siz);
        memcpy(s->e[k], el, MAXZ);
    }
    s->num = nn;
    s->sorted = model_is_sorted(s);
    judge(s);
}

static void do_setm(seq *s, vf_rng *r)
{
    size_t const mem = L_mem(s);
    size_t m;
    opname = "setm";
    if (s->is_buf)
    {
        a_buf *nb;
        m = s->num + (size_t)vf_below(r, 14);
        if (m + 14 >= MAXN) { return; }
        pre_call(s);
        vf_log("buf %d: setm %zu (num %zu mem %zu siz %zu)", idx_of(s), m, s->num, mem, s->siz);
        nb = a_buf_setm(s->b, m);
        if (!nb) { if (!ar_exhausted) { FAIL("unexpected-null", "a_buf_setm(%zu) returned null", m); } alive = 0; return; }
        s->b = nb;
        post_call(s);
    }
    else
    {
        int rc;
        m = vf_chance(r, 1, 3) ? (size_t)vf_below(r, mem + 1) : mem + (size_t)vf_below(r, 12);
        if (m + 14 >= MAXN) { return; }
        pre_call(s);
        vf_log("vec %d: setm %zu (num %zu mem %zu siz %zu)", idx_of(s), m, s->num, mem, s->siz);
        rc = a_vec_setm(s->v, m);
        post_call(s);
        if (rc != 0) { if (!ar_exhausted) { FAIL("unexpected-failure", "a_vec_setm(%zu) returned %d", m, rc); } alive = 0; return; }
        if (L_mem(s) < mem) { FAIL("capacity-shrank", "capacity %zu -> %zu", mem, L_mem(s)); return; }
    }
    ++vf.evals;
    VF_COUNT("arena-setm");
    cell(s, OP_SETM, R_FAR, pre_full, ar_moved_in_call);
    if (L_mem(s) < m) { FAIL("success-without-capacity", "setm(%zu) succeeded but the capacity is %zu", m, L_mem(s)); return; }
    judge(s);
}

static void do_setz(seq *s, vf_rng *r)
{
    size_t const nz = ESZ[vf_below(r, N_ESZ)];
    size_t const num = s->num;
    int const with_dtor = vf_chance(r, 1, 2);
    if (s->is_buf ? !s->b : 0) { return; }
    opname = "setz";
    pre_call(s);
    vf_log("%s %d: setz %zu%s (num %zu mem %zu siz %zu)", KN, idx_of(s), nz, with_dtor ? " with destructor" : "", num, L_mem(s), s->siz);
    dtor_n = 0; dtor_bad = 0;
    dtor_lo = L_ptr(s); dtor_hi = dtor_lo + num * s->siz;
    if (s->is_buf) { a_buf_setz(s->b, nz, with_dtor ? dtor_elem : NULL); } else { a_vec_setz(s->v, nz, with_dtor ? dtor_elem : NULL); }
    post_call(s);
    ++vf.evals;
    VF_COUNT("arena-setz");
    if (with_dtor && (dtor_n != num || dtor_bad)) { FAIL("destructor-calls", "destructor ran %" PRIu64 " times for %zu elements", dtor_n, num); return; }
    s->num = 0;
    s->siz = nz;
    s->sorted = 1;
    cell(s, OP_SETZ, R_FAR, 0, 0);
    judge(s);
}

static int new_container(seq *s, vf_rng *r, int is_buf, size_t siz, int by_new)
{
    memset(s, 0, sizeof *s);
    s->is_buf = is_buf;
    s->by_new = by_new;
    s->siz = siz;
    s->sorted = 1;
    opname = "new";
    if (is_buf)
    {
        size_t const cap = (size_t)vf_below(r, 20);
        vf_log("buf %d: a_buf_new(%zu, %zu)", idx_of(s), siz, cap);
        s->b = a_buf_new(siz, cap);
        if (!s->b) { alive = 0; return 0; }
    }
    else if (by_new)
    {
        vf_log("vec %d: a_vec_new(%zu)", idx_of(s), siz);
        s->v = a_vec_new(siz);
        if (!s->v) { alive = 0; return 0; }
    }
    else
    {
        vf_log("vec %d: a_vec_ctor(caller storage, %zu)", idx_of(s), siz);
        s->v = &s->vs;
        a_vec_ctor(s->v, siz);
    }
    return judge(s);
}
static void del_container(seq *s, int judged)
{
    size_t const num = s->num;
    int const with_dtor = 1;
    opname = "die";
    if (s->is_buf ? !s->b : !s->v) { return; }
    vf_log("%s %d: %s (num %zu)", KN, idx_of(s), s->is_buf || s->by_new ? "die" : "dtor", num);
    g_siz = s->siz;
    dtor_n = 0; dtor_bad = 0;
    dtor_lo = L_ptr(s); dtor_hi = dtor_lo + L_num(s) * s->siz;
    if (s->is_buf) { a_buf_die(s->b, with_dtor ? dtor_elem : NULL); s->b = NULL; }
    else if (s->by_new) { a_vec_die(s->v, dtor_elem); s->v = NULL; }
    else { a_vec_dtor(s->v, dtor_elem); s->v = NULL; }
    if (!judged) { return; }
    VF_COUNT("arena-die-destroys-each-element-once");
    if (dtor_n != num || dtor_bad) { FAIL("destructor-calls", "destructor ran %" PRIu64 " times for %zu elements", dtor_n, num); }
}

static void vf_case(uint64_t c, vf_rng *r)
{
    int const is_buf = vf_chance(r, 2, 5);
    size_t const siz = ESZ[vf_below(r, N_ESZ)];
    int const by_new = vf_chance(r, 1, 2);
    int const amode = (int)vf_below(r, 3);
    int const nops = 30 + (int)vf_below(r, 31);
    (void)c;
    arena_reset();
    alive = 1;
    nop = 0;
    tag = "arena";
    KN = is_buf ? "buf" : "vec";
    ar_align = amode == 0 ? 16 : amode == 1 ? 8 : (!is_buf && !by_new) ? (siz & (~siz + 1)) > 16 ? 16 : (siz & (~siz + 1)) : 8;
    ar_inplace = vf_chance(r, 1, 2);
    ar_move_on_shrink = vf_chance(r, 1, 2);
    cmp_style = (int)vf_below(r, 3);
    vf_log("arena case: %s, element size %zu, %s, blocks aligned to %zu, growth in place %s, resize without growth %s, comparator style %d", KN, siz,
           is_buf ? "a_buf_new" : by_new ? "a_vec_new" : "a_vec_ctor", ar_align, ar_inplace ? "allowed" : "never", ar_move_on_shrink ? "moves" : "stays", cmp_style);
    if (!new_container(&S[0], r, is_buf, siz, by_new) || !new_container(&S[1], r, is_buf, siz, by_new)) { goto done; }
    for (int i = 0; i < nops && alive; ++i)
    {
        static unsigned char const W[OP_N] = {7, 5, 8, 18, 8, 12, 6, 6, 2, 6, 3, 3, 5, 3, 4, 1, 2, 2};
        seq *s = &S[vf_below(r, 2)];
        unsigned x = (unsigned)vf_below(r, 101);
        int op = 0;
        while (op < OP_N - 1 && x >= W[op]) { x -= W[op]; ++op; }
        if (L_mem(s) > 88 || s->num > 70) { op = OP_RECREATE; }
        switch (op)
        {
        case OP_PUSH_BACK: case OP_PUSH_FORE: case OP_INSERT: case OP_SORT_FORE: case OP_SORT_BACK: do_push(s, r, op); break;
        case OP_PUSH_SORT: do_push_sort(s, r); break;
        case OP_SEARCH: do_search(s, r); break;
        case OP_STORE: do_store(s, r); break;
        case OP_SORT: do_sort(s); break;
        case OP_REMOVE: case OP_PULL_FORE: case OP_PULL_BACK: do_pull(s, r, op); break;
        case OP_ERASE: do_erase(s, r); break;
        case OP_SETN: do_setn(s, r); break;
        case OP_SETM: do_setm(s, r); break;
        case OP_SETZ: do_setz(s, r); break;
        case OP_SWAP:
            if (is_buf) { break; }
            opname = "swap";
            vf_log("vec: swap 0 <-> 1");
            a_vec_swap(S[0].v, S[1].v);
            ++vf.evals;
            VF_COUNT("arena-vec-swap");
            {
                static seq T;
                a_vec *const v0 = S[0].v, *const v1 = S[1].v;
                T = S[0];
                S[0] = S[1];
                S[1] = T;
                /* the handles stay where they are, the contents travel */
                S[0].v = v0; S[1].v = v1;
                if (!by_new) { S[0].v = &S[0].vs; S[1].v = &S[1].vs; T.vs = S[0].vs; S[0].vs = S[1].vs; S[1].vs = T.vs; }
            }
            if (judge(&S[0])) { judge(&S[1]); }
            break;
        default:
        {
            size_t const nz = ESZ[vf_below(r, N_ESZ)];
            int const k = idx_of(s);
            del_container(s, 1);
            if (alive) { new_container(&S[k], r, is_buf, vf_chance(r, 1, 2) ? siz : nz, by_new); }
            break;
        }
        }
        if (ar_exhausted) { VF_COUNT("arena-exhausted-case-abandoned"); alive = 0; }
    }
done:
    op_release();
    {
        int const was = alive;
        alive = 1;
        del_container(&S[0], was);
        del_container(&S[1], was && alive);
        opname = "die";
        if (was && alive && !ar_exhausted && !ar_misuse)
        {
            if (arena_all_released("end of case")) { arena_verify(); }
        }
    }
}
#endif

/* ================================================================== C06: string */
#if VF_ARENA == 6
#define SMAX 1400
#define SOP 256 /* largest operand */
typedef struct
{
    a_str *s;
    a_str ss;
    int by_new;
    unsigned char m[SMAX];
    size_t n;
    int has_former;
    size_t f_off, f_size;
} smodel;
static smodel S[2];
static int idx_of(smodel *x) { return (int)(x - S); }
static unsigned char const ALPHA[] = {0x00, ' ', '\t', 'a', 'b', 'c', 'x', 'y', '-', 0x80, 0xFF, '%', ' ', 'a', 'x', '\n'};
static void gen_bytes(vf_rng *r, unsigned char *b, size_t n, int cstr)
{
    for (size_t i = 0; i < n; ++i)
    {
        do { b[i] = ALPHA[vf_below(r, sizeof ALPHA)]; } while (cstr && b[i] == 0);
    }
}

static unsigned char *pre_blk;
static size_t pre_off, pre_size, pre_len, pre_mem;
static int pre_had;
static void pre_call(smodel *x)
{
    int i;
    pre_blk = (unsigned char *)a_str_ptr(x->s);
    i = blk_find(pre_blk);
    pre_had = i >= 0;
    pre_off = pre_size = 0;
    if (pre_had) { pre_off = BL[i].off; pre_size = BL[i].size; }
    pre_len = a_str_len(x->s);
    pre_mem = a_str_mem(x->s);
    ar_moved_in_call = ar_grew_in_place_in_call = 0;
}
static void post_call(smodel *x)
{
    if (pre_had && (unsigned char *)a_str_ptr(x->s) != pre_blk && blk_find(pre_blk) < 0)
    {
        x->has_former = 1;
        x->f_off = pre_off;
        x->f_size = pre_size;
    }
}
static int judge(smodel *x, int terminated)
{
    a_str *s = x->s;
    unsigned char *p = (unsigned char *)a_str_ptr(s);
    size_t const len = a_str_len(s), mem = a_str_mem(s);
    ++vf.evals;
    VF_COUNT("arena-state-compared-with-model");
    if (ar_misuse) { alive = 0; return 0; }
    if (len != x->n) { FAIL("length", "library length %zu, model %zu", len, x->n); return 0; }
    if (p ? len > mem : (len != 0 || mem != 0)) { FAIL("length-exceeds-capacity", "len %zu mem %zu ptr %p", len, mem, (void *)p); return 0; }
    if (p)
    {
        int const i = blk_find(p);
        if (i < 0) { FAIL("storage-is-not-a-live-block", "the storage %p (arena offset %td) is not the start of a live block", (void *)p, p - AR); return 0; }
        if (mem > BL[i].size) { FAIL("capacity-exceeds-granted-storage", "capacity %zu > %zu bytes granted for the block", mem, BL[i].size); return 0; }
    }
    if (len && memcmp(p, x->m, len) != 0)
    {
        size_t i = 0;
        while (p[i] == x->m[i]) { ++i; }
        FAIL("contents", "byte %zu of %zu: library 0x%02x model 0x%02x (0xdd = released block, 0xa5 = fresh storage)", i, len, p[i], x->m[i]);
        return 0;
    }
    if (terminated)
    {
        VF_COUNT("arena-terminator-after-content-inside-capacity");
        if (!p || len >= mem) { FAIL("no-room-for-terminator", "len %zu mem %zu after a terminating call", len, mem); return 0; }
        if (p[len] != 0) { FAIL("not-nul-terminated", "byte after the content is 0x%02x (len %zu mem %zu)", p[len], len, mem); return 0; }
    }
    return arena_verify() && alive;
}
static void m_append(smodel *x, void const *b, size_t n)
{
    if (x->n + n > SMAX) { fprintf(stderr, "h_arena: model overflow\n"); exit(2); }
    if (n) { memcpy(x->m + x->n, b, n); }
    x->n += n;
}
static void cell(int op, int rel, size_t need, int moved)
{
    size_t const spare = pre_mem - pre_len;
    int const cls = need == SIZE_MAX ? 9 : spare < need ? 0 : spare == need ? 1 : spare == need + 1 ? 2 : 3;
    vf_distinct(vf_hash64(vf_hash64(0xA600 + (uint64_t)op, (uint64_t)rel * 16 + (uint64_t)cls), (uint64_t)moved + 2 * (uint64_t)(pre_len == pre_mem)));
}
static operand *place_for(smodel *x, int rel, size_t len)
{
    unsigned char *const bs = (unsigned char *)a_str_ptr(x->s);
    return op_place(rel, blk_find(bs) >= 0 ? bs : NULL, blk_size(bs), 1, len, x->has_former, x->f_off, x->f_size);
}
/* append size steered onto the capacity boundary in half of the calls */
static size_t draw_len(vf_rng *r, smodel *x, size_t max)
{
    size_t const spare = a_str_mem(x->s) - a_str_len(x->s);
    size_t n;
    if (vf_chance(r, 1, 2))
    {
        long const t = (long)spare + (long)vf_range(r, -2, 2);
        n = t < 0 ? 0 : (size_t)t;
    }
    else { n = vf_chance(r, 1, 10) ? 0 : 1 + (size_t)vf_below(r, 40); }
    return n > max ? max : n;
}
/* make the string exactly full (len == mem) through the non-terminating append: the state in which every further byte has to grow the block */
static void make_full(smodel *x, vf_rng *r)
{
    size_t const spare = a_str_mem(x->s) - a_str_len(x->s);
    unsigned char b[64];
    if (!a_str_ptr(x->s) || spare == 0 || spare > sizeof b || x->n + spare + 300 > SMAX) { return; }
    gen_bytes(r, b, spare, 0);
    opname = "catn_";
    vf_log("  str %d: a_str_catn_ of %zu bytes to fill the capacity exactly (len %zu mem %zu)", idx_of(x), spare, x->n, a_str_mem(x->s));
    pre_call(x);
    if (a_str_catn_(x->s, b, spare) != 0) { alive = 0; return; }
    post_call(x);
    m_append(x, b, spare);
    arena_verify();
}
static int ref_in_set(unsigned char c, unsigned char const *set, size_t n) { return n ? memchr(set, c, n) != NULL : isspace(c) != 0; }

enum { S_CATN, S_CATN_, S_CATS, S_CATS_, S_CAT, S_CAT_, S_CATF, S_CATC, S_CATC_, S_TRIM, S_CMPN, S_CMPS, S_CMP, S_GETN, S_GETN_, S_GETC, S_GETC_, S_SETN, S_SETN_, S_SETM, S_SETM_, S_SWAP,
       S_EXIT, S_RECREATE, S_N };
static char const *const sop_name[S_N] = {"catn", "catn_", "cats", "cats_", "cat", "cat_", "catf", "catc", "catc_", "trim", "cmpn", "cmps", "cmp", "getn", "getn_", "getc", "getc_", "setn", "setn_",
                                          "setm", "setm_", "swap", "exit", "recreate"};

static void do_append(smodel *x, vf_rng *r, int op)
{
    unsigned char b[SOP + 4];
    int const term = op == S_CATN || op == S_CATS, is_s = op == S_CATS || op == S_CATS_;
    int rel = draw_rel(r), rc;
    size_t n;
    operand *o;
    if (x->n + SOP + 80 > SMAX) { return; }
    if (vf_chance(r, 1, 4)) { make_full(x, r); if (!alive) { return; } }
    n = draw_len(r, x, SOP - 1);
    gen_bytes(r, b, n, is_s);
    b[n] = 0;
    o = place_for(x, rel, is_s ? n + 1 : n);
    if (o->len) { memcpy(o->p, b, o->len); }
    op_commit(o);
    opname = sop_name[op];
    pre_call(x);
    vf_log("str %d: %s of %zu byte(s); the source lies %s (arena %td); len %zu mem %zu block +%zu/%zu%s", idx_of(x), opname, n, rel_name[o->rel], o->rel == R_FAR ? (ptrdiff_t)-1 : o->p - AR, pre_len,
           pre_mem, pre_off, pre_size, pre_len == pre_mem ? " EXACTLY FULL" : "");
    rc = op == S_CATN ? a_str_catn(x->s, o->p, n) : op == S_CATN_ ? a_str_catn_(x->s, o->p, n) : op == S_CATS ? a_str_cats(x->s, o->p) : a_str_cats_(x->s, o->p);
    post_call(x);
    VF_COUNT("arena-append");
    cell(op, o->rel, n + (size_t)term, ar_moved_in_call);
    if (rc != 0) { if (!ar_exhausted) { FAIL("unexpected-failure", "returned %d", rc); } alive = 0; op_release(); return; }
    if (ar_moved_in_call && o->rel <= R_FRONT1 && n) { VF_COUNT("arena-append-growth-with-adjacent-source"); }
    if (ar_moved_in_call && o->rel == R_BEHIND0 && n) { VF_COUNT("arena-append-growth-with-source-directly-behind"); }
    if (pre_had && pre_len == pre_mem && o->rel == R_BEHIND0 && n) { VF_COUNT("arena-append-exactly-full-source-directly-behind"); }
    m_append(x, b, n);
    if (op_unchanged(o, "source")) { judge(x, term); }
    op_release();
}

/* a_str_cat / a_str_cat_ / a_str_cmp: the other operand is a string object whose storage is carved directly behind this string's block when that is possible */
static void do_other(smodel *x, vf_rng *r, int op)
{
    unsigned char b[SOP];
    a_str o;
    size_t n;
    int rc = 0, tight = 0;
    if (x->n + SOP + 80 > SMAX) { return; }
    if (op != S_CMP && vf_chance(r, 1, 3)) { make_full(x, r); if (!alive) { return; } }
    n = op == S_CMP ? (x->n && vf_chance(r, 2, 3) ? x->n : (size_t)vf_below(r, 30)) : draw_len(r, x, SOP - 1);
    if (n > SOP - 1) { n = SOP - 1; }
    gen_bytes(r, b, n, 0);
    if (op == S_CMP && n == x->n && n)
    {
        memcpy(b, x->m, n);
        if (vf_chance(r, 1, 2)) { b[vf_chance(r, 1, 2) ? n - 1 : vf_below(r, n)] ^= (unsigned char)(1u << vf_below(r, 8)); }
    }
    a_str_ctor(&o);
    opname = sop_name[op];
    if (n)
    {
        unsigned char *const bs = (unsigned char *)a_str_ptr(x->s);
        ar_tight_next = bs && nbl && BL[nbl - 1].live && AR + BL[nbl - 1].off == bs;
        if (a_str_catn_(&o, b, n) != 0) { alive = 0; ar_tight_next = 0; return; }
        ar_tight_next = 0;
        tight = bs && (unsigned char *)a_str_ptr(&o) >= bs + blk_size(bs) && (unsigned char *)a_str_ptr(&o) < bs + blk_size(bs) + 16;
        if (tight) { VF_COUNT("arena-other-string-storage-directly-behind"); tag = "arena-adjacent-operand"; ar_adjacent_in_flight = 1; }
    }
    pre_call(x);
    vf_log("str %d: %s with another string of %zu byte(s) whose storage is at arena %td%s; len %zu mem %zu block +%zu/%zu%s", idx_of(x), opname, n, n ? (unsigned char *)a_str_ptr(&o) - AR : (ptrdiff_t)-1,
           tight ? " (directly behind this string's block)" : "", pre_len, pre_mem, pre_off, pre_size, pre_len == pre_mem ? " EXACTLY FULL" : "");
    if (op == S_CAT) { rc = a_str_cat(x->s, &o); }
    else if (op == S_CAT_) { rc = a_str_cat_(x->s, &o); }
    else { rc = a_str_cmp(x->s, &o); }
    post_call(x);
    cell(op, tight ? R_BEHIND0 : R_FAR, op == S_CMP ? SIZE_MAX : n + (size_t)(op == S_CAT), ar_moved_in_call);
    if (op == S_CMP)
    {
        size_t const k = x->n < n ? x->n : n;
        int want = (x->s->ptr_ && k) ? memcmp(x->m, b, k) : 0;
        if (!want) { want = (x->n > n) - (x->n < n); }
        VF_COUNT("arena-cmp-sign-bytewise-then-length");
        if ((rc > 0) - (rc < 0) != (want > 0) - (want < 0)) { FAIL("sign", "returned %d, bytewise comparison then length gives %d (len %zu vs %zu)", rc, want, x->n, n); }
    }
    else
    {
        VF_COUNT("arena-append");
        if (rc != 0) { if (!ar_exhausted) { FAIL("unexpected-failure", "returned %d", rc); } alive = 0; }
        else { m_append(x, b, n); }
    }
    if (alive && (a_str_len(&o) != n || (n && memcmp(a_str_ptr(&o), b, n) != 0))) { FAILA("caller-operand-modified", "the other string (%zu bytes) changed during the call", n); }
    if (alive) { judge(x, op == S_CAT); }
    a_str_dtor(&o);
    ar_adjacent_in_flight = 0;
    tag = "arena";
}

static void do_catf(smodel *x, vf_rng *r)
{
    unsigned char b[SOP + 4];
    char fmt[16], expect[SOP + 64];
    int const form = (int)vf_below(r, 4), rel = draw_rel(r);
    int elen, res, ival = (int)vf_range(r, -999, 99999);
    size_t n;
    operand *o;
    if (x->n + SOP + 120 > SMAX) { return; }
    if (vf_chance(r, 1, 4)) { make_full(x, r); if (!alive) { return; } }
    n = draw_len(r, x, 200);
    gen_bytes(r, b, n, 1);
    b[n] = 0;
    /* form 1: "%.*s" with an argument that is NOT terminated: exactly n bytes may be read */
    o = place_for(x, rel, form == 1 ? n : n + 1);
    if (o->len) { memcpy(o->p, b, o->len); }
    op_commit(o);
    snprintf(fmt, sizeof fmt, "%s", form == 0 ? "%s" : form == 1 ? "%.*s" : form == 2 ? "<%s>" : "%d:%s");
    opname = "catf";
    if (form == 1) { elen = snprintf(expect, sizeof expect, fmt, (int)n, (char const *)b); }
    else if (form == 3) { elen = snprintf(expect, sizeof expect, fmt, ival, (char const *)b); }
    else { elen = snprintf(expect, sizeof expect, fmt, (char const *)b); }
    pre_call(x);
    vf_log("str %d: catf \"%s\" with a %zu-byte string argument that lies %s (arena %td), expected %d bytes; len %zu mem %zu block +%zu/%zu%s", idx_of(x), fmt, n, rel_name[o->rel],
           o->rel == R_FAR ? (ptrdiff_t)-1 : o->p - AR, elen, pre_len, pre_mem, pre_off, pre_size, pre_len == pre_mem ? " EXACTLY FULL" : "");
#pragma GCC diagnostic push
#pragma GCC diagnostic ignored "-Wformat-nonliteral"
#pragma GCC diagnostic ignored "-Wformat-security"
    if (form == 1) { res = a_str_catf(x->s, fmt, (int)n, (char const *)o->p); }
    else if (form == 3) { res = a_str_catf(x->s, fmt, ival, (char const *)o->p); }
    else { res = a_str_catf(x->s, fmt, (char const *)o->p); }
#pragma GCC diagnostic pop
    post_call(x);
    VF_COUNT("arena-formatted-append-equals-libc-formatter");
    cell(S_CATF, o->rel, (size_t)elen + 1, ar_moved_in_call);
    if (ar_exhausted) { alive = 0; op_release(); return; }
    if (o->rel <= R_FRONT1) { VF_COUNT("arena-formatted-append-adjacent-argument"); }
    if (res != elen) { FAIL("return-value", "returned %d, the C formatter produces %d bytes for \"%s\"", res, elen, fmt); op_release(); return; }
    m_append(x, expect, (size_t)elen);
    if (op_unchanged(o, "string argument")) { judge(x, elen > 0); }
    op_release();
}

static void do_trim(smodel *x, vf_rng *r)
{
    static struct { char const *s; size_t n; } const SETS[] = {{"", 0}, {" ", 1}, {"ab", 2}, {"x\0y", 3}, {"\x80\xff", 2}, {" \t-", 3}, {"abcxy- ", 7}};
    static char const *const names[] = {"rtrim", "ltrim", "trim", "rtrim_", "ltrim_", "trim_"};
    int const which = (int)vf_below(r, 6), si = (int)vf_below(r, 7), rel = draw_rel(r);
    int const term = which < 3, side = which % 3; /* 0 right, 1 left, 2 both */
    size_t const sn = SETS[si].n;
    size_t a = 0, e, before;
    operand *o;
    if (!a_str_ptr(x->s)) { return; }
    /* decorate both ends with members of the set */
    if (vf_chance(r, 2, 3) && x->n + 40 < SMAX)
    {
        unsigned char d[8], all[SMAX];
        size_t const k = 1 + (size_t)vf_below(r, 3);
        for (size_t i = 0; i < 2 * k; ++i) { d[i] = sn ? (unsigned char)SETS[si].s[vf_below(r, sn)] : (unsigned char)" \t\n"[vf_below(r, 3)]; }
        opname = "catn";
        vf_log("  str %d: decorating both ends with %zu member(s) of trim set #%d", idx_of(x), k, si);
        /* new content = d[0..k) + old + d[k..2k) */
        memcpy(all, d, k);
        memcpy(all + k, x->m, x->n);
        memcpy(all + k + x->n, d + k, k);
        pre_call(x);
        a_str_setn_(x->s, 0);
        if (a_str_catn(x->s, all, x->n + 2 * k) != 0) { alive = 0; return; }
        post_call(x);
        memcpy(x->m, all, x->n + 2 * k);
        x->n += 2 * k;
        if (!arena_verify()) { return; }
    }
    before = e = x->n;
    o = place_for(x, rel, sn);
    if (sn) { memcpy(o->p, SETS[si].s, sn); }
    op_commit(o);
    opname = names[which];
    pre_call(x);
    vf_log("str %d: %s with set #%d (%zu bytes) that lies %s (arena %td); len %zu mem %zu block +%zu/%zu", idx_of(x), opname, si, sn, rel_name[o->rel], o->rel == R_FAR ? (ptrdiff_t)-1 : o->p - AR,
           pre_len, pre_mem, pre_off, pre_size);
    switch (which)
    {
    case 0: a_str_rtrim(x->s, (char const *)o->p, sn); break;
    case 1: a_str_ltrim(x->s, (char const *)o->p, sn); break;
    case 2: a_str_trim(x->s, (char const *)o->p, sn); break;
    case 3: a_str_rtrim_(x->s, (char const *)o->p, sn); break;
    case 4: a_str_ltrim_(x->s, (char const *)o->p, sn); break;
    default: a_str_trim_(x->s, (char const *)o->p, sn); break;
    }
    post_call(x);
    VF_COUNT("arena-trim-removes-exactly-the-set-members-at-the-ends");
    if (o->rel <= R_FRONT1 && sn) { VF_COUNT("arena-trim-set-adjacent"); }
    cell(S_TRIM + 32 * which, o->rel, SIZE_MAX, 0);
    if (side != 1) { while (e > a && ref_in_set(x->m[e - 1], (unsigned char const *)SETS[si].s, sn)) { --e; } }
    if (side != 0) { while (a < e && ref_in_set(x->m[a], (unsigned char const *)SETS[si].s, sn)) { ++a; } }
    memmove(x->m, x->m + a, e - a);
    x->n = e - a;
    if (op_unchanged(o, "trim set")) { judge(x, term && x->n < before); }
    op_release();
}

static void do_cmp(smodel *x, vf_rng *r, int op)
{
    unsigned char b[SOP + 4];
    int const rel = draw_rel(r), is_s = op == S_CMPS;
    size_t n = x->n && x->n < SOP - 2 && vf_chance(r, 2, 3) ? x->n : (size_t)vf_below(r, 40);
    int rc, want;
    operand *o;
    gen_bytes(r, b, n, is_s);
    if (n == x->n && n)
    {
        int const v = (int)vf_below(r, 4);
        memcpy(b, x->m, n);
        if (v == 1) { b[n - 1] ^= 0x80; }
        else if (v == 2) { b[vf_below(r, n)] ^= (unsigned char)(1u << vf_below(r, 8)); }
        else if (v == 3) { n += vf_chance(r, 1, 2) ? 1 : (size_t)-1; b[n ? n - 1 : 0] = vf_chance(r, 1, 2) ? 0 : 'q'; }
    }
    if (is_s) { for (size_t i = 0; i < n; ++i) { if (!b[i]) { n = i; break; } } }
    b[n] = 0;
    o = place_for(x, rel, is_s ? n + 1 : n);
    if (o->len) { memcpy(o->p, b, o->len); }
    op_commit(o);
    opname = sop_name[op];
    pre_call(x);
    vf_log("str %d: %s with a %zu-byte operand that lies %s (arena %td); len %zu mem %zu block +%zu/%zu", idx_of(x), opname, n, rel_name[o->rel], o->rel == R_FAR ? (ptrdiff_t)-1 : o->p - AR, pre_len,
           pre_mem, pre_off, pre_size);
    rc = is_s ? a_str_cmps(x->s, o->p) : a_str_cmpn(x->s, o->p, n);
    post_call(x);
    VF_COUNT("arena-cmp-sign-bytewise-then-length");
    if (o->rel <= R_FRONT1) { VF_COUNT("arena-cmp-operand-adjacent"); }
    cell(op, o->rel, SIZE_MAX, 0);
    {
        size_t const k = x->n < n ? x->n : n;
        want = (a_str_ptr(x->s) && k) ? memcmp(x->m, b, k) : 0;
        if (!want) { want = (x->n > n) - (x->n < n); }
    }
    if ((rc > 0) - (rc < 0) != (want > 0) - (want < 0)) { FAIL("sign", "returned %d, bytewise comparison then length gives %d (len %zu vs %zu)", rc, want, x->n, n); }
    if (alive && op_unchanged(o, "comparison operand")) { judge(x, 0); }
    op_release();
}

/* getn / getn_: the DESTINATION is the adjacent caller object: exactly the popped tail arrives in it, nothing else of it changes */
static void do_getn(smodel *x, vf_rng *r, int op)
{
    int const term = op == S_GETN, rel = draw_rel(r), cls = (int)vf_below(r, 5);
    size_t n = cls == 0 ? 0 : cls == 1 ? x->n : cls == 2 ? x->n + 1 : cls == 3 ? 1 : (size_t)vf_below(r, x->n + 2);
    size_t want, got;
    operand *o;
    if (n > SOP) { n = SOP; }
    want = n < x->n ? n : x->n;
    o = place_for(x, rel, n);
    for (size_t i = 0; i < n; ++i) { o->p[i] = (unsigned char)(0xE0 + (i & 15)); }
    op_commit(o);
    opname = sop_name[op];
    pre_call(x);
    vf_log("str %d: %s of %zu byte(s) into a destination that lies %s (arena %td); len %zu mem %zu block +%zu/%zu", idx_of(x), opname, n, rel_name[o->rel], o->rel == R_FAR ? (ptrdiff_t)-1 : o->p - AR,
           pre_len, pre_mem, pre_off, pre_size);
    got = term ? a_str_getn(x->s, o->p, n) : a_str_getn_(x->s, o->p, n);
    post_call(x);
    VF_COUNT("arena-getn-returns-tail-bytes");
    if (o->rel <= R_FRONT1 && want) { VF_COUNT("arena-getn-destination-adjacent"); }
    cell(op, o->rel, SIZE_MAX, 0);
    if (got != want) { FAIL("return-value", "returned %zu expected %zu", got, want); op_release(); return; }
    /* what the destination has to hold now: the tail, then the bytes it held before */
    if (want) { memcpy(o->save, x->m + x->n - want, want); }
    if (o->rel != R_FAR && want) { memcpy(SH + (o->p - AR), o->save, want); }
    if (n && memcmp(o->p, o->save, n) != 0)
    {
        size_t i = 0;
        while (o->p[i] == o->save[i]) { ++i; }
        FAIL("destination-bytes", "destination byte %zu of %zu is 0x%02x, expected 0x%02x (%s; the first %zu bytes are the popped tail)", i, n, o->p[i], o->save[i], i < want ? "tail" : "untouched part", want);
        if (o->rel != R_FAR) { memcpy(SH + (o->p - AR), o->p, n); }
        op_release();
        return;
    }
    x->n -= want;
    judge(x, term && want > 0);
    op_release();
}

static void new_string(smodel *x, int by_new)
{
    memset(x, 0, sizeof *x);
    x->by_new = by_new;
    opname = "new";
    if (by_new)
    {
        vf_log("str %d: a_str_new()", idx_of(x));
        x->s = a_str_new();
        if (!x->s) { alive = 0; return; }
    }
    else
    {
        vf_log("str %d: a_str_ctor(caller storage)", idx_of(x));
        x->s = &x->ss;
        a_str_ctor(x->s);
    }
    judge(x, 0);
}
static void del_string(smodel *x)
{
    if (!x->s) { return; }
    opname = "die";
    vf_log("str %d: %s", idx_of(x), x->by_new ? "die" : "dtor");
    if (x->by_new) { a_str_die(x->s); } else { a_str_dtor(x->s); }
    x->s = NULL;
}

static void vf_case(uint64_t c, vf_rng *r)
{
    int const by_new = vf_chance(r, 1, 2);
    int const amode = (int)vf_below(r, 3);
    int const nops = 30 + (int)vf_below(r, 41);
    (void)c;
    arena_reset();
    alive = 1;
    nop = 0;
    tag = "arena";
    KN = "str";
    ar_align = amode == 0 ? 16 : amode == 1 ? 8 : by_new ? 8 : 1;
    ar_inplace = vf_chance(r, 1, 2);
    ar_move_on_shrink = vf_chance(r, 1, 2);
    vf_log("arena case: strings by %s, blocks aligned to %zu, growth in place %s, resize without growth %s", by_new ? "a_str_new" : "a_str_ctor", ar_align, ar_inplace ? "allowed" : "never",
           ar_move_on_shrink ? "moves" : "stays");
    new_string(&S[0], by_new);
    if (alive) { new_string(&S[1], by_new); }
    for (int i = 0; i < nops && alive; ++i)
    {
        static unsigned char const W[S_N] = {10, 6, 8, 4, 5, 3, 8, 3, 3, 12, 5, 4, 3, 7, 4, 2, 1, 3, 2, 3, 3, 2, 2, 2};
        smodel *x = &S[vf_below(r, 2)];
        a_str *s = x->s;
        unsigned t = (unsigned)vf_below(r, 105);
        int op = 0;
        while (op < S_N - 1 && t >= W[op]) { t -= W[op]; ++op; }
        if (x->n > 700) { op = vf_chance(r, 1, 2) ? S_RECREATE : S_GETN; }
        switch (op)
        {
        case S_CATN: case S_CATN_: case S_CATS: case S_CATS_: do_append(x, r, op); break;
        case S_CAT: case S_CAT_: case S_CMP: do_other(x, r, op); break;
        case S_CATF: do_catf(x, r); break;
        case S_CATC: case S_CATC_:
        {
            int const term = op == S_CATC, ch = (int)(signed char)ALPHA[vf_below(r, sizeof ALPHA)];
            int rc;
            unsigned char b = (unsigned char)ch;
            if (x->n + 8 > SMAX) { break; }
            if (vf_chance(r, 1, 3)) { make_full(x, r); if (!alive) { break; } }
            opname = sop_name[op];
            pre_call(x);
            vf_log("str %d: %s 0x%02x (len %zu mem %zu)%s", idx_of(x), opname, b, pre_len, pre_mem, pre_len == pre_mem ? " EXACTLY FULL" : "");
            rc = term ? a_str_catc(s, ch) : a_str_catc_(s, ch);
            post_call(x);
            cell(op, R_FAR, 1 + (size_t)term, ar_moved_in_call);
            if (rc != ch) { if (!ar_exhausted) { FAIL("return-value", "returned %d expected %d", rc, ch); } alive = 0; break; }
            m_append(x, &b, 1);
            judge(x, term);
            break;
        }
        case S_TRIM: do_trim(x, r); break;
        case S_CMPN: case S_CMPS: do_cmp(x, r, op); break;
        case S_GETN: case S_GETN_: do_getn(x, r, op); break;
        case S_GETC: case S_GETC_:
        {
            int const term = op == S_GETC;
            int rc, want;
            opname = sop_name[op];
            pre_call(x);
            vf_log("str %d: %s (len %zu mem %zu)", idx_of(x), opname, pre_len, pre_mem);
            rc = term ? a_str_getc(s) : a_str_getc_(s);
            post_call(x);
            want = x->n ? (int)(char)x->m[x->n - 1] : ~0;
            if (rc != want) { FAIL("return-value", "returned %d expected %d", rc, want); break; }
            if (x->n) { --x->n; judge(x, term); } else { judge(x, 0); }
            break;
        }
        case S_SETN: case S_SETN_:
        {
            size_t const mem = a_str_mem(s);
            size_t nn;
            int rc = 0;
            if (mem + 2 > SMAX) { break; }
            if (op == S_SETN_) { if (!mem) { break; } nn = (size_t)vf_below(r, mem); }
            else { nn = vf_chance(r, 1, 4) ? mem + (size_t)vf_below(r, 3) : (size_t)vf_below(r, mem + 1); }
            opname = sop_name[op];
            pre_call(x);
            vf_log("str %d: %s %zu (len %zu mem %zu)", idx_of(x), opname, nn, pre_len, pre_mem);
            if (op == S_SETN_) { a_str_setn_(s, nn); } else { rc = a_str_setn(s, nn); }
            post_call(x);
            VF_COUNT("arena-setn-bounds");
            if ((rc != 0) != (nn > mem)) { FAIL("return-value", "setn(%zu) with capacity %zu returned %d", nn, mem, rc); break; }
            if (rc == 0)
            {
                /* bytes that enter the content by raising the length have no defined value: the model adopts them */
                if (nn > x->n && a_str_len(s) == nn && nn <= a_str_mem(s) && blk_size(a_str_ptr(s)) >= nn) { memcpy(x->m + x->n, a_str_ptr(s) + x->n, nn - x->n); }
                x->n = nn;
            }
            judge(x, 0);
            break;
        }
        case S_SETM: case S_SETM_:
        {
            size_t const mem = a_str_mem(s);
            size_t m = op == S_SETM ? (size_t)vf_below(r, mem + 40) : x->n + (size_t)vf_below(r, 24);
            int rc;
            if (m + 16 > SMAX) { break; }
            opname = sop_name[op];
            pre_call(x);
            vf_log("str %d: %s %zu (len %zu mem %zu)", idx_of(x), opname, m, pre_len, pre_mem);
            rc = op == S_SETM ? a_str_setm(s, m) : a_str_setm_(s, m);
            post_call(x);
            VF_COUNT("arena-setm-capacity");
            cell(op, R_FAR, SIZE_MAX, ar_moved_in_call);
            if (rc != 0) { if (!ar_exhausted) { FAIL("unexpected-failure", "returned %d", rc); } alive = 0; break; }
            if (a_str_mem(s) < m || (op == S_SETM && a_str_mem(s) < mem)) { FAIL("success-without-capacity", "capacity %zu after %s(%zu) (was %zu)", a_str_mem(s), opname, m, mem); break; }
            judge(x, 0);
            break;
        }
        case S_SWAP:
        {
            static smodel T;
            a_str *const s0 = S[0].s, *const s1 = S[1].s;
            opname = "swap";
            vf_log("str: swap 0 <-> 1");
            a_str_swap(S[0].s, S[1].s);
            VF_COUNT("arena-swap");
            T = S[0]; S[0] = S[1]; S[1] = T;
            S[0].s = s0; S[1].s = s1;
            if (!by_new) { a_str const t = S[0].ss; S[0].ss = S[1].ss; S[1].ss = t; S[0].s = &S[0].ss; S[1].s = &S[1].ss; }
            if (judge(&S[0], 0)) { judge(&S[1], 0); }
            break;
        }
        case S_EXIT:
        {
            char *p;
            size_t const len = x->n;
            int const had = a_str_ptr(s) != NULL;
            opname = "exit";
            pre_call(x);
            vf_log("str %d: exit (len %zu mem %zu)%s", idx_of(x), pre_len, pre_mem, pre_len == pre_mem ? " EXACTLY FULL" : "");
            p = a_str_exit(s);
            VF_COUNT("arena-exit-hands-over-terminated-content");
            cell(op, R_FAR, 1, ar_moved_in_call);
            if (ar_exhausted) { alive = 0; break; }
            if (had != (p != NULL)) { FAIL("return-value", "returned %p for a string %s storage", (void *)p, had ? "with" : "without"); break; }
            if (p)
            {
                int const i = blk_find(p);
                if (i < 0 || BL[i].size < len + 1) { FAIL("handed-over-block-not-owned", "the block handed over (%p) is not a live block of at least %zu bytes", (void *)p, len + 1); break; }
                if (len && memcmp(p, x->m, len) != 0) { FAIL("handed-over-contents", "the block handed over does not hold the content"); break; }
                if (p[len] != 0) { FAIL("handed-over-not-terminated", "byte after the %zu content bytes is 0x%02x", len, (unsigned char)p[len]); break; }
                if ((unsigned char *)p != pre_blk) { x->has_former = pre_had; x->f_off = pre_off; x->f_size = pre_size; }
                a_alloc(p, 0); /* the caller releases it through the allocator in use */
            }
            x->n = 0;
            judge(x, 0);
            break;
        }
        default:
        {
            int const k = idx_of(x);
            del_string(x);
            new_string(&S[k], by_new);
            break;
        }
        }
        if (ar_exhausted) { VF_COUNT("arena-exhausted-case-abandoned"); alive = 0; }
    }
    op_release();
    {
        int const was = alive;
        alive = 1;
        del_string(&S[0]);
        del_string(&S[1]);
        opname = "die";
        if (was && !ar_exhausted && !ar_misuse)
        {
            if (arena_all_released("end of case")) { arena_verify(); }
        }
    }
}
#endif
