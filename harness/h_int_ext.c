/* second translation unit for C19: reaches the *exported* twins of the inline helpers in a/a.h
 * (what the language bindings link against) by switching the inline bodies off. */
#define A_HAVE_INLINE 0
#include "a/a.h"
#include <stdint.h>

uint8_t vfx_u8_rev(uint8_t x) { return a_u8_rev(x); }
uint16_t vfx_u16_rev(uint16_t x) { return a_u16_rev(x); }
uint32_t vfx_u32_rev(uint32_t x) { return a_u32_rev(x); }
uint64_t vfx_u64_rev(uint64_t x) { return a_u64_rev(x); }
uint16_t vfx_u16_getl(void const *b) { return a_u16_getl(b); }
uint16_t vfx_u16_getb(void const *b) { return a_u16_getb(b); }
uint32_t vfx_u32_getl(void const *b) { return a_u32_getl(b); }
uint32_t vfx_u32_getb(void const *b) { return a_u32_getb(b); }
uint64_t vfx_u64_getl(void const *b) { return a_u64_getl(b); }
uint64_t vfx_u64_getb(void const *b) { return a_u64_getb(b); }
void vfx_u16_setl(void *b, uint16_t x) { a_u16_setl(b, x); }
void vfx_u16_setb(void *b, uint16_t x) { a_u16_setb(b, x); }
void vfx_u32_setl(void *b, uint32_t x) { a_u32_setl(b, x); }
void vfx_u32_setb(void *b, uint32_t x) { a_u32_setb(b, x); }
void vfx_u64_setl(void *b, uint64_t x) { a_u64_setl(b, x); }
void vfx_u64_setb(void *b, uint64_t x) { a_u64_setb(b, x); }

/* store / load / store / load on ONE buffer inside one optimised function that sees only the exported declarations: if a
   getter's declaration promises more than the function keeps (seeded change C19-F: __attribute__((const)) on the prototypes),
   the compiler merges the two loads and the second one returns the value stored first. */
#define SETGET(W, T)                                                                  \
    void vfx_setget##W(void *b, T x, T y, T out[4])                                   \
    {                                                                                 \
        a_u##W##_setl(b, x);                                                          \
        out[0] = a_u##W##_getl(b);                                                    \
        out[1] = a_u##W##_getb(b);                                                    \
        a_u##W##_setb(b, y);                                                          \
        out[2] = a_u##W##_getb(b);                                                    \
        out[3] = a_u##W##_getl(b);                                                    \
    }                                                                                 \
    T vfx_setget_loop##W(void *b, T const *v, unsigned n)                             \
    {                                                                                 \
        T acc = 0;                                                                    \
        for (unsigned i = 0; i < n; ++i)                                              \
        {                                                                             \
            a_u##W##_setl(b, v[i]);                                                   \
            acc = (T)(acc * 31u + a_u##W##_getl(b));                                  \
        }                                                                             \
        return acc;                                                                   \
    }
SETGET(16, uint16_t)
SETGET(32, uint32_t)
SETGET(64, uint64_t)
