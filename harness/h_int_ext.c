/* second translation unit for C19: reaches the *exported* twins of the inline helpers in a/a.h
 * (what the language bindings link against) by switching the inline bodies off. */
#define A_HAVE_INLINE 0
#include "a/a.h"
#include <stdint.h>

uint8_t vfx_u8_rev(uint8_t x) { return a_u8_rev(x); }
uint16_t vfx_u16_rev(uint16_t x) { return a_u16_rev(x); }
uint32_t vfx_u32_rev(uint32_t x) { return a_u32_rev(x); }
uint64_t vfx_u64_rev(uint64_t x) { return a_u64_rev(x); }
uint16_t vfx_u16_getl(void const *b) { return a_u16_getl(b); }
uint16_t vfx_u16_getb(void const *b) { return a_u16_getb(b); }
uint32_t vfx_u32_getl(void const *b) { return a_u32_getl(b); }
uint32_t vfx_u32_getb(void const *b) { return a_u32_getb(b); }
uint64_t vfx_u64_getl(void const *b) { return a_u64_getl(b); }
uint64_t vfx_u64_getb(void const *b) { return a_u64_getb(b); }
void vfx_u16_setl(void *b, uint16_t x) { a_u16_setl(b, x); }
void vfx_u16_setb(void *b, uint16_t x) { a_u16_setb(b, x); }
void vfx_u32_setl(void *b, uint32_t x) { a_u32_setl(b, x); }
void vfx_u32_setb(void *b, uint32_t x) { a_u32_setb(b, x); }
void vfx_u64_setl(void *b, uint64_t x) { a_u64_setl(b, x); }
void vfx_u64_setb(void *b, uint64_t x) { a_u64_setb(b, x); }
