/* C16 - transfer function (a_tf) and first-order RC filters (a_lpf, a_hpf) realise their difference equations.
 *
 * Indexing convention of a_tf (read from src/tf.c and validated on the repo's own test data, see K_TF_REPO):
 *     y[k] = sum_{i<num_n} num[i]*x[k-i]  -  sum_{i<den_n} den[i]*y[k-1-i]        (x[j] = y[j] = 0 for j < 0)
 * i.e. num[0] multiplies the CURRENT input, den[0] multiplies the PREVIOUS output (the monic leading 1 of the
 * denominator is not stored).  test/tf.h feeds den = {-1.9753, 0.9753} = (z-1)(z-0.9753) without the leading 1
 * and plots the output against the set-point 1.0; with the convention above the output settles at 1.001.
 *
 * Regimes
 *   exact : integer inputs, dyadic coefficients (num multiples of 2^-p, den multiples of 2^-q).  By induction every
 *           term, every partial sum and every output at step k is a multiple of 2^-f_k, f_k = p + (k-ky0)*q, and the
 *           harness only runs the library as far as  sum|terms| * 2^f_k < 2^48  holds (guard evaluated on the reference),
 *           so every floating-point operation in any summation order is exact (magnitudes < 2^50 even after the
 *           factor <= 4 of the superposition test).  Oracle: BITWISE equality with the reference recurrence below,
 *           which keeps the complete x[] and y[] histories and uses explicit index arithmetic (no shifting delay line).
 *   exact cancellation (tf_cancel_case, see the comment there): integer coefficients and inputs (times 2^e) such that the positive and
 *           the negative terms of a step each sum to at most 2^53 grid units - every subset sum is exact in any order - and the
 *           output is 1..8 grid units, i.e. below half an ulp of sum|terms| for 1 unit; compared (==) with an __int128 recurrence.
 *   real  : arbitrary real coefficients/inputs.  One-step oracle: the library's k-th output is compared with the
 *           difference equation evaluated in __float128 on the library's OWN previous outputs; a-priori rounding bound
 *           n*eps*sum|terms| (n = number of terms, eps = 2^-52 = twice the unit round-off: the textbook bound for a
 *           length-n inner product is gamma_n*sum|terms| ~ n*2^-53*sum|terms|, so this is a proof bound with 2x slack,
 *           not a calibrated constant) + n*2^-1074 for products that underflow.
 */
#define VF_PROP "C16"
#define VF_HAVE_INIT
#include "vf_common.h"
#include <math.h>
#include <float.h>
#include <quadmath.h>
#include "a/a.h"
#include "a/math.h"
#include "a/tf.h"
#include "a/lpf.h"
#include "a/hpf.h"

#define MAXORD 8u
#define MAXLEN 512u
#define EPS DBL_EPSILON

static inline uint64_t dbits(double x)
{
    uint64_t u;
    memcpy(&u, &x, 8);
    return u;
}
static inline int same_bits(double a, double b) { return dbits(a) == dbits(b); }
static inline double ulp_of(double m)
{
    m = fabs(m);
    if (m < DBL_MIN) { return 0x1p-1074; }
    return nextafter(m, INFINITY) - m;
}

/* ---------------------------------------------------------------- library-visible memory */
static uint64_t const CANARY[4] = {0x7FF8C0DEC0DE0001ULL, 0xFFF8C0DEC0DE0002ULL, 0x7FF8C0DEC0DE0003ULL, 0xFFF8C0DEC0DE0004ULL};

/* a delay line handed to the library: either an exact-size malloc block (ASan red zone starts at byte n*8 and
   ends at byte -1), or n cells inside a larger block with two canary cells on either side */
typedef struct
{
    unsigned n;
    int guarded;
    double *base, *p;
} line_t;

static void line_alloc(line_t *l, unsigned n, int guarded)
{
    l->n = n;
    l->guarded = guarded;
    if (guarded)
    {
        l->base = (double *)malloc((n + 4) * sizeof(double));
        memcpy(l->base, CANARY, 16);
        memcpy(l->base + n + 2, CANARY + 2, 16);
        l->p = l->base + 2;
    }
    else if (n == 0 && (vf.case_no & 1))
    {
        /* an empty side without storage at all: a_tf_init(ctx, n, num, in, 0, NULL, NULL) is how an FIR filter is set up when there is nothing to
           allocate (the Lua binding does it), and a null line is the only value for which a null test inside the library takes its other branch
           (seeded change C16-K: a_tf_zero returning early when EITHER line is null, so the non-empty line keeps its history) */
        l->base = l->p = NULL;
        VF_COUNT("tf-empty-side-with-null-storage");
        return;
    }
    else
    {
        l->base = (double *)malloc(n * sizeof(double)); /* n == 0: zero-size block, every access is a red zone */
        l->p = l->base;
    }
    if (!l->base) { fprintf(stderr, "h_filter: out of memory\n"); exit(2); }
    memset(l->p, 0xA5, n * sizeof(double)); /* garbage: init/set_num/set_den have to establish the zero state */
}
/* both delay lines of one filter. One case in four carves them out of ONE exact-size block, the way a filter-state struct or a single state array is
   laid out in embedded code: input line directly followed by the output line, or the other way round. The two lines are then adjacent objects: a
   routine that treats them as one (seeded change C16-M: a single joint shift when output == input + num_n, done before the feedback sum has read
   the output line) is a different filter for that layout only. */
static void lines_alloc(line_t *in, unsigned n, line_t *out, unsigned m, int guarded)
{
    unsigned const lay = (unsigned)(vf.case_no & 3);
    if (guarded || lay < 2 || n + m == 0)
    {
        line_alloc(in, n, guarded);
        line_alloc(out, m, guarded);
        return;
    }
    in->n = n; out->n = m;
    in->guarded = out->guarded = 0;
    in->base = (double *)malloc((n + m) * sizeof(double)); /* the block is owned (and freed) through the input line */
    if (!in->base) { fprintf(stderr, "h_filter: out of memory\n"); exit(2); }
    out->base = NULL;
    if (lay == 2) { in->p = in->base; out->p = in->base + n; VF_COUNT("tf-lines-in-one-block-input-then-output"); }
    else { out->p = in->base; in->p = in->base + m; VF_COUNT("tf-lines-in-one-block-output-then-input"); }
    memset(in->base, 0xA5, (n + m) * sizeof(double));
}
static int line_canaries_ok(line_t const *l)
{
    if (!l->guarded) { return 1; }
    return memcmp(l->base, CANARY, 16) == 0 && memcmp(l->base + l->n + 2, CANARY + 2, 16) == 0;
}
static void line_free(line_t *l)
{
    free(l->base);
    l->base = l->p = NULL;
}

/* coefficient vector: exact-size malloc block + private copy (the library takes it as const) */
typedef struct
{
    unsigned n;
    double *c, *saved;
} coef_t;
static void coef_alloc(coef_t *c, unsigned n, double const *v)
{
    c->n = n;
    c->c = (n == 0 && (vf.case_no & 1)) ? NULL : (double *)malloc(n * sizeof(double)); /* odd cases: an empty coefficient vector is a null pointer */
    c->saved = (double *)malloc((n + 1) * sizeof(double));
    if ((!c->c && n) || !c->saved) { fprintf(stderr, "h_filter: out of memory\n"); exit(2); }
    if (n) { memcpy(c->c, v, n * sizeof(double)); }
    memcpy(c->saved, v, n * sizeof(double));
}
static int coef_intact(coef_t const *c) { return !c->n || memcmp(c->c, c->saved, c->n * sizeof(double)) == 0; }
static void coef_free(coef_t *c)
{
    free(c->c);
    free(c->saved);
    c->c = c->saved = NULL;
}

/* attach-then-fill: the coefficient block holds stale bytes (NaN / Inf / 0xFF patterns) at the moment it is handed to a_tf_init / a_tf_set_num / a_tf_set_den and
   receives its values right afterwards - the order in which the Lua, JavaScript and QuickJS bindings call them (realloc, set, fill).  The library stores the
   pointer and reads the coefficients when it filters, so what the block held at attach time must not matter (seeded change C16-L: a side whose block
   holds a NaN or Inf AT ATTACH TIME is "refused" and stored with order 0).  coef_stale() poisons in every third case, coef_fill() restores the values. */
static int coef_attach_then_fill(void) { return vf.case_no % 3 == 1; }
static void coef_stale(coef_t const *c)
{
    static unsigned char const pat[4][8] = {{0xFF, 0xFF, 0xFF, 0xFF, 0xFF, 0xFF, 0xFF, 0xFF}, {0, 0, 0, 0, 0, 0, 0xF0, 0x7F}, {0, 0, 0, 0, 0, 0, 0xF0, 0xFF}, {1, 0, 0, 0, 0, 0, 0xF8, 0x7F}};
    if (!coef_attach_then_fill() || !c->c) { return; }
    for (unsigned i = 0; i < c->n; ++i) { memcpy(&c->c[i], pat[(i + (unsigned)vf.case_no) & 3], 8); }
    VF_COUNT("tf-coefficients-attached-before-they-are-written");
}
static void coef_fill(coef_t const *c) { if (coef_attach_then_fill() && c->c && c->n) { memcpy(c->c, c->saved, c->n * sizeof(double)); } }

static char const *fmt_vec(char *buf, size_t cap, double const *v, unsigned n)
{
    size_t o = 0;
    buf[0] = 0;
    o += (size_t)snprintf(buf + o, cap - o, "[");
    for (unsigned i = 0; i < n && o + 32 < cap; ++i) { o += (size_t)snprintf(buf + o, cap - o, "%s%a", i ? "," : "", v[i]); }
    if (o + 2 < cap) { snprintf(buf + o, cap - o, "]"); }
    return buf;
}
static char const *fmt_vec_g(char *buf, size_t cap, double const *v, unsigned n)
{
    size_t o = 0;
    buf[0] = 0;
    o += (size_t)snprintf(buf + o, cap - o, "[");
    for (unsigned i = 0; i < n && o + 32 < cap; ++i) { o += (size_t)snprintf(buf + o, cap - o, "%s%.6g", i ? "," : "", v[i]); }
    if (o + 2 < cap) { snprintf(buf + o, cap - o, "]"); }
    return buf;
}

/* ---------------------------------------------------------------- scenario = configuration history of one filter */
enum { EV_NONE, EV_ZERO, EV_SETNUM, EV_SETDEN, EV_INIT };
static char const *const EV_NAME[] = {"none", "a_tf_zero", "a_tf_set_num", "a_tf_set_den", "a_tf_init"};
enum { CL_IMPULSE, CL_STEP, CL_ALT, CL_RANDOM, NCLASS };
static char const *const CL_NAME[] = {"impulse", "step", "alternating", "random"};

typedef struct
{
    coef_t num[2], den[2]; /* [1] = configuration after the event (if the event replaces it) */
    int ev;                /* one event before step ev_at (0 < ev_at) */
    unsigned ev_at;
    int p, q; /* exact regime: num multiples of 2^-p, den multiples of 2^-q */
} scn_t;

static void scn_free(scn_t *s)
{
    for (int i = 0; i < 2; ++i)
    {
        if (s->num[i].c) { coef_free(&s->num[i]); }
        if (s->den[i].c) { coef_free(&s->den[i]); }
    }
}

/* reference model of the configuration at step k */
typedef struct
{
    coef_t const *num, *den;
    unsigned kx0, ky0; /* samples older than these indices are not in the delay lines any more (they were zeroed) */
} cfg_t;
static cfg_t scn_cfg(scn_t const *s, unsigned k)
{
    cfg_t c = {&s->num[0], &s->den[0], 0, 0};
    if (s->ev != EV_NONE && k >= s->ev_at)
    {
        if (s->ev == EV_ZERO || s->ev == EV_SETNUM || s->ev == EV_INIT) { c.kx0 = s->ev_at; }
        if (s->ev == EV_ZERO || s->ev == EV_SETDEN || s->ev == EV_INIT) { c.ky0 = s->ev_at; }
        if (s->ev == EV_SETNUM || s->ev == EV_INIT) { c.num = &s->num[1]; }
        if (s->ev == EV_SETDEN || s->ev == EV_INIT) { c.den = &s->den[1]; }
    }
    return c;
}

/* THE reference: step k of the difference equation by explicit index arithmetic on complete histories.
   x[0..k], yh[0..k-1] (yh = the reference's own outputs in the exact regime, the library's in the real regime).
   Denominator terms are accumulated first and from the oldest sample, numerator terms from the oldest sample:
   a different order than the library's (irrelevant in the exact regime, covered by the bound in the real one). */
static __float128 ref_step(scn_t const *s, unsigned k, double const *x, double const *yh, __float128 *sumabs, unsigned *nterms)
{
    cfg_t c = scn_cfg(s, k);
    __float128 acc = 0, sa = 0;
    unsigned i;
    for (i = c.den->n; i-- > 0;)
    {
        if (k >= 1 + i && k - 1 - i >= c.ky0)
        {
            __float128 t = (__float128)c.den->saved[i] * (__float128)yh[k - 1 - i];
            acc -= t;
            sa += fabsq(t);
        }
    }
    for (i = c.num->n; i-- > 0;)
    {
        if (k >= i && k - i >= c.kx0)
        {
            __float128 t = (__float128)c.num->saved[i] * (__float128)x[k - i];
            acc += t;
            sa += fabsq(t);
        }
    }
    *sumabs = sa;
    if (nterms) { *nterms = c.num->n + c.den->n; }
    return acc;
}

/* exact regime: reference outputs and the length up to which exactness is guaranteed (see file comment) */
static unsigned ref_exact(scn_t const *s, double const *x, unsigned L0, double *y)
{
    for (unsigned k = 0; k < L0; ++k)
    {
        cfg_t c = scn_cfg(s, k);
        __float128 sa;
        __float128 v = ref_step(s, k, x, y, &sa, NULL);
        int f = s->p + (c.den->n ? (int)(k - c.ky0) * s->q : 0);
        if (f > 60 || ldexp((double)sa, f) >= 0x1p48) { return k; }
        y[k] = (double)v; /* exact: |v| < 2^48 * 2^-f and v is a multiple of 2^-f */
    }
    return L0;
}

/* ---------------------------------------------------------------- running the library */
static int cells_are_zero(double const *p, unsigned n)
{
    for (unsigned i = 0; i < n; ++i)
    {
        if (dbits(p[i]) != 0) { return 0; }
    }
    return 1;
}
static int ctx_is(a_tf const *ctx, coef_t const *num, line_t const *in, coef_t const *den, line_t const *out)
{
    return ctx->num_p == num->c && ctx->num_n == num->n && ctx->input == in->p &&
           ctx->den_p == den->c && ctx->den_n == den->n && ctx->output == out->p;
}

static char g_desc[900]; /* description of the current run for violation messages */
static int g_sampled[8]; /* one written-out sample per kind and worker */

/* Runs scenario s on x[0..L) through the real library, y[k] = returned outputs.  Monitors that need no reference
   are evaluated here: zero state after init / set_* / zero, context fields, canaries, coefficient vectors untouched,
   delay lines = most recent samples first, zeroing + re-run reproduces the first run bit for bit. */
static void lib_run(scn_t const *s, double const *x, unsigned L, double *y, int guarded, int rerun, char const *tag)
{
    a_tf *ctx = (a_tf *)malloc(sizeof(a_tf));
    line_t in[2], out[2];
    line_t *cin = &in[0], *cout = &out[0];
    coef_t const *cnum = &s->num[0], *cden = &s->den[0];
    unsigned kx0 = 0, ky0 = 0, k, i;
    int have1_in = 0, have1_out = 0;
    char b1[400], b2[400];
    if (!ctx) { fprintf(stderr, "h_filter: out of memory\n"); exit(2); }
    memset(ctx, 0xA5, sizeof(*ctx));
    lines_alloc(&in[0], cnum->n, &out[0], cden->n, guarded);
    vf_log("[%s] a_tf_init(num_n=%u num=%s, den_n=%u den=%s) lines=%s L=%u", tag, cnum->n, fmt_vec(b1, sizeof b1, cnum->c, cnum->n),
           cden->n, fmt_vec(b2, sizeof b2, cden->c, cden->n), guarded ? "canary-guarded" : "exact-size blocks", L);
    coef_stale(cnum); coef_stale(cden);
    a_tf_init(ctx, cnum->n, cnum->c, cin->p, cden->n, cden->c, cout->p);
    coef_fill(cnum); coef_fill(cden);
    VF_COUNT("tf-init-zero-state");
    if (!ctx_is(ctx, cnum, cin, cden, cout)) { vf_viol("tf_init/context-fields-not-set", "%s", g_desc); }
    if (!cells_are_zero(cin->p, cin->n) || !cells_are_zero(cout->p, cout->n))
    {
        vf_viol("tf_init/state-not-zero", "delay lines not all +0.0 after a_tf_init on garbage-filled buffers; %s", g_desc);
    }
    for (k = 0; k < L; ++k)
    {
        if (s->ev != EV_NONE && k == s->ev_at)
        {
            double keep[MAXORD];
            vf_log("[%s] step %u: %s", tag, k, EV_NAME[s->ev]);
            switch (s->ev)
            {
            case EV_ZERO:
                a_tf_zero(ctx);
                kx0 = ky0 = k;
                VF_COUNT("tf-zero-mid-history");
                if (!cells_are_zero(cin->p, cin->n) || !cells_are_zero(cout->p, cout->n))
                {
                    vf_viol("tf_zero/state-not-initial", "delay lines not all +0.0 after a_tf_zero at step %u; %s", k, g_desc);
                }
                break;
            case EV_SETNUM:
                memcpy(keep, cout->p, cout->n * sizeof(double));
                line_alloc(&in[1], s->num[1].n, guarded);
                have1_in = 1;
                cnum = &s->num[1];
                cin = &in[1];
                coef_stale(cnum);
                a_tf_set_num(ctx, cnum->n, cnum->c, cin->p);
                coef_fill(cnum);
                kx0 = k;
                VF_COUNT("tf-set-num-mid-history");
                if (!cells_are_zero(cin->p, cin->n)) { vf_viol("tf_set_num/new-input-line-not-zeroed", "step %u; %s", k, g_desc); }
                if (memcmp(keep, cout->p, cout->n * sizeof(double)) != 0) { vf_viol("tf_set_num/output-line-touched", "step %u; %s", k, g_desc); }
                break;
            case EV_SETDEN:
                memcpy(keep, cin->p, cin->n * sizeof(double));
                line_alloc(&out[1], s->den[1].n, guarded);
                have1_out = 1;
                cden = &s->den[1];
                cout = &out[1];
                coef_stale(cden);
                a_tf_set_den(ctx, cden->n, cden->c, cout->p);
                coef_fill(cden);
                ky0 = k;
                VF_COUNT("tf-set-den-mid-history");
                if (!cells_are_zero(cout->p, cout->n)) { vf_viol("tf_set_den/new-output-line-not-zeroed", "step %u; %s", k, g_desc); }
                if (memcmp(keep, cin->p, cin->n * sizeof(double)) != 0) { vf_viol("tf_set_den/input-line-touched", "step %u; %s", k, g_desc); }
                break;
            default: /* EV_INIT */
                lines_alloc(&in[1], s->num[1].n, &out[1], s->den[1].n, guarded);
                have1_in = have1_out = 1;
                cnum = &s->num[1];
                cden = &s->den[1];
                cin = &in[1];
                cout = &out[1];
                coef_stale(cnum); coef_stale(cden);
                a_tf_init(ctx, cnum->n, cnum->c, cin->p, cden->n, cden->c, cout->p);
                coef_fill(cnum); coef_fill(cden);
                kx0 = ky0 = k;
                VF_COUNT("tf-reinit-mid-history");
                if (!cells_are_zero(cin->p, cin->n) || !cells_are_zero(cout->p, cout->n))
                {
                    vf_viol("tf_init/state-not-zero", "re-initialisation at step %u; %s", k, g_desc);
                }
                break;
            }
            if (!ctx_is(ctx, cnum, cin, cden, cout))
            {
                char key[80];
                snprintf(key, sizeof key, "%s/context-fields-wrong", EV_NAME[s->ev] + 2);
                vf_viol(key, "after %s at step %u; %s", EV_NAME[s->ev], k, g_desc);
            }
        }
        if (k < 8) { vf_log("[%s] a_tf_iter(x[%u]=%a)", tag, k, x[k]); }
        else if (k == 8) { vf_log("[%s] a_tf_iter ... (%u more)", tag, L - k); }
        y[k] = a_tf_iter(ctx, x[k]);
        ++vf.evals;
        VF_COUNT("tf-delay-line-state");
        for (i = 0; i < cin->n; ++i)
        {
            double e = (k >= i && k - i >= kx0) ? x[k - i] : 0.0;
            if (!same_bits(cin->p[i], e))
            {
                vf_viol("tf_iter/delay-line-not-most-recent-first/input", "after step %u input[%u]=%a, expected x[k-%u]=%a; %s", k, i, cin->p[i], i, e, g_desc);
                break;
            }
        }
        for (i = 0; i < cout->n; ++i)
        {
            double e = (k >= i && k - i >= ky0) ? y[k - i] : 0.0;
            if (!same_bits(cout->p[i], e))
            {
                vf_viol("tf_iter/delay-line-not-most-recent-first/output", "after step %u output[%u]=%a, expected y[k-%u]=%a; %s", k, i, cout->p[i], i, e, g_desc);
                break;
            }
        }
        VF_COUNT("tf-canaries");
        if (!line_canaries_ok(cin)) { vf_viol("tf_iter/canary-overwritten/input-line", "step %u; %s", k, g_desc); memcpy(cin->base, CANARY, 16); memcpy(cin->base + cin->n + 2, CANARY + 2, 16); }
        if (!line_canaries_ok(cout)) { vf_viol("tf_iter/canary-overwritten/output-line", "step %u; %s", k, g_desc); memcpy(cout->base, CANARY, 16); memcpy(cout->base + cout->n + 2, CANARY + 2, 16); }
        if (!ctx_is(ctx, cnum, cin, cden, cout)) { vf_viol("tf_iter/context-fields-modified", "step %u; %s", k, g_desc); break; }
    }
    VF_COUNT("tf-coefficients-untouched");
    if (!coef_intact(&s->num[0]) || !coef_intact(&s->den[0]) || (s->num[1].c && !coef_intact(&s->num[1])) || (s->den[1].c && !coef_intact(&s->den[1])))
    {
        vf_viol("tf_iter/coefficient-vector-modified", "%s", g_desc);
    }
    /* zeroing restores the initial state */
    vf_log("[%s] a_tf_zero", tag);
    a_tf_zero(ctx);
    VF_COUNT("tf-zero-state-initial");
    if (!cells_are_zero(cin->p, cin->n) || !cells_are_zero(cout->p, cout->n))
    {
        vf_viol("tf_zero/state-not-initial", "delay lines not all +0.0 after a_tf_zero at the end of %u steps; %s", L, g_desc);
    }
    if (!ctx_is(ctx, cnum, cin, cden, cout)) { vf_viol("tf_zero/context-fields-modified", "%s", g_desc); }
    if (!line_canaries_ok(cin) || !line_canaries_ok(cout)) { vf_viol("tf_zero/canary-overwritten", "%s", g_desc); }
    if (rerun && s->ev == EV_NONE)
    {
        vf_log("[%s] re-run of the same %u inputs after a_tf_zero", tag, L);
        VF_COUNT("tf-zero-rerun-identical");
        for (k = 0; k < L; ++k)
        {
            double v = a_tf_iter(ctx, x[k]);
            ++vf.evals;
            if (!same_bits(v, y[k]))
            {
                vf_viol("tf_zero/rerun-differs-from-first-run", "step %u: first run %a, after a_tf_zero %a; %s", k, y[k], v, g_desc);
                break;
            }
        }
        if (!line_canaries_ok(cin) || !line_canaries_ok(cout)) { vf_viol("tf_iter/canary-overwritten/rerun", "%s", g_desc); }
    }
    line_free(&in[0]);
    line_free(&out[0]);
    if (have1_in) { line_free(&in[1]); }
    if (have1_out) { line_free(&out[1]); }
    free(ctx);
}

/* ---------------------------------------------------------------- generators */
static void gen_inputs_int(vf_rng *r, int cls, unsigned L, double *x, int A)
{
    unsigned k, at = vf_chance(r, 1, 3) ? (unsigned)vf_below(r, L) : 0;
    for (k = 0; k < L; ++k)
    {
        switch (cls)
        {
        case CL_IMPULSE: x[k] = (k == at) ? A : 0; break;
        case CL_STEP: x[k] = A; break;
        case CL_ALT: x[k] = (k & 1) ? -A : A; break;
        default: x[k] = (double)vf_range(r, -abs(A), abs(A)); break;
        }
    }
}
static void gen_inputs_real(vf_rng *r, int cls, unsigned L, double *x, double A)
{
    unsigned k, at = vf_chance(r, 1, 3) ? (unsigned)vf_below(r, L) : 0;
    for (k = 0; k < L; ++k)
    {
        switch (cls)
        {
        case CL_IMPULSE: x[k] = (k == at) ? A : 0; break;
        case CL_STEP: x[k] = A; break;
        case CL_ALT: x[k] = (k & 1) ? -A : A; break;
        default: x[k] = A * vf_uniform(r, -1, 1); break;
        }
    }
}

/* integer denominators with all poles on the unit circle: products of cyclotomic polynomials (bounded or
   polynomially growing responses, so that long histories stay inside the exact regime) */
static void gen_den_cyclotomic(vf_rng *r, unsigned n, double *den)
{
    static int const PH[9][6] = {{1, 1, -1}, {1, 1, 1}, {2, 1, 1, 1}, {2, 1, 0, 1}, {2, 1, -1, 1}, {4, 1, 1, 1, 1, 1},
                                 {4, 1, 0, 0, 0, 1}, {4, 1, 0, -1, 0, 1}, {4, 1, -1, 1, -1, 1}};
    long P[MAXORD + 1] = {1}; /* P[j] = coefficient of z^(deg-j), monic */
    unsigned deg = 0;
    while (deg < n)
    {
        int const *f = PH[vf_below(r, 9)];
        unsigned d = (unsigned)f[0], i, j;
        long Q[MAXORD + 1] = {0};
        if (deg + d > n) { f = PH[vf_below(r, 2)]; d = 1; }
        for (i = 0; i <= deg; ++i)
        {
            for (j = 0; j <= d; ++j) { Q[i + j] += P[i] * f[1 + j]; }
        }
        deg += d;
        memcpy(P, Q, sizeof P);
    }
    for (unsigned i = 0; i < n; ++i) { den[i] = (double)P[i + 1]; }
}

/* exact-regime coefficients: num multiples of 2^-p in [-16,16]; den by mode (0 cyclotomic integers, 1 small integers, 2 dyadic |.|<=1) */
static void gen_coefs_exact(vf_rng *r, unsigned nn, unsigned nd, int p, int q, int mode, double *num, double *den)
{
    unsigned i;
    for (i = 0; i < nn; ++i)
    {
        num[i] = vf_chance(r, 1, 6) ? 0.0 : ldexp((double)vf_range(r, -(16 << p), 16 << p), -p);
    }
    if (mode == 0) { gen_den_cyclotomic(r, nd, den); }
    else if (mode == 1)
    {
        for (i = 0; i < nd; ++i) { den[i] = (double)vf_range(r, -2, 2); }
    }
    else
    {
        for (i = 0; i < nd; ++i) { den[i] = vf_chance(r, 1, 6) ? 0.0 : ldexp((double)vf_range(r, -(1 << q), 1 << q), -q); }
    }
}

static void gen_event(vf_rng *r, scn_t *s, unsigned L0)
{
    s->ev = (int)vf_range(r, EV_ZERO, EV_INIT);
    s->ev_at = 1 + (unsigned)vf_below(r, vf_chance(r, 1, 2) ? 10 : (L0 > 1 ? L0 - 1 : 1));
}

static uint64_t cell_hash(unsigned nn, unsigned nd, int cls)
{
    return vf_hash64(vf_hash64(vf_hash64(0xC16, nn), nd), (uint64_t)cls);
}

/* ---------------------------------------------------------------- exact regime */
static double X0[MAXLEN], X1[MAXLEN], X2[MAXLEN], YR0[MAXLEN], YR1[MAXLEN], YR2[MAXLEN], YL0[MAXLEN], YL1[MAXLEN], YL2[MAXLEN];

static unsigned cmp_bitwise(char const *clause_key, double const *ylib, double const *yref, double const *x, unsigned L)
{
    for (unsigned k = 0; k < L; ++k)
    {
        if (!same_bits(ylib[k], yref[k]))
        {
            vf_viol(clause_key, "step %u of %u: a_tf_iter returned %a (%.17g), reference recurrence %a (%.17g); x[k]=%g x[k-1]=%g x[k-2]=%g; %s", k, L,
                    ylib[k], ylib[k], yref[k], yref[k], x[k], k >= 1 ? x[k - 1] : 0.0, k >= 2 ? x[k - 2] : 0.0, g_desc);
            return k;
        }
    }
    return L;
}

static void tf_exact_cell(vf_rng *r, unsigned nn, unsigned nd, int cls)
{
    scn_t s;
    double num[MAXORD], den[MAXORD];
    char b1[300], b2[300];
    int mode = (int)vf_below(r, 3);
    int p = (int)vf_below(r, 4), q = mode == 2 ? (int)vf_range(r, 1, 3) : 0;
    int A = (int)vf_range(r, 1, 1024) * (vf_chance(r, 1, 2) ? 1 : -1);
    unsigned L0 = vf_chance(r, 1, 4) ? (unsigned)vf_range(r, 1, 20) : (unsigned)vf_range(r, 1, 500);
    unsigned L, k;
    int guarded = (int)vf_below(r, 2);
    memset(&s, 0, sizeof s);
    s.p = p;
    s.q = q;
    gen_coefs_exact(r, nn, nd, p, q, mode, num, den);
    coef_alloc(&s.num[0], nn, num);
    coef_alloc(&s.den[0], nd, den);
    gen_inputs_int(r, cls, L0, X0, A);
    L = ref_exact(&s, X0, L0, YR0);
    snprintf(g_desc, sizeof g_desc, "exact regime: num=%s den=%s input=%s amplitude=%d", fmt_vec_g(b1, sizeof b1, num, nn), fmt_vec_g(b2, sizeof b2, den, nd), CL_NAME[cls], A);
    if (L == 0) { VF_COUNT("tf-exact-guard-left-nothing"); scn_free(&s); return; }
    VF_MAX("tf-exact-history-length", (double)L);

    /* (1) outputs = reference recurrence, bitwise; zero + re-run */
    lib_run(&s, X0, L, YL0, guarded, 1, "exact/u");
    VF_ADD("tf-exact-bitwise", L);
    cmp_bitwise("tf_iter/output-ne-difference-equation/exact", YL0, YR0, X0, L);
    vf_distinct(cell_hash(nn, nd, cls));

    /* (2) superposition: response to a*u+b*v = a*resp(u)+b*resp(v), exact identity */
    {
        int a, b, cls2 = (int)vf_below(r, NCLASS), A2 = (int)vf_range(r, 1, 1024);
        unsigned Lv, Lw, L2;
        do { a = (int)vf_range(r, -4, 4); } while (a == 0);
        do { b = (int)vf_range(r, -4, 4); } while (b == 0);
        gen_inputs_int(r, cls2, L, X1, A2);
        for (k = 0; k < L; ++k) { X2[k] = a * X0[k] + b * X1[k]; }
        Lv = ref_exact(&s, X1, L, YR1);
        Lw = ref_exact(&s, X2, L, YR2);
        L2 = Lv < Lw ? Lv : Lw;
        if (L2)
        {
            snprintf(g_desc, sizeof g_desc, "exact regime superposition %d*u+%d*v: num=%s den=%s u=%s(%d) v=%s(%d)", a, b, fmt_vec_g(b1, sizeof b1, num, nn),
                     fmt_vec_g(b2, sizeof b2, den, nd), CL_NAME[cls], A, CL_NAME[cls2], A2);
            lib_run(&s, X1, L2, YL1, guarded, 0, "exact/v");
            lib_run(&s, X2, L2, YL2, !guarded, 0, "exact/a*u+b*v");
            VF_ADD("tf-exact-superposition", L2);
            for (k = 0; k < L2; ++k)
            {
                double e = a * YL0[k] + b * YL1[k];
                if (!(YL2[k] == e))
                {
                    vf_viol("tf/superposition/exact", "step %u: resp(%d*u+%d*v)=%a but %d*resp(u)+%d*resp(v)=%a (resp(u)=%a resp(v)=%a); %s", k, a, b, YL2[k], a, b, e, YL0[k], YL1[k], g_desc);
                    break;
                }
            }
            VF_ADD("tf-exact-bitwise", 2 * L2);
            cmp_bitwise("tf_iter/output-ne-difference-equation/exact", YL1, YR1, X1, L2);
            cmp_bitwise("tf_iter/output-ne-difference-equation/exact", YL2, YR2, X2, L2);
        }
    }

    /* (3) time invariance: d leading zeros delay the output by d */
    {
        unsigned d = 1 + (unsigned)vf_below(r, 12);
        if (d >= L) { d = L > 1 ? L - 1 : 1; }
        for (k = 0; k < L; ++k) { X1[k] = k < d ? 0.0 : X0[k - d]; }
        snprintf(g_desc, sizeof g_desc, "exact regime time invariance, delay %u: num=%s den=%s input=%s amplitude=%d", d, fmt_vec_g(b1, sizeof b1, num, nn),
                 fmt_vec_g(b2, sizeof b2, den, nd), CL_NAME[cls], A);
        lib_run(&s, X1, L, YL1, guarded, 0, "exact/delayed");
        VF_ADD("tf-exact-time-invariance", L);
        for (k = 0; k < L; ++k)
        {
            double e = k < d ? 0.0 : YL0[k - d];
            if (!(YL1[k] == e))
            {
                vf_viol("tf/time-invariance/exact", "input delayed by %u: output[%u]=%a, undelayed output[%u]=%a; %s", d, k, YL1[k], k < d ? 0 : k - d, e, g_desc);
                break;
            }
        }
    }
    if (vf_want_sample() && !g_sampled[0] && nn >= 2 && nd >= 2 && L >= 8 && cls == CL_RANDOM)
    {
        g_sampled[0] = 1, vf_sample("a_tf exact regime num=%s den=%s, %u random integer inputs |x|<=%d: x[0..3]=%g,%g,%g,%g -> y[0..3]=%.10g,%.10g,%.10g,%.10g, y[%u]=%.17g; all %u outputs bitwise equal "
                  "to the reference recurrence; re-run after a_tf_zero identical; superposition and delay identities exact",
                  fmt_vec_g(b1, sizeof b1, num, nn), fmt_vec_g(b2, sizeof b2, den, nd), L, abs(A), X0[0], X0[1], X0[2], X0[3], YL0[0], YL0[1], YL0[2], YL0[3], L - 1, YL0[L - 1], L);
    }
    scn_free(&s);

    /* (4) re-configuration in mid-history (a_tf_zero / set_num / set_den / init), same oracle */
    {
        double num1[MAXORD], den1[MAXORD];
        unsigned nn1 = (unsigned)vf_below(r, MAXORD + 1), nd1 = (unsigned)vf_below(r, MAXORD + 1);
        memset(&s, 0, sizeof s);
        s.p = p;
        s.q = q;
        gen_coefs_exact(r, nn, nd, p, q, mode, num, den);
        gen_coefs_exact(r, nn1, nd1, p, q, mode, num1, den1);
        coef_alloc(&s.num[0], nn, num);
        coef_alloc(&s.den[0], nd, den);
        gen_event(r, &s, L0);
        if (s.ev == EV_SETNUM || s.ev == EV_INIT) { coef_alloc(&s.num[1], nn1, num1); }
        if (s.ev == EV_SETDEN || s.ev == EV_INIT) { coef_alloc(&s.den[1], nd1, den1); }
        gen_inputs_int(r, cls, L0, X0, A);
        L = ref_exact(&s, X0, L0, YR0);
        if (L > s.ev_at)
        {
            char b3[300], b4[300];
            snprintf(g_desc, sizeof g_desc, "exact regime with %s before step %u: num=%s den=%s, afterwards num=%s den=%s; input=%s amplitude=%d", EV_NAME[s.ev], s.ev_at,
                     fmt_vec_g(b1, sizeof b1, num, nn), fmt_vec_g(b2, sizeof b2, den, nd),
                     s.num[1].c ? fmt_vec_g(b3, sizeof b3, num1, nn1) : "same", s.den[1].c ? fmt_vec_g(b4, sizeof b4, den1, nd1) : "same", CL_NAME[cls], A);
            lib_run(&s, X0, L, YL0, guarded, 0, "exact/reconfig");
            VF_ADD("tf-exact-reconfig-bitwise", L);
            {
                /* blame the re-configuration call only if the plain runs of this case (same orders) were clean and the
                   outputs before the event agree with the reference */
                int clean = !vf.case_viol;
                if (cmp_bitwise("tf_iter/output-ne-difference-equation/exact", YL0, YR0, X0, s.ev_at) == s.ev_at)
                {
                    char key[96];
                    snprintf(key, sizeof key, "%s/outputs-after-reconfiguration-ne-reference/exact", EV_NAME[s.ev] + 2);
                    cmp_bitwise(clean ? key : "tf_iter/output-ne-difference-equation/exact", YL0 + s.ev_at, YR0 + s.ev_at, X0 + s.ev_at, L - s.ev_at);
                }
            }
        }
        else { VF_COUNT("tf-exact-reconfig-not-reached"); }
        scn_free(&s);
    }
}

/* ---------------------------------------------------------------- exact regime, "exact cancellation" class
   The class above keeps sum|terms| below 2^48 grid units, so it never produces a non-zero output that is more than ~48
   bits below the magnitude of its terms.  This class does exactly that: outputs that are small non-zero numbers (1..8
   grid units) left over by the EXACT cancellation of terms up to 2^53 times larger.  A deviation there is smaller than
   half an ulp of sum|terms|, i.e. below every n*eps*sum|terms| tolerance of the real regime: only an exact demand sees it.

   Why the exact demand is sound for EVERY correct implementation, whatever its order of summation
   (left-to-right, numerator/denominator part separately, pairwise, Kahan, FMA, extended-precision accumulator):
     * coefficients are integers in -3..3, inputs are integers (times a common power of two 2^e), and by induction all
       outputs of the exact recurrence are integers times 2^e;  every term t = num[i]*x[k-i] or -den[i]*y[k-1-i] of step k
       is an integer (times 2^e);
     * with P = sum of the positive terms and N = sum of the negative terms of step k, the harness only accepts a step
       when  P <= 2^p  and  |N| <= 2^p  (p = 53, computed in __int128 on the integer model, cx_ok()).  Every partial sum of any
       summation order is the sum of a SUBSET of the terms (or its negative, for an implementation that accumulates the
       denominator part with the opposite sign and subtracts), hence an integer in [N, P] (or [-P, -N]), hence an integer of
       magnitude <= 2^p, hence exactly representable; each single term is such a subset sum, so every product is exact too
       (also when it is fused into an FMA: the fused result is again a subset sum).  Exactly representable intermediate
       results are produced without rounding by IEEE-754 arithmetic in every rounding mode and in every wider format.
     * the common factor 2^e keeps all of this (multiplication by a power of two is exact) as long as nothing over- or
       underflows: e is restricted so that the grid unit 2^e is a normal number (2^e >= DBL_MIN: every non-zero input, term,
       partial sum and output is an integer multiple of it, so nothing is ever subnormal) and 2^(e+p+3) is finite
       (subset sums are <= 2^(e+p); the margin covers an implementation that forms sum|terms| <= 2^(e+p+1) on the side).
   So the returned sample has to EQUAL the integer model's output (compared with ==: a signed zero is not demanded).

   Which steps are interesting: with |y| = d grid units the suppression-gate condition  |y| < sum|terms| * eps/2  reads
   d * 2^p < P + |N|, and P + |N| <= 2^(p+1) leaves d = 1 as the only possibility (P in (2^(p-1), 2^p]); steps that satisfy
   it are counted under "tf-exact-cancellation-below-half-ulp-of-term-sum" (required).  d = 2..8 is generated too (cancellation
   by 50..52 bits: a coarser gate, e.g. |y| < 4*eps*sum|terms|, trips there).

   Construction: random small-integer "shape" history of 1..6 warm-up steps, multiplied by the integer m that brings
   max(P, |N|) of the next step (without the num[0]*x[k] term) to a target drawn from (2^(p-1), 2^p), plus a small integer
   perturbation;  the input x[k] is then SOLVED so that y[k] = d (num[0] = +-1 mostly; for +-2, +-3 the residue d is moved
   to the next value that makes the division exact);  1..4 more steps follow (solved again, or free inputs) so that the
   small sample is fed back.  Every step of every run is re-checked with cx_ok(); a draw that fails is rejected and counted. */
typedef __int128 i128;
#define CX_MAXL 12u
typedef struct
{
    unsigned nn, nd, L, kc; /* orders, history length, first solved (cancelling) step */
    int num[4], den[3];
    i128 x[CX_MAXL], y[CX_MAXL], P[CX_MAXL], N[CX_MAXL]; /* integer model; P/N = sum of the positive / negative terms of step j */
} cx_t;

static inline i128 cx_abs(i128 v) { return v < 0 ? -v : v; }

/* terms of step j of the integer model (numerator index from i0: i0 = 1 leaves the num[0]*x[j] term out) */
static void cx_terms(cx_t const *c, unsigned j, unsigned i0, i128 *P, i128 *N)
{
    i128 p = 0, n = 0, t;
    unsigned i;
    for (i = i0; i < c->nn; ++i)
    {
        if (j >= i)
        {
            t = (i128)c->num[i] * c->x[j - i];
            if (t > 0) { p += t; }
            else { n += t; }
        }
    }
    for (i = 0; i < c->nd; ++i)
    {
        if (j >= 1 + i)
        {
            t = -((i128)c->den[i] * c->y[j - 1 - i]);
            if (t > 0) { p += t; }
            else { n += t; }
        }
    }
    *P = p;
    *N = n;
}
/* step j with x[j] given: fills P, N, y and evaluates THE exactness condition of the file comment */
static int cx_ok(cx_t *c, unsigned j, int p)
{
    i128 const lim = (i128)1 << p;
    cx_terms(c, j, 0, &c->P[j], &c->N[j]);
    c->y[j] = c->P[j] + c->N[j];
    return cx_abs(c->x[j]) <= lim && c->P[j] <= lim && -c->N[j] <= lim;
}
/* the gate condition |y| < sum|terms| * 2^-p with y != 0, in integers */
static int cx_below_half_ulp(cx_t const *c, unsigned j, int p)
{
    /* P + |N| <= 2^(p+1): only |y| = 1 can satisfy it (the test on |y| also keeps the shift inside __int128) */
    return c->y[j] != 0 && cx_abs(c->y[j]) < 4 && (cx_abs(c->y[j]) << p) < c->P[j] - c->N[j];
}
/* choose x[j] such that y[j] = d, |d| small */
static void cx_solve(vf_rng *r, cx_t *c, unsigned j)
{
    i128 P, N, rest, d;
    int a0 = abs(c->num[0]), t;
    cx_terms(c, j, 1, &P, &N);
    rest = P + N;
    d = vf_chance(r, 5, 8) ? 1 : vf_chance(r, 1, 2) ? (i128)vf_range(r, 2, 3) : (i128)vf_range(r, 4, 8);
    if (vf_chance(r, 1, 2)) { d = -d; }
    for (t = 0; t < a0 && (d - rest) % a0 != 0; ++t) { d += d > 0 ? 1 : -1; } /* a0 consecutive values: one is divisible */
    c->x[j] = (d - rest) / c->num[0];
}
static int cx_gen(vf_rng *r, cx_t *c, int p)
{
    int const sb = p >= 53 ? 12 : 3, nb = p >= 53 ? 8 : 1; /* shape amplitude 2^sb, perturbation amplitude 2^nb */
    i128 const half = (i128)1 << (p - 1);
    i128 xs[CX_MAXL], P0, N0, M0, Pt, m;
    unsigned i, j, more;
    int noisy = (int)vf_below(r, 2), cls = (int)vf_below(r, 4);
    memset(c, 0, sizeof *c);
    if (vf_chance(r, 1, 8))
    { /* the simplest instance, an accumulator: y[k] = x[k] + y[k-1];  x = A, d - A */
        c->nn = c->nd = 1;
        c->num[0] = 1;
        c->den[0] = -1;
    }
    else
    {
        c->nn = 1 + (unsigned)vf_below(r, 4);
        c->nd = 1 + (unsigned)vf_below(r, 3);
        c->num[0] = vf_chance(r, 3, 4) ? 1 : (int)vf_range(r, 2, 3);
        if (vf_chance(r, 1, 2)) { c->num[0] = -c->num[0]; }
        for (i = 1; i < c->nn; ++i) { c->num[i] = (int)vf_range(r, -3, 3); }
        for (i = 0; i < c->nd; ++i) { c->den[i] = (int)vf_range(r, -3, 3); }
    }
    c->kc = 1 + (unsigned)vf_below(r, 6);
    for (j = 0; j < c->kc; ++j)
    {
        i128 A = (i128)1 << sb;
        xs[j] = cls == 0 ? (j == 0 ? A : 0) : cls == 1 ? A : (i128)vf_range(r, -(int64_t)A, (int64_t)A);
        c->x[j] = xs[j];
        (void)cx_ok(c, j, 120); /* shape: far below any limit, fills y */
    }
    cx_terms(c, c->kc, 1, &P0, &N0);
    M0 = P0 > -N0 ? P0 : -N0;
    if (M0 == 0) { return 0; }
    switch (vf_below(r, 5))
    {
    case 0: Pt = half + 1 + (i128)vf_below(r, 1024); break;      /* sum|terms| just above 2^p: the gate condition barely holds (or not) */
    case 1: Pt = 2 * half - (i128)vf_below(r, 1024); break;      /* just below the exactness limit */
    default: Pt = half + 1 + (i128)vf_below(r, (uint64_t)1 << (p > 60 ? 60 : p - 1)) * (p > 60 ? 8 : 1); break;
    }
    m = Pt < half + 2048 ? (Pt + M0 - 1) / M0 : Pt / M0; /* lower edge: round up, m*M0 in [Pt, Pt+M0); otherwise down, m*M0 in (Pt-M0, Pt] */
    if (m == 0) { return 0; }
    for (j = 0; j < c->kc; ++j)
    {
        c->x[j] = m * xs[j] + (noisy ? (i128)vf_range(r, -(1 << nb), 1 << nb) : 0);
        if (!cx_ok(c, j, p)) { return 0; }
    }
    cx_solve(r, c, c->kc);
    if (!cx_ok(c, c->kc, p)) { return 0; }
    c->L = c->kc + 1;
    more = 1 + (unsigned)vf_below(r, 4);
    for (j = c->kc + 1; j <= c->kc + more && j < CX_MAXL; ++j)
    {
        switch (vf_below(r, 6))
        {
        case 0: case 1: case 2: cx_solve(r, c, j); break;
        case 3: c->x[j] = (i128)vf_range(r, -(4 << nb), 4 << nb); break;
        case 4: c->x[j] = c->x[j - 1]; break;
        default: c->x[j] = -c->x[j - 1]; break;
        }
        if (!cx_ok(c, j, p)) { break; }
        c->L = j + 1;
    }
    return 1;
}
/* the model's run on another input sequence (same coefficients): length up to which every step is exact */
static unsigned cx_rerun(cx_t *c, i128 const *x, unsigned L, int p)
{
    unsigned j;
    for (j = 0; j < L; ++j)
    {
        c->x[j] = x[j];
        if (!cx_ok(c, j, p)) { break; }
    }
    return j;
}
static char const *cx_fmt(char *buf, size_t cap, i128 const *v, unsigned n)
{
    size_t o = 0;
    buf[0] = 0;
    for (unsigned i = 0; i < n && o + 24 < cap; ++i) { o += (size_t)snprintf(buf + o, cap - o, "%s%lld", i ? "," : "", (long long)v[i]); }
    return buf;
}
static char const *cx_fmt_i(char *buf, size_t cap, int const *v, unsigned n)
{
    size_t o = 0;
    buf[0] = 0;
    for (unsigned i = 0; i < n && o + 8 < cap; ++i) { o += (size_t)snprintf(buf + o, cap - o, "%s%d", i ? "," : "", v[i]); }
    return buf;
}

/* compares a library run with the integer model; returns the number of agreeing leading steps */
static unsigned cx_judge(cx_t const *c, double const *ylib, unsigned L, int e, char const *what)
{
    int seen = 0; /* a step with a cancellation by more than 40 bits at or before the first mismatch */
    for (unsigned k = 0; k < L; ++k)
    {
        double ref = ldexp((double)(long long)c->y[k], e);
        if (c->y[k] != 0 && (cx_abs(c->y[k]) << 40) < c->P[k] - c->N[k]) { seen = 1; }
        if (!(ylib[k] == ref))
        {
            vf_viol(seen ? "tf_iter/exact-cancellation-result-not-exact" : "tf_iter/output-ne-difference-equation/exact",
                    "%s, step %u of %u: a_tf_iter returned %a (%.17g), the exact integer recurrence gives %a = %lld * 2^%d; positive terms sum to %lld, negative terms to %lld "
                    "(grid units 2^%d; every subset sum is an integer of magnitude <= 2^53, so every summation order is exact); %s",
                    what, k, L, ylib[k], ylib[k], ref, (long long)c->y[k], e, (long long)c->P[k], (long long)c->N[k], e, g_desc);
            return k;
        }
    }
    return L;
}

static void tf_cancel_case(vf_rng *r)
{
    static int const SCALES[] = {0, 0, -40, 200, -900, 900, -960, DBL_MIN_EXP - 1, DBL_MAX_EXP - 1 - 53 - 3};
    int const p = 53;
    cx_t c, cv, cw;
    scn_t s;
    double num[4], den[3];
    char b1[64], b2[64], b3[300];
    unsigned k, L, tries, hits = 0;
    int e, guarded = (int)vf_below(r, 2);
    for (tries = 0; tries < 8 && !cx_gen(r, &c, p); ++tries) { VF_COUNT("tf-exact-cancellation-draw-rejected"); }
    if (tries == 8) { VF_COUNT("tf-exact-cancellation-no-history"); return; }
    e = vf_chance(r, 1, 4) ? (int)vf_range(r, DBL_MIN_EXP - 1, DBL_MAX_EXP - 1 - p - 3) : SCALES[vf_below(r, sizeof SCALES / sizeof *SCALES)];
    /* grid unit 2^e >= DBL_MIN: every non-zero quantity is a normal number; 8 * 2^p * 2^e finite (see the comment above) */
    if (e < DBL_MIN_EXP - 1 || e + p + 3 > DBL_MAX_EXP - 1) { VF_COUNT("tf-exact-cancellation-scale-skipped"); return; }
    L = c.L;
    for (k = 0; k < 4; ++k) { num[k] = c.num[k]; }
    for (k = 0; k < 3; ++k) { den[k] = c.den[k]; }
    memset(&s, 0, sizeof s);
    coef_alloc(&s.num[0], c.nn, num);
    coef_alloc(&s.den[0], c.nd, den);
    for (k = 0; k < L; ++k)
    {
        X0[k] = ldexp((double)(long long)c.x[k], e);
        hits += (unsigned)cx_below_half_ulp(&c, k, p);
        if (c.y[k] != 0) { VF_MAX("tf-exact-cancellation-log2(sum|terms|/|y|)", log2((double)(c.P[k] - c.N[k]) / (double)cx_abs(c.y[k]))); }
    }
    snprintf(g_desc, sizeof g_desc, "exact cancellation class: num=[%s] den=[%s] scale 2^%d, inputs (grid units) [%s], first solved step %u", cx_fmt_i(b1, sizeof b1, c.num, c.nn),
             cx_fmt_i(b2, sizeof b2, c.den, c.nd), e, cx_fmt(b3, sizeof b3, c.x, L), c.kc);
    lib_run(&s, X0, L, YL0, guarded, 1, "cancel/u");
    VF_ADD("tf-exact-cancellation-bitwise", L);
    VF_ADD("tf-exact-cancellation-below-half-ulp-of-term-sum", hits);
    if (!hits) { VF_COUNT("tf-exact-cancellation-history-without-sub-half-ulp-step"); }
    cx_judge(&c, YL0, L, e, "run u");
    vf_distinct(vf_hash64(vf_hash64(0xC16CA, c.nn), c.nd));

    /* superposition w = a*u + b*v on such a history, if the runs on v and w stay exact beyond the first cancelling step:
       v small (then the output of w at the cancelling step is d + b*resp(v): a gated d would show as a broken identity even
       without the model), or v = -u + small (then w = a*small: the large parts cancel between the two RUNS) */
    {
        i128 xv[CX_MAXL], xw[CX_MAXL];
        int a = vf_chance(r, 1, 2) ? 1 : -1, b, kind = (int)vf_below(r, 2);
        unsigned Lv, Lw, L2;
        if (kind == 0) { do { b = (int)vf_range(r, -4, 4); } while (b == 0); }
        else { b = a; }
        for (k = 0; k < L; ++k)
        {
            i128 small = vf_chance(r, 1, 3) ? 0 : (i128)vf_range(r, -1024, 1024);
            xv[k] = kind == 0 ? small : -c.x[k] + small;
            xw[k] = a * c.x[k] + b * xv[k];
        }
        cv = c;
        cw = c;
        Lv = cx_rerun(&cv, xv, L, p);
        Lw = cx_rerun(&cw, xw, L, p);
        L2 = Lv < Lw ? Lv : Lw;
        if (L2 > c.kc)
        {
            for (k = 0; k < L2; ++k)
            {
                X1[k] = ldexp((double)(long long)xv[k], e);
                X2[k] = ldexp((double)(long long)xw[k], e);
            }
            snprintf(g_desc, sizeof g_desc, "exact cancellation class, superposition %d*u+%d*v (v = %s): num=[%s] den=[%s] scale 2^%d, u (grid units) = [%s], first solved step %u", a, b,
                     kind ? "-u + small" : "small", cx_fmt_i(b1, sizeof b1, c.num, c.nn), cx_fmt_i(b2, sizeof b2, c.den, c.nd), e, cx_fmt(b3, sizeof b3, c.x, L), c.kc);
            lib_run(&s, X1, L2, YL1, guarded, 0, "cancel/v");
            lib_run(&s, X2, L2, YL2, !guarded, 0, "cancel/a*u+b*v");
            VF_ADD("tf-exact-cancellation-superposition", L2);
            for (k = 0; k < L2; ++k)
            {
                /* binary128: all three values are integers of at most 54 bits times 2^e, the right-hand side is exact */
                __float128 rhs = (__float128)a * YL0[k] + (__float128)b * YL1[k];
                if (!((__float128)YL2[k] == rhs))
                {
                    vf_viol("tf/superposition/exact-cancellation", "step %u: resp(%d*u+%d*v)=%a but %d*resp(u)+%d*resp(v)=%a (resp(u)=%a resp(v)=%a; model: resp(u)=%lld resp(v)=%lld grid units); %s", k, a, b,
                            YL2[k], a, b, (double)rhs, YL0[k], YL1[k], (long long)c.y[k], (long long)cv.y[k], g_desc);
                    break;
                }
            }
            VF_ADD("tf-exact-cancellation-bitwise", 2 * L2);
            for (hits = 0, k = 0; k < L2; ++k) { hits += (unsigned)cx_below_half_ulp(&cv, k, p) + (unsigned)cx_below_half_ulp(&cw, k, p); }
            VF_ADD("tf-exact-cancellation-below-half-ulp-of-term-sum", hits);
            cx_judge(&cv, YL1, L2, e, "run v");
            cx_judge(&cw, YL2, L2, e, "run a*u+b*v");
        }
        else { VF_COUNT("tf-exact-cancellation-superposition-not-exact-skipped"); }
    }
    if (vf_want_sample() && !g_sampled[7] && c.nn >= 2 && c.nd >= 2 && cx_below_half_ulp(&c, c.kc, p))
    {
        g_sampled[7] = 1, vf_sample("a_tf exact cancellation num=[%s] den=[%s], inputs [%s] * 2^%d: at step %u the positive terms sum to %lld and the negative ones to %lld grid units "
                  "(every subset sum < 2^53 in magnitude, exact in any order), output %lld * 2^%d returned exactly (%a); %u steps equal to the integer recurrence",
                  cx_fmt_i(b1, sizeof b1, c.num, c.nn), cx_fmt_i(b2, sizeof b2, c.den, c.nd), cx_fmt(b3, sizeof b3, c.x, L), e, c.kc, (long long)c.P[c.kc], (long long)c.N[c.kc],
                  (long long)c.y[c.kc], e, YL0[c.kc], L);
    }
    scn_free(&s);
}

/* ---------------------------------------------------------------- real-valued regime */
/* den modes: 0 contractive (sum|den| = rho <= 0.9, rho returned), 1 stable poles (|pole| < 0.97), 2 arbitrary in [-1.5,1.5] */
static double gen_coefs_real(vf_rng *r, unsigned nn, unsigned nd, int mode, double *num, double *den)
{
    unsigned i;
    double rho = -1;
    for (i = 0; i < nn; ++i) { num[i] = vf_chance(r, 1, 8) ? 0.0 : vf_sign(r) * vf_logu(r, -3, 0.5); }
    if (mode == 0)
    {
        double s = 0;
        rho = vf_uniform(r, 0, 0.9);
        for (i = 0; i < nd; ++i) { den[i] = vf_uniform(r, -1, 1); s += fabs(den[i]); }
        for (i = 0; i < nd; ++i) { den[i] = s > 0 ? den[i] / s * rho : 0.0; }
        s = 0;
        for (i = 0; i < nd; ++i) { s += fabs(den[i]); }
        rho = s * (1 + 8 * EPS); /* what was actually obtained, rounded up */
    }
    else if (mode == 1)
    {
        double P[MAXORD + 1] = {1};
        unsigned deg = 0;
        while (deg < nd)
        {
            double Q[MAXORD + 1] = {0}, f[3] = {1, 0, 0};
            unsigned d = (nd - deg >= 2 && vf_chance(r, 2, 3)) ? 2 : 1, j;
            double rad = vf_uniform(r, 0.05, 0.97);
            if (d == 2) { f[1] = -2 * rad * cos(vf_uniform(r, 0, 3.141592653589793)); f[2] = rad * rad; }
            else { f[1] = -rad * vf_sign(r); }
            for (i = 0; i <= deg; ++i)
            {
                for (j = 0; j <= d; ++j) { Q[i + j] += P[i] * f[j]; }
            }
            deg += d;
            memcpy(P, Q, sizeof P);
        }
        for (i = 0; i < nd; ++i) { den[i] = P[i + 1]; }
    }
    else
    {
        for (i = 0; i < nd; ++i) { den[i] = vf_uniform(r, -1.5, 1.5); }
    }
    return nd ? rho : 0.0;
}

/* one-step oracle on the library's own history; returns max_k sum|terms| */
static double real_onestep(scn_t const *s, double const *x, double const *ylib, unsigned L, char const *key)
{
    double smax = 0;
    for (unsigned k = 0; k < L; ++k)
    {
        __float128 sa, v = ref_step(s, k, x, ylib, &sa, NULL);
        cfg_t c = scn_cfg(s, k);
        unsigned nt = c.num->n + c.den->n;
        double err = (double)fabsq((__float128)ylib[k] - v);
        double bound = nt * EPS * (double)sa + nt * 0x1p-1074;
        if ((double)sa > smax) { smax = (double)sa; }
        if (!isfinite(ylib[k]) || (bound == 0 ? err != 0 : err > bound))
        {
            vf_viol(key, "step %u of %u: a_tf_iter returned %.17g, difference equation on the library's own history gives %.17g (|diff|=%.3g, bound n*eps*sum|terms|=%.3g, n=%u); %s",
                    k, L, ylib[k], (double)v, err, bound, nt, g_desc);
            return smax;
        }
        if (bound > 0) { VF_MAX("tf-real-onestep-err/bound", err / bound); }
    }
    return smax;
}

static void tf_real_cell(vf_rng *r, unsigned nn, unsigned nd, int cls)
{
    scn_t s;
    double num[MAXORD], den[MAXORD], rho, sm0, sm1, sm2;
    char b1[300], b2[300];
    int mode = (int)vf_below(r, 3);
    int lti = (mode == 0 || nd == 0);
    int e2 = (int)vf_range(r, -10, 10);
    double A = lti ? ldexp((double)vf_range(r, 1, 1 << 20), e2 - 20) * vf_sign(r) : vf_sign(r) * vf_logu(r, -3, 3);
    unsigned L = vf_chance(r, 1, 4) ? (unsigned)vf_range(r, 1, 20) : (unsigned)vf_range(r, 1, 500), k;
    int guarded = (int)vf_below(r, 2);
    memset(&s, 0, sizeof s);
    rho = gen_coefs_real(r, nn, nd, mode, num, den);
    coef_alloc(&s.num[0], nn, num);
    coef_alloc(&s.den[0], nd, den);
    if (lti && cls == CL_RANDOM)
    {
        for (k = 0; k < L; ++k) { X0[k] = ldexp((double)vf_range(r, -(1 << 20), 1 << 20), e2 - 20); }
    }
    else { gen_inputs_real(r, cls, L, X0, A); }
    if (mode == 2)
    { /* arbitrary denominators may be unstable: keep the history short enough for |y| < 1e100 */
        for (k = 0; k < L; ++k)
        {
            __float128 sa, v = ref_step(&s, k, X0, YR0, &sa, NULL);
            YR0[k] = (double)v;
            if (!(fabs(YR0[k]) < 1e100)) { break; }
        }
        L = k;
        if (L == 0) { scn_free(&s); return; }
    }
    snprintf(g_desc, sizeof g_desc, "real regime: num=%s den=%s input=%s amplitude=%a", fmt_vec(b1, sizeof b1, num, nn), fmt_vec(b2, sizeof b2, den, nd), CL_NAME[cls], A);
    lib_run(&s, X0, L, YL0, guarded, 1, "real/u");
    VF_ADD("tf-real-onestep", L);
    sm0 = real_onestep(&s, X0, YL0, L, "tf_iter/output-ne-difference-equation/real");
    vf_distinct(cell_hash(nn, nd, cls));
    if (vf_want_sample() && !g_sampled[1] && nn >= 3 && nd >= 3 && L >= 50 && cls == CL_STEP && mode == 1)
    {
        g_sampled[1] = 1, vf_sample("a_tf real regime num=%s den=%s (stable poles), step input %.6g, %u samples: y[0]=%.17g y[%u]=%.17g; every output within n*eps*sum|terms| of the "
                  "difference equation evaluated in binary128 on the library's own history",
                  fmt_vec_g(b1, sizeof b1, num, nn), fmt_vec_g(b2, sizeof b2, den, nd), A, L, YL0[0], L - 1, YL0[L - 1]);
    }
    if (lti)
    {
        /* e[k] = resp(a*u+b*v)[k] - a*resp(u)[k] - b*resp(v)[k] obeys e[k] = -sum den[i]*e[k-1-i] + (local rounding errors), so
           |e| <= Delta/(1-rho), Delta = n*eps*max(sum|terms| of the three runs, weighted); inputs have <= 21 significant bits and
           a, b are small dyadics so that a*u+b*v itself is formed exactly */
        static double const AB[] = {1, -1, 2, -2, 3, -3, 4, -4, 0.5, -0.5, 1.5, -0.25};
        double a = AB[vf_below(r, 12)], b = AB[vf_below(r, 12)];
        int cls2 = (int)vf_below(r, NCLASS);
        double A2 = ldexp((double)vf_range(r, 1, 1 << 20), e2 - 20) * vf_sign(r);
        unsigned nt = nn + nd, d;
        double delta, bound;
        if (cls2 == CL_RANDOM)
        {
            for (k = 0; k < L; ++k) { X1[k] = ldexp((double)vf_range(r, -(1 << 20), 1 << 20), e2 - 20); }
        }
        else { gen_inputs_real(r, cls2, L, X1, A2); }
        for (k = 0; k < L; ++k) { X2[k] = a * X0[k] + b * X1[k]; }
        snprintf(g_desc, sizeof g_desc, "real regime superposition %g*u+%g*v: num=%s den=%s u=%s(%a) v=%s(%a)", a, b, fmt_vec(b1, sizeof b1, num, nn), fmt_vec(b2, sizeof b2, den, nd),
                 CL_NAME[cls], A, CL_NAME[cls2], A2);
        lib_run(&s, X1, L, YL1, guarded, 0, "real/v");
        lib_run(&s, X2, L, YL2, !guarded, 0, "real/a*u+b*v");
        VF_ADD("tf-real-onestep", 2 * L);
        sm1 = real_onestep(&s, X1, YL1, L, "tf_iter/output-ne-difference-equation/real");
        sm2 = real_onestep(&s, X2, YL2, L, "tf_iter/output-ne-difference-equation/real");
        delta = nt * EPS * (sm2 + fabs(a) * sm0 + fabs(b) * sm1) + 3 * nt * 0x1p-1074;
        bound = delta / (1 - rho);
        VF_ADD("tf-real-superposition", L);
        for (k = 0; k < L; ++k)
        {
            double e = (double)fabsq((__float128)YL2[k] - ((__float128)a * YL0[k] + (__float128)b * YL1[k]));
            if (bound == 0 ? e != 0 : e > bound)
            {
                vf_viol("tf/superposition/real", "step %u: resp(a*u+b*v)=%.17g, a*resp(u)+b*resp(v)=%.17g, |diff|=%.3g > bound %.3g (rho=%.3g); %s", k, YL2[k],
                        (double)((__float128)a * YL0[k] + (__float128)b * YL1[k]), e, bound, rho, g_desc);
                break;
            }
            if (bound > 0) { VF_MAX("tf-real-superposition-err/bound", e / bound); }
        }
        d = 1 + (unsigned)vf_below(r, 12);
        if (d >= L) { d = L > 1 ? L - 1 : 1; }
        for (k = 0; k < L; ++k) { X1[k] = k < d ? 0.0 : X0[k - d]; }
        snprintf(g_desc, sizeof g_desc, "real regime time invariance, delay %u: num=%s den=%s input=%s amplitude=%a", d, fmt_vec(b1, sizeof b1, num, nn), fmt_vec(b2, sizeof b2, den, nd),
                 CL_NAME[cls], A);
        lib_run(&s, X1, L, YL1, guarded, 0, "real/delayed");
        VF_ADD("tf-real-onestep", L);
        sm1 = real_onestep(&s, X1, YL1, L, "tf_iter/output-ne-difference-equation/real");
        bound = (nt * EPS * (sm0 + sm1) + 2 * nt * 0x1p-1074) / (1 - rho);
        VF_ADD("tf-real-time-invariance", L);
        for (k = 0; k < L; ++k)
        {
            double ref = k < d ? 0.0 : YL0[k - d], e = fabs(YL1[k] - ref);
            if (k < d ? YL1[k] != 0.0 : (bound == 0 ? e != 0 : e > bound))
            {
                vf_viol("tf/time-invariance/real", "input delayed by %u: output[%u]=%.17g vs undelayed output %.17g, |diff|=%.3g > bound %.3g; %s", d, k, YL1[k], ref, e, bound, g_desc);
                break;
            }
            if (k >= d && bound > 0) { VF_MAX("tf-real-time-invariance-err/bound", e / bound); }
        }
    }
    scn_free(&s);

    /* re-configuration in mid-history, one-step oracle with the reference's epoch model */
    {
        double num1[MAXORD], den1[MAXORD];
        unsigned nn1 = (unsigned)vf_below(r, MAXORD + 1), nd1 = (unsigned)vf_below(r, MAXORD + 1);
        memset(&s, 0, sizeof s);
        gen_coefs_real(r, nn, nd, mode == 2 ? 1 : mode, num, den);
        gen_coefs_real(r, nn1, nd1, mode == 2 ? 1 : mode, num1, den1);
        coef_alloc(&s.num[0], nn, num);
        coef_alloc(&s.den[0], nd, den);
        L = (unsigned)vf_range(r, 2, 200);
        gen_event(r, &s, L);
        if (s.ev_at >= L) { s.ev_at = L - 1; }
        if (s.ev == EV_SETNUM || s.ev == EV_INIT) { coef_alloc(&s.num[1], nn1, num1); }
        if (s.ev == EV_SETDEN || s.ev == EV_INIT) { coef_alloc(&s.den[1], nd1, den1); }
        gen_inputs_real(r, cls, L, X0, A);
        {
            char b3[300], b4[300];
            snprintf(g_desc, sizeof g_desc, "real regime with %s before step %u: num=%s den=%s, afterwards num=%s den=%s; input=%s amplitude=%a", EV_NAME[s.ev], s.ev_at,
                     fmt_vec(b1, sizeof b1, num, nn), fmt_vec(b2, sizeof b2, den, nd),
                     s.num[1].c ? fmt_vec(b3, sizeof b3, num1, nn1) : "same", s.den[1].c ? fmt_vec(b4, sizeof b4, den1, nd1) : "same", CL_NAME[cls], A);
        }
        lib_run(&s, X0, L, YL0, guarded, 0, "real/reconfig");
        VF_ADD("tf-real-reconfig-onestep", L);
        {
            char key[96];
            snprintf(key, sizeof key, "%s/outputs-around-reconfiguration-ne-reference/real", EV_NAME[s.ev] + 2);
            real_onestep(&s, X0, YL0, L, vf.case_viol ? "tf_iter/output-ne-difference-equation/real" : key);
        }
        scn_free(&s);
    }
}

/* ---------------------------------------------------------------- first-order filters */
enum { AC_ZERO, AC_TINY, AC_HALF, AC_ONE_MINUS_EPS, AC_ONE, AC_UNIFORM, AC_LOG, NALPHA };
static char const *const AC_NAME[] = {"0", "tiny", "1/2", "1-eps", "1", "uniform(0,1)", "log-uniform[1e-6,1)"};
static double gen_alpha(vf_rng *r, int ac)
{
    switch (ac)
    {
    case AC_ZERO: return 0.0;
    case AC_TINY: return vf_logu(r, -300, -17);
    case AC_HALF: return 0.5;
    case AC_ONE_MINUS_EPS: return vf_chance(r, 1, 2) ? 1 - 0x1p-53 : 1 - EPS;
    case AC_ONE: return 1.0;
    case AC_UNIFORM: return vf_unit(r);
    default: return vf_logu(r, -6, 0);
    }
}
static void gen_inputs_filter(vf_rng *r, int cls, unsigned N, double *x, double A)
{
    unsigned k;
    for (k = 0; k < N; ++k)
    {
        switch (cls)
        {
        case CL_IMPULSE: x[k] = k == 0 ? A : 0; break;
        case CL_STEP: x[k] = (k / 97) & 1 ? -0.5 * A : A; break; /* piecewise constant */
        case CL_ALT: x[k] = (k & 1) ? -A : A; break;
        default: x[k] = A * vf_uniform(r, -1, 1); break;
        }
    }
}

#define FLEN 2048u
static double FX[FLEN], FY[FLEN];

/* Low-pass  y = (1-alpha)*y + alpha*x.
   difference equation: a-priori bound 2*eps*(|(1-alpha)*y_prev| + |alpha*x|)   (4 roundings: 1-alpha, two products, one sum
                        -> <= 3.5*2^-53*sum|terms|; 2*eps = 4*2^-53);
   range: y in [min,max] of {0} U inputs so far up to slack = 2*ulp(M) + 2*eps*M*min(k+1, 1/alpha), M = max(|min|,|max|).
          DESIGN.md planned "2 ulp"; that is not sound: fl(1-alpha)+alpha != 1 and the per-step rounding error delta <= 2.5*2^-53*M
          is only contracted by (1-alpha) per step, so the excess can build up to delta*min(k+1,1/alpha) (up to 256 ulp observed on the
          unchanged tree on long constant inputs).  The bound used is that geometric sum with 1.6x slack; calibration over
          VERIF_SEED 1..5, quick+thorough: worst observed excess/slack = 0.22 (VF_MAX "lpf-range-excess/slack"), i.e. > 4x head-room.
   settling (lpf_converge_case) / decay (hpf_decay_case): DESIGN.md constants (40 time constants, 1e-12*|c|); worst observed residuals
          over the same runs 0.25e-12 resp. 0.11e-12 (stall of the rounded iteration at <= ulp(c)/alpha resp. 0.5*ulp(c)/(1-alpha)). */
static void lpf_case(vf_rng *r)
{
    int ac = (int)vf_below(r, NALPHA), cls = (int)vf_below(r, NCLASS);
    double alpha = gen_alpha(r, ac), A = vf_sign(r) * vf_logu(r, -3, 6);
    unsigned N = (unsigned)vf_range(r, 1, FLEN), k;
    a_lpf *f = (a_lpf *)malloc(sizeof(a_lpf));
    double lo = 0, hi = 0, prev = 0;
    if (!f) { exit(2); }
    memset(f, 0xA5, sizeof *f);
    gen_inputs_filter(r, cls, N, FX, A);
    vf_log("a_lpf_init(alpha=%a [%s]) then %u x a_lpf_iter, input=%s amplitude=%a", alpha, AC_NAME[ac], N, CL_NAME[cls], A);
    a_lpf_init(f, alpha);
    VF_COUNT("lpf-init-zero");
    if (!same_bits(f->alpha, alpha) || f->output != 0) { vf_viol("lpf_init/state", "alpha=%a: ctx.alpha=%a ctx.output=%a", alpha, f->alpha, f->output); }
    {
        a_lpf g = A_LPF_1(alpha);
        if (!same_bits(g.alpha, alpha) || g.output != 0) { vf_viol("lpf_init/A_LPF_1-initialiser", "alpha=%a", alpha); }
    }
    for (k = 0; k < N; ++k)
    {
        double x = FX[k], y, M, slack, ex;
        __float128 t1 = ((__float128)1 - alpha) * prev, t2 = (__float128)alpha * x, v = t1 + t2;
        double sa = (double)(fabsq(t1) + fabsq(t2)), err, bound = 2 * EPS * sa + 4 * 0x1p-1074;
        if (k < 16) { vf_log("a_lpf_iter(%a)", x); }
        y = a_lpf_iter(f, x);
        FY[k] = y;
        ++vf.evals;
        VF_COUNT("lpf-difference-equation");
        err = (double)fabsq((__float128)y - v);
        if (!(err <= bound) || !same_bits(f->output, y) || !same_bits(f->alpha, alpha))
        {
            vf_viol("lpf_iter/output-ne-difference-equation", "alpha=%a step %u: y_prev=%.17g x=%.17g returned %.17g (ctx.output=%.17g, ctx.alpha=%a) expected %.17g |diff|=%.3g bound=%.3g",
                    alpha, k, prev, x, y, f->output, f->alpha, (double)v, err, bound);
            break;
        }
        if (sa > 0) { VF_MAX("lpf-onestep-err/bound", err / bound); }
        if (x < lo) { lo = x; }
        if (x > hi) { hi = x; }
        M = fmax(fabs(lo), fabs(hi));
        slack = 2 * ulp_of(M) + 2 * EPS * M * (alpha > 0 ? fmin((double)(k + 1), 1 / alpha) : 0);
        ex = y > hi ? y - hi : y < lo ? lo - y : 0;
        VF_COUNT("lpf-range");
        if (!(ex <= slack))
        {
            vf_viol("lpf_iter/output-outside-range-of-inputs", "alpha=%a step %u: output %.17g outside [%.17g,%.17g] by %.3g (slack %.3g)", alpha, k, y, lo, hi, ex, slack);
            break;
        }
        if (ex > 0) { VF_MAX("lpf-range-excess/slack", ex / slack); }
        if (ac == AC_ONE && !(y == x)) { vf_viol("lpf_iter/alpha-1-not-pass-through", "step %u x=%a y=%a", k, x, y); break; }
        if (ac == AC_ZERO && !(y == 0)) { vf_viol("lpf_iter/alpha-0-moves", "step %u x=%a y=%a", k, x, y); break; }
        prev = y;
    }
    /* zeroing restores the initial state: re-run is bitwise identical */
    vf_log("a_lpf_zero, re-run");
    a_lpf_zero(f);
    VF_COUNT("lpf-zero-rerun");
    if (f->output != 0 || !same_bits(f->alpha, alpha)) { vf_viol("lpf_zero/state", "alpha=%a: ctx.alpha=%a ctx.output=%a", alpha, f->alpha, f->output); }
    for (k = 0; k < N && !vf.case_viol; ++k)
    {
        double y = a_lpf_iter(f, FX[k]);
        if (!same_bits(y, FY[k])) { vf_viol("lpf_zero/rerun-differs-from-first-run", "alpha=%a step %u: %a vs %a", alpha, k, FY[k], y); break; }
    }
    if (vf_want_sample() && !g_sampled[2] && ac == AC_LOG && cls == CL_RANDOM && N > 100)
    {
        g_sampled[2] = 1, vf_sample("a_lpf alpha=%.6g, %u random inputs in [%.4g,%.4g]: y[%u]=%.10g; every step within 2*eps*sum|terms| of (1-alpha)*y+alpha*x and inside the range of inputs so far",
                  alpha, N, lo, hi, N - 1, FY[N - 1]);
    }
    free(f);
}

/* settles to a constant input: after ceil(40/alpha) steps (alpha >= 1e-3) within 1e-12*|c| of c (DESIGN.md constants) */
static void lpf_converge_case(vf_rng *r)
{
    static int const ACS[] = {AC_HALF, AC_ONE_MINUS_EPS, AC_ONE, AC_UNIFORM, AC_LOG, AC_LOG};
    int ac = ACS[vf_below(r, 6)];
    double alpha = gen_alpha(r, ac), c = vf_sign(r) * vf_logu(r, -3, 6), y = 0, w = 0;
    unsigned n, k;
    a_lpf *f = (a_lpf *)malloc(sizeof(a_lpf));
    if (!f) { exit(2); }
    if (ac == AC_LOG) { alpha = vf_logu(r, -3, 0); }
    if (alpha < 1e-3) { alpha = 1e-3; }
    n = (unsigned)ceil(40 / alpha);
    vf_log("a_lpf_init(alpha=%a), constant input %a for %u+100 steps", alpha, c, n);
    a_lpf_init(f, alpha);
    for (k = 0; k < n; ++k)
    {
        /* range clause on the long constant run (this is where rounding excess accumulates, see lpf_case) */
        double M = fabs(c), slack = 2 * ulp_of(M) + 2 * EPS * M * fmin((double)(k + 1), 1 / alpha), ex;
        y = a_lpf_iter(f, c);
        ex = c > 0 ? (y > c ? y - c : y < 0 ? -y : 0) : (y < c ? c - y : y > 0 ? y : 0);
        if (!(ex <= slack))
        {
            vf_viol("lpf_iter/output-outside-range-of-inputs", "alpha=%a constant input %.17g, step %u: output %.17g outside the range by %.3g (slack %.3g)", alpha, c, k, y, ex, slack);
            break;
        }
        if (ex > 0) { VF_MAX("lpf-range-excess/slack", ex / slack); VF_MAX("lpf-range-excess/ulp", ex / ulp_of(M)); }
    }
    VF_ADD("lpf-range", n);
    vf.evals += n;
    VF_COUNT("lpf-settles-to-constant");
    if (!(fabs(y - c) <= 1e-12 * fabs(c)))
    {
        vf_viol("lpf_iter/does-not-settle-to-constant-input", "alpha=%a c=%.17g: after %u steps output %.17g, |y-c|/|c|=%.3g", alpha, c, n, y, fabs(y - c) / fabs(c));
    }
    VF_MAX("lpf-settle-residual/1e-12|c|", fabs(y - c) / (1e-12 * fabs(c)));
    for (k = 0; k < 100; ++k)
    {
        y = a_lpf_iter(f, c);
        if (fabs(y - c) > w) { w = fabs(y - c); }
    }
    if (!(w <= 1e-12 * fabs(c))) { vf_viol("lpf_iter/leaves-constant-input-after-settling", "alpha=%a c=%.17g: |y-c|/|c| up to %.3g in the 100 steps after settling", alpha, c, w / fabs(c)); }
    if (vf_want_sample() && !g_sampled[3] && ac == AC_LOG) { g_sampled[3] = 1, vf_sample("a_lpf alpha=%.6g constant input %.6g: after ceil(40/alpha)=%u steps |y-c|/|c|=%.3g (<=1e-12)", alpha, c, n, fabs(y - c) / fabs(c)); }
    free(f);
}

/* High-pass  y = alpha*(y + x - x_prev).  a-priori bound 2*eps*alpha*(|y_prev|+|x|+|x_prev|) (3 roundings -> <= 3*2^-53*alpha*sum) */
static void hpf_case(vf_rng *r)
{
    int ac = (int)vf_below(r, NALPHA), cls = (int)vf_below(r, NCLASS);
    double alpha = gen_alpha(r, ac), A = vf_sign(r) * vf_logu(r, -3, 6);
    unsigned N = (unsigned)vf_range(r, 1, FLEN), k;
    a_hpf *f = (a_hpf *)malloc(sizeof(a_hpf));
    double prev = 0, xprev = 0;
    if (!f) { exit(2); }
    memset(f, 0xA5, sizeof *f);
    gen_inputs_filter(r, cls, N, FX, A);
    vf_log("a_hpf_init(alpha=%a [%s]) then %u x a_hpf_iter, input=%s amplitude=%a", alpha, AC_NAME[ac], N, CL_NAME[cls], A);
    a_hpf_init(f, alpha);
    VF_COUNT("hpf-init-zero");
    if (!same_bits(f->alpha, alpha) || f->output != 0 || f->input != 0) { vf_viol("hpf_init/state", "alpha=%a: ctx.alpha=%a ctx.output=%a ctx.input=%a", alpha, f->alpha, f->output, f->input); }
    {
        a_hpf g = A_HPF_1(alpha);
        if (!same_bits(g.alpha, alpha) || g.output != 0 || g.input != 0) { vf_viol("hpf_init/A_HPF_1-initialiser", "alpha=%a", alpha); }
    }
    for (k = 0; k < N; ++k)
    {
        double x = FX[k], y, err;
        __float128 v = (__float128)alpha * ((__float128)prev + x - xprev);
        double sa = alpha * (fabs(prev) + fabs(x) + fabs(xprev)), bound = 2 * EPS * sa + 4 * 0x1p-1074;
        if (k < 16) { vf_log("a_hpf_iter(%a)", x); }
        y = a_hpf_iter(f, x);
        FY[k] = y;
        ++vf.evals;
        VF_COUNT("hpf-difference-equation");
        err = (double)fabsq((__float128)y - v);
        if (!(err <= bound) || !same_bits(f->output, y) || !same_bits(f->input, x) || !same_bits(f->alpha, alpha))
        {
            vf_viol("hpf_iter/output-ne-difference-equation", "alpha=%a step %u: y_prev=%.17g x=%.17g x_prev=%.17g returned %.17g (ctx.output=%.17g ctx.input=%.17g ctx.alpha=%a) expected %.17g |diff|=%.3g bound=%.3g",
                    alpha, k, prev, x, xprev, y, f->output, f->input, f->alpha, (double)v, err, bound);
            break;
        }
        if (sa > 0) { VF_MAX("hpf-onestep-err/bound", err / bound); }
        if (ac == AC_ZERO && !(y == 0)) { vf_viol("hpf_iter/alpha-0-output-nonzero", "step %u x=%a y=%a", k, x, y); break; }
        prev = y;
        xprev = x;
    }
    vf_log("a_hpf_zero, re-run");
    a_hpf_zero(f);
    VF_COUNT("hpf-zero-rerun");
    if (f->output != 0 || f->input != 0 || !same_bits(f->alpha, alpha)) { vf_viol("hpf_zero/state", "alpha=%a: ctx.alpha=%a ctx.output=%a ctx.input=%a", alpha, f->alpha, f->output, f->input); }
    for (k = 0; k < N && !vf.case_viol; ++k)
    {
        double y = a_hpf_iter(f, FX[k]);
        if (!same_bits(y, FY[k])) { vf_viol("hpf_zero/rerun-differs-from-first-run", "alpha=%a step %u: %a vs %a", alpha, k, FY[k], y); break; }
    }
    if (vf_want_sample() && !g_sampled[4] && ac == AC_UNIFORM && cls == CL_STEP && N > 200)
    {
        g_sampled[4] = 1, vf_sample("a_hpf alpha=%.6g, piecewise-constant input (%.4g / %.4g every 97 samples), %u steps: y[0]=%.10g y[96]=%.6g; every step within 2*eps*alpha*(|y|+|x|+|x_prev|) of alpha*(y+x-x_prev)",
                  alpha, A, -0.5 * A, N, FY[0], FY[96]);
    }
    free(f);
}

/* decays on a constant input: the pole is alpha, so the logical step count is ceil(40/(1-alpha)) (alpha <= 1-1e-3);
   afterwards |y| < 1e-12*|c|.  (The output cannot fall below the quantisation of fl(y+c)-c: it may stall at up to
   0.5/(1-alpha) <= 500 ulp(c) ~ 1.1e-13*|c|.) */
static void hpf_decay_case(vf_rng *r)
{
    static int const ACS[] = {AC_ZERO, AC_TINY, AC_HALF, AC_UNIFORM, AC_UNIFORM, AC_LOG};
    int ac = ACS[vf_below(r, 6)];
    double alpha = gen_alpha(r, ac), c = vf_sign(r) * vf_logu(r, -3, 6), y = 0, w = 0, y0 = 0;
    unsigned n, k;
    a_hpf *f = (a_hpf *)malloc(sizeof(a_hpf));
    if (!f) { exit(2); }
    if (ac == AC_LOG) { alpha = 1 - vf_logu(r, -3, 0); }
    if (alpha > 1 - 1e-3) { alpha = 1 - 1e-3; }
    n = (unsigned)ceil(40 / (1 - alpha));
    vf_log("a_hpf_init(alpha=%a), constant input %a for %u+100 steps", alpha, c, n);
    a_hpf_init(f, alpha);
    for (k = 0; k < n; ++k)
    {
        y = a_hpf_iter(f, c);
        if (k == 0) { y0 = y; }
    }
    vf.evals += n;
    VF_COUNT("hpf-decays-on-constant");
    if (!(fabs(y) < 1e-12 * fabs(c)))
    {
        vf_viol("hpf_iter/does-not-decay-on-constant-input", "alpha=%a c=%.17g: first output %.17g, after %u steps output %.17g, |y|/|c|=%.3g", alpha, c, y0, n, y, fabs(y) / fabs(c));
    }
    VF_MAX("hpf-decay-residual/1e-12|c|", fabs(y) / (1e-12 * fabs(c)));
    for (k = 0; k < 100; ++k)
    {
        y = a_hpf_iter(f, c);
        if (fabs(y) > w) { w = fabs(y); }
    }
    if (!(w < 1e-12 * fabs(c))) { vf_viol("hpf_iter/grows-again-on-constant-input", "alpha=%a c=%.17g: |y|/|c| up to %.3g in the 100 steps after the decay", alpha, c, w / fabs(c)); }
    if (vf_want_sample() && !g_sampled[5] && ac == AC_LOG) { g_sampled[5] = 1, vf_sample("a_hpf alpha=%.9g constant input %.6g: y[0]=%.6g, after ceil(40/(1-alpha))=%u steps |y|/|c|=%.3g (<1e-12)", alpha, c, y0, n, fabs(y) / fabs(c)); }
    free(f);
}

/* exact regime for the RC filters: alpha = m/2^s, integer inputs; y[k] is a multiple of 2^-(k+1)s, so the first ~50/s steps
   are computed without any rounding and must equal the difference equation exactly */
static void rc_exact_case(vf_rng *r)
{
    int s = (int)vf_range(r, 1, 3), m = (int)vf_range(r, 0, 1 << s), cls = (int)vf_below(r, NCLASS);
    double alpha = ldexp((double)m, -s);
    int A = (int)vf_range(r, 1, 1024) * (vf_chance(r, 1, 2) ? 1 : -1);
    unsigned N = 64, k;
    a_lpf *lp = (a_lpf *)malloc(sizeof(a_lpf));
    a_hpf *hp = (a_hpf *)malloc(sizeof(a_hpf));
    __float128 yl = 0, yh = 0;
    double xp = 0;
    int lp_on = 1, hp_on = 1;
    if (!lp || !hp) { exit(2); }
    gen_inputs_int(r, cls, N, FX, A);
    vf_log("exact regime a_lpf/a_hpf alpha=%d/2^%d, integer input=%s amplitude=%d", m, s, CL_NAME[cls], A);
    a_lpf_init(lp, alpha);
    a_hpf_init(hp, alpha);
    for (k = 0; k < N && (lp_on || hp_on); ++k)
    {
        double x = FX[k];
        int f = (int)(k + 1) * s;
        if (lp_on)
        {
            __float128 t1 = ((__float128)1 - alpha) * yl, t2 = (__float128)alpha * x;
            if (f > 60 || ldexp((double)(fabsq(t1) + fabsq(t2)), f) >= 0x1p52) { lp_on = 0; }
            else
            {
                double y = a_lpf_iter(lp, x);
                yl = t1 + t2;
                ++vf.evals;
                VF_COUNT("lpf-exact");
                if (!(y == (double)yl))
                {
                    vf_viol("lpf_iter/output-ne-difference-equation/exact", "alpha=%d/2^%d step %u x=%g: returned %a, (1-alpha)*y+alpha*x = %a", m, s, k, x, y, (double)yl);
                    lp_on = 0;
                }
            }
        }
        if (hp_on)
        {
            __float128 in = yh + x - xp;
            if (f > 60 || ldexp((double)fabsq(yh) + fabs(x) + fabs(xp), f) >= 0x1p52) { hp_on = 0; }
            else
            {
                double y = a_hpf_iter(hp, x);
                yh = (__float128)alpha * in;
                ++vf.evals;
                VF_COUNT("hpf-exact");
                if (!(y == (double)yh))
                {
                    vf_viol("hpf_iter/output-ne-difference-equation/exact", "alpha=%d/2^%d step %u x=%g x_prev=%g: returned %a, alpha*(y+x-x_prev) = %a", m, s, k, x, xp, y, (double)yh);
                    hp_on = 0;
                }
            }
        }
        xp = x;
    }
    free(lp);
    free(hp);
}

/* ---------------------------------------------------------------- coefficient generators
   range [0,1] for all positive finite fc, ts (incl. subnormal and near-overflow: the formulas saturate to 0 or 1);
   strictly inside (0,1) for 1e-12 <= fc*ts <= 1e12 (fc, ts individually within [1e-100,1e100] so that no intermediate
   over/underflows); value = header formula: lpf ts/(1/(2 pi fc)+ts), hpf 1/(2 pi fc ts+1) within 8*eps relative
   (a-priori: 4 resp. 5 roundings incl. the rounded constant -> <= 2.5*eps; worst observed over seeds 1..5, quick+thorough:
   1.8 eps, so 8*eps leaves > 4x head-room) */
static void gen_case(vf_rng *r)
{
    __float128 const tau = 2 * M_PIq;
    vf_log("a_lpf_gen/a_hpf_gen on 4096 (fc, ts) pairs");
    for (unsigned i = 0; i < 4096; ++i)
    {
        int mode = (int)vf_below(r, 4);
        double fc, ts, prod, al, ah;
        if (mode == 0) { fc = vf_logu(r, -320, 308.2); ts = vf_logu(r, -320, 308.2); }
        else
        {
            double P = mode == 1 ? vf_logu(r, -12, 12) : mode == 2 ? (vf_chance(r, 1, 2) ? 1e-12 : 1e12) * (1 + (vf_chance(r, 1, 2) ? 1 : -1) * vf_logu(r, -16, -1)) : vf_logu(r, -1, 1);
            fc = mode == 3 ? vf_logu(r, -3, 5) : vf_logu(r, -88, 88);
            ts = P / fc;
        }
        if (!(fc > 0) || !(ts > 0) || !isfinite(fc) || !isfinite(ts)) { continue; }
        prod = fc * ts;
        al = a_lpf_gen(fc, ts);
        ah = a_hpf_gen(fc, ts);
        vf.evals += 2;
        VF_COUNT("gen-range");
        if (!(al >= 0 && al <= 1)) { vf_viol("lpf_gen/outside-unit-interval", "a_lpf_gen(fc=%a, ts=%a) = %a", fc, ts, al); }
        if (!(ah >= 0 && ah <= 1)) { vf_viol("hpf_gen/outside-unit-interval", "a_hpf_gen(fc=%a, ts=%a) = %a", fc, ts, ah); }
        if (mode != 0 && prod >= 1e-12 && prod <= 1e12)
        {
            __float128 ql = (__float128)ts / (1 / (tau * fc) + ts), qh = 1 / (tau * fc * ts + 1);
            double el = (double)(fabsq(al - ql) / ql), eh = (double)(fabsq(ah - qh) / qh);
            VF_COUNT("gen-strictly-inside");
            if (!(al > 0 && al < 1)) { vf_viol("lpf_gen/not-strictly-inside-for-moderate-product", "a_lpf_gen(fc=%a, ts=%a) = %a, fc*ts=%.17g", fc, ts, al, prod); }
            if (!(ah > 0 && ah < 1)) { vf_viol("hpf_gen/not-strictly-inside-for-moderate-product", "a_hpf_gen(fc=%a, ts=%a) = %a, fc*ts=%.17g", fc, ts, ah, prod); }
            VF_COUNT("gen-header-formula");
            if (!(el <= 8 * EPS)) { vf_viol("lpf_gen/value-ne-header-formula", "a_lpf_gen(fc=%a, ts=%a) = %.17g, ts/(1/(2 pi fc)+ts) = %.17g (rel %.3g)", fc, ts, al, (double)ql, el); }
            if (!(eh <= 8 * EPS)) { vf_viol("hpf_gen/value-ne-header-formula", "a_hpf_gen(fc=%a, ts=%a) = %.17g, 1/(2 pi fc ts+1) = %.17g (rel %.3g)", fc, ts, ah, (double)qh, eh); }
            VF_MAX("lpf-gen-relerr/eps", el / EPS);
            VF_MAX("hpf-gen-relerr/eps", eh / EPS);
            {
                a_lpf gl = A_LPF_2(fc, ts);
                a_hpf gh = A_HPF_2(fc, ts);
                if (!same_bits(gl.alpha, al) || gl.output != 0) { vf_viol("lpf_gen/A_LPF_2-initialiser-differs", "fc=%a ts=%a: %a vs %a", fc, ts, gl.alpha, al); }
                if (!same_bits(gh.alpha, ah) || gh.output != 0 || gh.input != 0) { vf_viol("hpf_gen/A_HPF_2-initialiser-differs", "fc=%a ts=%a: %a vs %a", fc, ts, gh.alpha, ah); }
            }
            if (vf_want_sample() && !g_sampled[6] && mode == 3 && i > 100)
            {
                g_sampled[6] = 1, vf_sample("a_lpf_gen(fc=%.6g, ts=%.6g)=%.17g, a_hpf_gen=%.17g: both strictly inside (0,1), rel. distance to the header formulas %.2g/%.2g eps", fc, ts, al, ah, el / EPS, eh / EPS);
            }
        }
    }
}

/* ---------------------------------------------------------------- the repo's own test (test/tf.h): same coefficients and input samples */
static double const REPO_U[] = {
    2000.0, -652.99418, -344.66975, -168.84826, -133.5101, -109.5296, -86.454203, -67.783481, -53.22429, -41.808457, -32.835939, -25.786913, -20.2509, 
    -15.903432, -12.489385, -9.8083792, -7.703033, -6.0497455, -4.7514505, -3.731923, -2.9313047, -2.3025903, -1.8088678, -1.4211508, -1.1166775, 
    -0.87757332, -0.68980192, -0.54234094, -0.42653479, -0.33558647, -0.26415848, -0.2080594, -0.16399783, -0.12938911, -0.10220358, -0.080847398, 
    -0.064068962, -0.050885415, -0.040524947, -0.032381475, -0.025979056, -0.020943941, -0.016982637, -0.013864667, -0.011409044, -0.0094736412, 
    -0.00794685, -0.0067410251, -0.0057873396, -0.0050317445, -0.0044317954, -0.0039541603, -0.0035726634, -0.0032667484, -0.0030202717, -0.002820555, 
    -0.0026576412, -0.0025237103, -0.00241262, -0.0023195462, -0.0022406992, -0.0021731023, -0.0021144168, -0.002062805, -0.0020168229, -0.0019753356, 
    -0.0019374509, -0.0019024669, -0.0018698319, -0.0018391113, -0.0018099631, -0.0017821178, -0.0017553627, -0.00172953, -0.001704487, -0.0016801285, 
    -0.0016563712, -0.0016331487, -0.0016104081, -0.0015881069, -0.0015662109, -0.0015446926, -0.0015235294, -0.0015027029, -0.0014821978, -0.0014620014, 
    -0.0014421028, -0.0014224928, -0.0014031634, -0.0013841076, -0.0013653192, -0.0013467927, -0.0013285228, -0.001310505, -0.0012927348, -0.0012752081, 
    -0.001257921, -0.0012408699, -0.0012240512, -0.0012074614, 
};

static void tf_repo_case(void)
{
    scn_t s;
    double num[2] = {6.59492796e-05, 6.54019884e-05}, den[2] = {-1.97530991, 0.97530991};
    unsigned L = (unsigned)(sizeof REPO_U / sizeof *REPO_U);
    memset(&s, 0, sizeof s);
    coef_alloc(&s.num[0], 2, num);
    coef_alloc(&s.den[0], 2, den);
    snprintf(g_desc, sizeof g_desc, "coefficients and the %u input samples of /repo/test/tf.h", L);
    for (int guarded = 0; guarded < 2; ++guarded)
    {
        lib_run(&s, REPO_U, L, YL0, guarded, 1, "repo-test");
        VF_ADD("tf-real-onestep", L);
        real_onestep(&s, REPO_U, YL0, L, "tf_iter/output-ne-difference-equation/real");
        /* the test plots the output against the set-point 1.0: with "den[0] multiplies y[k-1]" the loop settles there
           (reference: y[50]=1.002, y[99]=1.00103); any other reading of the index convention diverges or stays near 0 */
        VF_COUNT("tf-repo-test-tracks-setpoint");
        if (!(fabs(YL0[L - 1] - 1.0) < 0.01 && fabs(YL0[50] - 1.0) < 0.01))
        {
            vf_viol("tf_iter/repo-test-does-not-track-setpoint", "y[50]=%.9g y[%u]=%.9g, expected within 0.01 of the set-point 1.0", YL0[50], L - 1, YL0[L - 1]);
        }
    }
    if (vf_want_sample())
    {
        vf_sample("repo test data (test/tf.h: num={6.59492796e-05,6.54019884e-05}, den={-1.97530991,0.97530991}, 100 controller outputs): y[0]=%.6g y[10]=%.6g y[50]=%.6g y[99]=%.6g -> "
                  "settles at the plotted set-point 1.0, confirming y[k]=sum num[i]x[k-i]-sum den[i]y[k-1-i]",
                  YL0[0], YL0[10], YL0[50], YL0[99]);
    }
    scn_free(&s);
}

/* ---------------------------------------------------------------- plan */
enum { K_TF_REPO, K_TF_EXACT, K_TF_CANCEL, K_TF_REAL, K_LPF, K_LPF_CONV, K_HPF, K_HPF_DECAY, K_RC_EXACT, K_GEN };
typedef struct { int kind; unsigned arg; } plan_t;
static plan_t *plan;
static uint64_t nplan;
static void plan_add(int kind, unsigned arg)
{
    static uint64_t cap;
    if (nplan == cap)
    {
        cap = cap ? cap * 2 : 4096;
        plan = (plan_t *)realloc(plan, cap * sizeof(*plan));
        if (!plan) { exit(2); }
    }
    plan[nplan].kind = kind;
    plan[nplan].arg = arg;
    ++nplan;
}
static void vf_init(void)
{
    unsigned rep, pair, i;
    unsigned reps = vf.tier ? 400 : 12; /* repetitions of each (num_n, den_n) pair in each regime; every case runs all 4 input classes */
    plan_add(K_TF_REPO, 0);
    for (rep = 0; rep < reps; ++rep)
    {
        for (pair = 0; pair < 81; ++pair)
        {
            plan_add(K_TF_EXACT, pair);
            plan_add(K_TF_REAL, pair);
        }
        /* interleave the first-order filter cases so that every worker gets a mix */
        for (i = 0; i < 24; ++i) { plan_add(K_LPF, i); plan_add(K_HPF, i); }
        for (i = 0; i < 8; ++i) { plan_add(K_LPF_CONV, i); plan_add(K_HPF_DECAY, i); }
        for (i = 0; i < 16; ++i) { plan_add(K_RC_EXACT, i); }
        for (i = 0; i < 4; ++i) { plan_add(K_GEN, i); }
        for (i = 0; i < 48; ++i) { plan_add(K_TF_CANCEL, i); }
    }
}
static uint64_t vf_ncases(int tier) { (void)tier; return nplan; }

/* A recursive filter whose OUTPUT leaves the finite range while every input is finite, continued for a few steps: the difference equation does not stop applying
   there. From the first non-finite output on, the sum evaluated in double over the inputs and the library's OWN returned outputs is +-inf or NaN whichever way it is
   summed (a finite coefficient times inf is inf or NaN); the library's output must then be non-finite as well - a finite value means the recurrence was not applied
   to the returned outputs (seeded change C16-N: the output line is zeroed when its newest entry is inf, "so that one overflow does not latch the filter"). Before the
   overflow every step is judged by the one-step bound on the library's own history as everywhere else. */
static void tf_overflow_case(vf_rng *r)
{
    unsigned const nn = 1 + (unsigned)vf_below(r, 3), nd = 1 + (unsigned)vf_below(r, 3);
    double num[3], den[3], xin[1400], yl[1400];
    double *in = (double *)malloc(nn * sizeof(double)), *out = (double *)malloc(nd * sizeof(double));
    double *cn = (double *)malloc(nn * sizeof(double)), *cd = (double *)malloc(nd * sizeof(double));
    a_tf ctx;
    unsigned k, first = 0, L = 1400, after = 0;
    int seen = 0;
    for (k = 0; k < nn; ++k) { cn[k] = num[k] = (double)vf_range(r, 1, 4) * vf_sign(r); }
    for (k = 0; k < nd; ++k) { cd[k] = den[k] = k == 0 ? -vf_uniform(r, 2, 4) : vf_uniform(r, -0.25, 0.25); } /* growth by about |den[0]| per step */
    a_tf_init(&ctx, nn, cn, in, nd, cd, out);
    vf_log("recursive filter driven until its output overflows: num_n=%u den_n=%u den[0]=%a, inputs small integers", nn, nd, den[0]);
    for (k = 0; k < L; ++k)
    {
        double fwd = 0, rev = 0;
        unsigned i;
        xin[k] = (double)vf_range(r, 1, 9);
        yl[k] = a_tf_iter(&ctx, xin[k]);
        for (i = 0; i < nn; ++i) { if (i <= k) { fwd += num[i] * xin[k - i]; } }
        for (i = 0; i < nd; ++i) { if (i < k) { fwd -= den[i] * yl[k - 1 - i]; } }
        for (i = nd; i-- > 0;) { if (i < k) { rev -= den[i] * yl[k - 1 - i]; } }
        for (i = nn; i-- > 0;) { if (i <= k) { rev += num[i] * xin[k - i]; } }
        if (seen || !isfinite(fwd) || !isfinite(rev))
        {
            ++vf.evals;
            VF_COUNT("tf-history-continued-after-output-overflow");
            if (!isfinite(fwd) && !isfinite(rev) && isfinite(yl[k]))
            {
                vf_viol("tf_iter/finite-output-from-a-non-finite-history", "num_n=%u den_n=%u den[0]=%a: step %u returned %.17g although the outputs returned before it are %.17g, %.17g: the difference equation over the returned outputs is not finite (%g / %g)",
                        nn, nd, den[0], k, yl[k], yl[k - 1], k > 1 ? yl[k - 2] : 0.0, fwd, rev);
                break;
            }
        }
        if (!seen && !isfinite(yl[k])) { seen = 1; first = k; }
        if (seen && ++after > 8) { break; }
    }
    if (!seen) { VF_COUNT("tf-overflow-history-did-not-overflow"); }
    (void)first;
    free(in); free(out); free(cn); free(cd);
}

static void vf_case(uint64_t c, vf_rng *r)
{
    plan_t p = plan[c];
    if (c % 16 == 5) { vf_rng orr; vf_rng_seed(&orr, vf.seed, vf_hash_str("C16-overflow"), c); tf_overflow_case(&orr); }
    unsigned nn = p.arg / 9, nd = p.arg % 9;
    switch (p.kind)
    {
    case K_TF_REPO: tf_repo_case(); break;
    case K_TF_EXACT:
        for (int cls = 0; cls < NCLASS; ++cls) { tf_exact_cell(r, nn, nd, cls); }
        break;
    case K_TF_CANCEL: tf_cancel_case(r); break;
    case K_TF_REAL:
        for (int cls = 0; cls < NCLASS; ++cls) { tf_real_cell(r, nn, nd, cls); }
        break;
    case K_LPF: lpf_case(r); break;
    case K_LPF_CONV: lpf_converge_case(r); break;
    case K_HPF: hpf_case(r); break;
    case K_HPF_DECAY: hpf_decay_case(r); break;
    case K_RC_EXACT: rc_exact_case(r); break;
    case K_GEN: gen_case(r); break;
    default: break;
    }
}
