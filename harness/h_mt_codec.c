/* Re-entrancy monitor for C17 (CRC / hash), C18 (UTF-8 codec) and C19 (integer helpers): configuration "mt", -DVF_MT=17|18|19,
 * built with -fsanitize=thread.  See vf_mt.h for the protocol; every item works on private tables, messages and buffers. */
#ifndef VF_MT
#error "compile with -DVF_MT=17|18|19"
#endif
#if VF_MT == 17
#define VF_PROP "C17"
#elif VF_MT == 18
#define VF_PROP "C18"
#else
#define VF_PROP "C19"
#endif
#include "vf_common.h"
#include "a/a.h"
#include "a/crc.h"
#include "a/hash.h"
#include "a/utf.h"
#include "a/str.h"
#include "a/math.h"
#include "vf_mt.h"

static size_t draw_msg(vf_rng *r, unsigned char *m, size_t cap)
{
    size_t const n = (size_t)vf_below(r, cap);
    for (size_t i = 0; i < n; ++i) { m[i] = (unsigned char)vf_u64(r); }
    return n;
}

#if VF_MT == 17
#define CRC_ITEM(W, T, sfx, initfn, runfn)                                                   \
    static uint64_t it_##sfx(vf_rng *r)                                                      \
    {                                                                                        \
        T tab[256];                                                                          \
        unsigned char m[700];                                                                \
        uint64_t h = 0xC17;                                                                  \
        T const poly = (T)(vf_u64(r) | 1), init = (T)vf_u64(r);                              \
        size_t const n = draw_msg(r, m, sizeof m), cut = n ? (size_t)vf_below(r, n + 1) : 0; \
        initfn(tab, poly);                                                                   \
        h = mt_fold_bytes(h, tab, sizeof tab);                                               \
        h = mt_fold_u64(h, (uint64_t)runfn(tab, m, n, init));                                \
        h = mt_fold_u64(h, (uint64_t)runfn(tab, m + cut, n - cut, runfn(tab, m, cut, init))); \
        return h;                                                                            \
    }
CRC_ITEM(8, a_u8, crc8m, a_crc8m_init, a_crc8)
CRC_ITEM(8, a_u8, crc8l, a_crc8l_init, a_crc8)
CRC_ITEM(16, a_u16, crc16m, a_crc16m_init, a_crc16m)
CRC_ITEM(16, a_u16, crc16l, a_crc16l_init, a_crc16l)
CRC_ITEM(32, a_u32, crc32m, a_crc32m_init, a_crc32m)
CRC_ITEM(32, a_u32, crc32l, a_crc32l_init, a_crc32l)
CRC_ITEM(64, a_u64, crc64m, a_crc64m_init, a_crc64m)
CRC_ITEM(64, a_u64, crc64l, a_crc64l_init, a_crc64l)
static uint64_t it_hash(vf_rng *r)
{
    unsigned char m[701];
    uint64_t h = 0xC17A;
    size_t n = draw_msg(r, m, 700);
    a_u32 const v = (a_u32)vf_u64(r);
    h = mt_fold_u64(h, a_hash_bkdr_(m, n, v));
    h = mt_fold_u64(h, a_hash_sdbm_(m, n, v));
    for (size_t i = 0; i < n; ++i) { if (!m[i]) { m[i] = 1; } }
    m[n] = 0;
    h = mt_fold_u64(h, a_hash_bkdr(m, v));
    h = mt_fold_u64(h, a_hash_sdbm(m, v));
    return h;
}
static mt_item const ITEMS[] = {{"crc8m", it_crc8m}, {"crc8l", it_crc8l}, {"crc16m", it_crc16m}, {"crc16l", it_crc16l}, {"crc32m", it_crc32m},
                                {"crc32l", it_crc32l}, {"crc64m", it_crc64m}, {"crc64l", it_crc64l}, {"hash", it_hash}};
#elif VF_MT == 18
static uint64_t it_codec(vf_rng *r)
{
    unsigned char buf[6 * 40 + 8];
    uint64_t h = 0xC18;
    size_t n = 0, stop = 0;
    for (int i = 0; i < 40; ++i)
    {
        static uint32_t const top[6] = {0x80, 0x800, 0x10000, 0x200000, 0x4000000, 0x80000000u};
        a_u32 const c = 1 + (a_u32)vf_below(r, top[vf_below(r, 6)] - 1);
        unsigned const k = a_utf_encode(c, buf + n);
        h = mt_fold_u64(h, k);
        h = mt_fold_u64(h, a_utf_encode(c, NULL));
        n += k;
    }
    h = mt_fold_bytes(h, buf, n);
    for (size_t at = 0; at < n;)
    {
        a_u32 v = 0;
        unsigned const k = a_utf_decode(buf + at, n - at, &v);
        h = mt_fold_u64(h, ((uint64_t)k << 32) | v);
        h = mt_fold_u64(h, a_utf_decode(buf + at, n - at, NULL));
        if (!k) { break; }
        at += k;
    }
    h = mt_fold_u64(h, a_utf_length(buf, n, &stop));
    h = mt_fold_u64(h, stop);
    h = mt_fold_u64(h, a_utf_length_(buf, n));
    /* damaged input: bytes overwritten at random */
    for (int i = 0; i < 6 && n; ++i) { buf[vf_below(r, n)] = (unsigned char)vf_u64(r); }
    h = mt_fold_u64(h, a_utf_length(buf, n, &stop));
    h = mt_fold_u64(h, stop);
    return h;
}
static uint64_t it_str_utf(vf_rng *r)
{
    a_str s;
    uint64_t h = 0xC18A;
    a_size stop = 0;
    a_str_ctor(&s);
    for (int i = 0; i < 30; ++i) { h = mt_fold_u64(h, (uint64_t)a_str_catc(&s, 0) * 0 + (uint64_t)a_utf_catc(&s, 1 + (a_u32)vf_below(r, 0x10FFFF))); }
    h = mt_fold_bytes(h, a_str_ptr(&s), a_str_len(&s));
    h = mt_fold_u64(h, a_utf_len(&s, &stop));
    h = mt_fold_u64(h, stop);
    a_str_dtor(&s);
    return h;
}
static mt_item const ITEMS[] = {{"utf-encode-decode-length", it_codec}, {"utf-through-the-string", it_str_utf}};
#else
static uint64_t it_int(vf_rng *r)
{
    uint64_t h = 0xC19;
    for (int i = 0; i < 200; ++i)
    {
        a_u64 const x = vf_u64(r) >> vf_below(r, 64), y = vf_u64(r) >> vf_below(r, 64);
        unsigned char b[8];
        h = mt_fold_u64(h, a_u32_sqrt((a_u32)x));
        h = mt_fold_u64(h, a_u64_sqrt(x));
        h = mt_fold_u64(h, a_u32_gcd((a_u32)x, (a_u32)y));
        h = mt_fold_u64(h, a_u64_gcd(x, y));
        h = mt_fold_u64(h, a_u32_lcm((a_u32)x & 0xFFFF, (a_u32)y & 0xFFFF));
        h = mt_fold_u64(h, a_u64_lcm(x & 0xFFFFFFFFu, y & 0xFFFFFFFFu));
        h = mt_fold_u64(h, a_u8_rev((a_u8)x));
        h = mt_fold_u64(h, a_u16_rev((a_u16)x));
        h = mt_fold_u64(h, a_u32_rev((a_u32)x));
        h = mt_fold_u64(h, a_u64_rev(x));
        a_u64_setl(b, x); h = mt_fold_bytes(h, b, 8); h = mt_fold_u64(h, a_u64_getl(b));
        a_u64_setb(b, y); h = mt_fold_bytes(h, b, 8); h = mt_fold_u64(h, a_u64_getb(b));
        a_u32_setl(b, (a_u32)x); h = mt_fold_u64(h, a_u32_getb(b));
        a_u16_setb(b, (a_u16)y); h = mt_fold_u64(h, a_u16_getl(b));
    }
    return h;
}
static mt_item const ITEMS[] = {{"sqrt-gcd-lcm-rev-byte-order", it_int}};
#endif

static uint64_t vf_ncases(int tier) { return tier ? 24 : 3; }
static void vf_case(uint64_t c, vf_rng *r)
{
    (void)r;
    mt_run_case(c, ITEMS, (unsigned)(sizeof ITEMS / sizeof ITEMS[0]));
}
