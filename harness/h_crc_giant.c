/* C17, messages longer than 2^32 bytes (extra configuration "giant", built WITHOUT sanitizers for speed).
 *
 * "Feeding a message in pieces with the running value carried over gives the same result as feeding it at once ... for all
 * byte strings of any length."  A length kept or masked in a 32-bit quantity (seeded change C17-E: `nbyte & ~3U` in an
 * unrolled loop clears bits 32..63) is invisible below 4 GiB.  One case = one routine (7 CRC entry points, 2 length-delimited
 * hashes) on a message of 2^32 + 37 bytes:
 *      whole   = f(msg, N, init)
 *      pieces  = f(msg + k, N - k, f(msg, k, init))            k = 2^31 + 11, both pieces shorter than 2^32
 *      require whole == pieces, and whole != f(msg, N mod 2^32, init) is reported as the likely cause when they differ.
 * The message is an anonymous private mapping that is only written at a handful of positions (start, around 2^31, around
 * 2^32, end), so nearly all of it reads from the shared zero page: no memory is consumed and the reads stay in cache.
 * The bit-by-bit definition is not evaluated at this length (minutes); it is covered up to 2^20 bytes by the main
 * configuration, and composition ties the giant message to pieces of a length that configuration's regime extends to.
 * Both tiers run all nine routines (nine workers side by side, about 20 s of wall).
 */
#define VF_PROP "C17"
#include "vf_common.h"
#include "a/crc.h"
#include "a/hash.h"
#include <sys/mman.h>
#include <sys/wait.h>
#include <unistd.h>

#define NROUT 9
static char const *const RN[NROUT] = {"crc8", "crc16m", "crc16l", "crc32m", "crc32l", "crc64m", "crc64l", "hash_bkdr_", "hash_sdbm_"};
static uint64_t vf_ncases(int tier) { return NROUT + (tier ? 4 : 1); } /* + the 32/64-bit CRCs on 3 * 2^32 + 5 bytes (quick: one of the four, chosen by the seed) */

static a_u8 t8[256];
static a_u16 t16[256];
static a_u32 t32[256];
static a_u64 t64[256];

static uint64_t run(int rt, unsigned char const *p, size_t n, uint64_t v)
{
    switch (rt)
    {
    case 0: return a_crc8(t8, p, n, (a_u8)v);
    case 1: return a_crc16m(t16, p, n, (a_u16)v);
    case 2: return a_crc16l(t16, p, n, (a_u16)v);
    case 3: return a_crc32m(t32, p, n, (a_u32)v);
    case 4: return a_crc32l(t32, p, n, (a_u32)v);
    case 5: return a_crc64m(t64, p, n, v);
    case 6: return a_crc64l(t64, p, n, v);
    case 7: return a_hash_bkdr_(p, n, (a_u32)v);
    default: return a_hash_sdbm_(p, n, (a_u32)v);
    }
}

static void vf_case(uint64_t c, vf_rng *r)
{
    /* cases NROUT..: a message of 3 * 2^32 + 5 bytes in three pieces, each longer than 2^32 is avoided (cuts at 2^32 - 9 and 2^33 + 7 leave 2^32 - 9, 2^32 + 16, 2^32 - 2): a routine that
       splits its input into k parts and combines the partial results with a length-dependent factor only misbehaves once a PART exceeds some width (seeded change C17-N: a three-way
       split whose x^(8n) exponentiation runs over 32 exponent bits in the 32-bit routines: wrong from 3 * 2^32 bytes on, exact at 2^32 + 37) */
    int const big = c >= NROUT;
    int const rt = big ? 3 + (int)((c - NROUT + (vf.tier ? 0 : vf.seed)) % 4) : (int)(c % NROUT);
    size_t const N = big ? 3 * ((size_t)1 << 32) + 5 : ((size_t)1 << 32) + 37, k = big ? ((size_t)1 << 32) - 9 : ((size_t)1 << 31) + 11, k2 = big ? ((size_t)1 << 33) + 7 : N;
    static size_t const marks[] = {0, 1, 36, 4095, 4096, ((size_t)1 << 31) + 10, ((size_t)1 << 31) + 11, ((size_t)1 << 32) - 1, (size_t)1 << 32, ((size_t)1 << 32) + 1, ((size_t)1 << 32) + 36,
                                   ((size_t)1 << 33) - 1, ((size_t)1 << 33) + 6, ((size_t)1 << 33) + 7, 3 * ((size_t)1 << 32) - 1, 3 * ((size_t)1 << 32), 3 * ((size_t)1 << 32) + 4};
    unsigned char *msg = (unsigned char *)mmap(NULL, N, PROT_READ | PROT_WRITE, MAP_PRIVATE | MAP_ANONYMOUS | MAP_NORESERVE, -1, 0);
    uint64_t init = vf_u64(r), whole, part, low;
    if (msg == MAP_FAILED) { VF_COUNT("giant-mapping-refused"); return; }
    for (unsigned i = 0; i < sizeof marks / sizeof marks[0]; ++i) { if (marks[i] < N) { msg[marks[i]] = (unsigned char)(1 + vf_below(r, 255)); } }
    switch (rt)
    {
    case 0: a_crc8m_init(t8, 0x07); break;
    case 1: a_crc16m_init(t16, 0x1021); break;
    case 2: a_crc16l_init(t16, 0x8005); break;
    case 3: a_crc32m_init(t32, 0x04C11DB7); break;
    case 4: a_crc32l_init(t32, 0x04C11DB7); break;
    case 5: a_crc64m_init(t64, 0x42F0E1EBA9EA3693ULL); break;
    case 6: a_crc64l_init(t64, 0x42F0E1EBA9EA3693ULL); break;
    default: break;
    }
    vf_log("a_%s on a message of %s bytes (zero except marked bytes), initial value 0x%" PRIx64 ": at once vs pieces cut at %s", RN[rt], big ? "3*2^32+5" : "2^32+37", init, big ? "2^32-9 and 2^33+7" : "2^31+11");
    /* the two computations run side by side (a forked child evaluates the one-call form): one pass of wall time instead of two */
    {
        int fd[2];
        pid_t pid;
        if (pipe(fd) != 0) { fprintf(stderr, "h_crc_giant: pipe failed\n"); exit(2); }
        fflush(stdout);
        pid = fork();
        if (pid < 0) { fprintf(stderr, "h_crc_giant: fork failed\n"); exit(2); }
        if (pid == 0)
        {
            uint64_t w = run(rt, msg, N, init);
            ssize_t o = write(fd[1], &w, sizeof w);
            _exit(o == (ssize_t)sizeof w ? 0 : 3);
        }
        close(fd[1]);
        part = run(rt, msg, k, init);
        part = run(rt, msg + k, k2 - k, part);
        if (k2 < N) { part = run(rt, msg + k2, N - k2, part); }
        if (read(fd[0], &whole, sizeof whole) != (ssize_t)sizeof whole) { fprintf(stderr, "h_crc_giant: child did not deliver\n"); exit(2); }
        close(fd[0]);
        waitpid(pid, NULL, 0);
    }
    ++vf.evals;
    vf_count_dyn(big ? "giant-message-3x2^32-at-once-vs-pieces" : "giant-message-at-once-vs-pieces", 1);
    {
        char nm[64];
        snprintf(nm, sizeof nm, "giant-%s", RN[rt]);
        vf_count_dyn(nm, 1);
    }
    if (whole != part)
    {
        char key[96];
        low = run(rt, msg, N & 0xFFFFFFFFu, init);
        snprintf(key, sizeof key, big ? "%s/message-of-3x2^32-bytes/at-once-ne-pieces" : "%s/message-longer-than-2^32/at-once-ne-pieces", RN[rt]);
        vf_viol(key, "a_%s over %s bytes at once = 0x%" PRIx64 ", in pieces = 0x%" PRIx64 "%s", RN[rt], big ? "3*2^32+5" : "2^32+37", whole, part,
                whole == low ? "; the one-call value equals the value of the first 37 bytes alone: the length is truncated to 32 bits" : "");
    }
    vf_distinct(vf_hash64(0x1717, (uint64_t)rt + (big ? 16 : 0)));
    if (!big && vf_want_sample()) { vf_sample("a_%s: 2^32+37-byte message, at once == two pieces (0x%" PRIx64 ")", RN[rt], whole); }
    munmap(msg, N);
}
