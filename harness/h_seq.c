/* C04 - a_vec / a_buf behave as an indexable sequence: lock-step model + ASan/UBSan.
 *
 * Two containers of the same kind per history (vector swap needs two); every operation is mirrored on a
 * plain array model; after every call: count, capacity relation, element size, full contents, and the
 * pointer the call returned are compared.  Library storage comes from the default allocator
 * (malloc/realloc), so ASan red zones begin at the first byte the container does not own.
 */
#define VF_PROP "C04"
#include "vf_common.h"
#include "a/vec.h"
#include "a/buf.h"

#define MAXE 160  /* model capacity (elements) */
#define MAXSZ 40  /* largest element size */

typedef struct
{
    int is_buf;
    a_vec *v;
    a_buf *b;
    /* model */
    size_t siz;
    size_t num;
    unsigned char e[MAXE][MAXSZ];
    int sorted; /* model knows the sequence is sorted by key */
    int by_ctor; /* constructed in caller-provided storage (ctor/dtor) instead of new/die */
} seq;

static size_t g_siz; /* element size for cmp/dtor callbacks */
static uint32_t serial;
static char const *KN = "vec";

/* ---- callbacks */
static int cmp_elem(void const *l, void const *r)
{
    unsigned a = *(unsigned char const *)l, b = *(unsigned char const *)r;
    return (a > b) - (a < b);
}
static unsigned char dtor_log[MAXE * 2][MAXSZ];
static size_t dtor_n;
static void dtor_elem(void *p)
{
    if (dtor_n < MAXE * 2) { memcpy(dtor_log[dtor_n], p, g_siz); }
    ++dtor_n;
}
static int copy_elem(void *dst, void const *src)
{
    memcpy(dst, src, g_siz);
    return 0;
}

/* ---- raw accessors */
static size_t L_num(seq *s) { return s->is_buf ? a_buf_num(s->b) : a_vec_num(s->v); }
static size_t L_mem(seq *s) { return s->is_buf ? a_buf_mem(s->b) : a_vec_mem(s->v); }
static size_t L_siz(seq *s) { return s->is_buf ? a_buf_siz(s->b) : a_vec_siz(s->v); }
static unsigned char *L_ptr(seq *s) { return (unsigned char *)(s->is_buf ? a_buf_ptr(s->b) : a_vec_ptr(s->v)); }

static void mk_elem(vf_rng *r, seq *s, unsigned char *out, int key)
{
    uint32_t id = ++serial;
    memset(out, 0, MAXSZ);
    out[0] = (unsigned char)(key >= 0 ? key : (int)vf_below(r, 24));
    for (size_t i = 1; i < s->siz; ++i) { out[i] = (unsigned char)(id >> (8 * ((i - 1) & 3))) ^ (unsigned char)(i > 4 ? 0x5A + i : 0); }
}

static char const *opname = "op";
#define FAIL(clause, ...)                                         \
    do {                                                          \
        char key_[112];                                           \
        snprintf(key_, sizeof(key_), "%s_%s/%s", KN, opname, clause); \
        vf_viol(key_, __VA_ARGS__);                               \
        ok = 0;                                                   \
    } while (0)

/* full state comparison after a call */
static int check_state(seq *s)
{
    int ok = 1;
    size_t n = L_num(s), m = L_mem(s), z = L_siz(s);
    VF_COUNT("state-compared-with-model");
    if (z != s->siz) { FAIL("element-size", "library element size %zu, model %zu", z, s->siz); return 0; }
    if (n > m) { FAIL("count-exceeds-capacity", "num %zu > mem %zu", n, m); return 0; }
    if (n != s->num) { FAIL("count", "library holds %zu elements, model %zu", n, s->num); return 0; }
    if (n)
    {
        unsigned char *p = L_ptr(s);
        if (!p) { FAIL("null-storage", "num %zu but storage pointer is null", n); return 0; }
        for (size_t i = 0; i < n; ++i)
        {
            if (memcmp(p + i * z, s->e[i], z) != 0)
            {
                FAIL("contents", "element %zu of %zu differs from the model (size %zu): lib %02x%02x.. model %02x%02x..", i, n, z,
                     p[i * z], z > 1 ? p[i * z + 1] : 0, s->e[i][0], z > 1 ? s->e[i][1] : 0);
                return 0;
            }
        }
    }
    return ok;
}

/* pointer returned by an operation must lie inside owned storage on an element boundary */
static int check_owned(seq *s, void *ret, char const *what)
{
    int ok = 1;
    unsigned char *p = L_ptr(s), *q = (unsigned char *)ret;
    size_t m = L_mem(s), z = L_siz(s);
    VF_COUNT("returned-pointer-inside-owned-storage");
    if (!p || q < p || q + z > p + m * z || (size_t)(q - p) % z)
    {
        FAIL("returned-ptr-outside-storage", "%s: pointer %p, storage [%p, %p) element size %zu", what, ret, (void *)p, (void *)(p + m * z), z);
    }
    return ok;
}

static void model_insert(seq *s, size_t idx, unsigned char const *el)
{
    if (idx > s->num) { idx = s->num; }
    memmove(s->e[idx + 1], s->e[idx], (s->num - idx) * MAXSZ);
    memcpy(s->e[idx], el, MAXSZ);
    ++s->num;
}
static void model_remove(seq *s, size_t idx, unsigned char *out)
{
    memcpy(out, s->e[idx], MAXSZ);
    memmove(s->e[idx], s->e[idx + 1], (s->num - idx - 1) * MAXSZ);
    --s->num;
}
static int model_is_sorted(seq *s)
{
    for (size_t i = 1; i < s->num; ++i)
    {
        if (s->e[i - 1][0] > s->e[i][0]) { return 0; }
    }
    return 1;
}

/* index classes */
static size_t pick_index(vf_rng *r, size_t num, int *cls)
{
    int c = (int)vf_below(r, 11);
    *cls = c;
    switch (c)
    {
    case 0: return 0;
    case 1: return num / 2;
    case 2: return num ? num - 1 : 0;
    case 3: return num;
    case 4: return num + 1;
    case 5: return SIZE_MAX;
    case 6: return SIZE_MAX - 1;
    case 7: return (size_t)0 - num;
    case 8: return (size_t)vf_u64(r) | ((size_t)1 << 62);
    case 9: return num ? (size_t)vf_below(r, num) : 0;
    default: return (size_t)vf_below(r, num + 3);
    }
}
static char const *const cls_name[] = {"0", "mid", "num-1", "num", "num+1", "SIZE_MAX", "SIZE_MAX-1", "-num", "huge", "inrange", "near"};

static void cell(char const *op, seq *s, int cls, int full)
{
    char b[96];
    size_t z = s->siz;
    snprintf(b, sizeof(b), "%s|%s|z%d|i%d|f%d", KN, op, z <= 1 ? 1 : z <= 4 ? 4 : z <= 8 ? 8 : 33, cls, full);
    vf_distinct_str(b);
}

/* ---- library calls */
static void *L_push_back(seq *s) { return s->is_buf ? a_buf_push_back(s->b) : a_vec_push_back(s->v); }
static void *L_push_fore(seq *s) { return s->is_buf ? a_buf_push_fore(s->b) : a_vec_push_fore(s->v); }
static void *L_pull_back(seq *s) { return s->is_buf ? a_buf_pull_back(s->b) : a_vec_pull_back(s->v); }
static void *L_pull_fore(seq *s) { return s->is_buf ? a_buf_pull_fore(s->b) : a_vec_pull_fore(s->v); }
static void *L_insert(seq *s, size_t i) { return s->is_buf ? a_buf_insert(s->b, i) : a_vec_insert(s->v, i); }
static void *L_remove(seq *s, size_t i) { return s->is_buf ? a_buf_remove(s->b, i) : a_vec_remove(s->v, i); }
static void *L_push_sort(seq *s, void const *k) { return s->is_buf ? a_buf_push_sort(s->b, k, cmp_elem) : a_vec_push_sort(s->v, k, cmp_elem); }
static void L_sort(seq *s) { if (s->is_buf) { a_buf_sort(s->b, cmp_elem); } else { a_vec_sort(s->v, cmp_elem); } }
static void L_sort_fore(seq *s) { if (s->is_buf) { a_buf_sort_fore(s->b, cmp_elem); } else { a_vec_sort_fore(s->v, cmp_elem); } }
static void L_sort_back(seq *s) { if (s->is_buf) { a_buf_sort_back(s->b, cmp_elem); } else { a_vec_sort_back(s->v, cmp_elem); } }

/* a push that must succeed iff there is room (buf) / always (vec) */
static int do_push_at(seq *s, vf_rng *r, int where, size_t idx, int key)
{
    int ok = 1;
    unsigned char el[MAXSZ];
    void *p;
    size_t num = s->num, mem = L_mem(s);
    int expect_fail = s->is_buf && num >= mem;
    if (num + 1 >= MAXE) { return 1; }
    mk_elem(r, s, el, key);
    g_siz = s->siz;
    p = where == 0 ? L_push_back(s) : where == 1 ? L_push_fore(s) : L_insert(s, idx);
    ++vf.evals;
    if (expect_fail)
    {
        VF_COUNT("buf-refuses-when-full");
        if (p) { FAIL("accepted-although-full", "returned %p with num == mem == %zu", p, mem); return 0; }
        return check_state(s);
    }
    if (!p) { FAIL("unexpected-null", "returned null with num %zu mem %zu", num, mem); return 0; }
    if (!check_owned(s, p, "new element")) { return 0; }
    memcpy(p, el, s->siz);
    model_insert(s, where == 0 ? num : where == 1 ? 0 : idx, el);
    if (s->num > 1) { s->sorted = s->sorted && model_is_sorted(s); }
    (void)ok;
    return check_state(s);
}

static int do_pull(seq *s, int where, size_t idx)
{
    int ok = 1;
    unsigned char want[MAXSZ];
    void *p;
    size_t num = s->num;
    p = where == 0 ? L_pull_back(s) : where == 1 ? L_pull_fore(s) : L_remove(s, idx);
    ++vf.evals;
    if (num == 0)
    {
        VF_COUNT("pull-from-empty-returns-null");
        if (p) { FAIL("non-null-from-empty", "returned %p from an empty container", p); return 0; }
        return check_state(s);
    }
    {
        size_t at = where == 0 ? num - 1 : where == 1 ? 0 : (idx < num - 1 ? idx : num - 1);
        model_remove(s, at, want);
    }
    if (!p) { FAIL("unexpected-null", "returned null with %zu elements", num); return 0; }
    if (!check_owned(s, p, "removed element")) { return 0; }
    VF_COUNT("removed-element-intact-and-past-live-range");
    {
        size_t slot = (size_t)((unsigned char *)p - L_ptr(s)) / s->siz;
        if (slot < s->num) { FAIL("removed-ptr-overlaps-live-element", "removed element parked at slot %zu but %zu elements remain", slot, s->num); return 0; }
        if (memcmp(p, want, s->siz) != 0) { FAIL("removed-element-not-intact", "bytes behind the returned pointer are not the removed element"); return 0; }
    }
    (void)ok;
    return check_state(s);
}

static void make_full(seq *s, vf_rng *r)
{
    /* push until num == mem keeping sortedness if the model is sorted */
    int guard = 0;
    while (L_num(s) < L_mem(s) && s->num + 2 < MAXE && ++guard < MAXE)
    {
        if (s->sorted)
        {
            unsigned char el[MAXSZ];
            void *p;
            mk_elem(r, s, el, -1);
            g_siz = s->siz;
            p = L_push_sort(s, el);
            if (!p) { return; }
            memcpy(p, el, s->siz);
            {
                size_t pos = (size_t)((unsigned char *)p - L_ptr(s)) / s->siz;
                model_insert(s, pos, el);
            }
        }
        else { do_push_at(s, r, 0, 0, -1); }
    }
}
static void make_spare(seq *s)
{
    if (L_num(s) == L_mem(s))
    {
        if (s->is_buf)
        {
            if (s->num)
            {
                unsigned char w[MAXSZ];
                a_buf_pull_back(s->b);
                model_remove(s, s->num - 1, w);
            }
        }
        else { a_vec_setm(s->v, L_num(s) + 1); }
    }
}

/* verify: result == old sequence with `el` inserted at a position that keeps it sorted */
static int check_sorted_insert(seq *s, unsigned char const (*old)[MAXSZ], size_t oldn, unsigned char const *el)
{
    int ok = 1;
    unsigned char *p = L_ptr(s);
    size_t z = s->siz, n = L_num(s);
    VF_COUNT("sorted-insert-keeps-order-and-elements");
    if (n != oldn + 1) { FAIL("count", "count %zu after sorted insert into %zu", n, oldn); return 0; }
    for (size_t i = 1; i < n; ++i)
    {
        if (p[(i - 1) * z] > p[i * z]) { FAIL("not-sorted", "keys %u then %u at %zu", p[(i - 1) * z], p[i * z], i); return 0; }
    }
    for (size_t pos = 0; pos < n; ++pos)
    {
        if (memcmp(p + pos * z, el, z) != 0) { continue; }
        size_t j = 0;
        int match = 1;
        for (size_t i = 0; i < n && match; ++i)
        {
            if (i == pos) { continue; }
            if (memcmp(p + i * z, old[j++], z) != 0) { match = 0; }
        }
        if (match)
        {
            /* adopt the library's placement among equal keys */
            for (size_t i = 0, k = 0; i < n; ++i)
            {
                if (i == pos) { memcpy(s->e[i], el, MAXSZ); }
                else { memcpy(s->e[i], old[k++], MAXSZ); }
            }
            s->num = n;
            return 1;
        }
    }
    FAIL("element-lost-or-reordered", "result is not the old sequence plus the new element");
    return 0;
}

static seq S[2];

static int new_container(seq *s, int is_buf, size_t siz, size_t cap)
{
    memset(s, 0, sizeof(*s));
    s->is_buf = is_buf;
    s->siz = siz ? siz : 1;
    s->sorted = 1;
    s->by_ctor = (int)(cap & 1) ^ (int)(siz & 1) ^ (int)(vf.case_no >> 1 & 1);
    if (is_buf && s->by_ctor)
    {
        /* constructor on caller-provided storage (exact size: header + payload) */
        vf_log("a_buf_ctor(storage of %zu bytes, %zu, %zu)", sizeof(a_buf) + (siz ? siz : 1) * cap, siz, cap);
        s->b = (a_buf *)malloc(sizeof(a_buf) + (siz ? siz : 1) * cap);
        a_buf_ctor(s->b, siz, cap);
        VF_COUNT("ctor-dtor-on-caller-storage");
        if (a_buf_mem(s->b) != cap) { vf_viol("buf_ctor/capacity", "a_buf_ctor(%zu,%zu) has mem %zu", siz, cap, a_buf_mem(s->b)); }
    }
    else if (is_buf)
    {
        vf_log("a_buf_new(%zu, %zu)", siz, cap);
        s->b = a_buf_new(siz, cap);
        if (!s->b) { return 0; }
        VF_COUNT("buf-new-capacity");
        if (a_buf_mem(s->b) != cap) { vf_viol("buf_new/capacity", "a_buf_new(%zu,%zu) has mem %zu", siz, cap, a_buf_mem(s->b)); }
    }
    else if (s->by_ctor)
    {
        vf_log("a_vec_ctor(%zu)", siz);
        s->v = (a_vec *)malloc(sizeof(a_vec));
        memset(s->v, 0xA5, sizeof(a_vec));
        a_vec_ctor(s->v, siz);
        VF_COUNT("ctor-dtor-on-caller-storage");
    }
    else
    {
        vf_log("a_vec_new(%zu)", siz);
        s->v = a_vec_new(siz);
        if (!s->v) { return 0; }
    }
    opname = "new";
    return check_state(s);
}
static void del_container(seq *s)
{
    g_siz = s->siz;
    dtor_n = 0;
    if (s->by_ctor)
    {
        if (s->is_buf) { a_buf_dtor(s->b, dtor_elem); free(s->b); }
        else
        {
            a_vec_dtor(s->v, dtor_elem);
            if (a_vec_ptr(s->v) || a_vec_num(s->v) || a_vec_mem(s->v)) { vf_viol("vec_dtor/object-not-empty", "ptr %p num %zu mem %zu after a_vec_dtor", a_vec_ptr(s->v), a_vec_num(s->v), a_vec_mem(s->v)); }
            free(s->v);
        }
    }
    else if (s->is_buf) { a_buf_die(s->b, dtor_elem); }
    else { a_vec_die(s->v, dtor_elem); }
    VF_COUNT("die-destroys-each-element-once");
    if (dtor_n != s->num)
    {
        char key[64];
        snprintf(key, sizeof(key), "%s_die/dtor-call-count", KN);
        vf_viol(key, "destructor called %zu times for %zu elements", dtor_n, s->num);
    }
}

static uint64_t vf_ncases(int tier) { return tier ? 1200000 : 6000; }

static void vf_case(uint64_t c, vf_rng *r)
{
    static size_t const sizes[] = {0, 1, 2, 3, 4, 7, 8, 12, 16, 24, 33};
    int is_buf = (int)(c & 1);
    size_t siz = sizes[vf_below(r, 11)];
    int nops = 30 + (int)vf_below(r, 50);
    int alive = 1;
    KN = is_buf ? "buf" : "vec";
    serial = (uint32_t)(c * 1000);
    for (int k = 0; k < 2; ++k)
    {
        size_t cap = (size_t)vf_below(r, 41);
        if (!new_container(&S[k], is_buf, siz, cap)) { alive = 0; }
    }
    if (alive && vf_want_sample() && c % 3 == 0)
    {
        vf_sample("history %" PRIu64 ": two %s of element size %zu (0 means 1)%s, %d ops from {push/pull both ends, insert, remove, store, erase, setn, setm, setz, sort, sort_fore, sort_back, push_sort, search, swap, accessors} with index classes incl. num, num+1, SIZE_MAX, -num; model compared after every call",
                  c, is_buf ? "a_buf" : "a_vec", siz, is_buf ? " capacities 0..40" : "", nops);
    }
    for (int i = 0; i < nops && alive; ++i)
    {
        seq *s = &S[vf_below(r, 2)];
        int op = (int)vf_below(r, 24);
        int cls = 0, full;
        size_t idx;
        g_siz = s->siz;
        full = L_num(s) == L_mem(s);
        switch (op)
        {
        case 0: case 1:
            opname = "push_back";
            vf_log("%s push_back (num %zu mem %zu)", KN, s->num, L_mem(s));
            alive = do_push_at(s, r, 0, 0, -1);
            cell(opname, s, 0, full);
            break;
        case 2:
            opname = "push_fore";
            vf_log("%s push_fore (num %zu mem %zu)", KN, s->num, L_mem(s));
            alive = do_push_at(s, r, 1, 0, -1);
            cell(opname, s, 0, full);
            break;
        case 3: case 4:
            opname = "insert";
            idx = pick_index(r, s->num, &cls);
            vf_log("%s insert idx=%zu [%s] (num %zu mem %zu)", KN, idx, cls_name[cls], s->num, L_mem(s));
            alive = do_push_at(s, r, 2, idx, -1);
            cell(opname, s, cls, full);
            break;
        case 5:
            opname = "pull_back";
            vf_log("%s pull_back (num %zu)", KN, s->num);
            alive = do_pull(s, 0, 0);
            cell(opname, s, 0, full);
            break;
        case 6:
            opname = "pull_fore";
            if (vf_chance(r, 1, 2)) { if (vf_chance(r, 1, 2)) { make_full(s, r); } else { make_spare(s); } }
            full = L_num(s) == L_mem(s);
            vf_log("%s pull_fore (num %zu mem %zu)", KN, s->num, L_mem(s));
            alive = do_pull(s, 1, 0);
            cell(opname, s, 0, full);
            break;
        case 7: case 8: case 9:
            opname = "remove";
            if (vf_chance(r, 1, 2)) { if (vf_chance(r, 1, 2)) { make_full(s, r); } else { make_spare(s); } }
            full = L_num(s) == L_mem(s);
            idx = pick_index(r, s->num, &cls);
            vf_log("%s remove idx=%zu [%s] (num %zu mem %zu)", KN, idx, cls_name[cls], s->num, L_mem(s));
            alive = do_pull(s, 2, idx);
            if (full) { VF_COUNT("remove-path-full"); } else { VF_COUNT("remove-path-spare"); }
            cell(opname, s, cls, full);
            break;
        case 10:
        {
            /* store n caller elements at idx */
            size_t n = (size_t)vf_below(r, 6), num = s->num, mem = L_mem(s);
            int use_copy = vf_chance(r, 1, 2), rc, ok = 1;
            unsigned char *src;
            unsigned char els[6][MAXSZ];
            opname = "store";
            idx = pick_index(r, s->num, &cls);
            if (num + n + 1 >= MAXE) { break; }
            src = (unsigned char *)malloc(n * s->siz ? n * s->siz : 1);
            for (size_t k = 0; k < n; ++k) { mk_elem(r, s, els[k], -1); memcpy(src + k * s->siz, els[k], s->siz); }
            vf_log("%s store idx=%zu [%s] n=%zu copy=%d (num %zu mem %zu)", KN, idx, cls_name[cls], n, use_copy, num, mem);
            rc = s->is_buf ? a_buf_store(s->b, idx, src, n, use_copy ? copy_elem : NULL) : a_vec_store(s->v, idx, src, n, use_copy ? copy_elem : NULL);
            free(src);
            ++vf.evals;
            if (s->is_buf && num + n > mem)
            {
                VF_COUNT("buf-refuses-when-full");
                if (rc == A_SUCCESS) { FAIL("accepted-although-full", "store of %zu into num %zu mem %zu returned success", n, num, mem); alive = 0; break; }
            }
            else
            {
                if (rc != A_SUCCESS) { FAIL("unexpected-error", "rc %d", rc); alive = 0; break; }
                for (size_t k = 0; k < n; ++k) { model_insert(s, (idx < num ? idx : num) + k, els[k]); }
                if (n) { s->sorted = model_is_sorted(s); }
            }
            (void)ok;
            alive = check_state(s);
            cell(opname, s, cls, (int)n);
            break;
        }
        case 11: case 12:
        {
            size_t n, num = s->num;
            int ncls, rc, with_dtor = vf_chance(r, 1, 2), ok = 1;
            opname = "erase";
            idx = pick_index(r, s->num, &cls);
            n = pick_index(r, s->num, &ncls);
            if (ncls == 9 || ncls == 10) { n = (size_t)vf_below(r, 5); }
            vf_log("%s erase idx=%zu [%s] n=%zu [%s] dtor=%d (num %zu)", KN, idx, cls_name[cls], n, cls_name[ncls], with_dtor, num);
            dtor_n = 0;
            rc = s->is_buf ? a_buf_erase(s->b, idx, n, with_dtor ? dtor_elem : NULL) : a_vec_erase(s->v, idx, n, with_dtor ? dtor_elem : NULL);
            ++vf.evals;
            if (idx >= num)
            {
                VF_COUNT("erase-out-of-range-reports-obounds");
                if (rc != A_OBOUNDS) { FAIL("out-of-range-not-reported", "idx %zu >= num %zu returned %d", idx, num, rc); }
                if (dtor_n) { FAIL("dtor-called-out-of-range", "%zu destructor calls", dtor_n); }
            }
            else
            {
                size_t cnt = n < num - idx ? n : num - idx; /* clipped at the end */
                unsigned char w[MAXSZ];
                if (rc != A_SUCCESS) { FAIL("unexpected-error", "rc %d for idx %zu n %zu num %zu", rc, idx, n, num); alive = 0; break; }
                if (with_dtor)
                {
                    VF_COUNT("erase-destroys-each-erased-element-once");
                    if (dtor_n != cnt) { FAIL("dtor-call-count", "%zu destructor calls for %zu erased elements", dtor_n, cnt); }
                    else
                    {
                        for (size_t k = 0; k < cnt; ++k)
                        {
                            if (memcmp(dtor_log[k], s->e[idx + k], s->siz) != 0) { FAIL("dtor-wrong-element", "destructor call %zu got a different element", k); break; }
                        }
                    }
                }
                for (size_t k = 0; k < cnt; ++k) { model_remove(s, idx, w); }
            }
            (void)ok;
            alive = check_state(s);
            cell(opname, s, cls * 16 + ncls, 0);
            break;
        }
        case 13:
        {
            /* setn: shrink with dtor / grow (new elements are then written by the caller) */
            size_t num = s->num, n = (size_t)vf_below(r, num + 6), mem = L_mem(s);
            int with_dtor = vf_chance(r, 1, 2), ok = 1;
            opname = "setn";
            if (n + 1 >= MAXE) { break; }
            vf_log("%s setn %zu dtor=%d (num %zu mem %zu)", KN, n, with_dtor, num, mem);
            dtor_n = 0;
            if (s->is_buf) { a_buf_setn(s->b, n, with_dtor ? dtor_elem : NULL); }
            else
            {
                int rc = a_vec_setn(s->v, n, with_dtor ? dtor_elem : NULL);
                if (rc != A_SUCCESS) { FAIL("unexpected-error", "rc %d", rc); alive = 0; break; }
            }
            ++vf.evals;
            {
                size_t want = (s->is_buf && n > mem) ? mem : n;
                if (with_dtor && want < num)
                {
                    VF_COUNT("setn-destroys-dropped-elements");
                    if (dtor_n != num - want) { FAIL("dtor-call-count", "%zu destructor calls for %zu dropped elements", dtor_n, num - want); }
                }
                if (L_num(s) != want) { FAIL("count", "count %zu after setn(%zu) (mem %zu)", L_num(s), n, mem); alive = 0; break; }
                if (want > num)
                {
                    /* new tail elements are unspecified: the caller initialises them */
                    unsigned char *p = L_ptr(s);
                    for (size_t k = num; k < want; ++k)
                    {
                        unsigned char el[MAXSZ];
                        mk_elem(r, s, el, -1);
                        memcpy(p + k * s->siz, el, s->siz);
                        memcpy(s->e[k], el, MAXSZ);
                    }
                }
                s->num = want;
                s->sorted = model_is_sorted(s);
            }
            (void)ok;
            alive = check_state(s);
            cell(opname, s, n > num ? 1 : n < num ? 2 : 0, with_dtor);
            break;
        }
        case 14:
        {
            size_t mem = L_mem(s), m = s->num + (size_t)vf_below(r, 12);
            int ok = 1;
            opname = "setm";
            vf_log("%s setm %zu (num %zu mem %zu)", KN, m, s->num, mem);
            if (s->is_buf)
            {
                a_buf *nb = a_buf_setm(s->b, m); /* precondition: m >= num */
                if (!nb) { FAIL("unexpected-null", "a_buf_setm(%zu) failed", m); alive = 0; break; }
                s->b = nb;
                VF_COUNT("setm-capacity");
                if (a_buf_mem(nb) != m) { FAIL("capacity", "mem %zu after setm(%zu)", a_buf_mem(nb), m); }
            }
            else
            {
                int rc = a_vec_setm(s->v, m);
                if (rc != A_SUCCESS) { FAIL("unexpected-error", "rc %d", rc); alive = 0; break; }
                VF_COUNT("setm-capacity");
                if (L_mem(s) < m || L_mem(s) < mem) { FAIL("capacity", "mem %zu after setm(%zu), before %zu", L_mem(s), m, mem); }
            }
            ++vf.evals;
            (void)ok;
            alive = check_state(s);
            cell(opname, s, m > mem, 0);
            break;
        }
        case 15:
        {
            if (vf_chance(r, 3, 4)) { break; } /* rarer: it empties the container */
            size_t nz = sizes[vf_below(r, 11)], bytes = L_mem(s) * s->siz, num = s->num;
            int with_dtor = vf_chance(r, 1, 2), ok = 1;
            opname = "setz";
            vf_log("%s setz %zu dtor=%d (num %zu mem %zu siz %zu)", KN, nz, with_dtor, num, L_mem(s), s->siz);
            dtor_n = 0;
            if (s->is_buf) { a_buf_setz(s->b, nz, with_dtor ? dtor_elem : NULL); }
            else { a_vec_setz(s->v, nz, with_dtor ? dtor_elem : NULL); }
            ++vf.evals;
            if (with_dtor && dtor_n != num) { FAIL("dtor-call-count", "%zu destructor calls for %zu elements", dtor_n, num); }
            s->siz = nz ? nz : 1;
            s->num = 0;
            s->sorted = 1;
            VF_COUNT("setz-rederives-capacity");
            if (L_mem(s) != bytes / s->siz) { FAIL("capacity", "mem %zu after setz(%zu) of %zu bytes", L_mem(s), nz, bytes); alive = 0; break; }
            (void)ok;
            alive = check_state(s);
            cell(opname, s, 0, with_dtor);
            break;
        }
        case 16:
        {
            /* sort: result sorted by key and a permutation of the model */
            int ok = 1;
            size_t n = s->num, z = s->siz;
            unsigned char *p;
            opname = "sort";
            vf_log("%s sort (num %zu)", KN, n);
            L_sort(s);
            ++vf.evals;
            VF_COUNT("sort-sorted-permutation");
            if (L_num(s) != n) { FAIL("count", "count changed"); alive = 0; break; }
            p = L_ptr(s);
            for (size_t k = 1; k < n; ++k)
            {
                if (p[(k - 1) * z] > p[k * z]) { FAIL("not-sorted", "keys %u then %u", p[(k - 1) * z], p[k * z]); alive = 0; break; }
            }
            if (!alive) { break; }
            {
                /* multiset equality: match each library element to an unused model element */
                unsigned char used[MAXE];
                memset(used, 0, sizeof(used));
                for (size_t k = 0; k < n && alive; ++k)
                {
                    size_t j;
                    for (j = 0; j < n; ++j)
                    {
                        if (!used[j] && memcmp(p + k * z, s->e[j], z) == 0) { used[j] = 1; break; }
                    }
                    if (j == n) { FAIL("element-lost", "sorted element %zu is not an element of the model", k); alive = 0; }
                }
                if (!alive) { break; }
                for (size_t k = 0; k < n; ++k) { memset(s->e[k], 0, MAXSZ); memcpy(s->e[k], p + k * z, z); }
                /* model elements keep their full MAXSZ image only up to siz; the rest is zero by construction */
            }
            s->sorted = 1;
            (void)ok;
            alive = check_state(s);
            cell(opname, s, 0, full);
            break;
        }
        case 17: case 18: case 19: case 20:
        {
            /* sorted-insert variants on a sorted sequence, in both capacity states */
            unsigned char old[MAXE][MAXSZ], el[MAXSZ];
            size_t oldn;
            int variant = op - 17, want_full = vf_chance(r, 1, 2), ok = 1;
            void *p;
            if (!s->sorted)
            {
                L_sort(s);
                for (size_t k = 0; k < s->num; ++k) { memset(s->e[k], 0, MAXSZ); memcpy(s->e[k], L_ptr(s) + k * s->siz, s->siz); }
                s->sorted = 1;
            }
            if (variant == 3) { variant = (int)vf_below(r, 3); }
            /* capacity state AFTER the raw push is what selects the implementation path */
            if (want_full)
            {
                make_full(s, r);
                if (variant != 2 && s->num)
                {
                    unsigned char w[MAXSZ];
                    (void)(s->is_buf ? a_buf_pull_back(s->b) : a_vec_pull_back(s->v));
                    model_remove(s, s->num - 1, w);
                }
            }
            else
            {
                make_spare(s);
                if (variant != 2 && L_mem(s) - L_num(s) < 2)
                {
                    if (s->is_buf) { unsigned char w[MAXSZ]; if (s->num) { a_buf_pull_back(s->b); model_remove(s, s->num - 1, w); } if (s->num) { a_buf_pull_back(s->b); model_remove(s, s->num - 1, w); } }
                    else { a_vec_setm(s->v, L_num(s) + 2); }
                }
            }
            if (s->num + 2 >= MAXE) { break; }
            if (s->is_buf && L_num(s) >= L_mem(s))
            {
                if (variant == 2)
                {
                    unsigned char k0[MAXSZ] = {7};
                    opname = "push_sort";
                    vf_log("%s push_sort on a full buffer (num %zu mem %zu)", KN, L_num(s), L_mem(s));
                    VF_COUNT("buf-refuses-when-full");
                    ++vf.evals;
                    if (a_buf_push_sort(s->b, k0, cmp_elem)) { FAIL("accepted-although-full", "push_sort returned non-null with num == mem"); alive = 0; break; }
                    alive = check_state(s);
                }
                break;
            }
            oldn = s->num;
            memcpy(old, s->e, oldn * MAXSZ);
            mk_elem(r, s, el, vf_chance(r, 1, 4) ? (int)(vf_below(r, 2) * 255) : -1);
            g_siz = s->siz;
            if (variant == 0)
            {
                opname = "sort_fore";
                p = L_push_fore(s);
                if (!p) { FAIL("unexpected-null", "push_fore failed"); alive = 0; break; }
                memcpy(p, el, s->siz);
                full = L_num(s) == L_mem(s);
                vf_log("%s push_fore key %u + sort_fore (num %zu mem %zu, %s path)", KN, el[0], L_num(s), L_mem(s), full ? "full" : "spare");
                L_sort_fore(s);
                if (full) { VF_COUNT("sort_fore-path-full"); } else { VF_COUNT("sort_fore-path-spare"); }
            }
            else if (variant == 1)
            {
                opname = "sort_back";
                p = L_push_back(s);
                if (!p) { FAIL("unexpected-null", "push_back failed"); alive = 0; break; }
                memcpy(p, el, s->siz);
                full = L_num(s) == L_mem(s);
                vf_log("%s push_back key %u + sort_back (num %zu mem %zu, %s path)", KN, el[0], L_num(s), L_mem(s), full ? "full" : "spare");
                L_sort_back(s);
                if (full) { VF_COUNT("sort_back-path-full"); } else { VF_COUNT("sort_back-path-spare"); }
            }
            else
            {
                opname = "push_sort";
                vf_log("%s push_sort key %u (num %zu mem %zu)", KN, el[0], L_num(s), L_mem(s));
                p = L_push_sort(s, el);
                if (!p) { FAIL("unexpected-null", "push_sort failed with num %zu mem %zu", oldn, L_mem(s)); alive = 0; break; }
                if (!check_owned(s, p, "push_sort slot")) { alive = 0; break; }
                memcpy(p, el, s->siz);
                full = L_num(s) == L_mem(s);
                VF_COUNT("push_sort");
            }
            ++vf.evals;
            (void)ok;
            alive = check_sorted_insert(s, (unsigned char const(*)[MAXSZ])old, oldn, el) && check_state(s);
            cell(opname, s, el[0] == 0 ? 1 : el[0] == 255 ? 2 : 0, full);
            break;
        }
        case 21:
        {
            /* search on a sorted sequence */
            unsigned char keyel[MAXSZ];
            void *p;
            int present = 0, ok = 1;
            if (!s->sorted) { break; }
            opname = "search";
            memset(keyel, 0, sizeof(keyel));
            keyel[0] = (unsigned char)vf_below(r, 26);
            for (size_t k = 0; k < s->num; ++k) { present |= s->e[k][0] == keyel[0]; }
            vf_log("%s search key %u (num %zu)", KN, keyel[0], s->num);
            p = s->is_buf ? a_buf_search(s->b, keyel, cmp_elem) : a_vec_search(s->v, keyel, cmp_elem);
            ++vf.evals;
            VF_COUNT("search-finds-iff-present");
            if (present != (p != NULL)) { FAIL("found-iff-present", "key %u present=%d but search returned %p", keyel[0], present, p); }
            else if (p)
            {
                unsigned char *b = L_ptr(s);
                if ((unsigned char *)p < b || (unsigned char *)p >= b + s->num * s->siz || *(unsigned char *)p != keyel[0])
                {
                    FAIL("wrong-element", "search returned a pointer that is not a live element with that key");
                }
            }
            (void)ok;
            cell(opname, s, present, 0);
            break;
        }
        case 22:
        {
            /* accessors */
            int ok = 1;
            unsigned char *b = L_ptr(s);
            size_t n = s->num, m = L_mem(s), z = s->siz;
            ptrdiff_t di;
            void *p;
            opname = "access";
            idx = pick_index(r, n, &cls);
            vf_log("%s accessors idx=%zu [%s]", KN, idx, cls_name[cls]);
            p = s->is_buf ? a_buf_at(s->b, idx) : a_vec_at(s->v, idx);
            ++vf.evals;
            VF_COUNT("accessors");
            if (idx < m ? p != b + idx * z : p != NULL) { FAIL("at", "at(%zu) = %p with mem %zu base %p", idx, p, m, (void *)b); }
            di = (ptrdiff_t)vf_range(r, -(int64_t)n - 2, (int64_t)n + 2);
            p = s->is_buf ? a_buf_of(s->b, di) : a_vec_of(s->v, di);
            {
                size_t eff = di >= 0 ? (size_t)di : (size_t)di + n;
                if (eff < m ? p != b + eff * z : p != NULL) { FAIL("of", "of(%td) = %p with num %zu mem %zu", di, p, n, m); }
            }
            p = s->is_buf ? a_buf_top(s->b) : a_vec_top(s->v);
            if (n ? p != b + (n - 1) * z : p != NULL) { FAIL("top", "top = %p with num %zu", p, n); }
            p = s->is_buf ? a_buf_end(s->b) : a_vec_end(s->v);
            if (b ? p != b + n * z : p != NULL) { FAIL("end", "end = %p with num %zu", p, n); }
            if (z == 8 && !s->is_buf)
            {
                size_t cnt = 0;
                a_vec_foreach(uint64_t, *, it, s->v)
                {
                    if ((unsigned char *)it != b + cnt * 8) { FAIL("foreach", "foreach visits %p at step %zu", (void *)it, cnt); break; }
                    ++cnt;
                }
                if (cnt != n) { FAIL("foreach", "foreach visited %zu of %zu", cnt, n); }
                cnt = 0;
                a_vec_foreach_reverse(uint64_t, *, it, s->v)
                {
                    if ((unsigned char *)it != b + (n - 1 - cnt) * 8) { FAIL("foreach_reverse", "visits %p at step %zu", (void *)it, cnt); break; }
                    ++cnt;
                }
                if (cnt != n) { FAIL("foreach_reverse", "visited %zu of %zu", cnt, n); }
                VF_COUNT("foreach-macros");
            }
            if (z == 8 && s->is_buf)
            {
                size_t cnt = 0;
                a_buf_foreach(uint64_t, *, it, s->b)
                {
                    if ((unsigned char *)it != b + cnt * 8) { FAIL("foreach", "foreach visits %p at step %zu", (void *)it, cnt); break; }
                    ++cnt;
                }
                if (cnt != n) { FAIL("foreach", "foreach visited %zu of %zu", cnt, n); }
                VF_COUNT("foreach-macros");
            }
            (void)ok;
            cell(opname, s, cls, 0);
            break;
        }
        default:
            if (!is_buf && vf_chance(r, 1, 3))
            {
                /* whole-vector swap */
                seq t;
                opname = "swap";
                vf_log("vec swap");
                a_vec_swap(S[0].v, S[1].v);
                ++vf.evals;
                VF_COUNT("vec-swap");
                /* the handles stay, the contents (and models) change sides */
                t = S[0];
                {
                    a_vec *v0 = S[0].v, *v1 = S[1].v;
                    int c0 = S[0].by_ctor, c1 = S[1].by_ctor;
                    S[0] = S[1];
                    S[1] = t;
                    S[0].v = v0;
                    S[1].v = v1;
                    S[0].by_ctor = c0;
                    S[1].by_ctor = c1;
                }
                g_siz = S[0].siz;
                alive = check_state(&S[0]) && check_state(&S[1]);
                cell(opname, s, 0, 0);
            }
            break;
        }
    }
    for (int k = 0; k < 2 && alive; ++k) /* a container whose state is already refuted is not driven further */
    {
        if (S[k].v || S[k].b) { del_container(&S[k]); }
    }
}
