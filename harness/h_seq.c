/* C04 - a_vec / a_buf behave as an indexable sequence: lock-step model + ASan/UBSan.
 *
 * Two containers of the same kind per history (vector swap needs two); every operation is mirrored on a
 * plain array model; after every call: count, capacity relation, element size, full contents, and the
 * pointer the call returned are compared.  Library storage comes from the default allocator
 * (malloc/realloc), so ASan red zones begin at the first byte the container does not own.
 * Every inline function and macro form of vec.h / buf.h (typed call macros, alias functions, typed accessors, all iteration
 * macros and the a.h loop macros behind them) is exercised and judged against the same model: section PUBLIC SURFACE.
 */
#define VF_PROP "C04"
#include "vf_common.h"
#include <math.h>
#include "a/vec.h"
#include "a/buf.h"
#include <limits.h>

#define MAXE 160  /* model capacity (elements) */
#define MAXSZ 40  /* largest element size */

typedef struct
{
    int is_buf;
    a_vec *v;
    a_buf *b;
    /* model */
    size_t siz;
    size_t num;
    unsigned char e[MAXE][MAXSZ];
    int sorted; /* model knows the sequence is sorted by key */
    int by_ctor; /* constructed in caller-provided storage (ctor/dtor) instead of new/die */
} seq;

static size_t g_siz; /* element size for cmp/dtor callbacks */
static uint32_t serial;
static char const *KN = "vec";

/* ---- public-surface forms (see the PUBLIC SURFACE section further down): state shared with the call wrappers */
static int surf_on;           /* 1 inside the small case class: the wrappers may pick a macro / alias form of a call */
static vf_rng FR;             /* form choices come from a stream of their own, so the operation histories are what they were before */
static char const *form_used; /* macro / alias form used by the current call or walk: appended to the violation key */
static int surf_alias;         /* 1: the call must go through a macro / alias form, not the plain function (surf_roundtrip) */
static inline int surf_pick(int nforms) { return surf_on ? (int)vf_below(&FR, (uint64_t)nforms) : 0; }
#define SURF_FORM(name)           \
    do {                          \
        form_used = name;         \
        VF_COUNT("form/" name);   \
    } while (0)
/* typed element views: one struct per element size of the plan (alignment 1, no padding, sizeof == element size) */
#define SURF_SIZES(X) X(1) X(2) X(3) X(4) X(7) X(8) X(12) X(16) X(24) X(33)
#define SURF_TYPE(N) typedef struct { unsigned char b_[N]; } e##N;
SURF_SIZES(SURF_TYPE)
/* p = M(eN, args...) with the element type chosen by the element size z (M: a typed macro of vec.h / buf.h) */
#define SURF_TYPED(p, z, M, ...)                        \
    switch (z)                                          \
    {                                                   \
    case 1: p = M(e1, __VA_ARGS__); break;              \
    case 2: p = M(e2, __VA_ARGS__); break;              \
    case 3: p = M(e3, __VA_ARGS__); break;              \
    case 4: p = M(e4, __VA_ARGS__); break;              \
    case 7: p = M(e7, __VA_ARGS__); break;              \
    case 8: p = M(e8, __VA_ARGS__); break;              \
    case 12: p = M(e12, __VA_ARGS__); break;            \
    case 16: p = M(e16, __VA_ARGS__); break;            \
    case 24: p = M(e24, __VA_ARGS__); break;            \
    case 33: p = M(e33, __VA_ARGS__); break;            \
    default: p = M(unsigned char, __VA_ARGS__); break;  \
    }

/* ---- callbacks */
/* The comparator contract is only the SIGN of the result.  Each case uses one of four ways of returning it (chosen from
 * (seed, case number), logged): -1/0/+1, the difference of the first differing key byte (|d| <= 255), INT_MIN/INT_MAX,
 * magnitudes that vary with the difference.  A library that dispatches on the values -1/+1 fails under three of them. */
static int cmp_style;
static uint64_t cmp_calls[4];
static char const *const cmp_style_name[] = {"-1/0/+1", "key difference", "INT_MIN/INT_MAX", "varying magnitude -2-(d%5) / 2+(d%7)"};
static inline int cmp_result(int d) /* d: difference of the first differing key byte */
{
    ++cmp_calls[cmp_style];
    if (d == 0) { return 0; }
    switch (cmp_style)
    {
    case 0: return d > 0 ? 1 : -1;
    case 1: return d;
    case 2: return d > 0 ? INT_MAX : INT_MIN;
    default: return d > 0 ? 2 + d % 7 : -2 - (-d) % 5;
    }
}
/* vec.h / buf.h document the key of push_sort as "the key on the right": a comparator may tell elements (left) from keys (right)
   apart. While a push_sort call is in flight the key block is known and a comparator call with it as the LEFT operand is counted. */
static void const *g_key_ptr;
static int g_key_left;
static int cmp_elem(void const *l, void const *r)
{
    int a = *(unsigned char const *)l, b = *(unsigned char const *)r;
    if (g_key_ptr && l == g_key_ptr) { ++g_key_left; }
    return cmp_result(a - b);
}
static unsigned char dtor_log[MAXE * 2][MAXSZ];
static size_t dtor_n;
static void dtor_elem(void *p)
{
    if (dtor_n < MAXE * 2) { memcpy(dtor_log[dtor_n], p, g_siz); }
    ++dtor_n;
}
static int copy_elem(void *dst, void const *src)
{
    memcpy(dst, src, g_siz);
    return 0;
}

/* ---- raw accessors */
static size_t L_num(seq *s) { return s->is_buf ? a_buf_num(s->b) : a_vec_num(s->v); }
static size_t L_mem(seq *s) { return s->is_buf ? a_buf_mem(s->b) : a_vec_mem(s->v); }
static size_t L_siz(seq *s) { return s->is_buf ? a_buf_siz(s->b) : a_vec_siz(s->v); }
static unsigned char *L_ptr(seq *s) { return (unsigned char *)(s->is_buf ? a_buf_ptr(s->b) : a_vec_ptr(s->v)); }

static void mk_elem(vf_rng *r, seq *s, unsigned char *out, int key)
{
    uint32_t id = ++serial;
    memset(out, 0, MAXSZ);
    out[0] = (unsigned char)(key >= 0 ? key : (int)vf_below(r, 24));
    for (size_t i = 1; i < s->siz; ++i) { out[i] = (unsigned char)(id >> (8 * ((i - 1) & 3))) ^ (unsigned char)(i > 4 ? 0x5A + i : 0); }
}

static char const *opname = "op";
#define FAIL(clause, ...)                                         \
    do {                                                          \
        char key_[160];                                           \
        /* <kind>_<op>/<clause>, plus /<form> when the call went through a macro / alias form of the headers */ \
        snprintf(key_, sizeof(key_), "%s_%s/%s%s%s", KN, opname, clause, form_used ? "/" : "", form_used ? form_used : ""); \
        vf_viol(key_, __VA_ARGS__);                               \
        ok = 0;                                                   \
    } while (0)

/* full state comparison after a call */
static int check_state(seq *s)
{
    int ok = 1;
    size_t n = L_num(s), m = L_mem(s), z = L_siz(s);
    VF_COUNT("state-compared-with-model");
    if (z != s->siz) { FAIL("element-size", "library element size %zu, model %zu", z, s->siz); return 0; }
    if (n > m) { FAIL("count-exceeds-capacity", "num %zu > mem %zu", n, m); return 0; }
    if (n != s->num) { FAIL("count", "library holds %zu elements, model %zu", n, s->num); return 0; }
    if (n)
    {
        unsigned char *p = L_ptr(s);
        if (!p) { FAIL("null-storage", "num %zu but storage pointer is null", n); return 0; }
        for (size_t i = 0; i < n; ++i)
        {
            if (memcmp(p + i * z, s->e[i], z) != 0)
            {
                FAIL("contents", "element %zu of %zu differs from the model (size %zu): lib %02x%02x.. model %02x%02x..", i, n, z,
                     p[i * z], z > 1 ? p[i * z + 1] : 0, s->e[i][0], z > 1 ? s->e[i][1] : 0);
                return 0;
            }
        }
    }
    return ok;
}

/* pointer returned by an operation must lie inside owned storage on an element boundary */
static int check_owned(seq *s, void *ret, char const *what)
{
    int ok = 1;
    unsigned char *p = L_ptr(s), *q = (unsigned char *)ret;
    size_t m = L_mem(s), z = L_siz(s);
    VF_COUNT("returned-pointer-inside-owned-storage");
    if (!p || q < p || q + z > p + m * z || (size_t)(q - p) % z)
    {
        FAIL("returned-ptr-outside-storage", "%s: pointer %p, storage [%p, %p) element size %zu", what, ret, (void *)p, (void *)(p + m * z), z);
    }
    return ok;
}

static void model_insert(seq *s, size_t idx, unsigned char const *el)
{
    if (idx > s->num) { idx = s->num; }
    memmove(s->e[idx + 1], s->e[idx], (s->num - idx) * MAXSZ);
    memcpy(s->e[idx], el, MAXSZ);
    ++s->num;
}
static void model_remove(seq *s, size_t idx, unsigned char *out)
{
    memcpy(out, s->e[idx], MAXSZ);
    memmove(s->e[idx], s->e[idx + 1], (s->num - idx - 1) * MAXSZ);
    --s->num;
}
static int model_is_sorted(seq *s)
{
    for (size_t i = 1; i < s->num; ++i)
    {
        if (s->e[i - 1][0] > s->e[i][0]) { return 0; }
    }
    return 1;
}

/* index classes */
static size_t pick_index(vf_rng *r, size_t num, int *cls)
{
    int c = (int)vf_below(r, 11);
    *cls = c;
    switch (c)
    {
    case 0: return 0;
    case 1: return num / 2;
    case 2: return num ? num - 1 : 0;
    case 3: return num;
    case 4: return num + 1;
    case 5: return SIZE_MAX;
    case 6: return SIZE_MAX - 1;
    case 7: return (size_t)0 - num;
    case 8: return (size_t)vf_u64(r) | ((size_t)1 << 62);
    case 9: return num ? (size_t)vf_below(r, num) : 0;
    default: return (size_t)vf_below(r, num + 3);
    }
}
static char const *const cls_name[] = {"0", "mid", "num-1", "num", "num+1", "SIZE_MAX", "SIZE_MAX-1", "-num", "huge", "inrange", "near"};

static void cell(char const *op, seq *s, int cls, int full)
{
    char b[96];
    size_t z = s->siz;
    snprintf(b, sizeof(b), "%s|%s|z%d|i%d|f%d", KN, op, z <= 1 ? 1 : z <= 4 ? 4 : z <= 8 ? 8 : 33, cls, full);
    vf_distinct_str(b);
}

/* ---- library calls */
/* Calls that have a typed macro form `A_<KIND>_<OP>(T, ctx, ...)` in the headers: in the small case class a random half of the
 * calls goes through the macro (T = the struct type of the element size, or `unsigned char const`), the other half through the
 * function.  Same model update and same clauses either way; the form is counted (`form/<NAME>`) and appended to violation keys.
 * The large case class (surf_on == 0) always takes the function. */
#define L_WRAP(fname, PARAMS, VFN, BFN, VMAC, BMAC, ...)                                             \
    static void *fname PARAMS                                                                        \
    {                                                                                                \
        void *p = NULL;                                                                              \
        int const f = surf_alias ? 2 + (int)vf_below(&FR, 2) : surf_pick(4);                         \
        form_used = NULL;                                                                            \
        if (f < 2) { return s->is_buf ? BFN(s->b, ##__VA_ARGS__) : VFN(s->v, ##__VA_ARGS__); }      \
        if (s->is_buf)                                                                               \
        {                                                                                            \
            SURF_FORM(#BMAC);                                                                        \
            if (f == 2) { SURF_TYPED(p, s->siz, BMAC, s->b, ##__VA_ARGS__) }                          \
            else { p = (void *)BMAC(unsigned char const, s->b, ##__VA_ARGS__); }                      \
        }                                                                                            \
        else                                                                                         \
        {                                                                                            \
            SURF_FORM(#VMAC);                                                                        \
            if (f == 2) { SURF_TYPED(p, s->siz, VMAC, s->v, ##__VA_ARGS__) }                          \
            else { p = (void *)VMAC(unsigned char const, s->v, ##__VA_ARGS__); }                      \
        }                                                                                            \
        return p;                                                                                    \
    }
/* push_back / pull_back additionally have the alias functions a_<kind>_push / a_<kind>_pull and their macros */
#define L_WRAP_ALIAS(fname, VFN, BFN, VMAC, BMAC, VALIAS, BALIAS, VAMAC, BAMAC)                      \
    static void *fname(seq *s)                                                                       \
    {                                                                                                \
        void *p = NULL;                                                                              \
        int const f = surf_alias ? 4 + (int)vf_below(&FR, 4) : surf_pick(8);                         \
        form_used = NULL;                                                                            \
        if (f < 4) { return s->is_buf ? BFN(s->b) : VFN(s->v); }                                     \
        if (s->is_buf)                                                                               \
        {                                                                                            \
            switch (f)                                                                               \
            {                                                                                        \
            case 4: SURF_FORM(#BMAC); SURF_TYPED(p, s->siz, BMAC, s->b) break;                       \
            case 5: SURF_FORM(#BMAC); p = (void *)BMAC(unsigned char const, s->b); break;            \
            case 6: SURF_FORM(#BALIAS); p = BALIAS(s->b); break;                                     \
            default: SURF_FORM(#BAMAC);                                                              \
                if (vf_below(&FR, 2)) { SURF_TYPED(p, s->siz, BAMAC, s->b) }                         \
                else { p = (void *)BAMAC(unsigned char const, s->b); }                               \
                break;                                                                               \
            }                                                                                        \
        }                                                                                            \
        else                                                                                         \
        {                                                                                            \
            switch (f)                                                                               \
            {                                                                                        \
            case 4: SURF_FORM(#VMAC); SURF_TYPED(p, s->siz, VMAC, s->v) break;                       \
            case 5: SURF_FORM(#VMAC); p = (void *)VMAC(unsigned char const, s->v); break;            \
            case 6: SURF_FORM(#VALIAS); p = VALIAS(s->v); break;                                     \
            default: SURF_FORM(#VAMAC);                                                              \
                if (vf_below(&FR, 2)) { SURF_TYPED(p, s->siz, VAMAC, s->v) }                         \
                else { p = (void *)VAMAC(unsigned char const, s->v); }                               \
                break;                                                                               \
            }                                                                                        \
        }                                                                                            \
        return p;                                                                                    \
    }
L_WRAP_ALIAS(L_push_back, a_vec_push_back, a_buf_push_back, A_VEC_PUSH_BACK, A_BUF_PUSH_BACK, a_vec_push, a_buf_push, A_VEC_PUSH, A_BUF_PUSH)
L_WRAP_ALIAS(L_pull_back, a_vec_pull_back, a_buf_pull_back, A_VEC_PULL_BACK, A_BUF_PULL_BACK, a_vec_pull, a_buf_pull, A_VEC_PULL, A_BUF_PULL)
L_WRAP(L_push_fore, (seq *s), a_vec_push_fore, a_buf_push_fore, A_VEC_PUSH_FORE, A_BUF_PUSH_FORE)
L_WRAP(L_pull_fore, (seq *s), a_vec_pull_fore, a_buf_pull_fore, A_VEC_PULL_FORE, A_BUF_PULL_FORE)
L_WRAP(L_insert, (seq *s, size_t i), a_vec_insert, a_buf_insert, A_VEC_INSERT, A_BUF_INSERT, i)
L_WRAP(L_remove, (seq *s, size_t i), a_vec_remove, a_buf_remove, A_VEC_REMOVE, A_BUF_REMOVE, i)
L_WRAP(L_push_sort, (seq *s, void const *k), a_vec_push_sort, a_buf_push_sort, A_VEC_PUSH_SORT, A_BUF_PUSH_SORT, k, cmp_elem)
L_WRAP(L_search, (seq *s, void const *k), a_vec_search, a_buf_search, A_VEC_SEARCH, A_BUF_SEARCH, k, cmp_elem)
static void L_sort(seq *s) { form_used = NULL; if (s->is_buf) { a_buf_sort(s->b, cmp_elem); } else { a_vec_sort(s->v, cmp_elem); } }
static void L_sort_fore(seq *s) { form_used = NULL; if (s->is_buf) { a_buf_sort_fore(s->b, cmp_elem); } else { a_vec_sort_fore(s->v, cmp_elem); } }
static void L_sort_back(seq *s) { form_used = NULL; if (s->is_buf) { a_buf_sort_back(s->b, cmp_elem); } else { a_vec_sort_back(s->v, cmp_elem); } }

/* a push that must succeed iff there is room (buf) / always (vec) */
static int do_push_at(seq *s, vf_rng *r, int where, size_t idx, int key)
{
    int ok = 1;
    unsigned char el[MAXSZ];
    void *p;
    size_t num = s->num, mem = L_mem(s);
    int expect_fail = s->is_buf && num >= mem;
    if (num + 1 >= MAXE) { return 1; }
    mk_elem(r, s, el, key);
    g_siz = s->siz;
    p = where == 0 ? L_push_back(s) : where == 1 ? L_push_fore(s) : L_insert(s, idx);
    ++vf.evals;
    if (expect_fail)
    {
        VF_COUNT("buf-refuses-when-full");
        if (p) { FAIL("accepted-although-full", "returned %p with num == mem == %zu", p, mem); return 0; }
        return check_state(s);
    }
    if (!p) { FAIL("unexpected-null", "returned null with num %zu mem %zu", num, mem); return 0; }
    if (!check_owned(s, p, "new element")) { return 0; }
    memcpy(p, el, s->siz);
    model_insert(s, where == 0 ? num : where == 1 ? 0 : idx, el);
    if (s->num > 1) { s->sorted = s->sorted && model_is_sorted(s); }
    (void)ok;
    return check_state(s);
}

static int do_pull(seq *s, int where, size_t idx)
{
    int ok = 1;
    unsigned char want[MAXSZ];
    void *p;
    size_t num = s->num;
    p = where == 0 ? L_pull_back(s) : where == 1 ? L_pull_fore(s) : L_remove(s, idx);
    ++vf.evals;
    if (num == 0)
    {
        VF_COUNT("pull-from-empty-returns-null");
        if (p) { FAIL("non-null-from-empty", "returned %p from an empty container", p); return 0; }
        return check_state(s);
    }
    {
        size_t at = where == 0 ? num - 1 : where == 1 ? 0 : (idx < num - 1 ? idx : num - 1);
        model_remove(s, at, want);
    }
    if (!p) { FAIL("unexpected-null", "returned null with %zu elements", num); return 0; }
    if (!check_owned(s, p, "removed element")) { return 0; }
    VF_COUNT("removed-element-intact-and-past-live-range");
    {
        size_t slot = (size_t)((unsigned char *)p - L_ptr(s)) / s->siz;
        if (slot < s->num) { FAIL("removed-ptr-overlaps-live-element", "removed element parked at slot %zu but %zu elements remain", slot, s->num); return 0; }
        if (memcmp(p, want, s->siz) != 0) { FAIL("removed-element-not-intact", "bytes behind the returned pointer are not the removed element"); return 0; }
    }
    (void)ok;
    return check_state(s);
}

static void make_full(seq *s, vf_rng *r)
{
    /* push until num == mem keeping sortedness if the model is sorted */
    int guard = 0;
    while (L_num(s) < L_mem(s) && s->num + 2 < MAXE && ++guard < MAXE)
    {
        if (s->sorted)
        {
            unsigned char el[MAXSZ];
            void *p;
            mk_elem(r, s, el, -1);
            g_siz = s->siz;
            p = L_push_sort(s, el);
            if (!p) { return; }
            memcpy(p, el, s->siz);
            {
                size_t pos = (size_t)((unsigned char *)p - L_ptr(s)) / s->siz;
                model_insert(s, pos, el);
            }
        }
        else { do_push_at(s, r, 0, 0, -1); }
    }
}
static void make_spare(seq *s)
{
    if (L_num(s) == L_mem(s))
    {
        if (s->is_buf)
        {
            if (s->num)
            {
                unsigned char w[MAXSZ];
                a_buf_pull_back(s->b);
                model_remove(s, s->num - 1, w);
            }
        }
        else { a_vec_setm(s->v, L_num(s) + 1); }
    }
}

/* verify: result == old sequence with `el` inserted at a position that keeps it sorted */
static int check_sorted_insert(seq *s, unsigned char const (*old)[MAXSZ], size_t oldn, unsigned char const *el)
{
    int ok = 1;
    unsigned char *p = L_ptr(s);
    size_t z = s->siz, n = L_num(s);
    VF_COUNT("sorted-insert-keeps-order-and-elements");
    if (n != oldn + 1) { FAIL("count", "count %zu after sorted insert into %zu", n, oldn); return 0; }
    for (size_t i = 1; i < n; ++i)
    {
        if (p[(i - 1) * z] > p[i * z]) { FAIL("not-sorted", "keys %u then %u at %zu", p[(i - 1) * z], p[i * z], i); return 0; }
    }
    for (size_t pos = 0; pos < n; ++pos)
    {
        if (memcmp(p + pos * z, el, z) != 0) { continue; }
        size_t j = 0;
        int match = 1;
        for (size_t i = 0; i < n && match; ++i)
        {
            if (i == pos) { continue; }
            if (memcmp(p + i * z, old[j++], z) != 0) { match = 0; }
        }
        if (match)
        {
            /* adopt the library's placement among equal keys */
            for (size_t i = 0, k = 0; i < n; ++i)
            {
                if (i == pos) { memcpy(s->e[i], el, MAXSZ); }
                else { memcpy(s->e[i], old[k++], MAXSZ); }
            }
            s->num = n;
            return 1;
        }
    }
    FAIL("element-lost-or-reordered", "result is not the old sequence plus the new element");
    return 0;
}

/* search on a sorted sequence: found iff a live element has that key, and then a live element with that key is returned; returns "present" */
static int do_search(seq *s, unsigned char key)
{
    unsigned char keyel[MAXSZ];
    void *p;
    int present = 0, ok = 1;
    opname = "search";
    memset(keyel, 0, sizeof(keyel));
    keyel[0] = key;
    for (size_t k = 0; k < s->num; ++k) { present |= s->e[k][0] == keyel[0]; }
    vf_log("%s search key %u (num %zu)", KN, keyel[0], s->num);
    p = L_search(s, keyel);
    ++vf.evals;
    VF_COUNT("search-finds-iff-present");
    if (present != (p != NULL)) { FAIL("found-iff-present", "key %u present=%d but search returned %p", keyel[0], present, p); }
    else if (p)
    {
        unsigned char *b = L_ptr(s);
        if ((unsigned char *)p < b || (unsigned char *)p >= b + s->num * s->siz || *(unsigned char *)p != keyel[0])
        {
            FAIL("wrong-element", "search returned a pointer that is not a live element with that key");
        }
    }
    (void)ok;
    return present;
}

static seq S[2];

static int new_container(seq *s, int is_buf, size_t siz, size_t cap)
{
    memset(s, 0, sizeof(*s));
    s->is_buf = is_buf;
    s->siz = siz ? siz : 1;
    s->sorted = 1;
    s->by_ctor = (int)(cap & 1) ^ (int)(siz & 1) ^ (int)(vf.case_no >> 1 & 1);
    if (is_buf && s->by_ctor)
    {
        /* constructor on caller-provided storage (exact size: header + payload) */
        vf_log("a_buf_ctor(storage of %zu bytes, %zu, %zu)", sizeof(a_buf) + (siz ? siz : 1) * cap, siz, cap);
        s->b = (a_buf *)malloc(sizeof(a_buf) + (siz ? siz : 1) * cap);
        a_buf_ctor(s->b, siz, cap);
        VF_COUNT("ctor-dtor-on-caller-storage");
        if (a_buf_mem(s->b) != cap) { vf_viol("buf_ctor/capacity", "a_buf_ctor(%zu,%zu) has mem %zu", siz, cap, a_buf_mem(s->b)); }
    }
    else if (is_buf)
    {
        vf_log("a_buf_new(%zu, %zu)", siz, cap);
        s->b = a_buf_new(siz, cap);
        if (!s->b) { return 0; }
        VF_COUNT("buf-new-capacity");
        if (a_buf_mem(s->b) != cap) { vf_viol("buf_new/capacity", "a_buf_new(%zu,%zu) has mem %zu", siz, cap, a_buf_mem(s->b)); }
    }
    else if (s->by_ctor)
    {
        vf_log("a_vec_ctor(%zu)", siz);
        s->v = (a_vec *)malloc(sizeof(a_vec));
        memset(s->v, 0xA5, sizeof(a_vec));
        a_vec_ctor(s->v, siz);
        VF_COUNT("ctor-dtor-on-caller-storage");
    }
    else
    {
        vf_log("a_vec_new(%zu)", siz);
        s->v = a_vec_new(siz);
        if (!s->v) { return 0; }
    }
    opname = "new";
    return check_state(s);
}
static void del_container(seq *s)
{
    g_siz = s->siz;
    dtor_n = 0;
    if (s->by_ctor)
    {
        if (s->is_buf) { a_buf_dtor(s->b, dtor_elem); free(s->b); }
        else
        {
            a_vec_dtor(s->v, dtor_elem);
            if (a_vec_ptr(s->v) || a_vec_num(s->v) || a_vec_mem(s->v)) { vf_viol("vec_dtor/object-not-empty", "ptr %p num %zu mem %zu after a_vec_dtor", a_vec_ptr(s->v), a_vec_num(s->v), a_vec_mem(s->v)); }
            free(s->v);
        }
    }
    else if (s->is_buf) { a_buf_die(s->b, dtor_elem); }
    else { a_vec_die(s->v, dtor_elem); }
    VF_COUNT("die-destroys-each-element-once");
    if (dtor_n != s->num)
    {
        char key[64];
        snprintf(key, sizeof(key), "%s_die/dtor-call-count", KN);
        vf_viol(key, "destructor called %zu times for %zu elements", dtor_n, s->num);
    }
}

/* =====================================================================================================
 * LARGE-SIZE / LONG-HISTORY case class (cases with c % LARGE_MOD == LARGE_RES).
 *
 * One vector or buffer is driven from empty through every power of two 2^k (k = 8 .. kmax, kmax = 16 where the
 * byte size allows, see large_kmax) and back down, with a model of its own: an array of 32-bit element ids;
 * the element bytes are a pure function of (id, element size, key mask) - first K = min(siz, 4) bytes are the
 * big-endian key (id & kmask), the rest comes from a 64-bit mix of the id.  The complete state (element size,
 * count, count <= capacity, every element byte) is compared with the model at every size 2^k-3 .. 2^k+2 on the
 * way up, 2^k+3 .. 2^k-3 on the way down, and after every structural operation of the battery run at each
 * station (insert/remove at 0, mid, num-2, num-1, num, SIZE_MAX in both capacity states, bulk store of
 * 1..4097 elements from an exact-size source, erase of chunks / clipped tails / SIZE_MAX counts with destructor
 * order checked, setn shrink + regrow, setm, sort + search + the three sorted-insert variants on large sorted
 * data in both capacity states, accessors at large indices, swap of the large vector with a small one, refusal
 * of the exactly-full buffer), and at the end setz re-use and destruction (each element destroyed once, in
 * order).  Pushes between stations are only checked in O(1) (returned slot, count, capacity).
 * Violation keys: <kind>_<op>/<clause>/large.
 */
#define BIGSZ 40
#define LARGE_MOD_QUICK 61
#define LARGE_MOD_THOROUGH 793
#define LARGE_RES 17

typedef struct big
{
    seq *h;         /* library handle (kind, object pointers); the small array model inside it is not used */
    uint32_t *id;   /* model: one id per element */
    size_t num, cap;
    size_t siz, K;  /* element size; key = first K bytes */
    uint32_t kmask; /* key = id & kmask (cleared low bits give runs of equal keys with different tails) */
    int sorted;     /* model knows the sequence is ordered by key */
    int fixed;      /* buffer whose capacity is never changed by setm (caller storage / one a_buf_new at full size) */
} big;

static int large_sampled;
static int big_dead; /* a clause failed: the object is not driven further */
static size_t g_K;   /* key length for cmp_big */
static big G[2];

#define BFAIL(clause, ...)                                                  \
    do {                                                                    \
        char key_[112];                                                     \
        snprintf(key_, sizeof(key_), "%s_%s/%s/large", KN, opname, clause); \
        vf_viol(key_, __VA_ARGS__);                                         \
        big_dead = 1;                                                       \
    } while (0)

static int cmp_big(void const *l, void const *r)
{
    unsigned char const *a = (unsigned char const *)l, *b = (unsigned char const *)r;
    if (g_key_ptr && l == g_key_ptr) { ++g_key_left; }
    for (size_t i = 0; i < g_K; ++i)
    {
        if (a[i] != b[i]) { return cmp_result((int)a[i] - (int)b[i]); }
    }
    return cmp_result(0);
}

static inline uint64_t b_mix(uint64_t x)
{
    x *= 0x9E3779B97F4A7C15ULL;
    x ^= x >> 32;
    x *= 0xD6E8FEB86659FD93ULL;
    x ^= x >> 29;
    return x;
}
/* numeric key of the first K bytes (same order as memcmp on them) */
static inline uint32_t b_key(big const *g, uint32_t id) { return (id & g->kmask) >> (8 * (4 - g->K)); }

/* element bytes of an id; out has room for BIGSZ bytes (whole 8-byte words are written) */
static inline void b_render(big const *g, uint32_t id, unsigned char *out)
{
    size_t const z = g->siz;
    uint32_t const key = id & g->kmask;
    if (z > 4)
    {
        for (size_t j = 0; j * 8 < z; ++j)
        {
            uint64_t const w = b_mix(id + (j + 1) * 0x632BE59BD9B4E019ULL);
            memcpy(out + j * 8, &w, 8);
        }
    }
    for (size_t j = 0; j < g->K; ++j) { out[j] = (unsigned char)(key >> (24 - 8 * j)); }
}
static unsigned char b_tmp[BIGSZ]; /* scratch image (static: no instrumented stack frame per element) */
static inline int b_eq(big const *g, unsigned char const *p, uint32_t id)
{
    if (g->siz <= 4)
    {
        /* the whole element is the big-endian key */
        uint32_t v = 0;
        for (size_t j = 0; j < g->siz; ++j) { v = (v << 8) | p[j]; }
        return v == b_key(g, id);
    }
    b_render(g, id, b_tmp);
    return memcmp(p, b_tmp, g->siz) == 0;
}
static inline void b_write(big const *g, void *p, uint32_t id)
{
    b_render(g, id, b_tmp);
    memcpy(p, b_tmp, g->siz);
}

/* first index in [0, n) where the library element differs from the model element, n if none */
static size_t b_first_diff(big const *g, unsigned char const *p, uint32_t const *ids, size_t n)
{
    size_t const z = g->siz;
    uint32_t const km = g->kmask;
    size_t i = 0;
    switch (z)
    {
    case 1: for (; i < n; ++i) { if (p[i] != (unsigned char)((ids[i] & km) >> 24)) { break; } } break;
    case 2: for (; i < n; ++i) { if ((((uint32_t)p[2 * i] << 8) | p[2 * i + 1]) != (ids[i] & km) >> 16) { break; } } break;
    case 3: for (; i < n; ++i) { if ((((uint32_t)p[3 * i] << 16) | ((uint32_t)p[3 * i + 1] << 8) | p[3 * i + 2]) != (ids[i] & km) >> 8) { break; } } break;
    case 4: for (; i < n; ++i) { if ((((uint32_t)p[4 * i] << 24) | ((uint32_t)p[4 * i + 1] << 16) | ((uint32_t)p[4 * i + 2] << 8) | p[4 * i + 3]) != (ids[i] & km)) { break; } } break;
    default: for (; i < n; ++i) { if (!b_eq(g, p + i * z, ids[i])) { break; } } break;
    }
    return i;
}

static void bm_room(big *g, size_t n)
{
    if (n > g->cap)
    {
        g->cap = n + n / 2 + 64;
        g->id = (uint32_t *)realloc(g->id, g->cap * sizeof(uint32_t));
        if (!g->id) { fprintf(stderr, "h_seq: out of memory for the large model\n"); exit(2); }
    }
}
static void bm_insert(big *g, size_t idx, uint32_t const *ids, size_t n)
{
    bm_room(g, g->num + n);
    memmove(g->id + idx + n, g->id + idx, (g->num - idx) * sizeof(uint32_t));
    memcpy(g->id + idx, ids, n * sizeof(uint32_t));
    g->num += n;
}
static void bm_erase(big *g, size_t idx, size_t n)
{
    memmove(g->id + idx, g->id + idx + n, (g->num - idx - n) * sizeof(uint32_t));
    g->num -= n;
}
static int bm_sorted_at(big const *g, size_t i) /* element i is in order with its neighbours */
{
    if (i > 0 && b_key(g, g->id[i - 1]) > b_key(g, g->id[i])) { return 0; }
    if (i + 1 < g->num && b_key(g, g->id[i]) > b_key(g, g->id[i + 1])) { return 0; }
    return 1;
}

static void bcell(char const *op, big const *g, int cls)
{
    char b[96];
    int lg = 0;
    for (size_t n = g->num; n > 1; n >>= 1) { ++lg; }
    snprintf(b, sizeof(b), "L|%s|%s|z%d|k%d|c%d", KN, op, g->siz <= 1 ? 1 : g->siz <= 4 ? 4 : g->siz <= 8 ? 8 : 33, lg, cls);
    vf_distinct_str(b);
}

/* header invariants only (O(1)) */
static int b_light(big *g)
{
    seq *s = g->h;
    size_t n = L_num(s), m = L_mem(s), z = L_siz(s);
    if (z != g->siz) { BFAIL("element-size", "library element size %zu, model %zu", z, g->siz); return 0; }
    if (n > m) { BFAIL("count-exceeds-capacity", "num %zu > mem %zu", n, m); return 0; }
    if (n != g->num) { BFAIL("count", "library holds %zu elements, model %zu", n, g->num); return 0; }
    if (n && !L_ptr(s)) { BFAIL("null-storage", "num %zu but storage pointer is null", n); return 0; }
    return 1;
}
/* complete comparison with the model */
static int b_check(big *g)
{
    seq *s = g->h;
    size_t n, z;
    unsigned char *p;
    if (big_dead) { return 0; }
    VF_COUNT("large-state-compared-with-model");
    if (!b_light(g)) { return 0; }
    n = g->num;
    z = g->siz;
    p = L_ptr(s);
    {
        size_t const i = b_first_diff(g, p, g->id, n);
        if (i < n)
        {
            unsigned char t[BIGSZ];
            b_render(g, g->id[i], t);
            BFAIL("contents", "element %zu of %zu differs from the model (size %zu, mem %zu): lib %02x%02x.. model %02x%02x..", i, n, z, L_mem(s),
                  p[i * z], z > 1 ? p[i * z + 1] : 0, t[0], z > 1 ? t[1] : 0);
            return 0;
        }
    }
    VF_ADD("large-elements-compared", n);
    if (n >= 65536) { VF_COUNT("large-count-ge-65536-compared"); }
    if (n * z >= 65536) { VF_COUNT("large-bytes-ge-65536-compared"); }
    if (n >= 4096) { VF_COUNT("large-count-ge-4096-compared"); }
    VF_MAX("large-max-elements", (double)n);
    VF_MAX("large-max-bytes", (double)(n * z));
    return 1;
}
static int b_owned(big *g, void *ret, char const *what)
{
    seq *s = g->h;
    unsigned char *p = L_ptr(s), *q = (unsigned char *)ret;
    size_t m = L_mem(s), z = L_siz(s);
    VF_COUNT("large-returned-pointer-inside-owned-storage");
    if (!p || q < p || q + z > p + m * z || (size_t)(q - p) % z)
    {
        BFAIL("returned-ptr-outside-storage", "%s: pointer %p, storage [%p, %p) element size %zu", what, ret, (void *)p, (void *)(p + m * z), z);
        return 0;
    }
    return 1;
}

/* ---- destructor that verifies which element it is handed (no log: the model says which one is next) */
static struct
{
    big *g;
    size_t next, calls, expect, bad, first_bad;
    int dir;
} DT;
static void b_dtor(void *p)
{
    if (DT.calls < DT.expect && DT.next < DT.g->num)
    {
        if (!b_eq(DT.g, (unsigned char const *)p, DT.g->id[DT.next]))
        {
            if (!DT.bad) { DT.first_bad = DT.calls; }
            ++DT.bad;
        }
        DT.next += (size_t)DT.dir;
    }
    ++DT.calls;
}
static void dt_arm(big *g, size_t first, int dir, size_t expect)
{
    DT.g = g;
    DT.next = first;
    DT.dir = dir;
    DT.expect = expect;
    DT.calls = DT.bad = DT.first_bad = 0;
}
static void dt_judge(big *g, char const *what)
{
    (void)g;
    VF_COUNT("large-destroys-each-dropped-element-once-in-order");
    if (DT.calls != DT.expect) { BFAIL("dtor-call-count", "%s: %zu destructor calls for %zu dropped elements", what, DT.calls, DT.expect); }
    else if (DT.bad) { BFAIL("dtor-wrong-element", "%s: %zu of %zu destructor calls got a different element (first: call %zu)", what, DT.bad, DT.calls, DT.first_bad); }
}

static uint32_t b_sorted_fill_id(big const *g, size_t j) { return 0xFFFFFFFFu - ((uint32_t)j & ~g->kmask); }

/* ---- operations (each: log, call, O(1) clauses, model update, optional complete comparison) */
static void b_push(big *g, int where, size_t idx, uint32_t id, int check)
{
    seq *s = g->h;
    size_t num = g->num, mem = L_mem(s), eff;
    void *p;
    if (big_dead) { return; }
    g_siz = g->siz;
    opname = where == 0 ? "push_back" : where == 1 ? "push_fore" : "insert";
    if (check) { vf_log("L %s %s idx=%zu id=%08x (num %zu mem %zu)", KN, opname, idx, id, num, mem); }
    p = where == 0 ? L_push_back(s) : where == 1 ? L_push_fore(s) : L_insert(s, idx);
    ++vf.evals;
    if (s->is_buf && num >= mem)
    {
        VF_COUNT("large-buf-refuses-when-full");
        if (p) { BFAIL("accepted-although-full", "returned %p with num == mem == %zu", p, mem); return; }
        if (check) { b_check(g); } else { b_light(g); }
        return;
    }
    if (!p) { BFAIL("unexpected-null", "returned null with num %zu mem %zu", num, mem); return; }
    if (!b_owned(g, p, "new element")) { return; }
    if (L_mem(s) < mem) { BFAIL("capacity-shrank", "mem %zu before, %zu after", mem, L_mem(s)); return; }
    eff = where == 0 ? num : where == 1 ? 0 : (idx < num ? idx : num);
    if ((size_t)((unsigned char *)p - L_ptr(s)) != eff * g->siz)
    {
        BFAIL("returned-ptr-wrong-slot", "slot %zu returned for position %zu (num %zu)", (size_t)((unsigned char *)p - L_ptr(s)) / g->siz, eff, num);
        return;
    }
    b_write(g, p, id);
    bm_insert(g, eff, &id, 1);
    if (g->sorted) { g->sorted = bm_sorted_at(g, eff); }
    if (check) { b_check(g); bcell(opname, g, idx == 0 ? 0 : idx >= num ? 2 : 1); } else { b_light(g); }
}

static void b_pull(big *g, int where, size_t idx, int check)
{
    seq *s = g->h;
    size_t num = g->num, mem = L_mem(s), at, slot;
    int full = L_num(s) == mem;
    void *p;
    if (big_dead) { return; }
    g_siz = g->siz;
    opname = where == 0 ? "pull_back" : where == 1 ? "pull_fore" : "remove";
    if (check) { vf_log("L %s %s idx=%zu (num %zu mem %zu, %s)", KN, opname, idx, num, mem, full ? "full" : "spare"); }
    p = where == 0 ? L_pull_back(s) : where == 1 ? L_pull_fore(s) : L_remove(s, idx);
    ++vf.evals;
    if (num == 0)
    {
        if (p) { BFAIL("non-null-from-empty", "returned %p from an empty container", p); return; }
        b_light(g);
        return;
    }
    at = where == 0 ? num - 1 : where == 1 ? 0 : (idx < num - 1 ? idx : num - 1);
    if (!p) { BFAIL("unexpected-null", "returned null with %zu elements", num); return; }
    if (!b_owned(g, p, "removed element")) { return; }
    VF_COUNT("large-removed-element-intact-and-past-live-range");
    slot = (size_t)((unsigned char *)p - L_ptr(s)) / g->siz;
    if (slot < num - 1) { BFAIL("removed-ptr-overlaps-live-element", "removed element parked at slot %zu but %zu elements remain", slot, num - 1); return; }
    if (!b_eq(g, (unsigned char const *)p, g->id[at])) { BFAIL("removed-element-not-intact", "bytes behind the returned pointer are not element %zu of %zu", at, num); return; }
    bm_erase(g, at, 1);
    if (where != 0 && at < num - 1)
    {
        if (full) { VF_COUNT("large-remove-path-full"); } else { VF_COUNT("large-remove-path-spare"); }
    }
    if (check) { b_check(g); bcell(opname, g, (at == 0 ? 0 : at >= num - 2 ? 2 : 1) + 4 * full); } else { b_light(g); }
}

static void b_store(big *g, vf_rng *r, size_t idx, size_t cnt, int use_copy)
{
    seq *s = g->h;
    size_t num = g->num, mem = L_mem(s), z = g->siz, at = idx < num ? idx : num;
    unsigned char *src;
    uint32_t *ids;
    int rc;
    if (big_dead) { return; }
    g_siz = z;
    opname = "store";
    ids = (uint32_t *)malloc((cnt ? cnt : 1) * sizeof(uint32_t));
    src = (unsigned char *)malloc(cnt * z ? cnt * z : 1); /* exact size: a read past the last element is an ASan report */
    for (size_t k = 0; k < cnt; ++k)
    {
        ids[k] = (uint32_t)vf_u64(r);
        b_write(g, src + k * z, ids[k]);
    }
    vf_log("L %s store idx=%zu n=%zu copy=%d (num %zu mem %zu)", KN, idx, cnt, use_copy, num, mem);
    rc = s->is_buf ? a_buf_store(s->b, idx, src, cnt, use_copy ? copy_elem : NULL) : a_vec_store(s->v, idx, src, cnt, use_copy ? copy_elem : NULL);
    free(src);
    ++vf.evals;
    VF_COUNT("large-store");
    if (s->is_buf && num + cnt > mem)
    {
        VF_COUNT("large-buf-refuses-when-full");
        if (rc == A_SUCCESS) { BFAIL("accepted-although-full", "store of %zu into num %zu mem %zu returned success", cnt, num, mem); }
    }
    else if (rc != A_SUCCESS) { BFAIL("unexpected-error", "rc %d for store of %zu at %zu (num %zu mem %zu)", rc, cnt, idx, num, mem); }
    else
    {
        bm_insert(g, at, ids, cnt);
        if (cnt) { g->sorted = 0; }
        if (cnt >= 256) { VF_COUNT("large-store-ge-256-elements"); }
    }
    free(ids);
    b_check(g);
    bcell(opname, g, (cnt >= 4096 ? 3 : cnt >= 256 ? 2 : cnt > 1 ? 1 : 0) + 4 * (idx == 0 ? 0 : idx >= num ? 2 : 1));
}

static void b_erase(big *g, size_t idx, size_t cnt, int with_dtor)
{
    seq *s = g->h;
    size_t num = g->num, n = idx < num ? (cnt < num - idx ? cnt : num - idx) : 0;
    int rc;
    if (big_dead) { return; }
    g_siz = g->siz;
    opname = "erase";
    vf_log("L %s erase idx=%zu n=%zu dtor=%d (num %zu mem %zu)", KN, idx, cnt, with_dtor, num, L_mem(s));
    dt_arm(g, idx, 1, with_dtor ? n : 0);
    rc = s->is_buf ? a_buf_erase(s->b, idx, cnt, with_dtor ? b_dtor : NULL) : a_vec_erase(s->v, idx, cnt, with_dtor ? b_dtor : NULL);
    ++vf.evals;
    VF_COUNT("large-erase");
    if (idx >= num)
    {
        if (rc != A_OBOUNDS) { BFAIL("out-of-range-not-reported", "idx %zu >= num %zu returned %d", idx, num, rc); }
        if (DT.calls) { BFAIL("dtor-called-out-of-range", "%zu destructor calls", DT.calls); }
    }
    else
    {
        if (rc != A_SUCCESS) { BFAIL("unexpected-error", "rc %d for idx %zu n %zu num %zu", rc, idx, cnt, num); return; }
        if (with_dtor) { dt_judge(g, "erase"); }
        bm_erase(g, idx, n);
    }
    b_check(g);
    bcell(opname, g, (n >= 4096 ? 3 : n >= 256 ? 2 : n > 1 ? 1 : 0) + 4 * (idx == 0 ? 0 : idx + n >= num ? 2 : 1));
}

static void b_setn(big *g, vf_rng *r, size_t n, int with_dtor)
{
    seq *s = g->h;
    size_t num = g->num, mem = L_mem(s), want = (s->is_buf && n > mem) ? mem : n;
    if (big_dead) { return; }
    g_siz = g->siz;
    opname = "setn";
    vf_log("L %s setn %zu dtor=%d (num %zu mem %zu)", KN, n, with_dtor, num, mem);
    dt_arm(g, num ? num - 1 : 0, -1, (with_dtor && want < num) ? num - want : 0);
    if (s->is_buf) { a_buf_setn(s->b, n, with_dtor ? b_dtor : NULL); }
    else
    {
        int rc = a_vec_setn(s->v, n, with_dtor ? b_dtor : NULL);
        if (rc != A_SUCCESS) { BFAIL("unexpected-error", "rc %d", rc); return; }
    }
    ++vf.evals;
    if (with_dtor) { dt_judge(g, "setn"); }
    if (L_num(s) != want) { BFAIL("count", "count %zu after setn(%zu) (num %zu mem %zu)", L_num(s), n, num, mem); return; }
    if (L_mem(s) < want) { BFAIL("count-exceeds-capacity", "num %zu > mem %zu after setn", want, L_mem(s)); return; }
    if (want > num)
    {
        /* the new tail is unspecified: the caller initialises it (keeping the order if the sequence is sorted) */
        unsigned char *p = L_ptr(s);
        int keep = g->sorted;
        bm_room(g, want);
        for (size_t k = num; k < want; ++k)
        {
            uint32_t id = keep ? b_sorted_fill_id(g, k) : (uint32_t)vf_u64(r);
            b_write(g, p + k * g->siz, id);
            g->id[k] = id;
        }
        g->num = want;
        VF_COUNT("large-setn-regrow");
    }
    else
    {
        g->num = want;
        if (want < num) { VF_COUNT("large-setn-shrink"); }
    }
    b_check(g);
    bcell(opname, g, (want > num ? 1 : want < num ? 2 : 0) + 4 * with_dtor);
}

static void b_setm(big *g, size_t m)
{
    seq *s = g->h;
    size_t mem = L_mem(s);
    if (big_dead) { return; }
    opname = "setm";
    vf_log("L %s setm %zu (num %zu mem %zu)", KN, m, g->num, mem);
    if (s->is_buf)
    {
        a_buf *nb = a_buf_setm(s->b, m); /* precondition: m >= num */
        if (!nb) { BFAIL("unexpected-null", "a_buf_setm(%zu) failed", m); return; }
        s->b = nb;
        if (a_buf_mem(nb) != m) { BFAIL("capacity", "mem %zu after setm(%zu)", a_buf_mem(nb), m); return; }
    }
    else
    {
        int rc = a_vec_setm(s->v, m);
        if (rc != A_SUCCESS) { BFAIL("unexpected-error", "rc %d", rc); return; }
        if (L_mem(s) < m || L_mem(s) < mem) { BFAIL("capacity", "mem %zu after setm(%zu), before %zu", L_mem(s), m, mem); return; }
    }
    ++vf.evals;
    VF_COUNT("large-setm");
    b_check(g);
    bcell(opname, g, m > mem);
}

/* capacity state control at large size */
static void b_make_full(big *g, vf_rng *r)
{
    seq *s = g->h;
    if (big_dead || L_num(s) == L_mem(s)) { return; }
    if (s->is_buf && !g->fixed) { b_setm(g, g->num); }
    else if (s->is_buf || L_mem(s) - g->num <= g->num + 4096) { b_setn(g, r, L_mem(s), 0); } /* count raised to the capacity, new tail written by the caller */
    /* else: a vector whose capacity is more than twice its count is left with spare room (the capacity of a vector cannot be
       reduced, raising the count that far would let the sizes of a history grow geometrically) */
}
/* after an operation that needed the exactly-full state: drop the padding again (destructor order checked) */
static void b_restore(big *g, vf_rng *r, size_t n0)
{
    if (!big_dead && g->num > n0 + 8) { b_setn(g, r, n0, vf_chance(r, 1, 2)); }
}
static void b_make_spare(big *g, vf_rng *r, size_t slots)
{
    seq *s = g->h;
    if (big_dead || L_mem(s) - L_num(s) >= slots) { return; }
    if (!s->is_buf || !g->fixed) { b_setm(g, g->num + slots); }
    else if (L_mem(s) >= slots) { b_setn(g, r, L_mem(s) - slots, 1); }
}

/* permutation check of sort: the model ids are ordered by (key, element bytes); the library is already ordered by key, so only
   its runs of equal keys are ordered by element bytes; then both sides must agree position by position */
static big const *ord_g;
static unsigned char const *ord_base;
static int ord_cmp_id(void const *l, void const *r)
{
    uint32_t const a = *(uint32_t const *)l, b = *(uint32_t const *)r;
    uint32_t const ka = b_key(ord_g, a), kb = b_key(ord_g, b);
    if (ka != kb) { return ka < kb ? -1 : 1; }
    if (ord_g->siz <= 4 || a == b) { return 0; } /* the key is the whole element / same id */
    {
        unsigned char ta[BIGSZ], tb[BIGSZ];
        b_render(ord_g, a, ta);
        b_render(ord_g, b, tb);
        return memcmp(ta, tb, ord_g->siz);
    }
}
static int ord_cmp_lib(void const *l, void const *r)
{
    uint32_t const a = *(uint32_t const *)l, b = *(uint32_t const *)r;
    return memcmp(ord_base + (size_t)a * ord_g->siz, ord_base + (size_t)b * ord_g->siz, ord_g->siz);
}

static void b_sort(big *g)
{
    seq *s = g->h;
    size_t n = g->num, z = g->siz;
    unsigned char *p;
    uint32_t *li, *mi, *nid;
    if (big_dead) { return; }
    g_siz = z;
    g_K = g->K;
    opname = "sort";
    vf_log("L %s sort (num %zu mem %zu)", KN, n, L_mem(s));
    if (s->is_buf) { a_buf_sort(s->b, cmp_big); } else { a_vec_sort(s->v, cmp_big); }
    ++vf.evals;
    VF_COUNT("large-sort-sorted-permutation");
    if (L_num(s) != n) { BFAIL("count", "count changed from %zu to %zu", n, L_num(s)); return; }
    p = L_ptr(s);
    for (size_t k = 1; k < n; ++k)
    {
        if (memcmp(p + (k - 1) * z, p + k * z, g->K) > 0) { BFAIL("not-sorted", "elements %zu and %zu of %zu are out of order", k - 1, k, n); return; }
    }
    li = (uint32_t *)malloc((n ? n : 1) * sizeof(uint32_t));
    mi = (uint32_t *)malloc((n ? n : 1) * sizeof(uint32_t));
    nid = (uint32_t *)malloc((n ? n : 1) * sizeof(uint32_t));
    memcpy(mi, g->id, n * sizeof(uint32_t));
    for (size_t k = 0; k < n; ++k) { li[k] = (uint32_t)k; }
    ord_g = g;
    ord_base = p;
    qsort(mi, n, sizeof(uint32_t), ord_cmp_id);
    if (z > 4)
    {
        for (size_t a = 0; a < n;)
        {
            size_t b = a + 1;
            while (b < n && memcmp(p + a * z, p + b * z, g->K) == 0) { ++b; }
            if (b - a > 1) { qsort(li + a, b - a, sizeof(uint32_t), ord_cmp_lib); }
            a = b;
        }
    }
    for (size_t k = 0; k < n; ++k)
    {
        if (!b_eq(g, p + (size_t)li[k] * z, mi[k]))
        {
            BFAIL("element-lost", "sorted contents are not a permutation of the %zu model elements (rank %zu differs)", n, k);
            break;
        }
        nid[li[k]] = mi[k];
    }
    if (!big_dead) { memcpy(g->id, nid, n * sizeof(uint32_t)); }
    free(li);
    free(mi);
    free(nid);
    g->sorted = 1;
    b_check(g);
    bcell(opname, g, 0);
}

static int bm_present(big const *g, uint32_t key)
{
    size_t lo = 0, hi = g->num;
    while (lo < hi)
    {
        size_t mid = lo + (hi - lo) / 2;
        if (b_key(g, g->id[mid]) < key) { lo = mid + 1; } else { hi = mid; }
    }
    return lo < g->num && b_key(g, g->id[lo]) == key;
}

static void b_search(big *g, vf_rng *r, int probes)
{
    seq *s = g->h;
    size_t z = g->siz;
    if (big_dead || !g->sorted) { return; }
    g_K = g->K;
    opname = "search";
    vf_log("L %s search x%d (num %zu)", KN, probes, g->num);
    for (int i = 0; i < probes && !big_dead; ++i)
    {
        int cls = (int)vf_below(r, 6), present;
        uint32_t id = cls == 0 ? 0 : cls == 1 ? 0xFFFFFFFFu : (cls < 4 && g->num) ? g->id[vf_below(r, g->num)] : (uint32_t)vf_u64(r);
        unsigned char *key = (unsigned char *)malloc(z); /* exact size */
        void *p;
        if (cls == 2 && g->num) { id = g->id[vf_chance(r, 1, 2) ? 0 : g->num - 1]; }
        b_write(g, key, id);
        present = bm_present(g, b_key(g, id));
        p = s->is_buf ? a_buf_search(s->b, key, cmp_big) : a_vec_search(s->v, key, cmp_big);
        ++vf.evals;
        VF_COUNT("large-search-finds-iff-present");
        if (present != (p != NULL)) { BFAIL("found-iff-present", "key %08x present=%d but search returned %p (num %zu)", id & g->kmask, present, p, g->num); }
        else if (p)
        {
            unsigned char *b = L_ptr(s), *q = (unsigned char *)p;
            if (q < b || q >= b + g->num * z || (size_t)(q - b) % z || memcmp(q, key, g->K) != 0)
            {
                BFAIL("wrong-element", "search returned a pointer that is not a live element with that key");
            }
        }
        free(key);
        bcell(opname, g, present);
    }
}

/* variant 0: push_fore + sort_fore, 1: push_back + sort_back, 2: push_sort; key class 0 min, 1 max, 2 equal to a present key, 3 random */
static void b_sorted_insert(big *g, vf_rng *r, int variant, int want_full, int kcls)
{
    seq *s = g->h;
    size_t z = g->siz, n0, f, nstart;
    uint32_t id, low;
    unsigned char *base;
    void *p;
    int full;
    if (big_dead || !g->sorted) { return; }
    nstart = g->num;
    /* the capacity state AFTER the raw push selects the implementation path of sort_fore / sort_back */
    if (variant == 2) { if (want_full) { b_make_full(g, r); } else { b_make_spare(g, r, 1); } }
    else if (want_full) { b_make_full(g, r); if (g->num) { b_pull(g, 0, 0, 0); } }
    else { b_make_spare(g, r, 2); }
    if (big_dead) { return; }
    low = (uint32_t)vf_u64(r) & ~g->kmask;
    id = kcls == 0 ? low : kcls == 1 ? (g->kmask | low) : (kcls == 2 && g->num) ? ((g->id[vf_below(r, g->num)] & g->kmask) | low) : (uint32_t)vf_u64(r);
    n0 = g->num;
    g_siz = z;
    g_K = g->K;
    if (s->is_buf && L_num(s) >= L_mem(s))
    {
        unsigned char *key;
        if (variant != 2) { return; }
        opname = "push_sort";
        key = (unsigned char *)malloc(z);
        b_write(g, key, id);
        vf_log("L %s push_sort key %08x on a full buffer (num %zu mem %zu)", KN, id & g->kmask, n0, L_mem(s));
        p = a_buf_push_sort(s->b, key, cmp_big);
        free(key);
        ++vf.evals;
        VF_COUNT("large-buf-refuses-when-full");
        if (p) { BFAIL("accepted-although-full", "push_sort returned non-null with num == mem == %zu", n0); return; }
        b_check(g);
        b_restore(g, r, nstart);
        return;
    }
    if (variant == 0)
    {
        opname = "sort_fore";
        p = L_push_fore(s);
        if (!p) { BFAIL("unexpected-null", "push_fore failed"); return; }
        b_write(g, p, id);
        full = L_num(s) == L_mem(s);
        vf_log("L %s push_fore key %08x + sort_fore (num %zu mem %zu, %s path)", KN, id & g->kmask, L_num(s), L_mem(s), full ? "full" : "spare");
        if (s->is_buf) { a_buf_sort_fore(s->b, cmp_big); } else { a_vec_sort_fore(s->v, cmp_big); }
        if (full) { VF_COUNT("large-sort_fore-path-full"); } else { VF_COUNT("large-sort_fore-path-spare"); }
    }
    else if (variant == 1)
    {
        opname = "sort_back";
        p = L_push_back(s);
        if (!p) { BFAIL("unexpected-null", "push_back failed"); return; }
        b_write(g, p, id);
        full = L_num(s) == L_mem(s);
        vf_log("L %s push_back key %08x + sort_back (num %zu mem %zu, %s path)", KN, id & g->kmask, L_num(s), L_mem(s), full ? "full" : "spare");
        if (s->is_buf) { a_buf_sort_back(s->b, cmp_big); } else { a_vec_sort_back(s->v, cmp_big); }
        if (full) { VF_COUNT("large-sort_back-path-full"); } else { VF_COUNT("large-sort_back-path-spare"); }
    }
    else
    {
        unsigned char *key = (unsigned char *)malloc(z);
        opname = "push_sort";
        b_write(g, key, id);
        full = L_num(s) == L_mem(s);
        vf_log("L %s push_sort key %08x (num %zu mem %zu)", KN, id & g->kmask, L_num(s), L_mem(s));
        g_key_ptr = key; g_key_left = 0;
        p = s->is_buf ? a_buf_push_sort(s->b, key, cmp_big) : a_vec_push_sort(s->v, key, cmp_big);
        g_key_ptr = NULL;
        free(key);
        if (g_key_left) { BFAIL("comparator-key-on-the-left", "%d comparator calls had the key as the left operand (documented: the key on the right)", g_key_left); return; }
        if (!p) { BFAIL("unexpected-null", "push_sort failed with num %zu mem %zu", n0, L_mem(s)); return; }
        if (!b_owned(g, p, "push_sort slot")) { return; }
        b_write(g, p, id);
        VF_COUNT("large-push_sort");
    }
    ++vf.evals;
    VF_COUNT("large-sorted-insert-keeps-order-and-elements");
    if (L_num(s) != n0 + 1) { BFAIL("count", "count %zu after sorted insert into %zu", L_num(s), n0); return; }
    if (L_siz(s) != z || L_num(s) > L_mem(s)) { BFAIL("count-exceeds-capacity", "num %zu mem %zu siz %zu", L_num(s), L_mem(s), L_siz(s)); return; }
    /* the result must be the old sequence with the new element at one position; if such a position exists, the first index
       where the library differs from the old sequence is one (elements before it that equal the new one are identical to it) */
    base = L_ptr(s);
    f = b_first_diff(g, base, g->id, n0);
    if (!b_eq(g, base + f * z, id)) { BFAIL("element-lost-or-reordered", "position %zu of %zu holds neither the old element nor the new one", f, n0 + 1); return; }
    {
        size_t const i = f + b_first_diff(g, base + (f + 1) * z, g->id + f, n0 - f);
        if (i < n0) { BFAIL("element-lost-or-reordered", "new element at %zu, but position %zu of %zu is not old element %zu", f, i + 1, n0 + 1, i); return; }
    }
    if ((f > 0 && b_key(g, g->id[f - 1]) > b_key(g, id)) || (f < n0 && b_key(g, id) > b_key(g, g->id[f])))
    {
        BFAIL("not-sorted", "new key %08x placed at %zu of %zu out of order", id & g->kmask, f, n0 + 1);
        return;
    }
    bm_insert(g, f, &id, 1);
    VF_COUNT("large-state-compared-with-model");
    VF_ADD("large-elements-compared", n0 + 1);
    if (n0 + 1 >= 65536) { VF_COUNT("large-count-ge-65536-compared"); }
    bcell(opname, g, kcls + 4 * full);
    b_restore(g, r, nstart);
}

static void b_access(big *g, vf_rng *r)
{
    seq *s = g->h;
    unsigned char *b = L_ptr(s);
    size_t n = g->num, m = L_mem(s), z = g->siz;
    size_t const idxs[] = {0, n ? n - 1 : 0, n, m ? m - 1 : 0, m, m + 1, 255, 256, 4095, 4096, 65535, 65536, 65537, (size_t)vf_below(r, m + 2), SIZE_MAX};
    ptrdiff_t const difs[] = {-1, -(ptrdiff_t)n, -(ptrdiff_t)n - 1, (ptrdiff_t)n - 1, (ptrdiff_t)m, (ptrdiff_t)m - 1, -(ptrdiff_t)vf_below(r, n + 1), 65535, 65536, -65536, -65537};
    void *p;
    if (big_dead) { return; }
    opname = "access";
    vf_log("L %s accessors (num %zu mem %zu)", KN, n, m);
    ++vf.evals;
    VF_COUNT("large-accessors");
    for (size_t i = 0; i < sizeof(idxs) / sizeof(idxs[0]); ++i)
    {
        size_t idx = idxs[i];
        p = s->is_buf ? a_buf_at(s->b, idx) : a_vec_at(s->v, idx);
        if (idx < m ? p != b + idx * z : p != NULL) { BFAIL("at", "at(%zu) = %p with mem %zu base %p", idx, p, m, (void *)b); return; }
    }
    for (size_t i = 0; i < sizeof(difs) / sizeof(difs[0]); ++i)
    {
        ptrdiff_t di = difs[i];
        size_t eff = di >= 0 ? (size_t)di : (size_t)di + n;
        p = s->is_buf ? a_buf_of(s->b, di) : a_vec_of(s->v, di);
        if (eff < m ? p != b + eff * z : p != NULL) { BFAIL("of", "of(%td) = %p with num %zu mem %zu", di, p, n, m); return; }
    }
    p = s->is_buf ? a_buf_top(s->b) : a_vec_top(s->v);
    if (n ? p != b + (n - 1) * z : p != NULL) { BFAIL("top", "top = %p with num %zu", p, n); return; }
    p = s->is_buf ? a_buf_end(s->b) : a_vec_end(s->v);
    if (b ? p != b + n * z : p != NULL) { BFAIL("end", "end = %p with num %zu", p, n); return; }
    if (z == 8)
    {
        size_t cnt = 0;
        if (s->is_buf) { a_buf_foreach(uint64_t, *, it, s->b) { if ((unsigned char *)it != b + cnt * 8) { break; } ++cnt; } }
        else { a_vec_foreach(uint64_t, *, it, s->v) { if ((unsigned char *)it != b + cnt * 8) { break; } ++cnt; } }
        if (cnt != n) { BFAIL("foreach", "foreach visited %zu of %zu in order", cnt, n); return; }
        cnt = 0;
        if (s->is_buf) { a_buf_foreach_reverse(uint64_t, *, it, s->b) { if ((unsigned char *)it != b + (n - 1 - cnt) * 8) { break; } ++cnt; } }
        else { a_vec_foreach_reverse(uint64_t, *, it, s->v) { if ((unsigned char *)it != b + (n - 1 - cnt) * 8) { break; } ++cnt; } }
        if (cnt != n) { BFAIL("foreach_reverse", "visited %zu of %zu in order", cnt, n); return; }
    }
    bcell(opname, g, 0);
}

/* whole-vector swap: the handles stay, contents and models change sides */
static void b_swap(big *a, big *b)
{
    big t;
    seq *ha = a->h, *hb = b->h;
    if (big_dead) { return; }
    opname = "swap";
    vf_log("L vec swap (num %zu siz %zu <-> num %zu siz %zu)", a->num, a->siz, b->num, b->siz);
    a_vec_swap(ha->v, hb->v);
    ++vf.evals;
    VF_COUNT("large-vec-swap-large-with-small");
    t = *a;
    *a = *b;
    *b = t;
    a->h = ha;
    b->h = hb;
    b_check(a);
    b_check(b);
    bcell(opname, a, 0);
}

static void b_new(big *g, seq *h, int is_buf, size_t siz, size_t cap, int by_ctor, int fixed, uint32_t kmask)
{
    memset(g, 0, sizeof(*g));
    memset(h, 0, sizeof(*h));
    g->h = h;
    g->siz = siz;
    g->K = siz < 4 ? siz : 4;
    g->kmask = kmask;
    g->sorted = 1;
    g->fixed = fixed;
    h->is_buf = is_buf;
    h->siz = siz;
    h->by_ctor = by_ctor;
    opname = "new";
    if (is_buf && by_ctor)
    {
        vf_log("L a_buf_ctor(storage of %zu bytes, %zu, %zu)", sizeof(a_buf) + siz * cap, siz, cap);
        h->b = (a_buf *)malloc(sizeof(a_buf) + siz * cap); /* exact size: header + payload */
        a_buf_ctor(h->b, siz, cap);
    }
    else if (is_buf)
    {
        vf_log("L a_buf_new(%zu, %zu)", siz, cap);
        h->b = a_buf_new(siz, cap);
        if (!h->b) { BFAIL("unexpected-null", "a_buf_new(%zu, %zu) failed", siz, cap); return; }
    }
    else if (by_ctor)
    {
        vf_log("L a_vec_ctor(%zu)", siz);
        h->v = (a_vec *)malloc(sizeof(a_vec));
        memset(h->v, 0xA5, sizeof(a_vec));
        a_vec_ctor(h->v, siz);
    }
    else
    {
        vf_log("L a_vec_new(%zu)", siz);
        h->v = a_vec_new(siz);
        if (!h->v) { BFAIL("unexpected-null", "a_vec_new(%zu) failed", siz); return; }
    }
    if (is_buf && a_buf_mem(h->b) != cap) { BFAIL("capacity", "mem %zu after construction with %zu", a_buf_mem(h->b), cap); return; }
    b_check(g);
}

static void b_die(big *g, vf_rng *r)
{
    seq *s = g->h;
    if (!s) { return; }
    if (!big_dead && (s->v || s->b))
    {
        size_t num = g->num;
        g_siz = g->siz;
        opname = "die";
        vf_log("L %s %s (num %zu mem %zu)", KN, s->by_ctor ? "dtor" : "die", num, L_mem(s));
        dt_arm(g, num ? num - 1 : 0, -1, num);
        if (s->by_ctor && s->is_buf) { a_buf_dtor(s->b, b_dtor); }
        else if (s->by_ctor) { a_vec_dtor(s->v, b_dtor); }
        else if (s->is_buf) { a_buf_die(s->b, b_dtor); }
        else { a_vec_die(s->v, b_dtor); }
        ++vf.evals;
        VF_COUNT("large-die-destroys-each-element-once");
        dt_judge(g, "die");
        g->num = 0;
        if (s->by_ctor && !s->is_buf && !big_dead)
        {
            /* exit / re-use of the same object: construct again with another element size, fill in bulk, destroy */
            size_t nz = g->siz == 8 ? 3 : 8, cnt = 257 + (size_t)vf_below(r, 4000);
            if (a_vec_ptr(s->v) || a_vec_num(s->v) || a_vec_mem(s->v)) { BFAIL("object-not-empty", "ptr %p num %zu mem %zu after a_vec_dtor", a_vec_ptr(s->v), a_vec_num(s->v), a_vec_mem(s->v)); }
            vf_log("L a_vec_ctor(%zu) on the destroyed object", nz);
            a_vec_ctor(s->v, nz);
            g->siz = s->siz = nz;
            g->K = nz < 4 ? nz : 4;
            g->sorted = 1;
            b_store(g, r, 0, cnt, 0);
            b_store(g, r, cnt / 2, 300, 1);
            VF_COUNT("large-exit-and-reuse");
            if (!big_dead)
            {
                opname = "die";
                dt_arm(g, g->num - 1, -1, g->num);
                a_vec_dtor(s->v, b_dtor);
                dt_judge(g, "dtor after re-use");
            }
        }
        if (s->by_ctor && !big_dead) { free(s->is_buf ? (void *)s->b : (void *)s->v); }
    }
    free(g->id);
    g->id = NULL;
    s->v = NULL;
    s->b = NULL;
}

/* setz: empties, keeps the byte capacity, changes the element size (re-use of a large block) */
static void b_setz(big *g, size_t nz, int with_dtor)
{
    seq *s = g->h;
    size_t bytes = L_mem(s) * g->siz, num = g->num;
    if (big_dead) { return; }
    g_siz = g->siz;
    opname = "setz";
    vf_log("L %s setz %zu dtor=%d (num %zu mem %zu siz %zu)", KN, nz, with_dtor, num, L_mem(s), g->siz);
    dt_arm(g, num ? num - 1 : 0, -1, with_dtor ? num : 0);
    if (s->is_buf) { a_buf_setz(s->b, nz, with_dtor ? b_dtor : NULL); }
    else { a_vec_setz(s->v, nz, with_dtor ? b_dtor : NULL); }
    ++vf.evals;
    if (with_dtor) { dt_judge(g, "setz"); }
    g->siz = s->siz = nz;
    g->K = nz < 4 ? nz : 4;
    g->num = 0;
    g->sorted = 1;
    VF_COUNT("large-setz-reuse");
    if (L_mem(s) != bytes / nz) { BFAIL("capacity", "mem %zu after setz(%zu) of %zu bytes", L_mem(s), nz, bytes); return; }
    b_check(g);
    bcell(opname, g, with_dtor);
}

/* ---- the scenario */
static size_t b_store_count(vf_rng *r, size_t limit)
{
    static size_t const cn[] = {1, 2, 255, 256, 257, 4095, 4096, 4097};
    size_t n = vf_chance(r, 1, 3) ? (size_t)vf_below(r, 700) : cn[vf_below(r, 8)];
    return n > limit ? limit : n;
}

/* move the count to `target` with cheaply checked single operations (growth) or one bulk removal (shrink) */
static void b_run_to(big *g, vf_rng *r, size_t target)
{
    seq *s = g->h;
    if (big_dead) { return; }
    if (s->is_buf && g->fixed && target > L_mem(s)) { target = L_mem(s); }
    if (g->num > target)
    {
        size_t cut = g->num - target;
        switch ((int)vf_below(r, 4))
        {
        case 0: b_erase(g, (size_t)vf_below(r, target + 1), cut, vf_chance(r, 1, 2)); break;
        case 1: b_setn(g, r, target, vf_chance(r, 1, 2)); break;
        case 2: b_erase(g, target, SIZE_MAX, vf_chance(r, 1, 2)); break;
        default: b_erase(g, 0, cut, vf_chance(r, 1, 2)); break;
        }
        return;
    }
    if (g->num == target) { return; }
    if (s->is_buf && !g->fixed && L_mem(s) < target) { b_setm(g, target); }
    vf_log("L %s run: push_back (1/128 push_fore / insert / remove / pull_back) from num %zu to %zu, O(1) clauses per call", KN, g->num, target);
    g->sorted = 0;
    while (g->num < target && !big_dead)
    {
        unsigned x = (unsigned)vf_below(r, 512);
        uint32_t id = (uint32_t)vf_u64(r);
        if (x >= 4 || (s->is_buf && g->num >= L_mem(s))) { b_push(g, 0, 0, id, 0); }
        else if (x == 0) { b_push(g, 1, 0, id, 0); }
        else if (x == 1) { b_push(g, 2, (size_t)vf_below(r, g->num + 1), id, 0); }
        else if (x == 2) { b_pull(g, 2, (size_t)vf_below(r, g->num + 1), 0); }
        else { b_pull(g, vf_chance(r, 1, 2), 0, 0); }
    }
    g->sorted = 0;
}

/* refusal of an exactly full buffer, state unchanged */
static void b_refusals(big *g, vf_rng *r)
{
    if (big_dead || !g->h->is_buf) { return; }
    b_make_full(g, r);
    b_push(g, 0, 0, 1, 0);
    b_push(g, 1, 0, 2, 0);
    b_push(g, 2, g->num / 2, 3, 0);
    b_push(g, 2, SIZE_MAX, 4, 1);
    b_store(g, r, g->num / 2, vf_chance(r, 1, 2) ? 1 : 300, vf_chance(r, 1, 2));
    if (g->sorted) { b_sorted_insert(g, r, 2, 1, 3); }
}

#define B_NOPS 30
static void b_battery_op(big *g, vf_rng *r, int op)
{
    seq *s = g->h;
    size_t n = g->num, near_end = n > 40 ? n - 1 - (size_t)vf_below(r, 40) : 0;
    uint32_t id = (uint32_t)vf_u64(r);
    if (big_dead) { return; }
    switch (op)
    {
    case 0: b_make_spare(g, r, 1); b_push(g, 2, 0, id, 1); break;
    case 1: b_make_spare(g, r, 1); b_push(g, 2, n / 2, id, 1); break;
    case 2: b_make_spare(g, r, 1); b_push(g, 2, n ? n - 1 : 0, id, 1); break;
    case 3: b_make_spare(g, r, 1); b_push(g, 2, vf_chance(r, 1, 2) ? n : SIZE_MAX, id, 1); break;
    case 4: b_make_spare(g, r, 1); b_push(g, 2, near_end, id, 1); break;
    case 5: b_make_full(g, r); b_push(g, 2, vf_chance(r, 1, 2) ? g->num - 1 : (size_t)vf_below(r, g->num + 1), id, 1); b_restore(g, r, n); break; /* vec: insert forces growth */
    case 6: b_make_spare(g, r, 1); b_pull(g, 2, 0, 1); break;
    case 7: b_make_spare(g, r, 1); b_pull(g, 2, n / 2, 1); break;
    case 8: b_make_spare(g, r, 1); b_pull(g, 2, n > 1 ? n - 2 : 0, 1); break;
    case 9: b_make_spare(g, r, 1); b_pull(g, 2, near_end, 1); break;
    case 10: b_pull(g, 2, vf_chance(r, 1, 2) ? n - 1 : vf_chance(r, 1, 2) ? n : SIZE_MAX, 1); break;
    case 11: b_make_full(g, r); b_pull(g, 2, 0, 1); b_restore(g, r, n); break;
    case 12: b_make_full(g, r); b_pull(g, 2, (size_t)vf_below(r, g->num + 1), 1); b_restore(g, r, n); break;
    case 13: b_make_full(g, r); b_pull(g, 2, g->num > 1 ? g->num - 2 : 0, 1); b_restore(g, r, n); break;
    case 14: b_make_full(g, r); b_pull(g, 2, g->num > 40 ? g->num - 1 - (size_t)vf_below(r, 40) : 0, 1); b_restore(g, r, n); break;
    case 15: case 16:
    {
        static int const ic[] = {0, 1, 2, 3, 4, 5};
        int c = ic[vf_below(r, 6)];
        size_t cnt = b_store_count(r, n / 2 + 8);
        size_t idx = c == 0 ? 0 : c == 1 ? n / 2 : c == 2 ? (n ? n - 1 : 0) : c == 3 ? n : c == 4 ? SIZE_MAX : near_end;
        if (s->is_buf) { b_make_spare(g, r, cnt); n = g->num; if (idx != SIZE_MAX && idx > n) { idx = n; } }
        b_store(g, r, idx, cnt, op == 16);
        break;
    }
    case 17: b_erase(g, n / 3, b_store_count(r, n / 3), vf_chance(r, 1, 2)); break;                 /* chunk in the middle */
    case 18: b_erase(g, 0, b_store_count(r, n / 3), vf_chance(r, 1, 2)); break;                     /* chunk at the front */
    case 19: b_erase(g, near_end, 41 + (size_t)vf_below(r, 300), vf_chance(r, 1, 2)); break;        /* clipped at the end */
    case 20: b_erase(g, vf_chance(r, 1, 2) ? near_end : n, SIZE_MAX - (size_t)vf_below(r, 2), vf_chance(r, 1, 2)); break; /* sentinel count / idx == num */
    case 21: b_erase(g, near_end, 1, 1); break;
    case 22:
    {
        size_t keep = vf_chance(r, 1, 2) ? n - (size_t)vf_below(r, (n < 300 ? n : 300) + 1) : n / 2 + (size_t)vf_below(r, n / 2 + 1);
        b_setn(g, r, keep, vf_chance(r, 2, 3));
        b_setn(g, r, n + (size_t)vf_below(r, 40), 0);
        VF_COUNT("large-setn-shrink-regrow");
        break;
    }
    case 23: if (!g->fixed) { b_setm(g, g->num + (size_t)vf_below(r, g->num / 4 + 2)); } break;
    case 24:
    {
        int probes = 6 + (int)vf_below(r, 10);
        b_sort(g);
        b_search(g, r, probes);
        for (int i = 0, k = 2 + (int)vf_below(r, 3); i < k; ++i) { b_sorted_insert(g, r, (int)vf_below(r, 3), (int)vf_below(r, 2), (int)vf_below(r, 4)); }
        b_search(g, r, 4);
        break;
    }
    case 25:
        if (!g->sorted) { b_sort(g); }
        for (int v = 0; v < 3; ++v) { b_sorted_insert(g, r, v, (int)vf_below(r, 2), (int)vf_below(r, 2)); } /* smallest / largest key */
        break;
    case 26: b_access(g, r); break;
    case 27:
        if (!s->is_buf && G[1].h && G[1].h->v)
        {
            /* the large contents move to the other handle, are worked on there, and come back */
            b_swap(&G[0], &G[1]);
            b_push(&G[1], 0, 0, id, 1);
            b_pull(&G[1], 2, G[1].num / 2, 1);
            b_push(&G[0], 0, 0, id ^ 1, 1);
            b_swap(&G[0], &G[1]);
        }
        break;
    case 28: b_refusals(g, r); b_restore(g, r, n); break;
    default:
        b_pull(g, 1, 0, 1);
        b_push(g, 1, 0, id, 1);
        b_pull(g, 0, 0, 1);
        b_push(g, 0, 0, id ^ 2, 1);
        break;
    }
}

/* `floor`: the count is topped up to it before each operation, so that every operation of a station runs at that station's size */
static void b_battery(big *g, vf_rng *r, int nops, size_t floor)
{
    int order[B_NOPS];
    for (int i = 0; i < B_NOPS; ++i) { order[i] = i; }
    for (int i = B_NOPS - 1; i > 0; --i)
    {
        int j = (int)vf_below(r, (uint64_t)i + 1), t = order[i];
        order[i] = order[j];
        order[j] = t;
    }
    if (nops > B_NOPS) { nops = B_NOPS; }
    /* the two operations that raise the capacity of a vector run last, so that the ones needing the exactly-full state come first */
    for (int pass = 0; pass < 2; ++pass)
    {
        for (int i = 0; i < nops && !big_dead; ++i)
        {
            if ((order[i] == 5 || order[i] == 23) != pass) { continue; }
            if (g->num < floor) { b_run_to(g, r, floor + (size_t)vf_below(r, 8)); }
            b_battery_op(g, r, order[i]);
        }
    }
}

/* largest power of two driven: bounded by the bytes a complete comparison has to look at */
static int large_kmax(int tier, size_t siz, vf_rng *r)
{
    if (tier) { return (siz <= 2 && vf_chance(r, 1, 6)) ? 17 : 16; }
    return siz <= 4 ? 16 : siz <= 8 ? 15 : siz <= 16 ? 14 : 13;
}

static void large_case(uint64_t c, vf_rng *r)
{
    static size_t const sizes[] = {1, 2, 4, 8, 1, 2, 4, 3, 7, 8, 12, 16, 24, 33};
    static uint32_t const masks[] = {0xFFFFFFFFu, 0xFFFFFFFFu, 0xFFFFF000u, 0xFFF00000u};
    int const tier = vf.tier, is_buf = (int)(c & 1);
    size_t const siz = sizes[vf_below(r, sizeof(sizes) / sizeof(sizes[0]))];
    uint32_t const kmask = masks[vf_below(r, 4)];
    int const kmax = large_kmax(tier, siz, r), by_ctor = (int)vf_below(r, 2);
    int const fixed = is_buf ? (by_ctor || vf_chance(r, 1, 3)) : 0;
    size_t const top = ((size_t)1 << kmax) + 3 + (size_t)vf_below(r, 60);
    int const nops_station = tier ? 14 : 7;
    big *g = &G[0];
    uint32_t mark;

    KN = is_buf ? "buf" : "vec";
    big_dead = 0;
    memset(G, 0, sizeof(G));
    if (!large_sampled)
    {
        /* one sample of this case class per worker, kept in the second slot if the small histories already filled the list */
        int const keep = vf.nsamples;
        large_sampled = 1;
        if (keep >= 2) { vf.nsamples = 1; }
        vf_sample("large history %" PRIu64 ": one %s of element size %zu%s driven through 2^8 .. 2^%d (+-3) elements and back down, complete comparison with an id model at every size within 3 of a power of two and after each of the structural operations run at each station, up to %zu elements",
                  c, is_buf ? "a_buf" : "a_vec", siz, fixed ? " (fixed capacity)" : "", kmax, top);
        if (keep >= 2) { vf.nsamples = keep; }
    }
    b_new(g, &S[0], is_buf, siz, fixed ? top + (size_t)vf_below(r, 50) : (size_t)vf_below(r, 41), by_ctor, fixed, kmask);
    if (!is_buf && !big_dead)
    {
        /* the small partner for the whole-vector swap */
        static size_t const ps[] = {1, 4, 8, 24};
        b_new(&G[1], &S[1], 0, ps[vf_below(r, 4)], 0, (int)vf_below(r, 2), 0, 0xFFFFFFFFu);
        for (int i = 0, k = (int)vf_below(r, 20); i < k; ++i) { b_push(&G[1], 0, 0, (uint32_t)vf_u64(r), 0); }
        b_check(&G[1]);
    }
    mark = vf_log_mark();

    /* ---- up: every power of two */
    for (int k = 8; k <= kmax && !big_dead; ++k)
    {
        size_t const P = (size_t)1 << k;
        if (vf.jr->text_len > 40000) { vf_log_rewind(mark); vf_log("L (earlier stations dropped from the log)"); }
        vf_log("L station 2^%d", k);
        b_run_to(g, r, P - 3);
        b_check(g);
        for (int i = 0; i < 5 && !big_dead; ++i) /* counts 2^k-2 .. 2^k+2 */
        {
            if (is_buf && !fixed)
            {
                /* the growable buffer is made exactly full at 2^k-3 .. 2^k+1: it must refuse, then it gets one more slot */
                b_setm(g, g->num);
                b_push(g, 0, 0, 5, 0);
                b_push(g, 2, g->num / 2, 6, 0);
                b_store(g, r, vf_chance(r, 1, 2) ? 0 : g->num, 1, 0);
                b_setm(g, g->num + 1);
            }
            b_push(g, 0, 0, (uint32_t)vf_u64(r), 1);
            VF_COUNT("large-pow2-checkpoint");
        }
        b_battery(g, r, k == kmax ? B_NOPS : nops_station, P + 2);
    }
    /* ---- a random large size (not near a power of two) */
    if (!big_dead && (tier || vf_chance(r, 1, 2)))
    {
        size_t const P = (size_t)1 << kmax;
        size_t const n = P + P / 16 + (size_t)vf_below(r, tier ? P / 2 : P / 8);
        vf_log("L random size %zu", n);
        b_run_to(g, r, n);
        b_check(g);
        VF_COUNT("large-random-size-checkpoint");
        b_battery(g, r, tier ? B_NOPS : 10, n);
    }
    /* ---- down: through the powers of two again */
    for (int k = kmax; k >= 8 && !big_dead; --k)
    {
        size_t const P = (size_t)1 << k;
        if (!tier && k != kmax && vf_chance(r, 1, 2)) { continue; }
        if (g->num < P + 3) { continue; }
        if (vf.jr->text_len > 40000) { vf_log_rewind(mark); vf_log("L (earlier stations dropped from the log)"); }
        vf_log("L station 2^%d on the way down", k);
        b_run_to(g, r, P + 3);
        for (int i = 0; i < 6 && !big_dead; ++i)
        {
            size_t const n = g->num;
            switch ((int)vf_below(r, 6))
            {
            case 0: b_pull(g, 0, 0, 1); break;
            case 1: b_pull(g, 1, 0, 1); break;
            case 2: b_pull(g, 2, n / 2, 1); break;
            case 3: b_pull(g, 2, n - 2, 1); break;
            case 4: b_erase(g, (size_t)vf_below(r, n), 1, 1); break;
            default: b_setn(g, r, n - 1, 1); break;
            }
            VF_COUNT("large-pow2-checkpoint-down");
        }
        if (tier || vf_chance(r, 1, 3)) { b_battery(g, r, 4, P - 3); }
    }
    /* ---- re-use of the block with another element size, bulk refill */
    if (!big_dead)
    {
        static size_t const zs[] = {1, 2, 3, 4, 7, 8, 12, 16, 24, 33};
        size_t const nz = zs[vf_below(r, 10)];
        b_setz(g, nz, vf_chance(r, 1, 2));
        for (int i = 0; i < 4 && !big_dead; ++i)
        {
            size_t room = is_buf ? L_mem(g->h) - g->num : 5000, cnt = b_store_count(r, room);
            b_store(g, r, vf_chance(r, 1, 2) ? g->num / 2 : SIZE_MAX, cnt, (int)vf_below(r, 2));
        }
        b_battery_op(g, r, 24);
    }
    b_die(&G[0], r);
    if (!is_buf) { b_die(&G[1], r); }
}

/* =====================================================================================================
 * WIDE-ELEMENT case class (cases with c % WIDE_MOD == WIDE_RES).  Motivated by seeded change C04-I.
 *
 * The element width is an input of every operation (the library moves, copies and rotates elements it knows only by their
 * size), and the two other case classes stop at 33 bytes.  Here the width is far beyond any plausible internal scratch area or
 * block size: 100 .. 70001 bytes, every power of two 2^10 .. 2^16 with its neighbours, and random widths.  For one width, three
 * containers in turn - a_buf from a_buf_new, a_buf constructed in an exact-size caller block, a_vec (new or ctor) - hold about
 * a dozen elements and run a random history of push_back / push_fore / insert / pull_back / pull_fore / remove / store / erase
 * (vector: whole-vector swap with a partner of another width, worked on under the other handle, swapped back).  Before every
 * removal the capacity state is forced (exactly full, num == mem / spare slot): both are separate code paths.  The fixed
 * buffer is created exactly full-sized for its dozen elements, so pushes into it are refused about half of the time.
 * Model of its own: 32-bit ids; EVERY byte of an element is a pseudo-random function of (id, byte position), so a chunk of an
 * element that is moved, repeated, dropped or exchanged with another chunk is seen whatever the chunk size.  After every call:
 * the returned pointer (slot of the new element; removed element owned, on an element boundary, past the live range and
 * byte-for-byte the removed element, as vec.h / buf.h document for remove and pull), element size, count <= capacity, count,
 * and every byte of every remaining element.  Library blocks are exact-size heap blocks (ASan), the store source too.
 * Violation keys: <kind>_<op>/<clause>/wide.
 */
#define WIDE_MOD_QUICK 211
#define WIDE_MOD_THOROUGH 2999
#define WIDE_RES 30 /* no case below 6000 is also a large case */
#define WMAXE 48    /* model capacity (elements) */

typedef struct wide
{
    seq *h;             /* library handle (kind, object pointers); the small array model inside it is not used */
    size_t siz, num;
    uint32_t id[WMAXE]; /* model: one id per element */
    unsigned char *img; /* exact-size scratch: the image of one element */
} wide;

static int wide_sampled;
static int wide_dead; /* a clause failed: the object is not driven further */
static wide W[2];
static seq WS[2];

#define WFAIL(clause, ...)                                                 \
    do {                                                                   \
        char key_[112];                                                    \
        snprintf(key_, sizeof(key_), "%s_%s/%s/wide", KN, opname, clause); \
        vf_viol(key_, __VA_ARGS__);                                        \
        wide_dead = 1;                                                     \
    } while (0)

/* element bytes of an id: byte j is a function of (id, j) */
static void w_render(size_t z, uint32_t id, unsigned char *out)
{
    uint64_t const base = b_mix((uint64_t)id + 0x9E3779B97F4A7C15ULL);
    for (size_t j = 0; j < z; j += 8)
    {
        uint64_t const w = b_mix(base + j);
        memcpy(out + j, &w, z - j < 8 ? z - j : 8);
    }
}
/* offset of the first byte at p that is not the byte of element id, z if none */
static size_t w_diff(wide const *g, unsigned char const *p, uint32_t id)
{
    size_t const z = g->siz;
    size_t k = 0;
    w_render(z, id, g->img);
    if (memcmp(p, g->img, z) == 0) { return z; }
    while (p[k] == g->img[k]) { ++k; }
    return k;
}
static void wcell(char const *op, wide const *g, int cls)
{
    char b[96];
    int lg = 0;
    for (size_t n = g->siz; n > 1; n >>= 1) { ++lg; }
    snprintf(b, sizeof(b), "W|%s|%s|w%d|c%d", KN, op, lg, cls);
    vf_distinct_str(b);
}

/* complete comparison with the model */
static int w_check(wide *g)
{
    seq *s = g->h;
    size_t n, m, z;
    unsigned char *p;
    if (wide_dead) { return 0; }
    VF_COUNT("wide-state-compared-with-model");
    n = L_num(s), m = L_mem(s), z = L_siz(s), p = L_ptr(s);
    if (z != g->siz) { WFAIL("element-size", "library element size %zu, model %zu", z, g->siz); return 0; }
    if (n > m) { WFAIL("count-exceeds-capacity", "num %zu > mem %zu", n, m); return 0; }
    if (n != g->num) { WFAIL("count", "library holds %zu elements, model %zu (element size %zu)", n, g->num, z); return 0; }
    if (n && !p) { WFAIL("null-storage", "num %zu but storage pointer is null", n); return 0; }
    for (size_t i = 0; i < n; ++i)
    {
        size_t const k = w_diff(g, p + i * z, g->id[i]);
        if (k < z)
        {
            WFAIL("contents", "element %zu of %zu differs from the model from byte %zu of %zu on (mem %zu): lib %02x model %02x", i, n, k, z, m, p[i * z + k], g->img[k]);
            return 0;
        }
    }
    VF_ADD("wide-bytes-compared", n * z);
    VF_MAX("wide-max-element-size", (double)z);
    return 1;
}
static int w_owned(wide *g, void *ret, char const *what)
{
    seq *s = g->h;
    unsigned char *p = L_ptr(s), *q = (unsigned char *)ret;
    size_t m = L_mem(s), z = L_siz(s);
    VF_COUNT("wide-returned-pointer-inside-owned-storage");
    if (!p || q < p || q + z > p + m * z || (size_t)(q - p) % z)
    {
        WFAIL("returned-ptr-outside-storage", "%s: pointer %p, storage [%p, %p) element size %zu", what, ret, (void *)p, (void *)(p + m * z), z);
        return 0;
    }
    return 1;
}

/* destructor that verifies which element it is handed */
static struct
{
    wide *g;
    size_t next, calls, expect, bad, bad_call, bad_byte;
    int dir;
} WD;
static void w_dtor(void *p)
{
    if (WD.calls < WD.expect && WD.next < WD.g->num)
    {
        size_t const k = w_diff(WD.g, (unsigned char const *)p, WD.g->id[WD.next]);
        if (k < WD.g->siz)
        {
            if (!WD.bad) { WD.bad_call = WD.calls; WD.bad_byte = k; }
            ++WD.bad;
        }
        WD.next += (size_t)WD.dir;
    }
    ++WD.calls;
}
static void wd_arm(wide *g, size_t first, int dir, size_t expect)
{
    memset(&WD, 0, sizeof(WD));
    WD.g = g;
    WD.next = first;
    WD.dir = dir;
    WD.expect = expect;
}
static void wd_judge(char const *what)
{
    VF_COUNT("wide-destroys-each-dropped-element-once-in-order");
    if (WD.calls != WD.expect) { WFAIL("dtor-call-count", "%s: %zu destructor calls for %zu dropped elements", what, WD.calls, WD.expect); }
    else if (WD.bad) { WFAIL("dtor-wrong-element", "%s: %zu of %zu destructor calls got different bytes (first: call %zu, from byte %zu on)", what, WD.bad, WD.calls, WD.bad_call, WD.bad_byte); }
}

static void w_new(wide *g, seq *h, int is_buf, size_t siz, size_t cap, int by_ctor)
{
    memset(g, 0, sizeof(*g));
    memset(h, 0, sizeof(*h));
    g->h = h;
    g->siz = siz;
    g->img = (unsigned char *)malloc(siz);
    if (!g->img) { fprintf(stderr, "h_seq: out of memory for the wide model\n"); exit(2); }
    h->is_buf = is_buf;
    h->siz = siz;
    h->by_ctor = by_ctor;
    opname = "new";
    if (is_buf && by_ctor)
    {
        vf_log("W a_buf_ctor(storage of %zu bytes, %zu, %zu)", sizeof(a_buf) + siz * cap, siz, cap);
        h->b = (a_buf *)malloc(sizeof(a_buf) + siz * cap); /* exact size: header + payload */
        a_buf_ctor(h->b, siz, cap);
    }
    else if (is_buf)
    {
        vf_log("W a_buf_new(%zu, %zu)", siz, cap);
        h->b = a_buf_new(siz, cap);
        if (!h->b) { WFAIL("unexpected-null", "a_buf_new(%zu, %zu) failed", siz, cap); return; }
    }
    else if (by_ctor)
    {
        vf_log("W a_vec_ctor(%zu)", siz);
        h->v = (a_vec *)malloc(sizeof(a_vec));
        memset(h->v, 0xA5, sizeof(a_vec));
        a_vec_ctor(h->v, siz);
    }
    else
    {
        vf_log("W a_vec_new(%zu)", siz);
        h->v = a_vec_new(siz);
        if (!h->v) { WFAIL("unexpected-null", "a_vec_new(%zu) failed", siz); return; }
    }
    if (is_buf && a_buf_mem(h->b) != cap) { WFAIL("capacity", "mem %zu after construction with %zu", a_buf_mem(h->b), cap); return; }
    w_check(g);
}

static void w_die(wide *g)
{
    seq *s = g->h;
    if (!s) { return; }
    if (!wide_dead && (s->v || s->b))
    {
        size_t const num = g->num;
        opname = "die";
        vf_log("W %s %s (num %zu mem %zu)", KN, s->by_ctor ? "dtor" : "die", num, L_mem(s));
        wd_arm(g, num ? num - 1 : 0, -1, num);
        if (s->by_ctor && s->is_buf) { a_buf_dtor(s->b, w_dtor); }
        else if (s->by_ctor) { a_vec_dtor(s->v, w_dtor); }
        else if (s->is_buf) { a_buf_die(s->b, w_dtor); }
        else { a_vec_die(s->v, w_dtor); }
        ++vf.evals;
        wd_judge("die");
        if (s->by_ctor) { free(s->is_buf ? (void *)s->b : (void *)s->v); }
    }
    else if (s->v || s->b)
    {
        /* after a failed clause: the blocks are released without judging anything (a leak report would only repeat the finding) */
        if (s->by_ctor && s->is_buf) { a_buf_dtor(s->b, NULL); }
        else if (s->by_ctor) { a_vec_dtor(s->v, NULL); }
        else if (s->is_buf) { a_buf_die(s->b, NULL); }
        else { a_vec_die(s->v, NULL); }
        if (s->by_ctor) { free(s->is_buf ? (void *)s->b : (void *)s->v); }
    }
    free(g->img);
    g->img = NULL;
    s->v = NULL;
    s->b = NULL;
}

/* check: 1 = complete comparison after the call, 0 = returned slot and header only (filler pushes) */
static void w_push(wide *g, vf_rng *r, int where, size_t idx, int check)
{
    seq *s = g->h;
    size_t const num = g->num, mem = L_mem(s), z = g->siz;
    uint32_t const id = (uint32_t)vf_u64(r);
    size_t eff;
    void *p;
    if (wide_dead || num + 1 >= WMAXE) { return; }
    opname = where == 0 ? "push_back" : where == 1 ? "push_fore" : "insert";
    vf_log("W %s %s idx=%zu id=%08x (num %zu mem %zu siz %zu)", KN, opname, idx, id, num, mem, z);
    p = where == 0 ? L_push_back(s) : where == 1 ? L_push_fore(s) : L_insert(s, idx);
    ++vf.evals;
    if (s->is_buf && num >= mem)
    {
        VF_COUNT("wide-buf-refuses-when-full");
        if (p) { WFAIL("accepted-although-full", "returned %p with num == mem == %zu", p, mem); return; }
        w_check(g);
        return;
    }
    if (!p) { WFAIL("unexpected-null", "returned null with num %zu mem %zu", num, mem); return; }
    if (!w_owned(g, p, "new element")) { return; }
    if (L_mem(s) < mem) { WFAIL("capacity-shrank", "mem %zu before, %zu after", mem, L_mem(s)); return; }
    eff = where == 0 ? num : where == 1 ? 0 : (idx < num ? idx : num);
    if ((size_t)((unsigned char *)p - L_ptr(s)) != eff * z)
    {
        WFAIL("returned-ptr-wrong-slot", "slot %zu returned for position %zu (num %zu)", (size_t)((unsigned char *)p - L_ptr(s)) / z, eff, num);
        return;
    }
    w_render(z, id, g->img);
    memcpy(p, g->img, z);
    memmove(g->id + eff + 1, g->id + eff, (num - eff) * sizeof(uint32_t));
    g->id[eff] = id;
    g->num = num + 1;
    VF_COUNT("wide-push-insert");
    if (check)
    {
        w_check(g);
        wcell(opname, g, eff == 0 ? 0 : eff >= num ? 2 : 1);
    }
    else if (L_num(s) != g->num) { WFAIL("count", "library holds %zu elements, model %zu", L_num(s), g->num); }
}

static void w_pull(wide *g, int where, size_t idx)
{
    seq *s = g->h;
    size_t const num = g->num, mem = L_mem(s), z = g->siz;
    int const full = L_num(s) == mem;
    size_t at, slot, k;
    void *p;
    if (wide_dead) { return; }
    opname = where == 0 ? "pull_back" : where == 1 ? "pull_fore" : "remove";
    vf_log("W %s %s idx=%zu (num %zu mem %zu siz %zu, %s)", KN, opname, idx, num, mem, z, full ? "full" : "spare");
    p = where == 0 ? L_pull_back(s) : where == 1 ? L_pull_fore(s) : L_remove(s, idx);
    ++vf.evals;
    if (num == 0)
    {
        if (p) { WFAIL("non-null-from-empty", "returned %p from an empty container", p); return; }
        w_check(g);
        return;
    }
    at = where == 0 ? num - 1 : where == 1 ? 0 : (idx < num - 1 ? idx : num - 1);
    if (!p) { WFAIL("unexpected-null", "returned null with %zu elements", num); return; }
    if (!w_owned(g, p, "removed element")) { return; }
    VF_COUNT("wide-removed-element-intact-and-past-live-range");
    slot = (size_t)((unsigned char *)p - L_ptr(s)) / z;
    if (slot < num - 1) { WFAIL("removed-ptr-overlaps-live-element", "removed element parked at slot %zu but %zu elements remain", slot, num - 1); return; }
    k = w_diff(g, (unsigned char const *)p, g->id[at]);
    if (k < z)
    {
        WFAIL("removed-element-not-intact", "bytes behind the returned pointer are not element %zu of %zu (%s, element size %zu): first wrong byte at offset %zu, lib %02x model %02x",
              at, num, full ? "exactly full" : "spare slot", z, k, ((unsigned char const *)p)[k], g->img[k]);
        return;
    }
    memmove(g->id + at, g->id + at + 1, (num - at - 1) * sizeof(uint32_t));
    g->num = num - 1;
    if (where != 0 && at < num - 1)
    {
        if (full) { VF_COUNT("wide-remove-path-full"); } else { VF_COUNT("wide-remove-path-spare"); }
        if (full && z >= 4096) { VF_COUNT("wide-remove-path-full-element-ge-4096-bytes"); }
    }
    w_check(g);
    wcell(opname, g, (at == 0 ? 0 : at >= num - 2 ? 2 : 1) + 4 * full);
}

static void w_store(wide *g, vf_rng *r, size_t idx, size_t cnt, int use_copy)
{
    seq *s = g->h;
    size_t const num = g->num, mem = L_mem(s), z = g->siz, at = idx < num ? idx : num;
    uint32_t ids[4];
    unsigned char *src;
    int rc;
    if (wide_dead || cnt > 4 || num + cnt >= WMAXE) { return; }
    g_siz = z;
    opname = "store";
    src = (unsigned char *)malloc(cnt * z ? cnt * z : 1); /* exact size: a read past the last element is an ASan report */
    for (size_t k = 0; k < cnt; ++k)
    {
        ids[k] = (uint32_t)vf_u64(r);
        w_render(z, ids[k], src + k * z);
    }
    vf_log("W %s store idx=%zu n=%zu copy=%d (num %zu mem %zu siz %zu)", KN, idx, cnt, use_copy, num, mem, z);
    rc = s->is_buf ? a_buf_store(s->b, idx, src, cnt, use_copy ? copy_elem : NULL) : a_vec_store(s->v, idx, src, cnt, use_copy ? copy_elem : NULL);
    free(src);
    ++vf.evals;
    VF_COUNT("wide-store");
    if (s->is_buf && num + cnt > mem)
    {
        VF_COUNT("wide-buf-refuses-when-full");
        if (rc == A_SUCCESS) { WFAIL("accepted-although-full", "store of %zu into num %zu mem %zu returned success", cnt, num, mem); }
    }
    else if (rc != A_SUCCESS) { WFAIL("unexpected-error", "rc %d for store of %zu at %zu (num %zu mem %zu)", rc, cnt, idx, num, mem); }
    else
    {
        memmove(g->id + at + cnt, g->id + at, (num - at) * sizeof(uint32_t));
        memcpy(g->id + at, ids, cnt * sizeof(uint32_t));
        g->num = num + cnt;
    }
    w_check(g);
    wcell(opname, g, (int)cnt + 8 * (idx == 0 ? 0 : idx >= num ? 2 : 1));
}

static void w_erase(wide *g, size_t idx, size_t cnt, int with_dtor)
{
    seq *s = g->h;
    size_t const num = g->num, n = idx < num ? (cnt < num - idx ? cnt : num - idx) : 0;
    int rc;
    if (wide_dead) { return; }
    opname = "erase";
    vf_log("W %s erase idx=%zu n=%zu dtor=%d (num %zu mem %zu siz %zu)", KN, idx, cnt, with_dtor, num, L_mem(s), g->siz);
    wd_arm(g, idx, 1, with_dtor ? n : 0);
    rc = s->is_buf ? a_buf_erase(s->b, idx, cnt, with_dtor ? w_dtor : NULL) : a_vec_erase(s->v, idx, cnt, with_dtor ? w_dtor : NULL);
    ++vf.evals;
    VF_COUNT("wide-erase");
    if (idx >= num)
    {
        if (rc != A_OBOUNDS) { WFAIL("out-of-range-not-reported", "idx %zu >= num %zu returned %d", idx, num, rc); }
        if (WD.calls) { WFAIL("dtor-called-out-of-range", "%zu destructor calls", WD.calls); }
    }
    else
    {
        if (rc != A_SUCCESS) { WFAIL("unexpected-error", "rc %d for idx %zu n %zu num %zu", rc, idx, cnt, num); return; }
        if (with_dtor) { wd_judge("erase"); }
        memmove(g->id + idx, g->id + idx + n, (num - idx - n) * sizeof(uint32_t));
        g->num = num - n;
    }
    w_check(g);
    wcell(opname, g, (int)(n > 3 ? 3 : n) + 4 * (idx == 0 ? 0 : idx + n >= num ? 2 : 1));
}

/* whole-vector swap with the partner: the wide contents are worked on under the other handle, then swapped back */
static void w_swap(wide *a, wide *b, vf_rng *r)
{
    for (int pass = 0; pass < 2 && !wide_dead; ++pass)
    {
        wide t;
        seq *ha = a->h, *hb = b->h;
        opname = "swap";
        vf_log("W vec swap (num %zu siz %zu <-> num %zu siz %zu)", a->num, a->siz, b->num, b->siz);
        a_vec_swap(ha->v, hb->v);
        ++vf.evals;
        VF_COUNT("wide-vec-swap");
        t = *a;
        *a = *b;
        *b = t;
        a->h = ha;
        b->h = hb;
        w_check(a);
        w_check(b);
        if (pass == 0)
        {
            w_push(b, r, 2, b->num / 2, 1);
            w_pull(b, 1, 0);
        }
    }
}

/* exactly full (num == mem) / at least one spare slot: remove and pull_fore have a code path for each */
static void w_make_full(wide *g, vf_rng *r)
{
    seq *s = g->h;
    size_t const mem = L_mem(s);
    if (wide_dead || mem + 1 >= WMAXE || mem - L_num(s) > 16) { return; }
    while (!wide_dead && L_num(s) < mem) { w_push(g, r, 0, 0, 0); }
    opname = "push_back";
    w_check(g);
}
static void w_make_spare(wide *g)
{
    seq *s = g->h;
    if (wide_dead || L_num(s) < L_mem(s)) { return; }
    if (s->is_buf) { w_pull(g, 0, 0); }
    else
    {
        opname = "setm";
        vf_log("W vec setm %zu (num %zu mem %zu)", g->num + 1, g->num, L_mem(s));
        if (a_vec_setm(s->v, g->num + 1) != A_SUCCESS) { WFAIL("unexpected-error", "a_vec_setm(%zu) failed", g->num + 1); return; }
        w_check(g);
    }
}

static size_t w_index(vf_rng *r, size_t num)
{
    switch ((int)vf_below(r, 8))
    {
    case 0: return 0;
    case 1: return num > 1 ? 1 : 0;
    case 2: return num / 2;
    case 3: return num > 2 ? num - 2 : 0;
    case 4: return num ? num - 1 : 0;
    case 5: return num;
    case 6: return SIZE_MAX;
    default: return num ? (size_t)vf_below(r, num) : 0;
    }
}

static void wide_history(vf_rng *r, int kind, size_t siz, int nops)
{
    int const is_buf = kind < 2, by_ctor = kind == 1 || (kind == 2 && vf_chance(r, 1, 2));
    size_t const cap = 10 + (size_t)vf_below(r, 5);
    wide *g = &W[0];
    KN = is_buf ? "buf" : "vec";
    wide_dead = 0;
    memset(W, 0, sizeof(W));
    w_new(g, &WS[0], is_buf, siz, cap, by_ctor);
    if (!is_buf && !wide_dead)
    {
        /* the partner for the whole-vector swap: another width, a few elements */
        static size_t const ps[] = {1, 24, 1030, 3001};
        w_new(&W[1], &WS[1], 0, ps[vf_below(r, 4)], 0, (int)vf_below(r, 2));
        for (int i = 0, k = (int)vf_below(r, 4); i < k; ++i) { w_push(&W[1], r, 0, 0, 1); }
    }
    /* a dozen elements through all three insertion calls (the buffer: until it is exactly full) */
    for (size_t i = 0; i < cap && !wide_dead; ++i)
    {
        int const where = (int)vf_below(r, 3);
        w_push(g, r, where, w_index(r, g->num), 1);
    }
    for (int op = 0; op < nops && !wide_dead; ++op)
    {
        int const what = (int)vf_below(r, is_buf ? 10 : 11);
        switch (what)
        {
        case 0: case 1: case 2: case 3: case 4:
            /* removal in a forced capacity state */
            if (vf_chance(r, 1, 2)) { w_make_full(g, r); } else { w_make_spare(g); }
            if (what == 0) { w_pull(g, 0, 0); }
            else if (what == 1) { w_pull(g, 1, 0); }
            else { w_pull(g, 2, w_index(r, g->num)); }
            break;
        case 5: w_push(g, r, (int)vf_below(r, 2), 0, 1); break;
        case 6: w_push(g, r, 2, w_index(r, g->num), 1); break;
        case 7: case 8:
            w_store(g, r, w_index(r, g->num), 1 + (size_t)vf_below(r, 3), (int)vf_below(r, 2));
            break;
        case 9:
            w_erase(g, w_index(r, g->num), vf_chance(r, 1, 5) ? SIZE_MAX : 1 + (size_t)vf_below(r, 3), (int)vf_below(r, 2));
            break;
        default: w_swap(g, &W[1], r); break;
        }
        /* the count stays about a dozen */
        while (!wide_dead && g->num > 20) { w_erase(g, w_index(r, g->num - 4), 4, (int)vf_below(r, 2)); }
        while (!wide_dead && g->num < 6) { w_push(g, r, (int)vf_below(r, 3), w_index(r, g->num), 1); }
    }
    w_die(&W[0]);
    if (!is_buf) { w_die(&W[1]); }
}

static void wide_case(uint64_t c, vf_rng *r)
{
    static size_t const widths[] = {100, 257, 1000, 1023, 1024, 1025, 1500, 2047, 2048, 2049, 4095, 4096, 4097, 5000,
                                    8192, 8193, 16384, 16385, 32769, 65536, 65537, 70001};
    size_t const nw = sizeof(widths) / sizeof(widths[0]);
    uint64_t const k = c / (uint64_t)(vf.tier ? WIDE_MOD_THOROUGH : WIDE_MOD_QUICK);
    size_t const slot = (size_t)(k % (nw + 4));
    size_t siz;
    int nops;
    /* the listed widths in turn (every one of them in both tiers), then four random ones: any width 41..9000 or 2^j-1 .. 2^j+1, j = 10..16 */
    if (slot < nw) { siz = widths[slot]; }
    else if (vf_chance(r, 1, 3)) { siz = ((size_t)1 << (10 + vf_below(r, 7))) - 1 + (size_t)vf_below(r, 3); }
    else { siz = 41 + (size_t)vf_below(r, 8960); }
    nops = siz > 40000 ? 16 : siz > 10000 ? 24 : 48;
    if (!wide_sampled)
    {
        /* one sample of this case class per worker, kept in the last slot if the other histories already filled the list */
        int const keep = vf.nsamples;
        wide_sampled = 1;
        if (keep >= 3) { vf.nsamples = 2; }
        vf_sample("wide history %" PRIu64 ": element size %zu; a_buf by new, a_buf by ctor in an exact-size block, a_vec in turn, about a dozen elements whose every byte depends on (id, position), %d random operations each, removals in forced exactly-full / spare state, removed element and all remaining bytes compared after every call",
                  c, siz, nops);
        if (keep >= 3) { vf.nsamples = keep; }
    }
    for (int kind = 0; kind < 3; ++kind)
    {
        vf_log("W kind %d width %zu", kind, siz);
        wide_history(r, kind, siz, nops);
    }
    VF_COUNT("wide-case");
    if (siz > 1024) { VF_COUNT("wide-case-wider-than-1024"); }
    if (siz > 65536) { VF_COUNT("wide-case-wider-than-65536"); }
}

static int is_wide_case(uint64_t c)
{
    return c % (vf.tier ? WIDE_MOD_THOROUGH : WIDE_MOD_QUICK) == WIDE_RES;
}

static int is_large_case(uint64_t c)
{
    return c % (vf.tier ? LARGE_MOD_THOROUGH : LARGE_MOD_QUICK) == LARGE_RES;
}

static uint64_t vf_ncases(int tier) { return tier ? 1200000 : 6000; }

static void small_case(uint64_t c, vf_rng *r);

/* =====================================================================================================
 * SORT AGAINST AN ADVERSARY.  Random and structured arrangements never drive a quicksort-family algorithm into its degenerate path (a depth
 * budget running out, a fallback algorithm taking over), because that takes an arrangement built against the pivot rule. McIlroy's adversary
 * ("A killer adversary for quicksort", 1999) builds it on the fly for ANY such rule: the elements are indices into a value table whose entries
 * start undecided ("gas") and are frozen to increasing values only when a comparison forces a decision, always such that the pivot candidate
 * turns out small. Every answer it gives is consistent with the total order on the FINAL values, so a correct sort - whatever its algorithm -
 * must deliver that order. The final values, in the original positions, are then sorted again as plain integers by the vector and the buffer
 * (the same algorithm meets the same bad arrangement without the adversary). Seeded change C04-M: an introsort whose heap-sort fallback is
 * handed a last-element distance as a count leaves one element unsorted - in 2e7 random and 2e5 structured sorts the fallback never ran. */
static int *aq_val, *aq_low, aq_nsolid, aq_gas, aq_cand;
static uint64_t aq_ncmp;
static int aq_cmp(void const *px, void const *py)
{
    int const x = *(int const *)px, y = *(int const *)py;
    ++aq_ncmp;
    if (aq_val[x] == aq_gas && aq_val[y] == aq_gas) { if (x == aq_cand) { aq_val[x] = aq_nsolid++; } else { aq_val[y] = aq_nsolid++; } }
    if (aq_val[x] == aq_gas) { aq_cand = x; if (aq_val[y] != aq_gas && aq_low[x] < aq_val[y]) { aq_low[x] = aq_val[y]; } }
    else if (aq_val[y] == aq_gas) { aq_cand = y; if (aq_low[y] < aq_val[x]) { aq_low[y] = aq_val[x]; } }
    return cmp_result((aq_val[x] > aq_val[y]) - (aq_val[x] < aq_val[y]));
}
static int aq_plain(void const *px, void const *py) { return cmp_result((*(int const *)px > *(int const *)py) - (*(int const *)px < *(int const *)py)); }
static void adversary_sort(vf_rng *r)
{
    static size_t const sizes[] = {17, 40, 57, 64, 100, 129, 300, 1000, 1025, 5000, 20000};
    size_t const n = vf_chance(r, 1, 3) ? 2 + (size_t)vf_below(r, 3000) : sizes[vf_below(r, sizeof(sizes) / sizeof(sizes[0]))];
    int const is_buf = (int)vf_below(r, 2);
    a_vec v;
    a_buf *b = NULL;
    int *p, *killer;
    aq_val = (int *)malloc(n * sizeof(int));
    killer = (int *)malloc(n * sizeof(int));
    aq_gas = (int)n - 1;
    aq_nsolid = 0;
    aq_cand = 0;
    aq_ncmp = 0;
    aq_low = (int *)malloc(n * sizeof(int));
    for (size_t i = 0; i < n; ++i) { aq_val[i] = aq_gas; aq_low[i] = -1; }
    vf_log("sort of %zu elements against the adversary comparator (%s)", n, is_buf ? "a_buf_sort" : "a_vec_sort");
    if (is_buf)
    {
        b = (a_buf *)malloc(sizeof(a_buf) + n * sizeof(int));
        a_buf_ctor(b, sizeof(int), n);
        for (size_t i = 0; i < n; ++i) { *(int *)a_buf_push_back(b) = (int)i; }
        a_buf_sort(b, aq_cmp);
        p = (int *)a_buf_ptr(b);
    }
    else
    {
        a_vec_ctor(&v, sizeof(int));
        for (size_t i = 0; i < n; ++i) { *(int *)a_vec_push_back(&v) = (int)i; }
        a_vec_sort(&v, aq_cmp);
        p = (int *)a_vec_ptr(&v);
    }
    /* the final order: a decided element has twice its value; an element still undecided at the end was only ever declared GREATER than decided ones,
       and gets the smallest key consistent with every answer given (just above the largest of them; below everything if it was never compared at
       all). For a correct sort this IS the largest key: it cannot place the element without having compared it with something at least as large
       as every other element. An element the sort never looked at therefore shows up as out of place. */
    for (size_t i = 0; i < n; ++i) { aq_val[i] = aq_val[i] == aq_gas ? 2 * aq_low[i] + 1 : 2 * aq_val[i]; }
    aq_gas = INT_MIN; /* nothing is undecided any more */
    ++vf.evals;
    VF_COUNT("sort-against-an-adversary-comparator");
    vf_max_dyn("adversary-sort-comparisons-per-n-log2-n", (double)aq_ncmp / ((double)n * (log((double)n) / log(2.0))), "");
    {
        unsigned char *seen = (unsigned char *)calloc(n, 1);
        int bad = 0;
        for (size_t i = 0; i < n && !bad; ++i)
        {
            if (p[i] < 0 || (size_t)p[i] >= n || seen[p[i]]++) { vf_viol("sort/adversary/not-a-permutation", "n=%zu: position %zu holds %d", n, i, p[i]); bad = 1; }
            else if (i && aq_val[p[i - 1]] > aq_val[p[i]]) { vf_viol("sort/adversary/not-sorted", "n=%zu (%s): positions %zu and %zu hold values %d and %d under the order every answer of the comparator was consistent with", n, is_buf ? "a_buf_sort" : "a_vec_sort", i - 1, i, aq_val[p[i - 1]], aq_val[p[i]]); bad = 1; }
        }
        free(seen);
    }
    memcpy(killer, aq_val, n * sizeof(int)); /* the arrangement the adversary arrived at: value of the element that started at position i */
    /* ... replayed as plain integers through both containers */
    for (int k = 0; k < 2; ++k)
    {
        if (k)
        {
            a_buf *const b2 = (a_buf *)malloc(sizeof(a_buf) + n * sizeof(int));
            a_buf_ctor(b2, sizeof(int), n);
            for (size_t i = 0; i < n; ++i) { *(int *)a_buf_push_back(b2) = killer[i]; }
            a_buf_sort(b2, aq_plain);
            p = (int *)a_buf_ptr(b2);
            for (size_t i = 1; i < n; ++i) { if (p[i - 1] > p[i]) { vf_viol("sort/adversary-arrangement/not-sorted", "a_buf_sort of the %zu integers the adversary arrived at: positions %zu and %zu hold %d and %d", n, i - 1, i, p[i - 1], p[i]); break; } }
            free(b2);
        }
        else
        {
            a_vec v2;
            a_vec_ctor(&v2, sizeof(int));
            for (size_t i = 0; i < n; ++i) { *(int *)a_vec_push_back(&v2) = killer[i]; }
            a_vec_sort(&v2, aq_plain);
            p = (int *)a_vec_ptr(&v2);
            for (size_t i = 1; i < n; ++i) { if (p[i - 1] > p[i]) { vf_viol("sort/adversary-arrangement/not-sorted", "a_vec_sort of the %zu integers the adversary arrived at: positions %zu and %zu hold %d and %d", n, i - 1, i, p[i - 1], p[i]); break; } }
            a_vec_dtor(&v2, NULL);
        }
        ++vf.evals;
        VF_COUNT("sort-of-the-arrangement-the-adversary-arrived-at");
    }
    if (is_buf) { free(b); } else { a_vec_dtor(&v, NULL); }
    free(aq_val);
    free(aq_low);
    free(killer);
    aq_val = NULL;
}

static void vf_case(uint64_t c, vf_rng *r)
{
    cmp_style = (int)(vf_hash64(vf.seed * 0x9E3779B97F4A7C15ULL + 0xC04, c) & 3);
    memset(cmp_calls, 0, sizeof(cmp_calls));
    vf_log("comparators of this case return %s", cmp_style_name[cmp_style]);
    surf_on = 0;
    form_used = NULL;
    if (c % 8 == 3) { vf_rng ar; vf_rng_seed(&ar, vf.seed, vf_hash_str("C04-adversary"), c); adversary_sort(&ar); }
    if (is_large_case(c)) { large_case(c, r); }
    else if (is_wide_case(c)) { wide_case(c, r); }
    else
    {
        /* macro / alias forms of the calls and the surface walks: small case class only, choices from a stream of their own */
        vf_rng_seed(&FR, vf.seed, vf_hash_str("C04-forms"), c);
        surf_on = 1;
        small_case(c, r);
        surf_on = 0;
        form_used = NULL;
    }
    VF_ADD("comparator-returns-minus-one-zero-plus-one", cmp_calls[0]);
    VF_ADD("comparator-returns-key-difference", cmp_calls[1]);
    VF_ADD("comparator-returns-int-min-int-max", cmp_calls[2]);
    VF_ADD("comparator-returns-varying-magnitude", cmp_calls[3]);
}

/* =====================================================================================================
 * PUBLIC SURFACE of include/a/vec.h and include/a/buf.h, and of the loop macros of include/a/a.h they expand to
 * (small case class only).  Everything the two headers define (grep `A_INTERN|A_EXTERN|#define`), and who judges it:
 *
 *   vec.h  inline functions (13)      used by
 *     a_vec_ptr a_vec_siz a_vec_num a_vec_mem             check_state after every call (L_ptr/L_siz/L_num/L_mem); walk: a_vec_ptr against the ptr_ field
 *     a_vec_at a_vec_of a_vec_top a_vec_end               op "access" (clauses at/of/top/end); walk: at every index incl. spare slots, mem, SIZE_MAX, negative offsets
 *     a_vec_at_ a_vec_top_ a_vec_end_                     walk (direct calls; before only reached through at/top/end)
 *     a_vec_push a_vec_pull                               L_push_back / L_pull_back, form 6 (alias of push_back / pull_back): same clauses as those; surf_roundtrip
 *   vec.h  extern functions (21)      a_vec_new die ctor dtor swap setm setn setz sort sort_fore sort_back push_sort search insert remove push_fore
 *                                     push_back pull_fore pull_back store erase: the operations of the histories (all covered before this section)
 *   vec.h  function-like macros (26)
 *     A_VEC_PUSH_BACK A_VEC_PUSH_FORE A_VEC_PULL_BACK A_VEC_PULL_FORE A_VEC_INSERT A_VEC_REMOVE A_VEC_PUSH_SORT A_VEC_SEARCH A_VEC_PUSH A_VEC_PULL
 *                                                         the L_* call wrappers: a random half of the calls of the histories, T = struct of the element size / unsigned char const;
 *                                                         surf_roundtrip after each walk (PUSH_BACK PULL_BACK PUSH PULL SEARCH, which the histories reach least often)
 *     A_VEC_PTR A_VEC_AT_ A_VEC_AT A_VEC_OF A_VEC_TOP_ A_VEC_TOP A_VEC_END_ A_VEC_END      walk: typed accessors, T and T const, address and contents against the model
 *     a_vec_forenum A_VEC_FORENUM a_vec_forenum_reverse A_VEC_FORENUM_REVERSE               walk: index sequence 0..n-1 / n-1..0, I = unsigned, size_t, int, unsigned short
 *     a_vec_foreach A_VEC_FOREACH a_vec_foreach_reverse A_VEC_FOREACH_REVERSE               walk: element sequence, T / T const, S = * / *volatile (before: op "access", size 8, addresses only)
 *   buf.h  inline functions (12)      a_buf_num mem siz ptr (check_state; walk) a_buf_at of top end (op "access"; walk) a_buf_at_ a_buf_top_ (walk) a_buf_push a_buf_pull (wrappers)
 *   buf.h  extern functions (20)      a_buf_new die ctor dtor setm setn setz sort sort_fore sort_back push_sort search insert remove push_fore push_back pull_fore
 *                                     pull_back store erase: the operations of the histories (all covered before this section)
 *   buf.h  function-like macros (26)  a_buf_ (walk: both qualifier forms; surf_embedded) and the A_BUF_ / a_buf_for* counterparts of the 25 vec macros above except
 *                                     A_VEC_END_ (there is no a_buf_end_): same judges.  Object-like A_BUF_DEF: surf_embedded (a caller struct that embeds the header).
 *   a.h    loop macros (12)           a_forenum A_FORENUM a_forenum_reverse A_FORENUM_REVERSE (expanded by the vec and buf index loops), a_foreach A_FOREACH
 *                                     a_foreach_reverse A_FOREACH_REVERSE (by the buf element loops), a_forsafe A_FORSAFE a_forsafe_reverse A_FORSAFE_REVERSE (by the
 *                                     vec element loops); the walk also applies each of the 12 directly to (storage, count) of whichever container it is looking at.
 *
 * "forsafe" in a.h does not mean "the current element may be removed": a_forsafe is documented as a copy of a_foreach and differs only in not forming
 * ptr + num when num is 0 (a vector that never allocated has a null storage pointer).  So no removal inside these loops; what is required of them is
 * that they visit nothing on (null, 0) - every vector case walks its two still unallocated vectors - and otherwise exactly the model's sequence.
 *
 * A walk (after creation, after every 4th operation on the container operated on, and on both containers at the end of the history) takes the state the
 * lock-step model has just been compared with and requires from EVERY form: the visited addresses are storage + k * size for k = 0..n-1 (n-1..0 in
 * reverse), the bytes behind each visited pointer are the model's element k, and the number of visits is n.  The storage address and the capacity are read
 * from the object's fields, not through the accessors under test.  Violation keys: <kind>_walk/<clause>/<form>; for calls: <kind>_<op>/<clause>/<FORM>;
 * buf_embedded/<clause>/A_BUF_DEF.  Counters form/<name> (all listed under `require` in bin/props_C04.py): one per judged use of the form.
 */
/* Every observation form has an id; a site only records what the form produced (pointers, loop indices), one judge compares the
 * record with the model.  (One record-and-call per site keeps the code small: a first version with the comparison expanded at every
 * site and one instantiation per element size quintupled the compile time of this file.) */
#define SURF_FORMS(X)                                                                                                              \
    X(a_vec_ptr) X(a_vec_at_) X(a_vec_top_) X(a_vec_end_)                                                                          \
    X(A_VEC_PTR) X(A_VEC_AT_) X(A_VEC_AT) X(A_VEC_OF) X(A_VEC_TOP_) X(A_VEC_TOP) X(A_VEC_END_) X(A_VEC_END)                        \
    X(a_vec_forenum) X(A_VEC_FORENUM) X(a_vec_forenum_reverse) X(A_VEC_FORENUM_REVERSE)                                            \
    X(a_vec_foreach) X(A_VEC_FOREACH) X(a_vec_foreach_reverse) X(A_VEC_FOREACH_REVERSE)                                            \
    X(a_buf_) X(a_buf_ptr) X(a_buf_at_) X(a_buf_top_)                                                                              \
    X(A_BUF_PTR) X(A_BUF_AT_) X(A_BUF_AT) X(A_BUF_OF) X(A_BUF_TOP_) X(A_BUF_TOP) X(A_BUF_END)                                      \
    X(a_buf_forenum) X(A_BUF_FORENUM) X(a_buf_forenum_reverse) X(A_BUF_FORENUM_REVERSE)                                            \
    X(a_buf_foreach) X(A_BUF_FOREACH) X(a_buf_foreach_reverse) X(A_BUF_FOREACH_REVERSE)                                            \
    X(a_forenum) X(A_FORENUM) X(a_forenum_reverse) X(A_FORENUM_REVERSE)                                                            \
    X(a_foreach) X(A_FOREACH) X(a_forsafe) X(A_FORSAFE)                                                                            \
    X(a_foreach_reverse) X(A_FOREACH_REVERSE) X(a_forsafe_reverse) X(A_FORSAFE_REVERSE)                                            \
    X(a_iterate) X(A_ITERATE) X(a_iterate_reverse) X(A_ITERATE_REVERSE)
#define SURF_ID(n) F_##n,
enum { SURF_FORMS(SURF_ID) F_COUNT };
#define SURF_NAME(n) "form/" #n,
static char const *const surf_name[F_COUNT] = {SURF_FORMS(SURF_NAME)};
static uint64_t surf_cnt[F_COUNT];

#define REC_CAP (MAXE + 8) /* also stops a loop that does not end where it should */
static void const *rec_p[REC_CAP];
static size_t rec_i[REC_CAP];

/* the record of one form: cnt entries; entry j must be element (reverse ? n-1-j : j) of the model - address, bytes and
 * (index loops) the loop index - and there must be exactly n (expect) entries */
static void surf_judge(seq *s, int form, unsigned char const *b, size_t cnt, int reverse, int with_index)
{
    int ok = 1;
    size_t const n = s->num, z = s->siz;
    ++surf_cnt[form];
    form_used = surf_name[form] + 5;
    for (size_t j = 0; j < cnt && j < n; ++j)
    {
        size_t const k = reverse ? n - 1 - j : j;
        unsigned char const *const q = (unsigned char const *)rec_p[j];
        if (with_index && rec_i[j] != k) { FAIL("index-sequence", "step %zu: loop index %zu where %zu is due (%zu elements)", j, rec_i[j], k, n); return; }
        if (q != b + k * z) { FAIL("element-address", "step %zu: pointer %p, element %zu of %zu is at %p (storage %p, size %zu)", j, rec_p[j], k, n, (void const *)(b + k * z), (void const *)b, z); return; }
        if (memcmp(q, s->e[k], z) != 0) { FAIL("element-contents", "step %zu: bytes behind the pointer differ from element %zu of the model (%02x.. vs %02x..)", j, k, q[0], s->e[k][0]); return; }
    }
    if (cnt != n) { FAIL("visit-count", "%zu%s visits for %zu elements", cnt, cnt >= REC_CAP ? " or more" : "", n); }
    (void)ok;
}
static void surf_ptr(int form, void const *got, void const *want, char const *what)
{
    int ok = 1;
    ++surf_cnt[form];
    if (got != want)
    {
        form_used = surf_name[form] + 5;
        FAIL("pointer", "%s: %p, expected %p", what, got, want);
    }
    (void)ok;
}
#define REC(ptr) { if (cnt >= REC_CAP) { break; } rec_p[cnt++] = (void const *)(ptr); }
#define RECI(i, ptr) { if (cnt >= REC_CAP) { break; } rec_i[cnt] = (size_t)(i); rec_p[cnt++] = (void const *)(ptr); }
#define JUDGE(F, rev, idx) { surf_judge(s, F_##F, b, cnt, rev, idx); cnt = 0; }
#define SP(F, ptr, want, what) surf_ptr(F_##F, (void const *)(ptr), (void const *)(want), what);

/* ---- part 1, per kind: index loops and accessors (T only names the type of the result: two instantiations each, no pointer arithmetic
 * on T).  K = vec|buf, KU = VEC|BUF, C = the handle, b/m = storage and capacity read from the object's fields, n/z from the model. */
#define SURF_WALK_INDEXED(K, KU, C, T, U)                                                                                     \
    /* index loops; the body fetches the element as the example in the header does */                                        \
    a_##K##_forenum(i, C) { RECI(i, a_##K##_at(C, i)) }                                                                       \
    JUDGE(a_##K##_forenum, 0, 1)                                                                                              \
    A_##KU##_FORENUM(unsigned, iu, C) { RECI(iu, A_##KU##_AT(T, C, iu)) }                                                      \
    JUDGE(A_##KU##_FORENUM, 0, 1)                                                                                             \
    A_##KU##_FORENUM(size_t, iz, C) { RECI(iz, a_##K##_at_(C, iz)) }                                                           \
    JUDGE(A_##KU##_FORENUM, 0, 1)                                                                                             \
    A_##KU##_FORENUM(int, ii, C) { RECI(ii, A_##KU##_AT_(U const, C, (size_t)ii)) }                                            \
    JUDGE(A_##KU##_FORENUM, 0, 1)                                                                                             \
    a_##K##_forenum_reverse(i, C) { RECI(i, a_##K##_at(C, i)) }                                                               \
    JUDGE(a_##K##_forenum_reverse, 1, 1)                                                                                      \
    A_##KU##_FORENUM_REVERSE(unsigned, iu, C) { RECI(iu, A_##KU##_AT(U const, C, iu)) }                                        \
    JUDGE(A_##KU##_FORENUM_REVERSE, 1, 1)                                                                                     \
    A_##KU##_FORENUM_REVERSE(size_t, iz, C) { RECI(iz, a_##K##_at_(C, iz)) }                                                   \
    JUDGE(A_##KU##_FORENUM_REVERSE, 1, 1)                                                                                     \
    A_##KU##_FORENUM_REVERSE(unsigned short, ih, C) { RECI(ih, A_##KU##_AT_(T, C, ih)) }                                       \
    JUDGE(A_##KU##_FORENUM_REVERSE, 1, 1)                                                                                     \
    /* accessors on every live element (address and contents) */                                                             \
    for (k = 0; k < n; ++k) { REC(a_##K##_at_(C, k)) }                                                                        \
    JUDGE(a_##K##_at_, 0, 0)                                                                                                  \
    for (k = 0; k < n; ++k) { REC(A_##KU##_AT_(T, C, k)) }                                                                    \
    JUDGE(A_##KU##_AT_, 0, 0)                                                                                                 \
    for (k = 0; k < n; ++k) { REC(A_##KU##_AT(U const, C, k)) }                                                               \
    JUDGE(A_##KU##_AT, 0, 0)                                                                                                  \
    for (k = 0; k < n; ++k) { REC(A_##KU##_OF(T, C, (a_diff)k)) }                                                             \
    JUDGE(A_##KU##_OF, 0, 0)                                                                                                  \
    for (k = 0; k < n; ++k) { REC(A_##KU##_OF(U const, C, (a_diff)k - (a_diff)n)) } /* negative offsets count from the end */ \
    JUDGE(A_##KU##_OF, 0, 0)                                                                                                  \
    /* spare slots (address only), first index past the capacity, sentinels */                                               \
    for (k = n; k < m; ++k)                                                                                                  \
    {                                                                                                                        \
        SP(A_##KU##_AT, A_##KU##_AT(T, C, k), b + k * z, "spare slot")                                                        \
        SP(A_##KU##_AT_, A_##KU##_AT_(U const, C, k), b + k * z, "spare slot")                                                \
        SP(A_##KU##_OF, A_##KU##_OF(T, C, (a_diff)k), b + k * z, "spare slot")                                                \
    }                                                                                                                        \
    SP(A_##KU##_AT, A_##KU##_AT(T, C, m), NULL, "index == capacity")                                                          \
    SP(A_##KU##_AT, A_##KU##_AT(U const, C, SIZE_MAX), NULL, "index SIZE_MAX")                                                \
    SP(A_##KU##_OF, A_##KU##_OF(T, C, (a_diff)m), NULL, "offset == capacity")                                                 \
    SP(A_##KU##_OF, A_##KU##_OF(U, C, -(a_diff)n - 1), NULL, "offset -(count+1)")                                             \
    SP(a_##K##_ptr, a_##K##_ptr(C), b, "storage")                                                                             \
    SP(A_##KU##_PTR, A_##KU##_PTR(T, C), b, "storage")                                                                        \
    SP(A_##KU##_PTR, A_##KU##_PTR(U const, C), b, "storage")                                                                  \
    SP(A_##KU##_TOP, A_##KU##_TOP(T, C), n ? b + (n - 1) * z : NULL, "top")                                                   \
    SP(A_##KU##_TOP, A_##KU##_TOP(U const, C), n ? b + (n - 1) * z : NULL, "top")                                             \
    SP(A_##KU##_END, A_##KU##_END(T, C), b ? b + n * z : NULL, "end")                                                         \
    SP(A_##KU##_END, A_##KU##_END(U const, C), b ? b + n * z : NULL, "end")                                                   \
    if (n)                                                                                                                   \
    {                                                                                                                        \
        SP(a_##K##_top_, a_##K##_top_(C), b + (n - 1) * z, "top")                                                             \
        SP(A_##KU##_TOP_, A_##KU##_TOP_(T, C), b + (n - 1) * z, "top")                                                        \
        SP(A_##KU##_TOP_, A_##KU##_TOP_(U const, C), b + (n - 1) * z, "top")                                                  \
    }                                                                                                                        \
    /* the four index loops of a.h applied directly to the count */                                                          \
    a_forenum(size_t, j, n) { RECI(j, b + j * z) }                                                                            \
    JUDGE(a_forenum, 0, 1)                                                                                                    \
    a_forenum(unsigned, j, n) { RECI(j, b + j * z) }                                                                          \
    JUDGE(a_forenum, 0, 1)                                                                                                    \
    A_FORENUM(unsigned, iu, n) { RECI(iu, b + iu * z) }                                                                       \
    JUDGE(A_FORENUM, 0, 1)                                                                                                    \
    A_FORENUM(size_t, iz, n) { RECI(iz, b + iz * z) }                                                                         \
    JUDGE(A_FORENUM, 0, 1)                                                                                                    \
    a_forenum_reverse(size_t, j, n) { RECI(j, b + j * z) }                                                                    \
    JUDGE(a_forenum_reverse, 1, 1)                                                                                            \
    a_forenum_reverse(int, j, n) { RECI(j, b + (size_t)j * z) }                                                               \
    JUDGE(a_forenum_reverse, 1, 1)                                                                                            \
    A_FORENUM_REVERSE(int, ii, n) { RECI(ii, b + (size_t)ii * z) }                                                            \
    JUDGE(A_FORENUM_REVERSE, 1, 1)                                                                                            \
    A_FORENUM_REVERSE(size_t, iz, n) { RECI(iz, b + iz * z) }                                                                 \
    JUDGE(A_FORENUM_REVERSE, 1, 1)

#define SURF_INDEXED_LOCALS               \
    size_t const n = s->num, z = s->siz;  \
    size_t cnt = 0, k, iz;                \
    unsigned iu;                          \
    unsigned short ih;                    \
    int ii;

static void surf_indexed_vec(seq *s)
{
    a_vec *const v = s->v;
    unsigned char *const b = (unsigned char *)v->ptr_; /* fields read directly: not through the forms under test */
    size_t const m = v->mem_;
    SURF_INDEXED_LOCALS
    SURF_WALK_INDEXED(vec, VEC, v, unsigned char, e33)
    if (b) /* a_vec_end_ forms ptr_ + siz_ * num_ without looking at ptr_ */
    {
        SP(a_vec_end_, a_vec_end_(v), b + n * z, "end")
        SP(A_VEC_END_, A_VEC_END_(unsigned char, v), b + n * z, "end")
        SP(A_VEC_END_, A_VEC_END_(e33 const, v), b + n * z, "end")
    }
}
static void surf_indexed_buf(seq *s)
{
    a_buf *const v = s->b;
    unsigned char *const b = (unsigned char *)(v + 1); /* the payload follows the header object (address formed here, not by a_buf_ptr) */
    size_t const m = v->mem_;
    SURF_INDEXED_LOCALS
    SURF_WALK_INDEXED(buf, BUF, v, unsigned char, e33)
    SP(a_buf_, a_buf_(*, b - sizeof(a_buf)), v, "cast of the header address")
    SP(a_buf_, a_buf_(const *, (void const *)v), v, "cast of the header address")
    SP(a_buf_, b + a_buf_(const *, (void const *)v)->num_, b + n, "storage + count read through the cast")
}

/* ---- part 2: the element loops do pointer arithmetic on T, so T must be a type of exactly the element size.  One instantiation serves
 * every size with a variably modified T (unsigned char [size]); sizes 4 and 12 are walked a second time with ordinary struct types (and op
 * "access" uses uint64_t for size 8).  Instantiating all ten struct types cost 3 s of compile time, which the quick tier does not have.
 * Loop variable types: T and T const with S = *, T with S = *volatile; upper-case forms with T * and T const * variables declared outside. */
#define SURF_WALK_ELEMS(NAME, ELEMTYPE)                                                               \
    static void NAME(seq *s)                                                                          \
    {                                                                                                 \
        typedef ELEMTYPE;                                                                             \
        size_t const n = s->num;                                                                      \
        size_t cnt = 0;                                                                               \
        unsigned char *b;                                                                             \
        T *p0, *p1;                                                                                   \
        T const *q0, *q1;                                                                             \
        if (s->is_buf)                                                                                \
        {                                                                                             \
            a_buf *const v = s->b;                                                                    \
            b = (unsigned char *)(v + 1);                                                             \
            a_buf_foreach(T, *, it, v) { REC(it) }                                                    \
            JUDGE(a_buf_foreach, 0, 0)                                                                \
            a_buf_foreach(T const, *, it, v) { REC(it) }                                              \
            JUDGE(a_buf_foreach, 0, 0)                                                                \
            a_buf_foreach(T, *volatile, it, v) { REC(it) }                                            \
            JUDGE(a_buf_foreach, 0, 0)                                                                \
            A_BUF_FOREACH(T *, p0, p1, v) { REC(p0) }                                                 \
            JUDGE(A_BUF_FOREACH, 0, 0)                                                                \
            A_BUF_FOREACH(T const *, q0, q1, v) { REC(q0) }                                           \
            JUDGE(A_BUF_FOREACH, 0, 0)                                                                \
            a_buf_foreach_reverse(T, *, it, v) { REC(it) }                                            \
            JUDGE(a_buf_foreach_reverse, 1, 0)                                                        \
            a_buf_foreach_reverse(T const, *, it, v) { REC(it) }                                      \
            JUDGE(a_buf_foreach_reverse, 1, 0)                                                        \
            a_buf_foreach_reverse(T, *volatile, it, v) { REC(it) }                                    \
            JUDGE(a_buf_foreach_reverse, 1, 0)                                                        \
            A_BUF_FOREACH_REVERSE(T *, p0, p1, v) { REC(p0) }                                         \
            JUDGE(A_BUF_FOREACH_REVERSE, 1, 0)                                                        \
            A_BUF_FOREACH_REVERSE(T const *, q0, q1, v) { REC(q0) }                                   \
            JUDGE(A_BUF_FOREACH_REVERSE, 1, 0)                                                        \
        }                                                                                             \
        else                                                                                          \
        {                                                                                             \
            a_vec *const v = s->v;                                                                    \
            b = (unsigned char *)v->ptr_;                                                             \
            a_vec_foreach(T, *, it, v) { REC(it) }                                                    \
            JUDGE(a_vec_foreach, 0, 0)                                                                \
            a_vec_foreach(T const, *, it, v) { REC(it) }                                              \
            JUDGE(a_vec_foreach, 0, 0)                                                                \
            a_vec_foreach(T, *volatile, it, v) { REC(it) }                                            \
            JUDGE(a_vec_foreach, 0, 0)                                                                \
            A_VEC_FOREACH(T *, p0, p1, v) { REC(p0) }                                                 \
            JUDGE(A_VEC_FOREACH, 0, 0)                                                                \
            A_VEC_FOREACH(T const *, q0, q1, v) { REC(q0) }                                           \
            JUDGE(A_VEC_FOREACH, 0, 0)                                                                \
            a_vec_foreach_reverse(T, *, it, v) { REC(it) }                                            \
            JUDGE(a_vec_foreach_reverse, 1, 0)                                                        \
            a_vec_foreach_reverse(T const, *, it, v) { REC(it) }                                      \
            JUDGE(a_vec_foreach_reverse, 1, 0)                                                        \
            a_vec_foreach_reverse(T, *volatile, it, v) { REC(it) }                                    \
            JUDGE(a_vec_foreach_reverse, 1, 0)                                                        \
            A_VEC_FOREACH_REVERSE(T *, p0, p1, v) { REC(p0) }                                         \
            JUDGE(A_VEC_FOREACH_REVERSE, 1, 0)                                                        \
            A_VEC_FOREACH_REVERSE(T const *, q0, q1, v) { REC(q0) }                                   \
            JUDGE(A_VEC_FOREACH_REVERSE, 1, 0)                                                        \
        }                                                                                             \
        /* the eight element loops of a.h applied directly to (storage, count) */                     \
        if (b) /* a_foreach / a_foreach_reverse form ptr + num and ptr - 1: not for the null storage of an unallocated vector */ \
        {                                                                                             \
            a_foreach(T, *, it, b, n) { REC(it) }                                                     \
            JUDGE(a_foreach, 0, 0)                                                                    \
            a_foreach(T const, *, it, b, n) { REC(it) }                                               \
            JUDGE(a_foreach, 0, 0)                                                                    \
            A_FOREACH(T *, p0, p1, b, n) { REC(p0) }                                                  \
            JUDGE(A_FOREACH, 0, 0)                                                                    \
            A_FOREACH(T const *, q0, q1, b, n) { REC(q0) }                                            \
            JUDGE(A_FOREACH, 0, 0)                                                                    \
            a_foreach_reverse(T, *, it, b, n) { REC(it) }                                             \
            JUDGE(a_foreach_reverse, 1, 0)                                                            \
            a_foreach_reverse(T const, *, it, b, n) { REC(it) }                                       \
            JUDGE(a_foreach_reverse, 1, 0)                                                            \
            A_FOREACH_REVERSE(T *, p0, p1, b, n) { REC(p0) }                                          \
            JUDGE(A_FOREACH_REVERSE, 1, 0)                                                            \
            A_FOREACH_REVERSE(T const *, q0, q1, b, n) { REC(q0) }                                    \
            JUDGE(A_FOREACH_REVERSE, 1, 0)                                                            \
            /* the (start, end) address-range forms of a.h (mutation sweep: a_iterate_reverse with ptr - 0 survived) */ \
            a_iterate(T, *, it, b, (T *)b + n) { REC(it) }                                                 \
            JUDGE(a_iterate, 0, 0)                                                                    \
            A_ITERATE(T *, p0, p1, b, (T *)b + n) { REC(p0) }                                              \
            JUDGE(A_ITERATE, 0, 0)                                                                    \
            a_iterate_reverse(T const, *, it, b, (T *)b + n) { REC(it) }                                   \
            JUDGE(a_iterate_reverse, 1, 0)                                                            \
            A_ITERATE_REVERSE(T const *, q0, q1, b, (T *)b + n) { REC(q0) }                                \
            JUDGE(A_ITERATE_REVERSE, 1, 0)                                                            \
        }                                                                                             \
        a_forsafe(T, *, it, b, n) { REC(it) }                                                         \
        JUDGE(a_forsafe, 0, 0)                                                                        \
        a_forsafe(T const, *, it, b, n) { REC(it) }                                                   \
        JUDGE(a_forsafe, 0, 0)                                                                        \
        A_FORSAFE(T *, p0, p1, b, n) { REC(p0) }                                                      \
        JUDGE(A_FORSAFE, 0, 0)                                                                        \
        A_FORSAFE(T const *, q0, q1, b, n) { REC(q0) }                                                \
        JUDGE(A_FORSAFE, 0, 0)                                                                        \
        a_forsafe_reverse(T, *, it, b, n) { REC(it) }                                                 \
        JUDGE(a_forsafe_reverse, 1, 0)                                                                \
        a_forsafe_reverse(T const, *, it, b, n) { REC(it) }                                           \
        JUDGE(a_forsafe_reverse, 1, 0)                                                                \
        A_FORSAFE_REVERSE(T *, p0, p1, b, n) { REC(p0) }                                              \
        JUDGE(A_FORSAFE_REVERSE, 1, 0)                                                                \
        A_FORSAFE_REVERSE(T const *, q0, q1, b, n) { REC(q0) }                                        \
        JUDGE(A_FORSAFE_REVERSE, 1, 0)                                                                \
        (void)p1;                                                                                     \
        (void)q1;                                                                                     \
    }
SURF_WALK_ELEMS(surf_elems_any, unsigned char T[s->siz]) /* every element size: T is an array type of the run-time element size */
SURF_WALK_ELEMS(surf_elems_4, e4 T)                      /* ordinary struct types for two of the sizes */
SURF_WALK_ELEMS(surf_elems_12, e12 T)

static void surf_walk(seq *s)
{
    static int id[F_COUNT];
    static int have_ids;
    char const *const save = opname;
    opname = "walk";
    vf_log("%s walk: every accessor and iteration form against the model (num %zu mem %zu siz %zu)", KN, s->num, L_mem(s), s->siz);
    if (s->is_buf) { surf_indexed_buf(s); } else { surf_indexed_vec(s); }
    surf_elems_any(s);
    if (s->siz == 4) { surf_elems_4(s); }
    if (s->siz == 12) { surf_elems_12(s); }
    if (!have_ids)
    {
        for (int f = 0; f < F_COUNT; ++f) { id[f] = vf_counter_id(surf_name[f]); }
        have_ids = 1;
    }
    for (int f = 0; f < F_COUNT; ++f)
    {
        vf.ctr[id[f]].n += surf_cnt[f];
        surf_cnt[f] = 0;
    }
    ++vf.evals;
    VF_COUNT("surface-walk");
    if (s->num == 0 && !s->is_buf && !a_vec_ptr(s->v)) { VF_COUNT("surface-walk-null-storage"); }
    form_used = NULL;
    opname = save;
}

/* The alias forms a_<kind>_push / a_<kind>_pull and A_<KIND>_PUSH / A_<KIND>_PULL are one form in eight of the push_back / pull_back operations,
 * and pull_back is rare; so after each walk the last element is pulled and pushed back through them or the _BACK macros (same clauses as the operations: returned
 * pointer owned, removed element intact and parked past the live range, count, complete state).  The container ends in the state it was in
 * (a pull does not change the capacity, the push re-uses the freed slot), so the history is not disturbed. */
static int surf_roundtrip(seq *s)
{
    int ok = 1;
    unsigned char el[MAXSZ];
    char const *const save = opname;
    size_t const num = s->num;
    void *p;
    if (num == 0) { return 1; }
    memcpy(el, s->e[num - 1], MAXSZ);
    g_siz = s->siz;
    surf_alias = 1;
    opname = "pull_back";
    vf_log("%s pull (alias form of pull_back, num %zu) and push the element back", KN, num);
    ok = do_pull(s, 0, 0);
    if (ok)
    {
        opname = "push_back";
        p = L_push_back(s);
        ++vf.evals;
        if (!p) { FAIL("unexpected-null", "returned null with num %zu mem %zu", num - 1, L_mem(s)); }
        else if (check_owned(s, p, "new element"))
        {
            memcpy(p, el, s->siz);
            model_insert(s, num - 1, el);
            ok = check_state(s);
        }
        else { ok = 0; }
    }
    if (ok && s->sorted && vf_below(&FR, 4) == 0) { do_search(s, (unsigned char)vf_below(&FR, 26)); } /* A_<KIND>_SEARCH: the search operation is rare */
    surf_alias = 0;
    form_used = NULL;
    opname = save;
    return ok;
}

/* A caller structure that embeds the buffer header with A_BUF_DEF (what the macro is for) and is followed directly by its payload:
 * the constructor, the typed push / pull macros and the loops must place element k at payload + k * size, refuse the element that
 * does not fit, and leave the bytes after the payload alone. */
static void surf_embedded(size_t siz)
{
    struct
    {
        A_BUF_DEF;
        unsigned char d[6 * MAXSZ + 16];
    } x;
    size_t const z = siz ? siz : 1, cap = 1 + (size_t)vf_below(&FR, 6);
    unsigned char el[8][MAXSZ];
    char const *const save = opname;
    int ok = 1;
    size_t cnt = 0;
    void *p;
    opname = "embedded";
    form_used = "A_BUF_DEF";
    VF_COUNT("form/A_BUF_DEF");
    vf_log("buf embedded: struct { A_BUF_DEF; payload } constructed with a_buf_ctor(%zu, %zu)", siz, cap);
    memset(x.d, 0xC3, sizeof(x.d));
    a_buf_ctor(&x, siz, cap);
    if (x.num_ != 0 || x.mem_ != cap || x.siz_ != z) { FAIL("header-fields", "num_ %zu mem_ %zu siz_ %zu after a_buf_ctor(%zu, %zu)", x.num_, x.mem_, x.siz_, siz, cap); }
    if ((void *)a_buf_(*, &x) != (void *)&x || a_buf_(const *, &x)->mem_ != cap) { FAIL("cast", "a_buf_ does not give the header back"); }
    if (A_BUF_PTR(unsigned char, &x) != x.d) { FAIL("payload-address", "A_BUF_PTR %p, payload member at %p", (void *)A_BUF_PTR(unsigned char, &x), (void *)x.d); }
    for (size_t k = 0; k <= cap && ok; ++k)
    {
        for (size_t j = 0; j < z; ++j) { el[k][j] = (unsigned char)(0x11 * (k + 1) + j); }
        switch (k % 3)
        {
        case 0: p = A_BUF_PUSH_BACK(unsigned char, &x); break;
        case 1: p = A_BUF_PUSH(unsigned char, &x); break;
        default: p = a_buf_push(&x); break;
        }
        if (k == cap) { if (p) { FAIL("accepted-although-full", "push %zu into capacity %zu returned %p", k, cap, p); } }
        else if (p != (void *)(x.d + k * z)) { FAIL("element-address", "push %zu returned %p, payload + %zu is %p", k, p, k * z, (void *)(x.d + k * z)); }
        else { memcpy(p, el[k], z); }
    }
    if (ok && x.num_ != cap) { FAIL("count", "num_ %zu after %zu pushes", x.num_, cap); }
    if (ok)
    {
        a_buf_forenum(i, &x)
        {
            if (a_buf_at(&x, i) != (void *)(x.d + i * z) || memcmp(x.d + i * z, el[i], z) != 0) { FAIL("element-contents", "element %zu of the embedded buffer", (size_t)i); break; }
            ++cnt;
        }
        if (ok && cnt != cap) { FAIL("visit-count", "%zu visits for %zu elements", cnt, cap); }
    }
    if (ok)
    {
        p = (cap & 1) ? A_BUF_PULL(unsigned char, &x) : a_buf_pull(&x);
        if (p != (void *)(x.d + (cap - 1) * z) || memcmp(p, el[cap - 1], z) != 0) { FAIL("removed-element-not-intact", "pull returned %p", p); }
    }
    for (size_t j = cap * z; j < sizeof(x.d) && ok; ++j)
    {
        if (x.d[j] != 0xC3) { FAIL("write-past-capacity", "byte %zu after the payload of %zu bytes was overwritten", j - cap * z, cap * z); }
    }
    g_siz = z;
    dtor_n = 0;
    a_buf_dtor(&x, dtor_elem);
    if (ok && dtor_n != cap - 1) { FAIL("dtor-call-count", "destructor called %zu times for %zu elements", dtor_n, cap - 1); }
    ++vf.evals;
    form_used = NULL;
    opname = save;
}

static void small_case(uint64_t c, vf_rng *r)
{
    static size_t const sizes[] = {0, 1, 2, 3, 4, 7, 8, 12, 16, 24, 33};
    int is_buf = (int)(c & 1);
    size_t siz = sizes[vf_below(r, 11)];
    int nops = 30 + (int)vf_below(r, 50);
    int alive = 1;
    seq *last = &S[0];
    KN = is_buf ? "buf" : "vec";
    serial = (uint32_t)(c * 1000);
    for (int k = 0; k < 2; ++k)
    {
        size_t cap = (size_t)vf_below(r, 41);
        if (!new_container(&S[k], is_buf, siz, cap)) { alive = 0; }
    }
    /* the sorting and searching entry points on a container that holds nothing yet (mutation sweep: `mem_ > 1` for `num_ > 1` in
       a_buf_sort_back walks in front of an empty buffer) */
    for (int k = 0; k < 2 && alive; ++k)
    {
        seq *s = &S[k];
        unsigned char keyel[MAXSZ];
        int ok = 1;
        memset(keyel, 0x33, sizeof keyel);
        g_siz = s->siz;
        opname = "sort-empty";
        vf_log("%s sort / sort_fore / sort_back / search on the empty container (mem %zu)", KN, L_mem(s));
        L_sort(s);
        L_sort_fore(s);
        L_sort_back(s);
        ++vf.evals;
        VF_COUNT("sorts-and-search-on-empty-container");
        if (L_search(s, keyel)) { FAIL("found-in-empty-container", "search returned non-null on an empty container"); }
        alive = ok && check_state(s);
    }
    if (alive && vf_want_sample() && c % 3 == 0)
    {
        vf_sample("history %" PRIu64 ": two %s of element size %zu (0 means 1)%s, %d ops from {push/pull both ends, insert, remove, store, erase, setn, setm, setz, sort, sort_fore, sort_back, push_sort, search, swap, accessors} with index classes incl. num, num+1, SIZE_MAX, -num; model compared after every call",
                  c, is_buf ? "a_buf" : "a_vec", siz, is_buf ? " capacities 0..40" : "", nops);
    }
    if (alive)
    {
        /* both containers while still empty (vector: storage pointer still null), and for buffers the embedded-header use */
        surf_walk(&S[0]);
        surf_walk(&S[1]);
        if (is_buf) { surf_embedded(siz); }
    }
    for (int i = 0; i < nops && alive; ++i)
    {
        seq *s = &S[vf_below(r, 2)];
        int op = (int)vf_below(r, 24);
        int cls = 0, full;
        size_t idx;
        if (i && i % 4 == 0) /* every 4th operation: the container last operated on, through every form */
        {
            surf_walk(last);
            alive = surf_roundtrip(last);
            if (!alive) { break; }
        }
        last = s;
        form_used = NULL;
        g_siz = s->siz;
        full = L_num(s) == L_mem(s);
        switch (op)
        {
        case 0: case 1:
            opname = "push_back";
            vf_log("%s push_back (num %zu mem %zu)", KN, s->num, L_mem(s));
            alive = do_push_at(s, r, 0, 0, -1);
            cell(opname, s, 0, full);
            break;
        case 2:
            opname = "push_fore";
            vf_log("%s push_fore (num %zu mem %zu)", KN, s->num, L_mem(s));
            alive = do_push_at(s, r, 1, 0, -1);
            cell(opname, s, 0, full);
            break;
        case 3: case 4:
            opname = "insert";
            idx = pick_index(r, s->num, &cls);
            vf_log("%s insert idx=%zu [%s] (num %zu mem %zu)", KN, idx, cls_name[cls], s->num, L_mem(s));
            alive = do_push_at(s, r, 2, idx, -1);
            cell(opname, s, cls, full);
            break;
        case 5:
            opname = "pull_back";
            vf_log("%s pull_back (num %zu)", KN, s->num);
            alive = do_pull(s, 0, 0);
            cell(opname, s, 0, full);
            break;
        case 6:
            opname = "pull_fore";
            if (vf_chance(r, 1, 2)) { if (vf_chance(r, 1, 2)) { make_full(s, r); } else { make_spare(s); } }
            full = L_num(s) == L_mem(s);
            vf_log("%s pull_fore (num %zu mem %zu)", KN, s->num, L_mem(s));
            alive = do_pull(s, 1, 0);
            cell(opname, s, 0, full);
            break;
        case 7: case 8: case 9:
            opname = "remove";
            if (vf_chance(r, 1, 2)) { if (vf_chance(r, 1, 2)) { make_full(s, r); } else { make_spare(s); } }
            full = L_num(s) == L_mem(s);
            idx = pick_index(r, s->num, &cls);
            vf_log("%s remove idx=%zu [%s] (num %zu mem %zu)", KN, idx, cls_name[cls], s->num, L_mem(s));
            alive = do_pull(s, 2, idx);
            if (full) { VF_COUNT("remove-path-full"); } else { VF_COUNT("remove-path-spare"); }
            cell(opname, s, cls, full);
            break;
        case 10:
        {
            /* store n caller elements at idx */
            size_t n = (size_t)vf_below(r, 6), num = s->num, mem = L_mem(s);
            int use_copy = vf_chance(r, 1, 2), rc, ok = 1;
            unsigned char *src;
            unsigned char els[6][MAXSZ];
            opname = "store";
            idx = pick_index(r, s->num, &cls);
            if (num + n + 1 >= MAXE) { break; }
            src = (unsigned char *)malloc(n * s->siz ? n * s->siz : 1);
            for (size_t k = 0; k < n; ++k) { mk_elem(r, s, els[k], -1); memcpy(src + k * s->siz, els[k], s->siz); }
            vf_log("%s store idx=%zu [%s] n=%zu copy=%d (num %zu mem %zu)", KN, idx, cls_name[cls], n, use_copy, num, mem);
            rc = s->is_buf ? a_buf_store(s->b, idx, src, n, use_copy ? copy_elem : NULL) : a_vec_store(s->v, idx, src, n, use_copy ? copy_elem : NULL);
            free(src);
            ++vf.evals;
            if (s->is_buf && num + n > mem)
            {
                VF_COUNT("buf-refuses-when-full");
                if (rc == A_SUCCESS) { FAIL("accepted-although-full", "store of %zu into num %zu mem %zu returned success", n, num, mem); alive = 0; break; }
            }
            else
            {
                if (rc != A_SUCCESS) { FAIL("unexpected-error", "rc %d", rc); alive = 0; break; }
                for (size_t k = 0; k < n; ++k) { model_insert(s, (idx < num ? idx : num) + k, els[k]); }
                if (n) { s->sorted = model_is_sorted(s); }
            }
            (void)ok;
            alive = check_state(s);
            cell(opname, s, cls, (int)n);
            break;
        }
        case 11: case 12:
        {
            size_t n, num = s->num;
            int ncls, rc, with_dtor = vf_chance(r, 1, 2), ok = 1;
            opname = "erase";
            idx = pick_index(r, s->num, &cls);
            n = pick_index(r, s->num, &ncls);
            if (ncls == 9 || ncls == 10) { n = (size_t)vf_below(r, 5); }
            vf_log("%s erase idx=%zu [%s] n=%zu [%s] dtor=%d (num %zu)", KN, idx, cls_name[cls], n, cls_name[ncls], with_dtor, num);
            dtor_n = 0;
            rc = s->is_buf ? a_buf_erase(s->b, idx, n, with_dtor ? dtor_elem : NULL) : a_vec_erase(s->v, idx, n, with_dtor ? dtor_elem : NULL);
            ++vf.evals;
            if (idx >= num)
            {
                VF_COUNT("erase-out-of-range-reports-obounds");
                if (rc != A_OBOUNDS) { FAIL("out-of-range-not-reported", "idx %zu >= num %zu returned %d", idx, num, rc); }
                if (dtor_n) { FAIL("dtor-called-out-of-range", "%zu destructor calls", dtor_n); }
            }
            else
            {
                size_t cnt = n < num - idx ? n : num - idx; /* clipped at the end */
                unsigned char w[MAXSZ];
                if (rc != A_SUCCESS) { FAIL("unexpected-error", "rc %d for idx %zu n %zu num %zu", rc, idx, n, num); alive = 0; break; }
                if (with_dtor)
                {
                    VF_COUNT("erase-destroys-each-erased-element-once");
                    if (dtor_n != cnt) { FAIL("dtor-call-count", "%zu destructor calls for %zu erased elements", dtor_n, cnt); }
                    else
                    {
                        for (size_t k = 0; k < cnt; ++k)
                        {
                            if (memcmp(dtor_log[k], s->e[idx + k], s->siz) != 0) { FAIL("dtor-wrong-element", "destructor call %zu got a different element", k); break; }
                        }
                    }
                }
                for (size_t k = 0; k < cnt; ++k) { model_remove(s, idx, w); }
            }
            (void)ok;
            alive = check_state(s);
            cell(opname, s, cls * 16 + ncls, 0);
            break;
        }
        case 13:
        {
            /* setn: shrink with dtor / grow (new elements are then written by the caller) */
            size_t num = s->num, n = (size_t)vf_below(r, num + 6), mem = L_mem(s);
            int with_dtor = vf_chance(r, 1, 2), ok = 1;
            opname = "setn";
            if (n + 1 >= MAXE) { break; }
            vf_log("%s setn %zu dtor=%d (num %zu mem %zu)", KN, n, with_dtor, num, mem);
            dtor_n = 0;
            if (s->is_buf) { a_buf_setn(s->b, n, with_dtor ? dtor_elem : NULL); }
            else
            {
                int rc = a_vec_setn(s->v, n, with_dtor ? dtor_elem : NULL);
                if (rc != A_SUCCESS) { FAIL("unexpected-error", "rc %d", rc); alive = 0; break; }
            }
            ++vf.evals;
            {
                size_t want = (s->is_buf && n > mem) ? mem : n;
                if (with_dtor && want < num)
                {
                    VF_COUNT("setn-destroys-dropped-elements");
                    if (dtor_n != num - want) { FAIL("dtor-call-count", "%zu destructor calls for %zu dropped elements", dtor_n, num - want); }
                }
                if (L_num(s) != want) { FAIL("count", "count %zu after setn(%zu) (mem %zu)", L_num(s), n, mem); alive = 0; break; }
                if (want > num)
                {
                    /* new tail elements are unspecified: the caller initialises them */
                    unsigned char *p = L_ptr(s);
                    for (size_t k = num; k < want; ++k)
                    {
                        unsigned char el[MAXSZ];
                        mk_elem(r, s, el, -1);
                        memcpy(p + k * s->siz, el, s->siz);
                        memcpy(s->e[k], el, MAXSZ);
                    }
                }
                s->num = want;
                s->sorted = model_is_sorted(s);
            }
            (void)ok;
            alive = check_state(s);
            cell(opname, s, n > num ? 1 : n < num ? 2 : 0, with_dtor);
            break;
        }
        case 14:
        {
            size_t mem = L_mem(s), m = s->num + (size_t)vf_below(r, 12);
            int ok = 1;
            opname = "setm";
            vf_log("%s setm %zu (num %zu mem %zu)", KN, m, s->num, mem);
            if (s->is_buf)
            {
                a_buf *nb = a_buf_setm(s->b, m); /* precondition: m >= num */
                if (!nb) { FAIL("unexpected-null", "a_buf_setm(%zu) failed", m); alive = 0; break; }
                s->b = nb;
                VF_COUNT("setm-capacity");
                if (a_buf_mem(nb) != m) { FAIL("capacity", "mem %zu after setm(%zu)", a_buf_mem(nb), m); }
            }
            else
            {
                int rc = a_vec_setm(s->v, m);
                if (rc != A_SUCCESS) { FAIL("unexpected-error", "rc %d", rc); alive = 0; break; }
                VF_COUNT("setm-capacity");
                if (L_mem(s) < m || L_mem(s) < mem) { FAIL("capacity", "mem %zu after setm(%zu), before %zu", L_mem(s), m, mem); }
            }
            ++vf.evals;
            (void)ok;
            alive = check_state(s);
            cell(opname, s, m > mem, 0);
            break;
        }
        case 15:
        {
            if (vf_chance(r, 3, 4)) { break; } /* rarer: it empties the container */
            size_t nz = sizes[vf_below(r, 11)], bytes = L_mem(s) * s->siz, num = s->num;
            int with_dtor = vf_chance(r, 1, 2), ok = 1;
            opname = "setz";
            vf_log("%s setz %zu dtor=%d (num %zu mem %zu siz %zu)", KN, nz, with_dtor, num, L_mem(s), s->siz);
            dtor_n = 0;
            if (s->is_buf) { a_buf_setz(s->b, nz, with_dtor ? dtor_elem : NULL); }
            else { a_vec_setz(s->v, nz, with_dtor ? dtor_elem : NULL); }
            ++vf.evals;
            if (with_dtor && dtor_n != num) { FAIL("dtor-call-count", "%zu destructor calls for %zu elements", dtor_n, num); }
            s->siz = nz ? nz : 1;
            s->num = 0;
            s->sorted = 1;
            VF_COUNT("setz-rederives-capacity");
            if (L_mem(s) != bytes / s->siz) { FAIL("capacity", "mem %zu after setz(%zu) of %zu bytes", L_mem(s), nz, bytes); alive = 0; break; }
            (void)ok;
            alive = check_state(s);
            cell(opname, s, 0, with_dtor);
            break;
        }
        case 16:
        {
            /* sort: result sorted by key and a permutation of the model */
            int ok = 1;
            size_t n = s->num, z = s->siz;
            unsigned char *p;
            opname = "sort";
            vf_log("%s sort (num %zu)", KN, n);
            L_sort(s);
            ++vf.evals;
            VF_COUNT("sort-sorted-permutation");
            if (L_num(s) != n) { FAIL("count", "count changed"); alive = 0; break; }
            p = L_ptr(s);
            for (size_t k = 1; k < n; ++k)
            {
                if (p[(k - 1) * z] > p[k * z]) { FAIL("not-sorted", "keys %u then %u", p[(k - 1) * z], p[k * z]); alive = 0; break; }
            }
            if (!alive) { break; }
            {
                /* multiset equality: match each library element to an unused model element */
                unsigned char used[MAXE];
                memset(used, 0, sizeof(used));
                for (size_t k = 0; k < n && alive; ++k)
                {
                    size_t j;
                    for (j = 0; j < n; ++j)
                    {
                        if (!used[j] && memcmp(p + k * z, s->e[j], z) == 0) { used[j] = 1; break; }
                    }
                    if (j == n) { FAIL("element-lost", "sorted element %zu is not an element of the model", k); alive = 0; }
                }
                if (!alive) { break; }
                for (size_t k = 0; k < n; ++k) { memset(s->e[k], 0, MAXSZ); memcpy(s->e[k], p + k * z, z); }
                /* model elements keep their full MAXSZ image only up to siz; the rest is zero by construction */
            }
            s->sorted = 1;
            (void)ok;
            alive = check_state(s);
            cell(opname, s, 0, full);
            break;
        }
        case 17: case 18: case 19: case 20:
        {
            /* sorted-insert variants on a sorted sequence, in both capacity states */
            unsigned char old[MAXE][MAXSZ], el[MAXSZ];
            size_t oldn;
            int variant = op - 17, want_full = vf_chance(r, 1, 2), ok = 1;
            void *p;
            if (!s->sorted)
            {
                L_sort(s);
                for (size_t k = 0; k < s->num; ++k) { memset(s->e[k], 0, MAXSZ); memcpy(s->e[k], L_ptr(s) + k * s->siz, s->siz); }
                s->sorted = 1;
            }
            if (variant == 3) { variant = (int)vf_below(r, 3); }
            /* capacity state AFTER the raw push is what selects the implementation path */
            if (want_full)
            {
                make_full(s, r);
                if (variant != 2 && s->num)
                {
                    unsigned char w[MAXSZ];
                    (void)(s->is_buf ? a_buf_pull_back(s->b) : a_vec_pull_back(s->v));
                    model_remove(s, s->num - 1, w);
                }
            }
            else
            {
                make_spare(s);
                if (variant != 2 && L_mem(s) - L_num(s) < 2)
                {
                    if (s->is_buf) { unsigned char w[MAXSZ]; if (s->num) { a_buf_pull_back(s->b); model_remove(s, s->num - 1, w); } if (s->num) { a_buf_pull_back(s->b); model_remove(s, s->num - 1, w); } }
                    else { a_vec_setm(s->v, L_num(s) + 2); }
                }
            }
            if (s->num + 2 >= MAXE) { break; }
            if (s->is_buf && L_num(s) >= L_mem(s))
            {
                if (variant == 2)
                {
                    unsigned char k0[MAXSZ] = {7};
                    opname = "push_sort";
                    vf_log("%s push_sort on a full buffer (num %zu mem %zu)", KN, L_num(s), L_mem(s));
                    VF_COUNT("buf-refuses-when-full");
                    ++vf.evals;
                    if (L_push_sort(s, k0)) { FAIL("accepted-although-full", "push_sort returned non-null with num == mem"); alive = 0; break; }
                    alive = check_state(s);
                }
                break;
            }
            oldn = s->num;
            memcpy(old, s->e, oldn * MAXSZ);
            mk_elem(r, s, el, vf_chance(r, 1, 4) ? (int)(vf_below(r, 2) * 255) : -1);
            g_siz = s->siz;
            if (variant == 0)
            {
                opname = "sort_fore";
                p = L_push_fore(s);
                if (!p) { FAIL("unexpected-null", "push_fore failed"); alive = 0; break; }
                memcpy(p, el, s->siz);
                full = L_num(s) == L_mem(s);
                vf_log("%s push_fore key %u + sort_fore (num %zu mem %zu, %s path)", KN, el[0], L_num(s), L_mem(s), full ? "full" : "spare");
                L_sort_fore(s);
                if (full) { VF_COUNT("sort_fore-path-full"); } else { VF_COUNT("sort_fore-path-spare"); }
            }
            else if (variant == 1)
            {
                opname = "sort_back";
                p = L_push_back(s);
                if (!p) { FAIL("unexpected-null", "push_back failed"); alive = 0; break; }
                memcpy(p, el, s->siz);
                full = L_num(s) == L_mem(s);
                vf_log("%s push_back key %u + sort_back (num %zu mem %zu, %s path)", KN, el[0], L_num(s), L_mem(s), full ? "full" : "spare");
                L_sort_back(s);
                if (full) { VF_COUNT("sort_back-path-full"); } else { VF_COUNT("sort_back-path-spare"); }
            }
            else
            {
                opname = "push_sort";
                vf_log("%s push_sort key %u (num %zu mem %zu)", KN, el[0], L_num(s), L_mem(s));
                g_key_ptr = el; g_key_left = 0;
                p = L_push_sort(s, el);
                g_key_ptr = NULL;
                if (g_key_left) { FAIL("comparator-key-on-the-left", "%d comparator calls had the key as the left operand (documented: the key on the right)", g_key_left); alive = 0; break; }
                if (!p) { FAIL("unexpected-null", "push_sort failed with num %zu mem %zu", oldn, L_mem(s)); alive = 0; break; }
                if (!check_owned(s, p, "push_sort slot")) { alive = 0; break; }
                memcpy(p, el, s->siz);
                full = L_num(s) == L_mem(s);
                VF_COUNT("push_sort");
            }
            ++vf.evals;
            (void)ok;
            alive = check_sorted_insert(s, (unsigned char const(*)[MAXSZ])old, oldn, el) && check_state(s);
            cell(opname, s, el[0] == 0 ? 1 : el[0] == 255 ? 2 : 0, full);
            break;
        }
        case 21:
        {
            /* search on a sorted sequence */
            int present;
            if (!s->sorted) { break; }
            present = do_search(s, (unsigned char)vf_below(r, 26));
            cell(opname, s, present, 0);
            break;
        }
        case 22:
        {
            /* accessors */
            int ok = 1;
            unsigned char *b = L_ptr(s);
            size_t n = s->num, m = L_mem(s), z = s->siz;
            ptrdiff_t di;
            void *p;
            opname = "access";
            idx = pick_index(r, n, &cls);
            vf_log("%s accessors idx=%zu [%s]", KN, idx, cls_name[cls]);
            p = s->is_buf ? a_buf_at(s->b, idx) : a_vec_at(s->v, idx);
            ++vf.evals;
            VF_COUNT("accessors");
            if (idx < m ? p != b + idx * z : p != NULL) { FAIL("at", "at(%zu) = %p with mem %zu base %p", idx, p, m, (void *)b); }
            di = (ptrdiff_t)vf_range(r, -(int64_t)n - 2, (int64_t)n + 2);
            p = s->is_buf ? a_buf_of(s->b, di) : a_vec_of(s->v, di);
            {
                size_t eff = di >= 0 ? (size_t)di : (size_t)di + n;
                if (eff < m ? p != b + eff * z : p != NULL) { FAIL("of", "of(%td) = %p with num %zu mem %zu", di, p, n, m); }
            }
            p = s->is_buf ? a_buf_top(s->b) : a_vec_top(s->v);
            if (n ? p != b + (n - 1) * z : p != NULL) { FAIL("top", "top = %p with num %zu", p, n); }
            p = s->is_buf ? a_buf_end(s->b) : a_vec_end(s->v);
            if (b ? p != b + n * z : p != NULL) { FAIL("end", "end = %p with num %zu", p, n); }
            if (z == 8 && !s->is_buf)
            {
                size_t cnt = 0;
                a_vec_foreach(uint64_t, *, it, s->v)
                {
                    if ((unsigned char *)it != b + cnt * 8) { FAIL("foreach", "foreach visits %p at step %zu", (void *)it, cnt); break; }
                    ++cnt;
                }
                if (cnt != n) { FAIL("foreach", "foreach visited %zu of %zu", cnt, n); }
                cnt = 0;
                a_vec_foreach_reverse(uint64_t, *, it, s->v)
                {
                    if ((unsigned char *)it != b + (n - 1 - cnt) * 8) { FAIL("foreach_reverse", "visits %p at step %zu", (void *)it, cnt); break; }
                    ++cnt;
                }
                if (cnt != n) { FAIL("foreach_reverse", "visited %zu of %zu", cnt, n); }
                VF_COUNT("foreach-macros");
            }
            if (z == 8 && s->is_buf)
            {
                size_t cnt = 0;
                a_buf_foreach(uint64_t, *, it, s->b)
                {
                    if ((unsigned char *)it != b + cnt * 8) { FAIL("foreach", "foreach visits %p at step %zu", (void *)it, cnt); break; }
                    ++cnt;
                }
                if (cnt != n) { FAIL("foreach", "foreach visited %zu of %zu", cnt, n); }
                VF_COUNT("foreach-macros");
            }
            (void)ok;
            cell(opname, s, cls, 0);
            break;
        }
        default:
            if (!is_buf && vf_chance(r, 1, 3))
            {
                /* whole-vector swap */
                seq t;
                opname = "swap";
                vf_log("vec swap");
                a_vec_swap(S[0].v, S[1].v);
                ++vf.evals;
                VF_COUNT("vec-swap");
                /* the handles stay, the contents (and models) change sides */
                t = S[0];
                {
                    a_vec *v0 = S[0].v, *v1 = S[1].v;
                    int c0 = S[0].by_ctor, c1 = S[1].by_ctor;
                    S[0] = S[1];
                    S[1] = t;
                    S[0].v = v0;
                    S[1].v = v1;
                    S[0].by_ctor = c0;
                    S[1].by_ctor = c1;
                }
                g_siz = S[0].siz;
                alive = check_state(&S[0]) && check_state(&S[1]);
                cell(opname, s, 0, 0);
            }
            break;
        }
    }
    form_used = NULL;
    for (int k = 0; k < 2 && alive; ++k) /* end of the history: both containers through every form */
    {
        surf_walk(&S[k]);
        alive = surf_roundtrip(&S[k]);
    }
    for (int k = 0; k < 2 && alive; ++k) /* a container whose state is already refuted is not driven further */
    {
        if (S[k].v || S[k].b) { del_container(&S[k]); }
    }
}
