/* C12 - PID controllers (plain a_pid, fuzzy-tuned a_pid_fuzzy, single-neuron a_pid_neuro) stay within their limits and
 * follow their documented difference equations for every history.
 *
 * Equations the reference is written from (include/a/pid.h, pid_fuzzy.h, pid_neuro.h; state fields as documented in
 * struct a_pid: sum = integrator, out = last output, var/fdb/err = cached derivative term / feedback / error):
 *   e(k) = set(k) - fdb(k),   v(k) = fdb(k-1) - fdb(k)   (derivative on measurement: "avoid derivative kick", the form the
 *                                                          property's anchors name; equals e(k)-e(k-1) while set is constant)
 *   run : u(k) = sat(set(k))                                                   (sum untouched)
 *   pos : S(k) = S(k-1) + q*Ki*e(k);  u(k) = sat(Kp*e(k) + S(k) + Kd*v(k))
 *         q = 0 iff the integrator has reached or passed a clamp (S(k-1) >= summax or S(k-1) <= summin) and e(k) does not
 *         point back towards zero (S(k-1) and e(k) not of strictly opposite sign); q = 1 otherwise
 *   inc : u(k) = sat(u(k-1) + Kp*[e(k)-e(k-1)] + Ki*e(k) + Kd*[v(k)-v(k-1)])   (sum untouched)
 *   all modes store var = v(k), fdb = fdb(k), err = e(k); zero: sum = out = var = fdb = err = 0.
 *   fuzzy : before the step  K* = K*_base + sum_ij J_ij * M*[i][j] / sum_ij J_ij,  J_ij = opr(mu_e_i(e(k)), mu_ec_j(ec(k))),
 *           ec(k) = e(k) - e(k-1), over the sets with non-zero membership; no adjustment when no set of e or of ec fires.
 *   neuron: x_i = e(k), x_p = ec(k) = e(k)-e(k-1), x_d = ec(k)-ec(k-1);
 *           w_*(k) = w_*(k-1) + eta_* * e(k) * u(k-1) * x_*(k-1)      (causal reading of the header's circular w(k)/u(k) pair;
 *                                                                     x_*(k-1) = the values cached by the previous step)
 *           u(k) = sat( u(k-1) + K * (w_p x_p + w_i x_i + w_d x_d) / (|w_p|+|w_i|+|w_d|) )
 *
 * Regimes
 *   exact : set-points, feedback and limits integer valued, gains k/16.  Every product and sum is a multiple of 2^-4 (plain)
 *           resp. 2^-12 (fuzzy, see below) far below 2^53, so every double operation in the library is exact; the reference is
 *           evaluated in __float128 (113 bits, exact a fortiori) and compared with ==, i.e. BITWISE up to the sign of zero,
 *           which the equations do not determine.  The plain-PID reference runs independently over the whole history (own
 *           state); a closed form  u(k) = Kp e(k) + Ki sum_{i<=k} e(i) + Kd v(k)  is used in addition while no limit is active.
 *           fuzzy: membership tables are triangular/trapezoidal/linear-shoulder sets with integer break points whose flank
 *           widths are powers of two, inputs are integers, consequents k/16: memberships are multiples of 1/8, joint memberships
 *           (all operators but the sqrt based "equ") multiples of 1/64.  A step is exact when the normaliser sum J_ij is a power of
 *           two (always for the algebraic product on a partition of unity, always when one rule fires with weight 1); then
 *           gains, integrator and output are compared bitwise.  Other steps ("semi-exact") and every step after one (until
 *           the next zero) use the one-step oracle below.
 *   real  : arbitrary reals of magnitude <= 1e6.  plain/fuzzy: range, finiteness and integrator-clamp clauses only (plus the cached
 *           fields err/fdb/var, which are single correctly rounded operations and therefore bitwise reproducible).
 *   one-step oracle (semi-exact fuzzy steps; neuron in both regimes, whose division makes exactness impossible): the documented
 *           equation is evaluated in __float128 on the library's OWN previous state and compared within
 *           TOL = 16*eps*sum|terms|.  A-priori bound of the double evaluation: at most 5 roundings per term (gamma_5 = 2.5 eps)
 *           for the PID forms, 7 for the neuron output (3.5 eps), 4 for a weight update (2 eps): TOL has >= 4.5x head-room over
 *           the proof bound, the worst observed ratio is reported through VF_MAX.
 *           fuzzy gains on semi-exact steps: |K - ref| <= 2(n+4) eps (|base| + max|consequent of a firing rule|), n = number of
 *           firing rules: a-priori bound of an n-term inner product with weights that carry <= 1.5 eps relative error (sqrt based
 *           operator), one reciprocal, one product, one sum is (n+3) eps/2 of that scale, so the head-room is >= 4x the proof
 *           bound; worst observed ratio over seeds 1..5 (thorough): 0.13, reported through VF_MAX.
 *
 * Reconfiguration between steps (clauses added for seeded change C12-J, in which a refactoring of a_pid_fuzzy_out_ stopped re-deriving the
 *   effective gain of a gain without rule table, so that pid.k? became state carried from call to call): "every history ... any gains and
 *   limits" includes histories in which the configuration changes between two steps - the headers offer setters without restricting them
 *   to the time before the first step and document the configuration as public fields.  In every fourth block of the plan seven cases are
 *   reconfiguration-dense (<= 160 steps, one reconfiguration before about every 6th step, zeroing about every 25 steps): plain PID
 *   (a_pid_set_kpid, fields kp/ki/kd, limit fields), fuzzy (fz_reconfigure: a_pid_fuzzy_set_rule with another order / tables / NULL pattern and
 *   a_pid_fuzzy_set_bfuzz, a_pid_fuzzy_set_kpid, base fields, a_pid_fuzzy_set_opr, the gains of the embedded a_pid, limit fields), neuron
 *   (a_pid_neuro_set_kpid / set_wpid, fields k, wp, wi, wd, learning constants, output limits).  The oracles are the ones above, evaluated with the
 *   configuration in force at the step (the harness's own record of what it set last); in addition: a setter stores its arguments and leaves
 *   state, limits and the other configuration as they are; the effective gain of a fuzzy gain whose table is NULL equals the base gain in
 *   force bitwise after every step; the zero-vs-fresh twin is built with the configuration in force and follows later reconfigurations.
 *
 * Defects of liba first reported by this harness (both repaired in /repo since; the keys stay as regression keys):
 *   pid_fuzzy/state-not-finite/all-joint-memberships-zero   bounded product: sets of e and ec fire but every J_ij = 0 -> 1/0 -> NaN
 *     gains and integrator from then on (fix e9ff772: base gains are kept when the sum of the joint memberships is 0, which is
 *     also what the reference expects)
 *   pid_neuro_inc/out-ne-documented-equation/previous-output-not-accumulated   the code computed u(k) = sat(K*sum(w x)/sum|w|),
 *     pid_neuro.h documents u(k) = u(k-1) + K*... (fix ce0fb53).  NEURO_DOC_ACCUMULATES=0 would make the reference follow the old code.
 * Observations that are NOT judged (the headers do not determine them): with summax = 0 (or summin = 0) the strict window
 * summin < S < summax never holds at S = 0, so the positional integrator never leaves 0; a_pid_neuro_run stores fdb(k-1)-fdb(k)
 * in pid.var, which the next a_pid_neuro_inc uses as x_d(k-1) in the w_d update (the reference mirrors the cached field);
 * with all three neuron weights 0 the quotient is 0/0 and A_SAT parks the output at outmin.
 */
#define VF_PROP "C12"
#include "vf_common.h"
#include <math.h>
#include <float.h>
#include <quadmath.h>
#include "a/a.h"
#include "a/pid.h"
#include "a/mf.h"
#include "a/fuzzy.h"
#include "a/pid_fuzzy.h"
#include "a/pid_neuro.h"

#ifndef NEURO_DOC_ACCUMULATES
#define NEURO_DOC_ACCUMULATES 1
#endif

#define EPS DBL_EPSILON
#define TOLK 16 /* one-step tolerance = TOLK * eps * sum|terms| (see header) */
#define MAXL 2000u

typedef __float128 q_t;
#define LD(x) ((long double)(x)) /* for messages: vsnprintf has no binary128 conversion */
static inline q_t qabs(q_t x) { return x < 0 ? -x : x; }
static inline q_t qsat(q_t x, double lo, double hi) { return x <= lo ? (q_t)lo : x >= hi ? (q_t)hi : x; }
static inline int is_pow2_q(q_t w)
{
    int ex;
    return w > 0 && frexpq(w, &ex) == 0.5Q;
}

enum { M_RUN, M_POS, M_INC };
static char const *const MODE_NAME[3] = {"run", "pos", "inc"};
enum { CTL_PID, CTL_FUZZY, CTL_NEURO };
static char const *const CTL_NAME[3] = {"pid", "pid_fuzzy", "pid_neuro"};

typedef struct { double summax, summin, outmax, outmin; } lim_t;

/* ------------------------------------------------------------------ reference PID step (mirrors the documented state) */
typedef struct { q_t sum, out, var, fdb, err; } qst;
typedef struct
{
    qst s;         /* expected state after the step */
    q_t raw;       /* output before saturation */
    q_t inc;       /* Ki*e(k) */
    q_t mag_out;   /* sum of |terms| of the output expression */
    q_t mag_sum;   /* |S(k-1)| + |Ki e| */
    int integrated; /* pos: integrator updated */
    int inhibited;  /* pos: integration suspended although Ki*e != 0 */
    int clamped;    /* -1 output raised to outmin, +1 lowered to outmax, 0 */
} qstep;

static qst qst_of(a_pid const *c)
{
    qst s;
    s.sum = c->sum; s.out = c->out; s.var = c->var; s.fdb = c->fdb; s.err = c->err;
    return s;
}
static qst const QST_ZERO = {0, 0, 0, 0, 0};

static qstep ref_pid(qst const *p, int mode, q_t kp, q_t ki, q_t kd, lim_t const *l, double set, double fdb)
{
    qstep o;
    /* e(k) and v(k) are single operations on stored doubles: the library's stored values are their correctly rounded results */
    double const e = set - fdb;
    double const v = (double)p->fdb - fdb;
    memset(&o, 0, sizeof(o));
    o.s = *p;
    o.inc = ki * e;
    if (mode == M_RUN)
    {
        o.raw = set;
        o.mag_out = qabs(o.raw);
    }
    else if (mode == M_POS)
    {
        int const at_hi = p->sum >= l->summax, at_lo = p->sum <= l->summin;
        int const back = (p->sum > 0 && e < 0) || (p->sum < 0 && e > 0);
        o.mag_sum = qabs(p->sum) + qabs(o.inc);
        if (!(at_hi || at_lo) || back)
        {
            o.s.sum = p->sum + o.inc;
            o.integrated = 1;
        }
        else if (o.inc != 0) { o.inhibited = 1; }
        o.raw = kp * e + o.s.sum + kd * v;
        o.mag_out = qabs(kp * e) + qabs(o.s.sum) + qabs(kd * v);
        /* the stored S(k) carries the rounding of S(k-1) + Ki*e, which is relative to |S(k-1)| + |Ki e|, not to |S(k)| (cancellation) */
        if (o.integrated) { o.mag_out += o.mag_sum; }
    }
    else
    {
        o.raw = p->out + kp * (e - p->err) + ki * e + kd * (v - p->var);
        o.mag_out = qabs(p->out) + qabs(kp) * (qabs(e) + qabs(p->err)) + qabs(ki * e) + qabs(kd) * (qabs(v) + qabs(p->var));
    }
    o.s.out = qsat(o.raw, l->outmin, l->outmax);
    o.clamped = o.s.out != o.raw ? (o.raw > o.s.out ? 1 : -1) : 0;
    o.s.var = v;
    o.s.fdb = fdb;
    o.s.err = e;
    return o;
}

/* ------------------------------------------------------------------ small helpers */
static inline double ulp_of(double m)
{
    m = fabs(m);
    if (!(m >= DBL_MIN)) { return 0x1p-1074; }
    if (m >= DBL_MAX) { return 0x1p971; }
    return nextafter(m, INFINITY) - m;
}
static void *xmalloc(size_t n)
{
    void *p = malloc(n ? n : 1);
    if (!p) { fprintf(stderr, "h_pid: out of memory\n"); exit(2); }
    return p;
}
static char const *keyf(char *buf, size_t cap, char const *fmt, ...) __attribute__((format(printf, 3, 4)));
static char const *keyf(char *buf, size_t cap, char const *fmt, ...)
{
    va_list ap;
    va_start(ap, fmt);
    vsnprintf(buf, cap, fmt, ap);
    va_end(ap);
    return buf;
}
static char const *fmt_pid(char *b, size_t cap, a_pid const *c)
{
    snprintf(b, cap, "{kp=%a ki=%a kd=%a summax=%a summin=%a sum=%a outmax=%a outmin=%a out=%a var=%a fdb=%a err=%a}", c->kp, c->ki, c->kd,
             c->summax, c->summin, c->sum, c->outmax, c->outmin, c->out, c->var, c->fdb, c->err);
    return b;
}

/* op log: header lines stay, the step lines are a sliding window (the witness of a violation carries the full previous state) */
static uint32_t log_mark;
static unsigned log_steps;
static void log_header_done(void) { log_mark = vf_log_mark(); log_steps = 0; }
static void log_step(char const *api, unsigned k, double set, double fdb)
{
    if (++log_steps > 200) { vf_log_rewind(log_mark); log_steps = 1; vf_log("... (earlier steps dropped from the log window)"); }
    vf_log("k=%u a_%s(set=%a, fdb=%a)", k, api, set, fdb);
}

/* distinct cell: (controller, mode, operator, rule order, which limits are active after the step) */
static void cell(int ctl, int mode, unsigned opr, unsigned order, a_pid const *c, int pos_sum)
{
    unsigned mask = 0;
    if (c->out == c->outmax) { mask |= 1; }
    if (c->out == c->outmin) { mask |= 2; }
    if (pos_sum && c->sum >= c->summax) { mask |= 4; }
    if (pos_sum && c->sum <= c->summin) { mask |= 8; }
    vf_distinct(vf_hash64(vf_hash64(vf_hash64(vf_hash64(vf_hash64(0xC12, (uint64_t)ctl), (uint64_t)mode), opr), order), mask));
    if (mask & 1) { VF_COUNT("seen-output-at-outmax"); }
    if (mask & 2) { VF_COUNT("seen-output-at-outmin"); }
    if (mask & 4) { VF_COUNT("seen-integrator-at-or-beyond-summax"); }
    if (mask & 8) { VF_COUNT("seen-integrator-at-or-beyond-summin"); }
}

/* ------------------------------------------------------------------ monitors shared by all controllers */
/* range + finiteness + configuration untouched + returned value; returns 0 if the state is poisoned (stop the case) */
static int judge_common(int ctl, int mode, unsigned k, a_pid const *before, a_pid const *after, double ret, double set, double fdb)
{
    char key[128], b1[512], b2[512];
    int ok = 1;
    VF_COUNT("out-within-limits");
    if (!(after->out >= after->outmin && after->out <= after->outmax))
    {
        vf_viol(keyf(key, sizeof key, "%s_%s/output-outside-limits", CTL_NAME[ctl], MODE_NAME[mode]),
                "step %u: a_%s_%s(set=%a, fdb=%a) leaves out=%a outside [outmin=%a, outmax=%a]; before %s after %s", k, CTL_NAME[ctl], MODE_NAME[mode],
                set, fdb, after->out, after->outmin, after->outmax, fmt_pid(b1, sizeof b1, before), fmt_pid(b2, sizeof b2, after));
        ok = isfinite(after->out);
    }
    VF_COUNT("state-finite");
    if (!(isfinite(after->sum) && isfinite(after->out) && isfinite(after->var) && isfinite(after->fdb) && isfinite(after->err) &&
          isfinite(after->kp) && isfinite(after->ki) && isfinite(after->kd)))
    {
        ok = 0; /* reported by the caller, which knows the cause class */
    }
    VF_COUNT("return-eq-out-field");
    if (!(ret == after->out) && isfinite(after->out))
    {
        vf_viol(keyf(key, sizeof key, "%s_%s/return-ne-out-field", CTL_NAME[ctl], MODE_NAME[mode]), "step %u: returned %a but out field is %a", k, ret, after->out);
    }
    VF_COUNT("limits-untouched");
    if (memcmp(&before->summax, &after->summax, sizeof(double)) || memcmp(&before->summin, &after->summin, sizeof(double)) ||
        memcmp(&before->outmax, &after->outmax, sizeof(double)) || memcmp(&before->outmin, &after->outmin, sizeof(double)))
    {
        vf_viol(keyf(key, sizeof key, "%s_%s/limit-field-changed", CTL_NAME[ctl], MODE_NAME[mode]), "step %u: before %s after %s", k,
                fmt_pid(b1, sizeof b1, before), fmt_pid(b2, sizeof b2, after));
    }
    return ok;
}

/* cached fields: single correctly rounded operations, bitwise in every regime */
static void judge_cached(int ctl, int mode, unsigned k, a_pid const *before, a_pid const *after, qst const *exp, double set, double fdb)
{
    char key[128], b1[512];
    VF_COUNT("cached-fields-bitwise");
    if (!((q_t)after->fdb == exp->fdb))
    {
        vf_viol(keyf(key, sizeof key, "%s_%s/fdb-field-ne-feedback", CTL_NAME[ctl], MODE_NAME[mode]), "step %u (set=%a fdb=%a): fdb field %a, expected %a; before %s", k,
                set, fdb, after->fdb, (double)exp->fdb, fmt_pid(b1, sizeof b1, before));
    }
    if (!((q_t)after->err == exp->err))
    {
        vf_viol(keyf(key, sizeof key, "%s_%s/err-field-ne-set-minus-fdb", CTL_NAME[ctl], MODE_NAME[mode]), "step %u (set=%a fdb=%a): err field %a, expected %a; before %s",
                k, set, fdb, after->err, (double)exp->err, fmt_pid(b1, sizeof b1, before));
    }
    if (!((q_t)after->var == exp->var))
    {
        vf_viol(keyf(key, sizeof key, "%s_%s/var-field-ne-documented-term", CTL_NAME[ctl], MODE_NAME[mode]), "step %u (set=%a fdb=%a): var field %a, expected %a; before %s",
                k, set, fdb, after->var, (double)exp->var, fmt_pid(b1, sizeof b1, before));
    }
}

/* integrator clauses of the property, judged on the library's own before/after state (all regimes) */
static void judge_integrator(int ctl, int mode, unsigned k, a_pid const *before, a_pid const *after, double set, double fdb)
{
    char key[128], b1[512];
    double const s0 = before->sum, s1 = after->sum;
    if (mode != M_POS)
    {
        VF_COUNT("sum-untouched-by-run-inc");
        if (memcmp(&s0, &s1, sizeof(double)))
        {
            vf_viol(keyf(key, sizeof key, "%s_%s/integrator-changed-by-non-positional-step", CTL_NAME[ctl], MODE_NAME[mode]),
                    "step %u (set=%a fdb=%a): sum %a -> %a; before %s", k, set, fdb, s0, s1, fmt_pid(b1, sizeof b1, before));
        }
        return;
    }
    if (!(after->ki >= 0) || !isfinite(s0) || !isfinite(s1)) { VF_COUNT("integrator-clauses-skipped-ki-negative-or-nan"); return; }
    {
        double const inc = fabs(after->ki * after->err); /* the increment of this step, same double operation as the controller's */
        VF_COUNT("integrator-not-further-beyond-clamp");
        if ((s0 >= before->summax && s1 > s0) || (s0 <= before->summin && s1 < s0))
        {
            vf_viol(keyf(key, sizeof key, "%s_pos/integrator-moves-further-beyond-clamp", CTL_NAME[ctl]),
                    "step %u (set=%a fdb=%a): sum %a -> %a although already at/beyond [summin=%a, summax=%a] (ki=%a err=%a); before %s", k, set, fdb, s0, s1,
                    before->summin, before->summax, after->ki, after->err, fmt_pid(b1, sizeof b1, before));
        }
        VF_COUNT("integrator-overshoot-le-one-increment");
        if ((s1 > before->summax && s0 < before->summax && (q_t)s1 - before->summax > (q_t)inc + ulp_of(s1)) ||
            (s1 < before->summin && s0 > before->summin && (q_t)before->summin - s1 > (q_t)inc + ulp_of(s1)))
        {
            vf_viol(keyf(key, sizeof key, "%s_pos/integrator-overshoots-clamp-by-more-than-one-increment", CTL_NAME[ctl]),
                    "step %u (set=%a fdb=%a): sum %a -> %a, clamp [summin=%a, summax=%a], |ki*err|=%a; before %s", k, set, fdb, s0, s1, before->summin,
                    before->summax, inc, fmt_pid(b1, sizeof b1, before));
        }
        if (s1 != s0)
        {
            VF_COUNT("integrator-step-eq-one-increment");
            /* when the integrator moves it moves by exactly one rounded increment ki*err */
            double const d = after->ki * after->err;
            if (!(s1 == s0 + d))
            {
                vf_viol(keyf(key, sizeof key, "%s_pos/integrator-step-ne-ki-times-err", CTL_NAME[ctl]), "step %u (set=%a fdb=%a): sum %a -> %a but ki*err=%a; before %s", k,
                        set, fdb, s0, s1, d, fmt_pid(b1, sizeof b1, before));
            }
        }
    }
}

/* compare sum/out with the reference: exact (==) or within tol */
static void judge_equation(int ctl, int mode, unsigned k, a_pid const *before, a_pid const *after, qstep const *o, int exact, double set, double fdb,
                           char const *what)
{
    char key[160], b1[512], b2[512];
    if (exact)
    {
        VF_COUNT("equation-exact-sum");
        if (!((q_t)after->sum == o->s.sum))
        {
            vf_viol(keyf(key, sizeof key, "%s_%s/sum-ne-documented-equation", CTL_NAME[ctl], MODE_NAME[mode]),
                    "step %u (%s) a_%s_%s(set=%a, fdb=%a): integrator %a, reference %a (integrated=%d inhibited=%d); before %s after %s", k, what, CTL_NAME[ctl],
                    MODE_NAME[mode], set, fdb, after->sum, (double)o->s.sum, o->integrated, o->inhibited, fmt_pid(b1, sizeof b1, before),
                    fmt_pid(b2, sizeof b2, after));
        }
        VF_COUNT("equation-exact-out");
        if (!((q_t)after->out == o->s.out))
        {
            vf_viol(keyf(key, sizeof key, "%s_%s/out-ne-documented-equation", CTL_NAME[ctl], MODE_NAME[mode]),
                    "step %u (%s) a_%s_%s(set=%a, fdb=%a): output %a, reference %a (unclamped %a); before %s after %s", k, what, CTL_NAME[ctl], MODE_NAME[mode], set,
                    fdb, after->out, (double)o->s.out, (double)o->raw, fmt_pid(b1, sizeof b1, before), fmt_pid(b2, sizeof b2, after));
        }
    }
    else
    {
        q_t const ts = TOLK * (q_t)EPS * o->mag_sum + 0x1p-1000Q, to = TOLK * (q_t)EPS * o->mag_out + 0x1p-1000Q;
        q_t const ds = qabs((q_t)after->sum - o->s.sum), dout = qabs((q_t)after->out - o->s.out);
        VF_COUNT("equation-onestep-sum");
        if (mode == M_POS && o->integrated) { VF_MAX("onestep-sum-error/tolerance", (double)(ds / ts)); }
        if (!(ds <= (mode == M_POS && o->integrated ? ts : 0)))
        {
            vf_viol(keyf(key, sizeof key, "%s_%s/sum-ne-documented-equation", CTL_NAME[ctl], MODE_NAME[mode]),
                    "step %u (%s) a_%s_%s(set=%a, fdb=%a): integrator %a, one-step reference %.21Lg (tolerance %.3Lg, integrated=%d); before %s after %s", k, what,
                    CTL_NAME[ctl], MODE_NAME[mode], set, fdb, after->sum, LD(o->s.sum), LD(ts), o->integrated, fmt_pid(b1, sizeof b1, before), fmt_pid(b2, sizeof b2, after));
        }
        VF_COUNT("equation-onestep-out");
        if (mode != M_RUN) { VF_MAX("onestep-out-error/tolerance", (double)(dout / to)); }
        if (!(dout <= (mode == M_RUN ? 0 : to)))
        {
            vf_viol(keyf(key, sizeof key, "%s_%s/out-ne-documented-equation", CTL_NAME[ctl], MODE_NAME[mode]),
                    "step %u (%s) a_%s_%s(set=%a, fdb=%a): output %a, one-step reference %.21Lg (unclamped %.21Lg, tolerance %.3Lg); before %s after %s", k, what,
                    CTL_NAME[ctl], MODE_NAME[mode], set, fdb, after->out, LD(o->s.out), LD(o->raw), LD(to), fmt_pid(b1, sizeof b1, before), fmt_pid(b2, sizeof b2, after));
        }
    }
}

static void judge_zeroed(int ctl, a_pid const *c, char const *how)
{
    char key[96], b1[512];
    VF_COUNT("zero-state-fields");
    if (!(c->sum == 0 && c->out == 0 && c->var == 0 && c->fdb == 0 && c->err == 0))
    {
        vf_viol(keyf(key, sizeof key, "%s_zero/state-field-not-cleared", CTL_NAME[ctl]), "after %s: %s", how, fmt_pid(b1, sizeof b1, c));
    }
}

/* twin comparison: a zeroed controller and a freshly initialised one must agree bitwise on everything they compute */
static void judge_twin(int ctl, int mode, unsigned k, a_pid const *a, double ra, a_pid const *t, double rt, int after_reconf)
{
    char key[128], b1[512], b2[512];
    VF_COUNT("zero-twin-bitwise");
    /* after_reconf: the controller has been reconfigured at least once in this history before or after the zeroing; the twin was created
       from garbage memory with the configuration in force at the zeroing and has received every later reconfiguration through the setters */
    if (after_reconf) { VF_COUNT("zero-then-suffix-eq-fresh-after-reconfiguration"); }
    if (memcmp(&ra, &rt, sizeof(double)) || memcmp(&a->sum, &t->sum, sizeof(double)) || memcmp(&a->out, &t->out, sizeof(double)) ||
        memcmp(&a->var, &t->var, sizeof(double)) || memcmp(&a->fdb, &t->fdb, sizeof(double)) || memcmp(&a->err, &t->err, sizeof(double)) ||
        memcmp(&a->kp, &t->kp, sizeof(double)) || memcmp(&a->ki, &t->ki, sizeof(double)) || memcmp(&a->kd, &t->kd, sizeof(double)))
    {
        if ((isnan(ra) && isnan(rt)) || (isnan(a->sum) && isnan(t->sum))) { return; } /* NaN payloads: reported by the finiteness clause */
        vf_viol(keyf(key, sizeof key, after_reconf ? "%s_zero/suffix-differs-from-fresh-controller/after-reconfiguration" : "%s_zero/zeroed-controller-differs-from-fresh-one", CTL_NAME[ctl]),
                "step %u after zero, mode %s%s: zeroed controller returned %a state %s, freshly initialised twin returned %a state %s", k, MODE_NAME[mode],
                after_reconf ? " (history with reconfiguration; the twin holds the same configuration in force)" : "", ra, fmt_pid(b1, sizeof b1, a), rt, fmt_pid(b2, sizeof b2, t));
    }
}

/* A reconfiguration through the library (a setter call between two steps) changes the configuration it names and nothing else: the
   controller STATE (integrator, last output, cached derivative term / feedback / error) and the limits are as before, so the documented
   equations continue from the same state with the new configuration.  `which` is the name of the setter (stable key component). */
static void judge_state_kept(int ctl, char const *which, unsigned k, a_pid const *before, a_pid const *after)
{
    char key[160], b1[512], b2[512];
    VF_COUNT("reconfiguration-leaves-state-untouched");
    if (memcmp(&before->sum, &after->sum, sizeof(double)) || memcmp(&before->out, &after->out, sizeof(double)) || memcmp(&before->var, &after->var, sizeof(double)) ||
        memcmp(&before->fdb, &after->fdb, sizeof(double)) || memcmp(&before->err, &after->err, sizeof(double)) || memcmp(&before->summax, &after->summax, 2 * sizeof(double)) ||
        memcmp(&before->outmax, &after->outmax, 2 * sizeof(double)))
    {
        vf_viol(keyf(key, sizeof key, "%s/state-or-limit-changed-by-reconfiguration/%s", CTL_NAME[ctl], which), "before step %u: a_%s changed a state or limit field: before %s after %s", k,
                which, fmt_pid(b1, sizeof b1, before), fmt_pid(b2, sizeof b2, after));
    }
}

/* ------------------------------------------------------------------ input generators */
enum { G_IID, G_WALK, G_SATREV, G_PLANT, G_CONST, G_NCLS };
static char const *const G_NAME[G_NCLS] = {"iid", "walk", "saturate-then-reverse", "closed-loop-plant", "piecewise-constant"};
typedef struct
{
    int cls, exact;
    double R;        /* amplitude bound */
    double set, fdb; /* current values */
    double gain;     /* plant gain */
    double sgn;
    unsigned t1, t2, hold;
} gen_t;
static double gen_fix(gen_t const *g, double v)
{
    if (v > g->R) { v = g->R; }
    if (v < -g->R) { v = -g->R; }
    return g->exact ? rint(v) : v;
}
static void gen_init(gen_t *g, vf_rng *r, int cls, int exact, double R, unsigned L)
{
    memset(g, 0, sizeof(*g));
    g->cls = cls;
    g->exact = exact;
    g->R = R;
    g->sgn = vf_sign(r);
    g->t1 = 1 + (unsigned)vf_below(r, L);
    g->t2 = g->t1 + 1 + (unsigned)vf_below(r, L);
    g->gain = exact ? ldexp(1.0, -(int)vf_range(r, 1, 4)) : vf_logu(r, -3, 0.3);
    g->set = gen_fix(g, vf_uniform(r, -R, R));
    g->fdb = gen_fix(g, vf_chance(r, 1, 2) ? 0.0 : vf_uniform(r, -R, R));
}
static void gen_next(gen_t *g, vf_rng *r, unsigned k, double last_out, double *set, double *fdb)
{
    double const R = g->R;
    switch (g->cls)
    {
    default:
    case G_IID:
        if (!vf_chance(r, 1, 16)) { g->set = vf_uniform(r, -R, R); }
        if (!vf_chance(r, 1, 16)) { g->fdb = vf_uniform(r, -R, R); }
        if (vf_chance(r, 1, 32)) { g->set = vf_chance(r, 1, 2) ? 0.0 : vf_sign(r) * R; }
        if (vf_chance(r, 1, 32)) { g->fdb = vf_chance(r, 1, 2) ? g->set : vf_sign(r) * R; }
        break;
    case G_WALK:
        if (vf_chance(r, 1, 50)) { g->set = vf_uniform(r, -R, R); }
        g->fdb += vf_uniform(r, -R / 8, R / 8);
        break;
    case G_SATREV:
        /* long one-sided error (integrator and output run into their limits), then the error changes sign */
        g->set = k < g->t1 ? g->sgn * R : k < g->t2 ? -g->sgn * R : g->sgn * R / 4;
        g->fdb = vf_chance(r, 1, 4) ? vf_uniform(r, -R / 16, R / 16) : g->fdb;
        break;
    case G_PLANT:
        if (vf_chance(r, 1, 100)) { g->set = vf_uniform(r, -R, R); }
        if (isfinite(last_out)) { g->fdb += g->exact ? trunc(last_out * g->gain) : last_out * g->gain; }
        break;
    case G_CONST:
        if (g->hold == 0)
        {
            g->hold = 1 + (unsigned)vf_below(r, 300);
            g->set = vf_uniform(r, -R, R);
            g->fdb = vf_chance(r, 1, 2) ? g->fdb : vf_uniform(r, -R, R);
        }
        --g->hold;
        break;
    }
    g->set = gen_fix(g, g->set);
    g->fdb = gen_fix(g, g->fdb);
    *set = g->set;
    *fdb = g->fdb;
}

/* history length 1..2000, all decades */
static unsigned gen_len(vf_rng *r)
{
    switch (vf_below(r, 8))
    {
    case 0: return 1 + (unsigned)vf_below(r, 8);
    case 1: case 2: return 1 + (unsigned)vf_below(r, 64);
    case 3: case 4: case 5: return 32 + (unsigned)vf_below(r, 480);
    case 6: return 400 + (unsigned)vf_below(r, 1200);
    default: return vf_chance(r, 1, 4) ? MAXL : 1000 + (unsigned)vf_below(r, 1001);
    }
}

/* dyadic gain k/16 */
static double gen_gain16(vf_rng *r, int lo, int hi) { return (double)vf_range(r, lo, hi) / 16.0; }

enum { LS_WIDE, LS_OUT_TIGHT, LS_SUM_TIGHT, LS_BOTH, LS_EDGE, LS_N };
static char const *const LS_NAME[LS_N] = {"wide", "output-tight", "integrator-tight", "both-tight", "edge"};
/* limits for amplitude R: summin <= 0 <= summax, outmin <= outmax; integers in the exact regime */
static void gen_limits(vf_rng *r, int scen, int exact, double R, lim_t *l)
{
    double const big = vf_chance(r, 1, 3) ? DBL_MAX : exact ? 0x1p30 : 1e6;
    double omax = big, omin = -big, smax = big, smin = -big;
    if (scen == LS_OUT_TIGHT || scen == LS_BOTH)
    {
        omax = vf_uniform(r, 0, 3 * R) + 1;
        omin = -(vf_uniform(r, 0, 3 * R) + 1);
    }
    if (scen == LS_SUM_TIGHT || scen == LS_BOTH)
    {
        smax = vf_uniform(r, 0, 6 * R) + 1;
        smin = -(vf_uniform(r, 0, 6 * R) + 1);
    }
    if (scen == LS_EDGE)
    {
        switch (vf_below(r, 6))
        {
        case 0: smax = 0; smin = -(vf_uniform(r, 0, 4 * R) + 1); break;
        case 1: smin = 0; smax = vf_uniform(r, 0, 4 * R) + 1; break;
        case 2: smin = smax = 0; break;
        case 3: omin = omax = vf_uniform(r, -R, R); break;                               /* degenerate output interval */
        case 4: omin = vf_uniform(r, 1, R + 1); omax = omin + vf_uniform(r, 0, R); break;      /* interval not containing 0 */
        default: omax = -vf_uniform(r, 1, R + 1); omin = omax - vf_uniform(r, 0, R); break;
        }
        if (vf_chance(r, 1, 2) && smax == big) { smax = vf_uniform(r, 0, 2 * R); smin = -vf_uniform(r, 0, 2 * R); }
    }
    if (!exact)
    {
        /* finite limits stay within the magnitude bound 1e6 of the real regime */
        if (omax != big) { omax = omax > 1e6 ? 1e6 : omax < -1e6 ? -1e6 : omax; }
        if (omin != -big) { omin = omin > 1e6 ? 1e6 : omin < -1e6 ? -1e6 : omin; }
        if (smax != big && smax > 1e6) { smax = 1e6; }
        if (smin != -big && smin < -1e6) { smin = -1e6; }
    }
    else
    {
        if (omax < big) { omax = rint(omax); }
        if (omin > -big) { omin = rint(omin); }
        if (smax < big) { smax = rint(smax); }
        if (smin > -big) { smin = rint(smin); }
    }
    if (omin > omax) { double t = omin; omin = omax; omax = t; }
    l->outmax = omax; l->outmin = omin; l->summax = smax; l->summin = smin;
}
static void set_limits(a_pid *c, lim_t const *l)
{
    c->summax = l->summax; c->summin = l->summin; c->outmax = l->outmax; c->outmin = l->outmin;
}
static lim_t limits_of(a_pid const *c)
{
    lim_t l;
    l.summax = c->summax; l.summin = c->summin; l.outmax = c->outmax; l.outmin = c->outmin;
    return l;
}
/* random mode schedule: hold a mode for a while, switch at random */
static int next_mode(vf_rng *r, int cur, unsigned pswitch_den, int nmodes_mask)
{
    if (pswitch_den && vf_below(r, pswitch_den) == 0)
    {
        for (;;)
        {
            int m = (int)vf_below(r, 3);
            if (nmodes_mask >> m & 1) { return m; }
        }
    }
    return cur;
}
static double call_pid(a_pid *c, int mode, double set, double fdb)
{
    return mode == M_RUN ? a_pid_run(c, set, fdb) : mode == M_POS ? a_pid_pos(c, set, fdb) : a_pid_inc(c, set, fdb);
}

/* ------------------------------------------------------------------ plain PID */
static a_pid *pid_new(double kp, double ki, double kd, lim_t const *l)
{
    a_pid *c = (a_pid *)xmalloc(sizeof(a_pid));
    memset(c, 0xA5, sizeof(*c)); /* garbage: init has to establish the zero state */
    a_pid_set_kpid(c, kp, ki, kd);
    set_limits(c, l);
    a_pid_init(c);
    return c;
}
static void judge_gains_kept(unsigned k, a_pid const *before, a_pid const *after)
{
    VF_COUNT("gains-untouched");
    if (memcmp(&before->kp, &after->kp, 3 * sizeof(double)))
    {
        char b1[512], b2[512];
        vf_viol("pid/gain-field-changed-by-step", "step %u: before %s after %s", k, fmt_pid(b1, sizeof b1, before), fmt_pid(b2, sizeof b2, after));
    }
}

/* exact regime, one controller, random mode switches, zero + fresh twin, occasional gain/limit changes; real regime: same driver
   without the equation oracle */
static void case_pid(vf_rng *r, int exact, int reconf)
{
    /* reconf: reconfiguration-dense history (<= 160 steps): on about every 6th step the controller is retuned through a_pid_set_kpid, through a
       write to one of the public fields kp/ki/kd, or gets new limits through the public fields summax/summin/outmax/outmin, and it is zeroed
       about every 25 steps; every step is judged with the configuration in force (the harness's own record of what it wrote) */
    unsigned const L = reconf ? 4 + (unsigned)vf_below(r, 157) : gen_len(r);
    double const R = exact ? (double)vf_range(r, 1, vf_chance(r, 1, 2) ? 30 : 1000) : vf_logu(r, -3, 6);
    int const ls = (int)vf_below(r, LS_N), gc = (int)vf_below(r, G_NCLS);
    double kp, ki, kd;
    lim_t lim;
    gen_t g;
    a_pid *c, *twin = NULL;
    qst ref = QST_ZERO;
    int mode = (int)vf_below(r, 3);
    unsigned const psw = vf_chance(r, 1, 3) ? 0 : (unsigned)vf_range(r, 2, 200);
    unsigned k, since_zero = 0, nclamp[3] = {0, 0, 0}, ninh = 0, nrec = 0;
    double last = 0;
    if (exact)
    {
        kp = gen_gain16(r, -64, 64);
        ki = vf_chance(r, 1, 6) ? 0.0 : gen_gain16(r, 0, 64);
        kd = vf_chance(r, 1, 4) ? 0.0 : gen_gain16(r, -64, 64);
    }
    else
    {
        kp = vf_chance(r, 1, 10) ? 0.0 : vf_sign(r) * vf_logu(r, -6, 6);
        ki = vf_chance(r, 1, 6) ? 0.0 : vf_logu(r, -6, 6);
        kd = vf_chance(r, 1, 4) ? 0.0 : vf_sign(r) * vf_logu(r, -6, 6);
    }
    gen_limits(r, ls, exact, R, &lim);
    gen_init(&g, r, gc, exact, R, L);
    vf_log("plain a_pid, %s regime%s: kp=%a ki=%a kd=%a summax=%a summin=%a outmax=%a outmin=%a (limits: %s), %u steps, input=%s amplitude=%a, mode switch 1/%u", exact ? "exact" : "real",
           reconf ? ", reconfiguration-dense history" : "", kp, ki, kd, lim.summax, lim.summin, lim.outmax, lim.outmin, LS_NAME[ls], L, G_NAME[gc], R, psw);
    c = pid_new(kp, ki, kd, &lim);
    judge_zeroed(CTL_PID, c, "a_pid_init on a garbage-filled struct");
    VF_COUNT("init-zero-state");
    log_header_done();
    for (k = 0; k < L; ++k)
    {
        double set, fdb, ret;
        a_pid before;
        qstep o;
        /* events between steps */
        if (since_zero > 0 && vf_below(r, reconf ? 25 : 400) == 0)
        {
            vf_log("k=%u a_pid_zero + fresh twin", k);
            a_pid_zero(c);
            judge_zeroed(CTL_PID, c, "a_pid_zero");
            free(twin);
            lim = limits_of(c);
            twin = pid_new(c->kp, c->ki, c->kd, &lim);
            ref = QST_ZERO;
            since_zero = 0;
            VF_COUNT("zero-mid-history");
        }
        if (reconf && vf_below(r, 6) == 0)
        {
            /* reconfiguration through every documented route: the setter, the public gain fields, the public limit fields (a_pid has no
               limit setter: pid.h documents summax/summin/outmax/outmin as plain fields, test/pid.c writes them directly) */
            a_pid const snap = *c;
            switch (vf_below(r, 3))
            {
            case 0:
                kp = exact ? gen_gain16(r, -64, 64) : vf_sign(r) * vf_logu(r, -6, 6);
                ki = vf_chance(r, 1, 6) ? 0.0 : exact ? gen_gain16(r, 0, 64) : vf_logu(r, -6, 6);
                kd = vf_chance(r, 1, 4) ? 0.0 : exact ? gen_gain16(r, -64, 64) : vf_sign(r) * vf_logu(r, -6, 6);
                vf_log("k=%u a_pid_set_kpid(kp=%a ki=%a kd=%a)", k, kp, ki, kd);
                a_pid_set_kpid(c, kp, ki, kd);
                judge_state_kept(CTL_PID, "pid_set_kpid", k, &snap, c);
                if (twin) { a_pid_set_kpid(twin, kp, ki, kd); }
                VF_COUNT("pid-set-kpid-mid-history");
                break;
            case 1:
            {
                int const which = (int)vf_below(r, 3);
                double const v = which == 1 ? (vf_chance(r, 1, 6) ? 0.0 : exact ? gen_gain16(r, 0, 64) : vf_logu(r, -6, 6)) : exact ? gen_gain16(r, -64, 64) : vf_sign(r) * vf_logu(r, -6, 6);
                vf_log("k=%u write to the public field %s = %a", k, which == 0 ? "kp" : which == 1 ? "ki" : "kd", v);
                if (which == 0) { kp = c->kp = v; if (twin) { twin->kp = v; } }
                else if (which == 1) { ki = c->ki = v; if (twin) { twin->ki = v; } }
                else { kd = c->kd = v; if (twin) { twin->kd = v; } }
                VF_COUNT("pid-gain-field-written-between-steps");
                break;
            }
            default:
            {
                lim_t nl;
                int const which = (int)vf_below(r, 3); /* the output pair, the integrator pair, or all four */
                gen_limits(r, (int)vf_below(r, LS_N), exact, R, &nl);
                lim = limits_of(c);
                if (which != 1) { lim.outmax = nl.outmax; lim.outmin = nl.outmin; }
                if (which != 0) { lim.summax = nl.summax; lim.summin = nl.summin; }
                vf_log("k=%u write to the public limit fields: summax=%a summin=%a outmax=%a outmin=%a", k, lim.summax, lim.summin, lim.outmax, lim.outmin);
                set_limits(c, &lim);
                if (twin) { set_limits(twin, &lim); }
                VF_COUNT("pid-limit-field-written-between-steps");
                break;
            }
            }
            ++nrec;
        }
        if (!reconf && vf_below(r, 600) == 0)
        {
            /* the user retunes / changes limits in mid-history (public fields); stays inside the quantifier */
            if (vf_chance(r, 1, 2))
            {
                kp = exact ? gen_gain16(r, -64, 64) : vf_sign(r) * vf_logu(r, -6, 6);
                ki = exact ? gen_gain16(r, 0, 64) : vf_logu(r, -6, 6);
                vf_log("k=%u a_pid_set_kpid(kp=%a ki=%a kd=%a)", k, kp, ki, kd);
                a_pid_set_kpid(c, kp, ki, kd);
                if (twin) { a_pid_set_kpid(twin, kp, ki, kd); }
            }
            else
            {
                gen_limits(r, (int)vf_below(r, LS_N), exact, R, &lim);
                vf_log("k=%u new limits summax=%a summin=%a outmax=%a outmin=%a", k, lim.summax, lim.summin, lim.outmax, lim.outmin);
                set_limits(c, &lim);
                if (twin) { set_limits(twin, &lim); }
            }
            VF_COUNT("retune-mid-history");
        }
        mode = next_mode(r, mode, psw, 7);
        gen_next(&g, r, k, last, &set, &fdb);
        before = *c;
        if (reconf)
        {
            /* the configuration in force is what the harness wrote last (its own record kp/ki/kd/lim), and the fields hold exactly that */
            lim_t const in_force = lim;
            lim = limits_of(c);
            VF_COUNT("configuration-fields-hold-what-was-written");
            if (!(c->kp == kp && c->ki == ki && c->kd == kd) || memcmp(&in_force, &lim, sizeof(lim)))
            {
                char b1[512];
                vf_viol("pid/configuration-field-ne-value-written", "before step %u: written kp=%a ki=%a kd=%a summax=%a summin=%a outmax=%a outmin=%a, controller holds %s", k, kp, ki, kd,
                        in_force.summax, in_force.summin, in_force.outmax, in_force.outmin, fmt_pid(b1, sizeof b1, c));
            }
            if (nrec) { VF_COUNT("steps-judged-after-reconfiguration"); }
        }
        lim = limits_of(c);
        o = ref_pid(exact ? &ref : &(qst){before.sum, before.out, before.var, before.fdb, before.err}, mode, reconf ? kp : c->kp, reconf ? ki : c->ki, reconf ? kd : c->kd, &lim, set, fdb);
        log_step(mode == M_RUN ? "pid_run" : mode == M_POS ? "pid_pos" : "pid_inc", k, set, fdb);
        ret = call_pid(c, mode, set, fdb);
        ++vf.evals;
        ++since_zero;
        last = ret;
        if (!judge_common(CTL_PID, mode, k, &before, c, ret, set, fdb))
        {
            char b1[512], b2[512];
            vf_viol("pid/state-not-finite", "step %u a_pid_%s(set=%a, fdb=%a): before %s after %s", k, MODE_NAME[mode], set, fdb, fmt_pid(b1, sizeof b1, &before),
                    fmt_pid(b2, sizeof b2, c));
            break;
        }
        judge_gains_kept(k, &before, c);
        judge_cached(CTL_PID, mode, k, &before, c, &o.s, set, fdb);
        judge_integrator(CTL_PID, mode, k, &before, c, set, fdb);
        if (exact)
        {
            /* exactness guard of the harness itself: the reference state must be representable */
            if ((q_t)(double)o.s.sum != o.s.sum || (q_t)(double)o.s.out != o.s.out) { VF_COUNT("exactness-guard-tripped"); break; }
            judge_equation(CTL_PID, mode, k, &before, c, &o, 1, set, fdb, "exact regime, independent running reference");
            ref = o.s;
            if (vf.case_viol) { break; }
        }
        if (twin)
        {
            double rt = call_pid(twin, mode, set, fdb);
            judge_twin(CTL_PID, mode, since_zero, c, ret, twin, rt, nrec > 0);
        }
        nclamp[1 + o.clamped] += 1;
        ninh += (unsigned)o.inhibited;
        if (o.inhibited) { VF_COUNT("seen-integration-suspended"); }
        if (mode == M_POS && o.integrated && ((before.sum >= before.summax) || (before.sum <= before.summin))) { VF_COUNT("seen-integrator-pulled-back-from-clamp"); }
        cell(CTL_PID, mode, 7, 0, c, mode == M_POS);
    }
    if (vf_want_sample() && L > 100 && !vf.case_viol && (nclamp[0] + nclamp[2]) > 0 && ninh > 0)
    {
        vf_sample("plain a_pid %s regime: kp=%g ki=%g kd=%g limits sum[%g,%g] out[%g,%g], %u steps of %s input with random run/pos/inc switches: output clamped %u x high, %u x low, "
                  "integration suspended %u x; %s",
                  exact ? "exact" : "real", kp, ki, kd, lim.summin, lim.summax, lim.outmin, lim.outmax, L, G_NAME[gc], nclamp[2], nclamp[0], ninh,
                  exact ? "sum/out/var/fdb/err equal the __float128 reference bitwise after every step" : "range, finiteness and integrator clamp clauses hold after every step");
    }
    free(twin);
    free(c);
}

/* exact regime: positional and incremental controller on the same history; equal bitwise until a limit becomes active */
static void case_pid_equiv(vf_rng *r)
{
    unsigned const L = gen_len(r);
    double const R = (double)vf_range(r, 1, vf_chance(r, 1, 2) ? 30 : 1000);
    int const ls = vf_chance(r, 1, 2) ? LS_WIDE : (int)vf_below(r, LS_N), gc = (int)vf_below(r, G_NCLS);
    double const kp = gen_gain16(r, -64, 64), ki = vf_chance(r, 1, 6) ? 0.0 : gen_gain16(r, 0, 64), kd = vf_chance(r, 1, 4) ? 0.0 : gen_gain16(r, -64, 64);
    lim_t lim;
    gen_t g;
    a_pid *A, *B;
    qst ra = QST_ZERO, rb = QST_ZERO;
    q_t esum = 0;
    unsigned k, agreed = 0;
    int active = 0;
    double last = 0;
    gen_limits(r, ls, 1, R, &lim);
    if (ls != LS_WIDE && vf_chance(r, 1, 2))
    {
        /* limits a few times wider than the signals, so that they become active late in the history */
        double const f = (double)vf_range(r, 4, 64);
        if (lim.outmax < 0x1p29) { lim.outmax = fabs(lim.outmax) * f + R; lim.outmin = -(fabs(lim.outmin) * f + R); }
        if (lim.summax < 0x1p29) { lim.summax *= f; lim.summin *= f; }
    }
    gen_init(&g, r, gc, 1, R, L);
    vf_log("a_pid_pos vs a_pid_inc, exact regime: kp=%a ki=%a kd=%a summax=%a summin=%a outmax=%a outmin=%a (limits: %s), %u steps, input=%s amplitude=%a", kp, ki, kd, lim.summax,
           lim.summin, lim.outmax, lim.outmin, LS_NAME[ls], L, G_NAME[gc], R);
    A = pid_new(kp, ki, kd, &lim);
    B = pid_new(kp, ki, kd, &lim);
    log_header_done();
    for (k = 0; k < L; ++k)
    {
        double set, fdb, ya, yb;
        a_pid a0 = *A, b0 = *B;
        qstep oa, ob;
        gen_next(&g, r, k, last, &set, &fdb);
        oa = ref_pid(&ra, M_POS, kp, ki, kd, &lim, set, fdb);
        ob = ref_pid(&rb, M_INC, kp, ki, kd, &lim, set, fdb);
        log_step("pid_pos(A) / a_pid_inc(B)", k, set, fdb);
        ya = a_pid_pos(A, set, fdb);
        yb = a_pid_inc(B, set, fdb);
        vf.evals += 2;
        last = ya;
        if (!judge_common(CTL_PID, M_POS, k, &a0, A, ya, set, fdb) || !judge_common(CTL_PID, M_INC, k, &b0, B, yb, set, fdb))
        {
            vf_viol("pid/state-not-finite", "step %u (set=%a fdb=%a)", k, set, fdb);
            break;
        }
        judge_cached(CTL_PID, M_POS, k, &a0, A, &oa.s, set, fdb);
        judge_cached(CTL_PID, M_INC, k, &b0, B, &ob.s, set, fdb);
        judge_integrator(CTL_PID, M_POS, k, &a0, A, set, fdb);
        judge_integrator(CTL_PID, M_INC, k, &b0, B, set, fdb);
        if ((q_t)(double)oa.s.sum != oa.s.sum || (q_t)(double)oa.s.out != oa.s.out || (q_t)(double)ob.s.out != ob.s.out) { VF_COUNT("exactness-guard-tripped"); break; }
        judge_equation(CTL_PID, M_POS, k, &a0, A, &oa, 1, set, fdb, "exact regime, positional controller A");
        judge_equation(CTL_PID, M_INC, k, &b0, B, &ob, 1, set, fdb, "exact regime, incremental controller B");
        ra = oa.s;
        rb = ob.s;
        if (oa.inhibited || oa.clamped || ob.clamped) { if (!active) { VF_COUNT("seen-first-limit-activation-in-pos-inc-pair"); } active = 1; }
        if (!active)
        {
            q_t closed;
            char b1[512], b2[512];
            esum += (q_t)set - fdb;
            closed = (q_t)kp * ((q_t)set - fdb) + (q_t)ki * esum + (q_t)kd * ((q_t)a0.fdb - fdb);
            VF_COUNT("pos-eq-inc-while-no-limit-active");
            if (!(ya == yb))
            {
                vf_viol("pid/positional-ne-incremental-while-no-limit-active", "step %u (set=%a fdb=%a), no limit has been active so far: a_pid_pos gives %a, a_pid_inc gives %a; pos %s inc %s",
                        k, set, fdb, ya, yb, fmt_pid(b1, sizeof b1, A), fmt_pid(b2, sizeof b2, B));
            }
            VF_COUNT("closed-form-while-no-limit-active");
            if (!((q_t)ya == closed) || !((q_t)yb == closed))
            {
                vf_viol("pid/output-ne-closed-form-while-no-limit-active",
                        "step %u (set=%a fdb=%a): Kp e(k) + Ki sum e(i) + Kd [fdb(k-1)-fdb(k)] = %a, a_pid_pos gives %a, a_pid_inc gives %a; pos %s inc %s", k, set, fdb,
                        (double)closed, ya, yb, fmt_pid(b1, sizeof b1, A), fmt_pid(b2, sizeof b2, B));
            }
            ++agreed;
        }
        cell(CTL_PID, M_POS, 7, 0, A, 1);
        cell(CTL_PID, M_INC, 7, 0, B, 0);
        if (vf.case_viol) { break; }
    }
    if (vf_want_sample() && L > 50 && active && agreed > 20 && !vf.case_viol)
    {
        vf_sample("a_pid_pos vs a_pid_inc, kp=%g ki=%g kd=%g limits sum[%g,%g] out[%g,%g], %s integer input: outputs bitwise equal (and equal to the closed form) for the first %u "
                  "steps, then a limit became active; both follow their own reference bitwise for all %u steps",
                  kp, ki, kd, lim.summin, lim.summax, lim.outmin, lim.outmax, G_NAME[gc], agreed, L);
    }
    free(A);
    free(B);
}

/* ------------------------------------------------------------------ fuzzy PID: membership tables */
typedef struct { int type; double p[4]; } mfset_t;
typedef struct
{
    unsigned n;
    mfset_t s[7];
    double *flat;     /* the table handed to the library: exact-size block {type, params...} x n [, A_MF_NUL] */
    size_t len;       /* cells of flat */
    int nul;          /* fewer sets than the order of the rule base: the table ends with A_MF_NUL */
    int borrowed;     /* flat lies inside the block of the other table (both tables packed into one array) */
    unsigned overlap; /* bound on simultaneously active sets (max number of overlapping open supports) */
} part_t;

static unsigned mf_nparams(int type)
{
    switch (type)
    {
    case A_MF_GAUSS: case A_MF_SIG: case A_MF_LINS: case A_MF_LINZ: case A_MF_S: case A_MF_Z: return 2;
    case A_MF_GBELL: case A_MF_TRI: return 3;
    default: return 4;
    }
}
static char const *mf_name(int type)
{
    static char const *const nm[] = {"nul", "gauss", "gauss2", "gbell", "sig", "dsig", "psig", "trap", "tri", "lins", "linz", "s", "z", "pi"};
    return type >= 0 && type <= A_MF_PI ? nm[type] : "?";
}
static void mf_support(mfset_t const *m, double *lo, double *hi)
{
    *lo = -INFINITY;
    *hi = INFINITY;
    switch (m->type)
    {
    case A_MF_TRAP: case A_MF_PI: *lo = m->p[0]; *hi = m->p[3]; break;
    case A_MF_TRI: *lo = m->p[0]; *hi = m->p[2]; break;
    case A_MF_LINS: case A_MF_S: *lo = m->p[0]; break;
    case A_MF_LINZ: case A_MF_Z: *hi = m->p[1]; break;
    default: break;
    }
}
static int cmp_double(void const *a, void const *b)
{
    double x = *(double const *)a, y = *(double const *)b;
    return x < y ? -1 : x > y;
}
static void part_finish(part_t *P)
{
    double pts[16], lo[7], hi[7];
    unsigned np = 0, i, j, best = 0;
    size_t nflat = 0, o = 0;
    for (i = 0; i < P->n; ++i) { nflat += 1 + mf_nparams(P->s[i].type); }
    nflat += P->nul ? 1 : 0;
    P->len = nflat;
    P->flat = (double *)xmalloc((nflat ? nflat : 1) * sizeof(double));
    if (P->nul) { P->flat[nflat - 1] = A_MF_NUL; }
    for (i = 0; i < P->n; ++i)
    {
        P->flat[o++] = (double)P->s[i].type;
        for (j = 0; j < mf_nparams(P->s[i].type); ++j) { P->flat[o++] = P->s[i].p[j]; }
        mf_support(&P->s[i], &lo[i], &hi[i]);
        if (isfinite(lo[i])) { pts[np++] = lo[i]; }
        if (isfinite(hi[i])) { pts[np++] = hi[i]; }
    }
    pts[np++] = 0;
    qsort(pts, np, sizeof(double), cmp_double);
    /* probe points: every midpoint between consecutive end points, and beyond both extremes */
    for (i = 0; i <= np; ++i)
    {
        double x = i == 0 ? pts[0] - 1 - fabs(pts[0]) : i == np ? pts[np - 1] + 1 + fabs(pts[np - 1]) : pts[i - 1] / 2 + pts[i] / 2;
        unsigned c = 0;
        for (j = 0; j < P->n; ++j) { c += lo[j] < x && x < hi[j]; }
        if (c > best) { best = c; }
    }
    P->overlap = best ? best : 1;
}
static void part_free(part_t *P) { if (!P->borrowed) { free(P->flat); } P->flat = NULL; P->borrowed = 0; }
/* A table with FEWER sets than the order of the rule base, ended by A_MF_NUL (the form "table, terminated by 0" of the bindings' documentation: a coarse
   partition of one axis under a larger rule base). Only the sets in front of the terminator exist. The block is exact-size, so that a walk beyond the
   terminator is an out-of-bounds read; or both tables sit back to back in ONE array {e sets, NUL, ec sets[, NUL]}, so that such a walk meets valid
   set descriptions (seeded change C12-M: the parser treats A_MF_NUL as a kind without parameters and keeps going until `order` entries are read). */
static void part_cut(part_t *P, unsigned k)
{
    part_free(P);
    P->n = k;
    P->nul = 1;
    part_finish(P);
}
static void parts_pack(part_t *E, part_t *C)
{
    double *joint = (double *)xmalloc((E->len + C->len ? E->len + C->len : 1) * sizeof(double));
    memcpy(joint, E->flat, E->len * sizeof(double));
    memcpy(joint + E->len, C->flat, C->len * sizeof(double));
    part_free(E);
    part_free(C);
    E->flat = joint;
    C->flat = joint + E->len;
    C->borrowed = 1;
}
static void part_log(char const *name, part_t const *P)
{
    char buf[700];
    size_t o = 0;
    for (unsigned i = 0; i < P->n && o + 90 < sizeof buf; ++i)
    {
        o += (size_t)snprintf(buf + o, sizeof buf - o, " %s(", mf_name(P->s[i].type));
        for (unsigned j = 0; j < mf_nparams(P->s[i].type); ++j) { o += (size_t)snprintf(buf + o, sizeof buf - o, "%s%.9g", j ? "," : "", P->s[i].p[j]); }
        o += (size_t)snprintf(buf + o, sizeof buf - o, ")");
    }
    vf_log("%s table, %u sets, at most %u simultaneously active:%s", name, P->n, P->overlap, buf);
}

/* exact regime: integer break points, flank widths powers of two (s or 2s, s in {1,2,4,8}) */
static void part_exact(vf_rng *r, part_t *P, unsigned n, int style)
{
    int const s = 1 << vf_below(r, 4);
    int const c0 = -s * (int)(n / 2) + (int)vf_range(r, -2, 2);
    unsigned i;
    memset(P, 0, sizeof(*P));
    P->n = n;
    for (i = 0; i < n; ++i)
    {
        double const c = c0 + (int)i * s;
        mfset_t *m = &P->s[i];
        if (style == 0 && n >= 2)
        {
            /* partition of unity: z-shoulder, triangles, s-shoulder */
            if (i == 0) { m->type = A_MF_LINZ; m->p[0] = c; m->p[1] = c + s; }
            else if (i == n - 1) { m->type = A_MF_LINS; m->p[0] = c - s; m->p[1] = c; }
            else { m->type = A_MF_TRI; m->p[0] = c - s; m->p[1] = c; m->p[2] = c + s; }
        }
        else if (style <= 1)
        {
            m->type = A_MF_TRI; m->p[0] = c - s; m->p[1] = c; m->p[2] = c + s;
        }
        else
        {
            double const w1 = s * (1 + (int)vf_below(r, 2)), w2 = s * (1 + (int)vf_below(r, 2));
            switch (vf_below(r, 6))
            {
            case 0: m->type = A_MF_LINS; m->p[0] = c - w1; m->p[1] = c; break;
            case 1: m->type = A_MF_LINZ; m->p[0] = c; m->p[1] = c + w2; break;
            case 2: case 3:
            {
                double const h = vf_chance(r, 1, 3) ? 0 : s;
                m->type = A_MF_TRAP; m->p[0] = c - h - w1; m->p[1] = c - h; m->p[2] = c + h; m->p[3] = c + h + w2;
                break;
            }
            default: m->type = A_MF_TRI; m->p[0] = c - w1; m->p[1] = c; m->p[2] = c + w2; break;
            }
        }
    }
    part_finish(P);
}

/* real regime: every family of mf.h with well-ordered parameters, centres spread with spacing d */
static void part_real(vf_rng *r, part_t *P, unsigned n, double d)
{
    unsigned i;
    int const uniform_family = vf_chance(r, 1, 2) ? (int)vf_range(r, A_MF_GAUSS, A_MF_PI) : 0;
    double const c0 = -d * (double)(n - 1) / 2 + vf_uniform(r, -d, d);
    memset(P, 0, sizeof(*P));
    P->n = n;
    for (i = 0; i < n; ++i)
    {
        mfset_t *m = &P->s[i];
        double const c = c0 + d * (double)i;
        double const u1 = vf_uniform(r, 0.3, 1.6) * d, u2 = vf_uniform(r, 0.3, 1.6) * d, h = vf_uniform(r, 0, 0.5) * d;
        m->type = uniform_family ? uniform_family : (int)vf_range(r, A_MF_GAUSS, A_MF_PI);
        switch (m->type)
        {
        case A_MF_GAUSS: m->p[0] = u1; m->p[1] = c; break;
        case A_MF_GAUSS2: m->p[0] = u1; m->p[1] = c - h; m->p[2] = u2; m->p[3] = c + h; break;
        case A_MF_GBELL: m->p[0] = u1; m->p[1] = vf_uniform(r, 0.5, 4); m->p[2] = c; break;
        case A_MF_SIG: m->p[0] = vf_sign(r) * vf_uniform(r, 0.5, 8) / d; m->p[1] = c; break;
        case A_MF_DSIG: m->p[0] = m->p[2] = vf_uniform(r, 1, 8) / d; m->p[1] = c - u1; m->p[3] = c + u2; break;
        case A_MF_PSIG: m->p[0] = vf_uniform(r, 1, 8) / d; m->p[1] = c - u1; m->p[2] = -vf_uniform(r, 1, 8) / d; m->p[3] = c + u2; break;
        case A_MF_TRAP: case A_MF_PI: m->p[0] = c - h - u1; m->p[1] = c - h; m->p[2] = c + h; m->p[3] = c + h + u2; break;
        case A_MF_TRI: m->p[0] = c - u1; m->p[1] = c; m->p[2] = c + u2; break;
        case A_MF_LINS: case A_MF_S: m->p[0] = c - u1; m->p[1] = c; break;
        default: m->p[0] = c; m->p[1] = c + u2; break; /* linz, z */
        }
    }
    part_finish(P);
}

/* reference membership from the piecewise definitions in mf.h (piecewise linear families, non-degenerate break points) */
static q_t ref_mf(mfset_t const *m, double xd)
{
    q_t const x = xd, a = m->p[0], b = m->p[1], c = m->p[2], d = m->p[3];
    switch (m->type)
    {
    case A_MF_TRI:
        if (x <= a || x >= c) { return 0; }
        return x <= b ? (x - a) / (b - a) : (c - x) / (c - b);
    case A_MF_TRAP:
        if (x <= a || x >= d) { return 0; }
        if (x < b) { return (x - a) / (b - a); }
        if (x <= c) { return 1; }
        return (d - x) / (d - c);
    case A_MF_LINS:
        return x < a ? 0 : x > b ? 1 : (x - a) / (b - a);
    case A_MF_LINZ:
        return x < a ? 1 : x > b ? 0 : (b - x) / (b - a);
    default:
        return -1; /* not used in the exact regime */
    }
}
static q_t ref_opr(unsigned opr, q_t a, q_t b)
{
    q_t c;
    switch (opr)
    {
    case A_PID_FUZZY_EQU: return sqrtq(a * b) * sqrtq(1 - (1 - a) * (1 - b));
    case A_PID_FUZZY_CAP: return a < b ? a : b;
    case A_PID_FUZZY_CAP_ALGEBRA: return a * b;
    case A_PID_FUZZY_CAP_BOUNDED: c = a + b - 1; return c > 0 ? c : 0;
    case A_PID_FUZZY_CUP: return a > b ? a : b;
    case A_PID_FUZZY_CUP_ALGEBRA: return a + b - a * b;
    default: c = a + b; return c < 1 ? c : 1;
    }
}
static char const *const OPR_NAME[7] = {"equ", "cap(min)", "cap_algebra(product)", "cap_bounded", "cup(max)", "cup_algebra", "cup_bounded"};

/* ------------------------------------------------------------------ fuzzy PID: controller under test */
typedef struct
{
    a_pid_fuzzy *c;
    void *bfuzz;
    unsigned n, nfuzz, opr;
    part_t pe, pec;
    double *mk[3]; /* kp, ki, kd consequent tables (n x n, row = e set, column = ec set) or NULL */
    double base[3];
} fz_t;

static a_pid_fuzzy *fz_ctx_new(fz_t const *f, lim_t const *l, void **bf)
{
    a_pid_fuzzy *c = (a_pid_fuzzy *)xmalloc(sizeof(a_pid_fuzzy));
    memset(c, 0xA5, sizeof(*c));
    *bf = xmalloc(A_PID_FUZZY_BFUZZ(f->nfuzz)); /* exact size: the first byte past the documented requirement is an ASan red zone */
    memset(*bf, 0xA5, A_PID_FUZZY_BFUZZ(f->nfuzz));
    set_limits(&c->pid, l);
    a_pid_fuzzy_set_opr(c, f->opr);
    a_pid_fuzzy_set_rule(c, f->n, f->pe.flat, f->pec.flat, f->mk[0], f->mk[1], f->mk[2]);
    a_pid_fuzzy_set_kpid(c, f->base[0], f->base[1], f->base[2]);
    a_pid_fuzzy_set_bfuzz(c, *bf, f->nfuzz);
    VF_COUNT("fuzzy-bfuzz-getter");
    if (a_pid_fuzzy_bfuzz(c) != *bf || c->nfuzz != f->nfuzz)
    {
        vf_viol("pid_fuzzy/bfuzz-getter-ne-block-set", "a_pid_fuzzy_set_bfuzz(%p, %u) then a_pid_fuzzy_bfuzz() = %p, nfuzz = %u", *bf, f->nfuzz, a_pid_fuzzy_bfuzz(c), c->nfuzz);
    }
    a_pid_fuzzy_init(c);
    return c;
}
static double call_fuzzy(a_pid_fuzzy *c, int mode, double set, double fdb)
{
    return mode == M_RUN ? a_pid_fuzzy_run(c, set, fdb) : mode == M_POS ? a_pid_fuzzy_pos(c, set, fdb) : a_pid_fuzzy_inc(c, set, fdb);
}
static void fz_free(fz_t *f)
{
    free(f->c);
    free(f->bfuzz);
    part_free(&f->pe);
    part_free(&f->pec);
    for (int g = 0; g < 3; ++g) { free(f->mk[g]); }
}

typedef struct
{
    q_t dk[3];     /* gain offsets */
    q_t W;         /* sum of joint memberships */
    q_t cabs[3];   /* largest |consequent| among the firing rules */
    unsigned ne, nec;
    int exact;     /* the library's double evaluation is exact */
    int wzero;     /* sets fire but every joint membership is zero */
} fzgain;

static fzgain ref_fuzzy_gains(fz_t const *f, double e, double ec)
{
    fzgain G;
    q_t mue[7], muc[7];
    unsigned ie[7], ic[7], i, j;
    int all_one = 1;
    memset(&G, 0, sizeof(G));
    for (i = 0; i < f->n; ++i)
    {
        q_t m = i < f->pe.n ? ref_mf(&f->pe.s[i], e) : 0;
        if (m > 0) { mue[G.ne] = m; ie[G.ne++] = i; all_one &= m == 1; }
        m = i < f->pec.n ? ref_mf(&f->pec.s[i], ec) : 0;
        if (m > 0) { muc[G.nec] = m; ic[G.nec++] = i; all_one &= m == 1; }
    }
    G.exact = 1;
    if (!G.ne || !G.nec) { return G; }
    {
        q_t N[3] = {0, 0, 0};
        for (i = 0; i < G.ne; ++i)
        {
            for (j = 0; j < G.nec; ++j)
            {
                q_t const J = ref_opr(f->opr, mue[i], muc[j]);
                G.W += J;
                for (int g = 0; g < 3; ++g)
                {
                    q_t const cq = f->mk[g] ? (q_t)f->mk[g][ie[i] * f->n + ic[j]] : 0;
                    N[g] += J * cq;
                    if (qabs(cq) > G.cabs[g]) { G.cabs[g] = qabs(cq); }
                }
            }
        }
        if (G.W == 0) { G.wzero = 1; return G; }
        for (int g = 0; g < 3; ++g) { G.dk[g] = N[g] / G.W; }
        G.exact = is_pow2_q(G.W) && (f->opr != A_PID_FUZZY_EQU || all_one);
    }
    return G;
}

/* classification of a non-finite state with the library's own membership functions and operator (not an oracle) */
static int lib_all_joint_zero(fz_t const *f, double e, double ec)
{
    double (*op)(double, double) = a_pid_fuzzy_opr(f->opr);
    double mue[7], muc[7], W = 0;
    unsigned ne = 0, nec = 0, i, j;
    size_t oe = 0, oc = 0;
    for (i = 0; i < f->n; ++i)
    {
        double y = i < f->pe.n ? a_mf((unsigned)f->pe.s[i].type, e, f->pe.flat + oe + 1) : 0;
        if (i < f->pe.n) { oe += 1 + mf_nparams(f->pe.s[i].type); }
        if (y > EPS) { mue[ne++] = y; }
        y = i < f->pec.n ? a_mf((unsigned)f->pec.s[i].type, ec, f->pec.flat + oc + 1) : 0;
        if (i < f->pec.n) { oc += 1 + mf_nparams(f->pec.s[i].type); }
        if (y > EPS) { muc[nec++] = y; }
    }
    for (i = 0; i < ne; ++i) { for (j = 0; j < nec; ++j) { W += op(mue[i], muc[j]); } }
    return ne && nec && W == 0;
}

static void fz_report_nonfinite(fz_t const *f, a_pid_fuzzy const *c, int mode, unsigned k, a_pid const *before, double set, double fdb)
{
    char b1[512], b2[512], key[128];
    double const e = set - fdb, ec = e - before->err;
    int const wz = lib_all_joint_zero(f, e, ec);
    vf_viol(keyf(key, sizeof key, "pid_fuzzy/state-not-finite/%s", wz ? "all-joint-memberships-zero" : "other"),
            "step %u a_pid_fuzzy_%s(set=%a, fdb=%a): e=%a ec=%a, operator %s, order %u%s; state before %s, after %s (base gains %a %a %a)", k, MODE_NAME[mode], set, fdb, e, ec,
            OPR_NAME[f->opr], f->n, wz ? ": sets of e and of ec fire but every joint membership is 0, the normaliser 1/sum is infinite" : "", fmt_pid(b1, sizeof b1, before),
            fmt_pid(b2, sizeof b2, &c->pid), c->kp, c->ki, c->kd);
}

typedef struct { void const *me, *mec, *mkp, *mki, *mkd, *idx, *val; double kp, ki, kd; unsigned nrule, nfuzz; a_real (*opr)(a_real, a_real); } fzcfg;
static fzcfg fzcfg_of(a_pid_fuzzy const *c)
{
    fzcfg s;
    memset(&s, 0, sizeof(s));
    s.me = c->me; s.mec = c->mec; s.mkp = c->mkp; s.mki = c->mki; s.mkd = c->mkd; s.idx = c->idx; s.val = c->val;
    s.kp = c->kp; s.ki = c->ki; s.kd = c->kd; s.nrule = c->nrule; s.nfuzz = c->nfuzz; s.opr = c->opr;
    return s;
}
static void judge_fzcfg(unsigned k, fzcfg const *a, a_pid_fuzzy const *c)
{
    fzcfg b = fzcfg_of(c);
    VF_COUNT("fuzzy-configuration-untouched");
    if (a->me != b.me || a->mec != b.mec || a->mkp != b.mkp || a->mki != b.mki || a->mkd != b.mkd || a->idx != b.idx || a->val != b.val ||
        memcmp(&a->kp, &b.kp, 3 * sizeof(double)) || a->nrule != b.nrule || a->nfuzz != b.nfuzz || a->opr != b.opr)
    {
        vf_viol("pid_fuzzy/configuration-field-changed-by-step", "step %u: base gains %a %a %a -> %a %a %a, nrule %u -> %u, nfuzz %u -> %u (or a table/scratch pointer changed)", k,
                a->kp, a->ki, a->kd, b.kp, b.ki, b.kd, a->nrule, b.nrule, a->nfuzz, b.nfuzz);
    }
}

/* ------------------------------------------------------------------ fuzzy PID cases */
/* Generators shared by the initial configuration and by the rule bases swapped in mid-history (for the initial configuration: the same draws
   in the same order as before the reconfiguration clauses were added, so the histories without reconfiguration keep their content). */
static double fz_gen_parts(vf_rng *r, fz_t *f, int exact, double keepR)
{
    double R;
    if (exact)
    {
        int const style = f->opr == A_PID_FUZZY_CAP_ALGEBRA ? (vf_chance(r, 3, 4) ? 0 : 2) : (int)vf_below(r, 3);
        double ext = 2;
        part_exact(r, &f->pe, f->n, style);
        part_exact(r, &f->pec, f->n, vf_chance(r, 1, 2) ? style : (int)vf_below(r, 3));
        for (unsigned i = 0; i < f->n; ++i)
        {
            for (unsigned j = 0; j < mf_nparams(f->pe.s[i].type); ++j) { if (fabs(f->pe.s[i].p[j]) > ext) { ext = fabs(f->pe.s[i].p[j]); } }
        }
        R = rint(ext * (vf_chance(r, 1, 4) ? 1.5 : 0.75)) + 1;
    }
    else if (keepR > 0)
    {
        /* a rule base swapped in mid-history covers the amplitude the inputs already have */
        double d = keepR / ((double)f->n * vf_uniform(r, 0.3, 2));
        if (d > 1e5) { d = 1e5; }
        part_real(r, &f->pe, f->n, d);
        part_real(r, &f->pec, f->n, d * vf_logu(r, -1, 1));
        R = keepR;
    }
    else
    {
        double const d = vf_logu(r, -3, 5);
        part_real(r, &f->pe, f->n, d);
        part_real(r, &f->pec, f->n, d * vf_logu(r, -1, 1));
        R = d * (double)f->n * vf_uniform(r, 0.3, 2);
        if (R > 1e6) { R = 1e6; }
    }
    {
        /* short tables and packed tables: decided by a hash of (seed, case), not drawn from r, so that all other histories keep their content */
        uint64_t const hsh = vf_hash64(vf.seed * 0x9E3779B97F4A7C15ULL + 0xC12A, vf.case_no * 2 + (keepR > 0));
        if (f->n >= 2 && (hsh & 3) == 0)
        {
            unsigned const side = (unsigned)(hsh >> 2 & 3), k = 1 + (unsigned)((hsh >> 8) % (f->n - 1));
            if (side != 1) { part_cut(&f->pe, k); VF_COUNT("fuzzy-e-table-shorter-than-the-rule-base"); }
            if (side != 0) { part_cut(&f->pec, 1 + (unsigned)((hsh >> 16) % (f->n - 1))); VF_COUNT("fuzzy-ec-table-shorter-than-the-rule-base"); }
        }
        if ((hsh >> 4 & 3) == 0) { parts_pack(&f->pe, &f->pec); VF_COUNT("fuzzy-both-tables-packed-in-one-array"); }
    }
    return R;
}
/* n x n consequent table of gain gi for the base gains in force: effective ki = base + offset stays >= 0 (the quantifier) */
static double *fz_gen_consequents(vf_rng *r, fz_t const *f, int gi, int exact)
{
    double *t = (double *)xmalloc(f->n * f->n * sizeof(double));
    for (unsigned i = 0; i < f->n * f->n; ++i)
    {
        if (exact)
        {
            /* effective ki = base + offset stays >= 1/16 (or exactly 0 with an all-zero table): inside the quantifier ki >= 0 */
            int const b16 = (int)(f->base[1] * 16);
            t[i] = gi == 1 ? (b16 > 0 ? gen_gain16(r, -(b16 - 1), 32) : (f->base[1] == 0 && vf_chance(r, 1, 2) ? 0.0 : gen_gain16(r, 0, 32))) : gen_gain16(r, -48, 48);
        }
        else
        {
            double const m = vf_logu(r, -4, 5.5);
            t[i] = gi == 1 ? (vf_chance(r, 1, 2) ? m : -vf_unit(r) * f->base[1] / 2) : vf_sign(r) * m;
        }
    }
    return t;
}
/* a new base gain for gain gi that keeps the quantifier with the tables in force (ki: base >= - the most negative ki consequent) */
static double fz_gen_base(vf_rng *r, fz_t const *f, int gi, int exact)
{
    if (gi == 1)
    {
        double lo = 0;
        if (f->mk[1]) { for (unsigned i = 0; i < f->n * f->n; ++i) { if (-f->mk[1][i] > lo) { lo = -f->mk[1][i]; } } }
        if (exact) { return lo + (vf_chance(r, 1, 4) ? 0.0 : gen_gain16(r, 0, 16)); }
        return lo * vf_uniform(r, 1, 2) + (vf_chance(r, 1, 6) ? 0.0 : vf_logu(r, -4, 5));
    }
    if (exact) { return gi == 2 && vf_chance(r, 1, 4) ? 0.0 : gen_gain16(r, -32, 32); }
    return gi == 2 && vf_chance(r, 1, 4) ? 0.0 : vf_sign(r) * vf_logu(r, -4, 5.5);
}
static void fz_log_tables(fz_t const *f)
{
    part_log("e", &f->pe);
    part_log("ec", &f->pec);
    for (int gi = 0; gi < 3; ++gi)
    {
        char buf[900];
        size_t o = 0;
        if (!f->mk[gi]) { continue; }
        for (unsigned i = 0; i < f->n * f->n && o + 30 < sizeof buf; ++i) { o += (size_t)snprintf(buf + o, sizeof buf - o, " %.9g", f->mk[gi][i]); }
        vf_log("consequents of %s (row = e set, column = ec set):%s", gi == 0 ? "kp" : gi == 1 ? "ki" : "kd", buf);
    }
}

/* ---- reconfiguration of a fuzzy controller between two steps, through every documented route.
 *
 * What the headers state (pid_fuzzy.h): kp/ki/kd of a_pid_fuzzy are the BASE constants, mkp/mki/mkd the rule bases of the three gains (a NULL
 * table: that gain is not tuned - the step code tests each table pointer, and lua/src/pid_fuzzy.c and src/lib.rs create controllers whose
 * table pointers are null), the embedded `pid` is the plain controller that executes the step; test/pid_fuzzy.h writes the configuration
 * fields (limits, tables, order, operator) directly and installs two rule bases one after the other.  The gain the step uses is base + tuned offset, recomputed on EVERY step from the
 * configuration in force at that step (a_pid_fuzzy_set_rule / set_opr / set_kpid / set_bfuzz only store their arguments; none of them touches
 * the controller state).  Consequences that are judged:
 *   - after a_pid_fuzzy_set_rule (different order, different membership tables, any NULL pattern of the three consequent tables, a new scratch
 *     block of the documented size for the new tables through a_pid_fuzzy_set_bfuzz, or the old block when it is large enough) the next step
 *     uses the new rule base; a gain whose table is NULL equals its base gain bitwise after every step;
 *   - after a_pid_fuzzy_set_kpid, or after a write to the public base fields kp/ki/kd (documented public fields, `pub` in the Rust binding;
 *     the repository's tests write every other configuration field directly), the next step uses base + offset with the NEW base;
 *   - after a_pid_fuzzy_set_opr the next step uses the new operator;
 *   - a write to ctx->pid.kp/ki/kd of a TUNED gain (one that has a consequent table) between two fuzzy steps has no effect on the next fuzzy step: pid.k? is
 *     where the step stores base + offset before it runs the plain controller, so whatever it held before is overwritten - the clause
 *     "pid.k? == base + weighted mean of consequents after every step" (fuzzy-gains-exact, in force since round 1) already demands that
 *     independently of the previous content of pid.k?; scribbling over it only supplies previous contents that configure-once histories
 *     never produce.  (The scribble is applied to the controller under test only, not to the fresh twin.)
 *   - limits: the public fields of the embedded pid, as for the plain controller.
 * The zero-vs-fresh twin (created from garbage memory with the configuration in force at the zeroing) receives every later reconfiguration
 * through the setters and its own scratch block. */
typedef struct { unsigned nrec, nswap, ndrop, nbase, nscrib; } fzrec_t;
static void fz_reconfigure(vf_rng *r, fz_t *f, a_pid_fuzzy *twin, void **twin_bf, int exact, gen_t *g, unsigned k, fzrec_t *st)
{
    static char const *const GN[3] = {"kp", "ki", "kd"};
    a_pid_fuzzy *const c = f->c;
    a_pid const snap = c->pid;
    unsigned const ev = (unsigned)vf_below(r, 12);
    ++st->nrec;
    if (ev < 4)
    {
        fz_t nf = *f; /* same controller object, operator and base gains */
        unsigned const pat = (unsigned)vf_below(r, 8); /* bit gi set: gain gi has a consequent table */
        int const full = !vf_chance(r, 1, 3), bfuzz_first = vf_chance(r, 1, 2);
        int dropped = 0, new_block;
        void *const old_bf = f->bfuzz, *const old_tbf = twin ? *twin_bf : NULL;
        void *new_tbf = NULL;
        char cnt[56];
        if (full)
        {
            double R;
            nf.n = 1 + (unsigned)vf_below(r, 7);
            memset(&nf.pe, 0, sizeof(nf.pe));
            memset(&nf.pec, 0, sizeof(nf.pec));
            R = fz_gen_parts(r, &nf, exact, exact ? 0 : g->R);
            if (exact) { g->R = R; } /* integer inputs follow the universe of the new tables */
            for (int gi = 0; gi < 3; ++gi) { nf.mk[gi] = pat >> gi & 1 ? fz_gen_consequents(r, &nf, gi, exact) : NULL; }
        }
        else
        {
            /* same order and membership tables, another NULL pattern of the consequent tables */
            for (int gi = 0; gi < 3; ++gi)
            {
                if (!(pat >> gi & 1)) { nf.mk[gi] = NULL; }
                else if (!f->mk[gi] || vf_chance(r, 1, 2)) { nf.mk[gi] = fz_gen_consequents(r, &nf, gi, exact); }
            }
        }
        for (int gi = 0; gi < 3; ++gi) { dropped |= f->mk[gi] && !nf.mk[gi]; }
        nf.nfuzz = nf.pe.overlap > nf.pec.overlap ? nf.pe.overlap : nf.pec.overlap;
        new_block = nf.nfuzz > f->nfuzz || vf_chance(r, 1, 2);
        if (!new_block) { nf.nfuzz = f->nfuzz; } /* "a buffer at least A_PID_FUZZY_BFUZZ(num)": the block in place is large enough */
        vf_log("k=%u a_pid_fuzzy_set_rule: order %u -> %u, %s membership tables, tables kp:%s ki:%s kd:%s (were kp:%s ki:%s kd:%s), scratch %s (num=%u, %zu bytes)%s", k, f->n, nf.n,
               full ? "new" : "same", nf.mk[0] ? "yes" : "NULL", nf.mk[1] ? "yes" : "NULL", nf.mk[2] ? "yes" : "NULL", f->mk[0] ? "yes" : "NULL", f->mk[1] ? "yes" : "NULL",
               f->mk[2] ? "yes" : "NULL", new_block ? "= new exact-size malloc block through a_pid_fuzzy_set_bfuzz" : "block kept", nf.nfuzz, (size_t)A_PID_FUZZY_BFUZZ(nf.nfuzz),
               new_block ? (bfuzz_first ? ", set_bfuzz first" : ", set_rule first") : "");
        fz_log_tables(&nf);
        if (new_block)
        {
            nf.bfuzz = xmalloc(A_PID_FUZZY_BFUZZ(nf.nfuzz));
            memset(nf.bfuzz, 0xA5, A_PID_FUZZY_BFUZZ(nf.nfuzz));
            if (twin) { new_tbf = xmalloc(A_PID_FUZZY_BFUZZ(nf.nfuzz)); memset(new_tbf, 0xA5, A_PID_FUZZY_BFUZZ(nf.nfuzz)); }
        }
        if (new_block && bfuzz_first) { a_pid_fuzzy_set_bfuzz(c, nf.bfuzz, nf.nfuzz); }
        a_pid_fuzzy_set_rule(c, nf.n, nf.pe.flat, nf.pec.flat, nf.mk[0], nf.mk[1], nf.mk[2]);
        if (new_block && !bfuzz_first) { a_pid_fuzzy_set_bfuzz(c, nf.bfuzz, nf.nfuzz); }
        judge_state_kept(CTL_FUZZY, "pid_fuzzy_set_rule", k, &snap, &c->pid);
        VF_COUNT("fuzzy-setter-stores-its-arguments");
        if (c->nrule != nf.n || c->me != nf.pe.flat || c->mec != nf.pec.flat || c->mkp != nf.mk[0] || c->mki != nf.mk[1] || c->mkd != nf.mk[2] || a_pid_fuzzy_bfuzz(c) != nf.bfuzz ||
            c->nfuzz != nf.nfuzz || memcmp(&c->kp, f->base, 3 * sizeof(double)) || c->opr != a_pid_fuzzy_opr(f->opr))
        {
            vf_viol("pid_fuzzy/configuration-ne-arguments-of-setter/set_rule", "before step %u: after a_pid_fuzzy_set_rule(order %u)%s the controller holds nrule=%u nfuzz=%u (expected %u), base %a %a %a "
                    "(expected %a %a %a) or a table / scratch / operator pointer other than the one passed", k, nf.n, new_block ? " + a_pid_fuzzy_set_bfuzz" : "", c->nrule, c->nfuzz, nf.nfuzz, c->kp,
                    c->ki, c->kd, f->base[0], f->base[1], f->base[2]);
        }
        if (twin)
        {
            if (new_block) { a_pid_fuzzy_set_bfuzz(twin, new_tbf, nf.nfuzz); *twin_bf = new_tbf; }
            a_pid_fuzzy_set_rule(twin, nf.n, nf.pe.flat, nf.pec.flat, nf.mk[0], nf.mk[1], nf.mk[2]);
        }
        /* the replaced tables and scratch blocks are released: a library that kept a pointer to them would read freed memory (ASan) */
        if (full) { part_free(&f->pe); part_free(&f->pec); }
        for (int gi = 0; gi < 3; ++gi) { if (f->mk[gi] != nf.mk[gi]) { free(f->mk[gi]); } }
        if (new_block) { free(old_bf); free(old_tbf); }
        VF_COUNT("fuzzy-rule-base-swapped-mid-history");
        if (full && nf.n != f->n) { VF_COUNT("fuzzy-rule-base-order-changed-mid-history"); }
        if (new_block) { VF_COUNT("fuzzy-scratch-block-replaced-mid-history"); }
        if (dropped) { VF_COUNT("fuzzy-rule-swap-drops-a-tuned-table"); ++st->ndrop; }
        snprintf(cnt, sizeof cnt, "fuzzy-swapped-to-tables/%c%c%c", pat & 1 ? 'p' : '-', pat & 2 ? 'i' : '-', pat & 4 ? 'd' : '-');
        vf_count_dyn(cnt, 1);
        ++st->nswap;
        *f = nf;
    }
    else if (ev < 6)
    {
        double nb[3];
        for (int gi = 0; gi < 3; ++gi) { nb[gi] = fz_gen_base(r, f, gi, exact); }
        vf_log("k=%u a_pid_fuzzy_set_kpid(kp=%a ki=%a kd=%a)", k, nb[0], nb[1], nb[2]);
        a_pid_fuzzy_set_kpid(c, nb[0], nb[1], nb[2]);
        judge_state_kept(CTL_FUZZY, "pid_fuzzy_set_kpid", k, &snap, &c->pid);
        VF_COUNT("fuzzy-setter-stores-its-arguments");
        if (memcmp(&c->kp, nb, 3 * sizeof(double)))
        {
            vf_viol("pid_fuzzy/configuration-ne-arguments-of-setter/set_kpid", "before step %u: a_pid_fuzzy_set_kpid(%a, %a, %a) left base gains %a %a %a", k, nb[0], nb[1], nb[2], c->kp, c->ki, c->kd);
        }
        if (twin) { a_pid_fuzzy_set_kpid(twin, nb[0], nb[1], nb[2]); }
        memcpy(f->base, nb, sizeof nb);
        VF_COUNT("fuzzy-set-kpid-mid-history");
        ++st->nbase;
    }
    else if (ev < 8)
    {
        unsigned const mask = 1 + (unsigned)vf_below(r, 7);
        for (int gi = 0; gi < 3; ++gi)
        {
            if (!(mask >> gi & 1)) { continue; }
            f->base[gi] = fz_gen_base(r, f, gi, exact);
            vf_log("k=%u write to the public base-gain field %s = %a (table %s)", k, GN[gi], f->base[gi], f->mk[gi] ? "present" : "NULL");
            if (gi == 0) { c->kp = f->base[0]; }
            else if (gi == 1) { c->ki = f->base[1]; }
            else { c->kd = f->base[2]; }
        }
        if (twin) { a_pid_fuzzy_set_kpid(twin, f->base[0], f->base[1], f->base[2]); } /* the fresh twin gets the configuration in force through the setter */
        VF_COUNT("fuzzy-base-field-written-between-steps");
        ++st->nbase;
    }
    else if (ev == 8)
    {
        unsigned const opr = (unsigned)vf_below(r, 7);
        vf_log("k=%u a_pid_fuzzy_set_opr(%u = %s) (was %u)", k, opr, OPR_NAME[opr], f->opr);
        a_pid_fuzzy_set_opr(c, opr);
        judge_state_kept(CTL_FUZZY, "pid_fuzzy_set_opr", k, &snap, &c->pid);
        VF_COUNT("fuzzy-setter-stores-its-arguments");
        if (c->opr != a_pid_fuzzy_opr(opr)) { vf_viol("pid_fuzzy/configuration-ne-arguments-of-setter/set_opr", "before step %u: a_pid_fuzzy_set_opr(%u) did not store a_pid_fuzzy_opr(%u)", k, opr, opr); }
        if (twin) { a_pid_fuzzy_set_opr(twin, opr); }
        f->opr = opr;
        VF_COUNT("fuzzy-set-opr-mid-history");
    }
    else if (ev < 11)
    {
        /* see the comment above: the effective gains in the embedded plain controller are recomputed by every fuzzy step */
        double v[3];
        for (int gi = 0; gi < 3; ++gi) { v[gi] = vf_sign(r) * vf_logu(r, -2, 4); }
        /* only the gains that HAVE a consequent table are scribbled over: every implementation has to store base + offset for those on every
           step.  A gain without a table equals its base; an implementation may keep it in pid.k? from set_kpid / set_rule on instead of
           rewriting it on every step, and writing ctx->pid.k? behind the fuzzy controller's back is not a documented way to configure it */
        {
            unsigned const tuned = (f->mk[0] ? 1u : 0) | (f->mk[1] ? 2u : 0) | (f->mk[2] ? 4u : 0);
            unsigned const mask = (1 + (unsigned)vf_below(r, 7)) & tuned;
            vf_log("k=%u write to ctx->pid.%s%s%s (tuned gains only; the next fuzzy step recomputes base + offset): %a %a %a", k, mask & 1 ? "kp " : "", mask & 2 ? "ki " : "", mask & 4 ? "kd" : "", v[0], v[1], v[2]);
            if (mask & 1) { c->pid.kp = v[0]; }
            if (mask & 2) { c->pid.ki = v[1]; }
            if (mask & 4) { c->pid.kd = v[2]; }
        }
        VF_COUNT("fuzzy-embedded-pid-gains-scribbled-between-steps");
        ++st->nscrib;
    }
    else
    {
        lim_t nl, lim = limits_of(&c->pid);
        int const which = (int)vf_below(r, 3);
        gen_limits(r, (int)vf_below(r, LS_N), exact, exact ? 4 * g->R : g->R, &nl);
        if (which != 1) { lim.outmax = nl.outmax; lim.outmin = nl.outmin; }
        if (which != 0) { lim.summax = nl.summax; lim.summin = nl.summin; }
        vf_log("k=%u write to the public limit fields of ctx->pid: summax=%a summin=%a outmax=%a outmin=%a", k, lim.summax, lim.summin, lim.outmax, lim.outmin);
        set_limits(&c->pid, &lim);
        if (twin) { set_limits(&twin->pid, &lim); }
        VF_COUNT("fuzzy-limit-field-written-between-steps");
    }
}

static void case_fuzzy(vf_rng *r, uint64_t q, int exact, int reconf)
{
    /* reconf: reconfiguration-dense history (<= 160 steps): about every 6th step is preceded by one reconfiguration (fz_reconfigure), the
       controller is zeroed about every 25 steps; every step is judged with the configuration in force */
    fz_t f;
    unsigned const L = reconf ? 4 + (unsigned)vf_below(r, 157) : gen_len(r);
    int const ls = (int)vf_below(r, LS_N), gc = vf_chance(r, 1, 2) ? G_WALK : (int)vf_below(r, G_NCLS);
    double R;
    lim_t lim;
    gen_t g;
    a_pid_fuzzy *twin = NULL;
    void *twin_bf = NULL;
    qst ref = QST_ZERO;
    int ref_exact = 1, mode = (int)vf_below(r, 3);
    unsigned const psw = vf_chance(r, 1, 3) ? 0 : (unsigned)vf_range(r, 2, 200);
    unsigned k, since_zero = 0, nexact = 0, nsemi = 0, nnone = 0, nzero = 0;
    fzrec_t rec;
    double last = 0;
    memset(&f, 0, sizeof(f));
    memset(&rec, 0, sizeof(rec));
    f.opr = (unsigned)(q % 7);
    f.n = 1 + (unsigned)(q / 7 % 7);
    R = fz_gen_parts(r, &f, exact, 0);
    if (exact)
    {
        f.base[0] = gen_gain16(r, -32, 32);
        f.base[1] = vf_chance(r, 1, 6) ? 0.0 : gen_gain16(r, 0, 32);
        f.base[2] = vf_chance(r, 1, 4) ? 0.0 : gen_gain16(r, -32, 32);
    }
    else
    {
        f.base[0] = vf_sign(r) * vf_logu(r, -4, 5.5);
        f.base[1] = vf_chance(r, 1, 6) ? 0.0 : vf_logu(r, -4, 5.5);
        f.base[2] = vf_chance(r, 1, 4) ? 0.0 : vf_sign(r) * vf_logu(r, -4, 5.5);
    }
    for (int gi = 0; gi < 3; ++gi)
    {
        if (vf_chance(r, 1, 8)) { continue; } /* NULL table: that gain is not scheduled */
        f.mk[gi] = fz_gen_consequents(r, &f, gi, exact);
    }
    f.nfuzz = f.pe.overlap > f.pec.overlap ? f.pe.overlap : f.pec.overlap;
    gen_limits(r, ls, exact, exact ? 4 * R : R, &lim);
    gen_init(&g, r, gc, exact, R, L);
    vf_log("a_pid_fuzzy, %s regime%s: operator %u (%s), order %u, scratch = malloc(A_PID_FUZZY_BFUZZ(%u) = %zu bytes), base kp=%a ki=%a kd=%a, tables kp:%s ki:%s kd:%s, summax=%a summin=%a "
           "outmax=%a outmin=%a (limits: %s), %u steps, input=%s amplitude=%a",
           exact ? "exact" : "real", reconf ? ", reconfiguration-dense history" : "", f.opr, OPR_NAME[f.opr], f.n, f.nfuzz, (size_t)A_PID_FUZZY_BFUZZ(f.nfuzz), f.base[0], f.base[1], f.base[2],
           f.mk[0] ? "yes" : "NULL", f.mk[1] ? "yes" : "NULL", f.mk[2] ? "yes" : "NULL", lim.summax, lim.summin, lim.outmax, lim.outmin, LS_NAME[ls], L, G_NAME[gc], R);
    fz_log_tables(&f);
    f.c = fz_ctx_new(&f, &lim, &f.bfuzz);
    judge_zeroed(CTL_FUZZY, &f.c->pid, "a_pid_fuzzy_init on a garbage-filled struct");
    VF_COUNT("init-zero-state");
    VF_COUNT("fuzzy-scratch-exact-size-block");
    log_header_done();
    for (k = 0; k < L; ++k)
    {
        double set, fdb, ret, e, ec;
        a_pid before;
        fzcfg cfg0;
        fzgain G;
        qstep o;
        qst p;
        if (since_zero > 0 && vf_below(r, reconf ? 25 : 400) == 0)
        {
            vf_log("k=%u a_pid_fuzzy_zero + fresh twin%s", k, rec.nrec ? " with the configuration in force" : "");
            a_pid_fuzzy_zero(f.c);
            judge_zeroed(CTL_FUZZY, &f.c->pid, "a_pid_fuzzy_zero");
            free(twin);
            free(twin_bf);
            lim = limits_of(&f.c->pid);
            twin = fz_ctx_new(&f, &lim, &twin_bf);
            ref = QST_ZERO;
            ref_exact = 1;
            since_zero = 0;
            ++nzero;
            VF_COUNT("zero-mid-history");
            if (rec.nrec) { VF_COUNT("fuzzy-zero-after-reconfiguration"); }
        }
        if (reconf && vf_below(r, 6) == 0) { fz_reconfigure(r, &f, twin, &twin_bf, exact, &g, k, &rec); }
        mode = next_mode(r, mode, psw, 7);
        gen_next(&g, r, k, last, &set, &fdb);
        before = f.c->pid;
        cfg0 = fzcfg_of(f.c);
        lim = limits_of(&before);
        e = set - fdb;
        ec = e - before.err;
        memset(&G, 0, sizeof(G));
        if (exact) { G = ref_fuzzy_gains(&f, e, ec); }
        log_step(mode == M_RUN ? "pid_fuzzy_run" : mode == M_POS ? "pid_fuzzy_pos" : "pid_fuzzy_inc", k, set, fdb);
        ret = call_fuzzy(f.c, mode, set, fdb);
        ++vf.evals;
        ++since_zero;
        last = ret;
        if (!judge_common(CTL_FUZZY, mode, k, &before, &f.c->pid, ret, set, fdb) || !isfinite(f.c->kp + f.c->ki + f.c->kd))
        {
            fz_report_nonfinite(&f, f.c, mode, k, &before, set, fdb);
            break;
        }
        judge_fzcfg(k, &cfg0, f.c);
        if (rec.nrec) { VF_COUNT("steps-judged-after-reconfiguration"); }
        /* a gain without rule table is not tuned: after every step the effective gain is the base gain in force, bitwise (base + 0) */
        for (int gi = 0; gi < 3; ++gi)
        {
            double const got = gi == 0 ? f.c->pid.kp : gi == 1 ? f.c->pid.ki : f.c->pid.kd, basef = gi == 0 ? f.c->kp : gi == 1 ? f.c->ki : f.c->kd;
            if (f.mk[gi]) { continue; }
            VF_COUNT("fuzzy-null-table-gain-equals-base");
            if ((memcmp(&got, &basef, sizeof(double)) && !(got == 0 && basef == 0)) || memcmp(&basef, &f.base[gi], sizeof(double)))
            {
                char b1[512];
                vf_viol(rec.nrec ? "pid_fuzzy/untuned-gain-ne-base-after-reconfiguration" : "pid_fuzzy/untuned-gain-ne-base",
                        "step %u a_pid_fuzzy_%s(set=%a, fdb=%a): the rule table of %s is NULL (gain not tuned), base gain in force %a (field holds %a), but pid.%s=%a after the step; %u "
                        "reconfigurations so far in this history (%u rule-base swaps, %u of them dropping a table, %u base-gain changes, %u writes to the embedded pid gains), %u zeroings; before %s",
                        k, MODE_NAME[mode], set, fdb, gi == 0 ? "kp" : gi == 1 ? "ki" : "kd", f.base[gi], basef, gi == 0 ? "kp" : gi == 1 ? "ki" : "kd", got, rec.nrec, rec.nswap, rec.ndrop,
                        rec.nbase, rec.nscrib, nzero, fmt_pid(b1, sizeof b1, &before));
            }
        }
        p = qst_of(&before);
        if (exact)
        {
            static char const *const GN[3] = {"kp", "ki", "kd"};
            double const got[3] = {f.c->pid.kp, f.c->pid.ki, f.c->pid.kd};
            q_t kq[3];
            char key[128], b1[512];
            for (int gi = 0; gi < 3; ++gi)
            {
                kq[gi] = (q_t)f.base[gi] + G.dk[gi];
                if (G.exact)
                {
                    VF_COUNT("fuzzy-gains-exact");
                    if (!((q_t)got[gi] == kq[gi]))
                    {
                        vf_viol(keyf(key, sizeof key, "pid_fuzzy/gain-ne-mean-of-centres/%s", GN[gi]),
                                "step %u a_pid_fuzzy_%s(set=%a, fdb=%a): e=%a ec=%a, %u x %u rules fire with total weight %.10Lg (operator %s, order %u): pid.%s=%a, base %a + weighted "
                                "mean of consequents %.21Lg = %.21Lg expected exactly; before %s",
                                k, MODE_NAME[mode], set, fdb, e, ec, G.ne, G.nec, LD(G.W), OPR_NAME[f.opr], f.n, GN[gi], got[gi], f.base[gi], LD(G.dk[gi]), LD(kq[gi]),
                                fmt_pid(b1, sizeof b1, &before));
                    }
                }
                else
                {
                    q_t const tol = 2 * (q_t)(G.ne * G.nec + 4) * EPS * (qabs(f.base[gi]) + G.cabs[gi]) + 0x1p-1000Q;
                    q_t const err = qabs((q_t)got[gi] - kq[gi]);
                    VF_COUNT("fuzzy-gains-within-tolerance");
                    VF_MAX("fuzzy-gain-error/tolerance", (double)(err / tol));
                    if (!(err <= tol))
                    {
                        vf_viol(keyf(key, sizeof key, "pid_fuzzy/gain-ne-mean-of-centres/%s", GN[gi]),
                                "step %u a_pid_fuzzy_%s(set=%a, fdb=%a): e=%a ec=%a, %u x %u rules fire with total weight %.10Lg (operator %s, order %u): pid.%s=%a, base %a + weighted "
                                "mean %.21Lg = %.21Lg, error %.3Lg x tolerance; before %s",
                                k, MODE_NAME[mode], set, fdb, e, ec, G.ne, G.nec, LD(G.W), OPR_NAME[f.opr], f.n, GN[gi], got[gi], f.base[gi], LD(G.dk[gi]), LD(kq[gi]), LD(err / tol),
                                fmt_pid(b1, sizeof b1, &before));
                    }
                }
            }
            if (!G.ne || !G.nec) { ++nnone; VF_COUNT("seen-fuzzy-no-set-fires"); }
            if (G.wzero) { VF_COUNT("seen-fuzzy-all-joint-memberships-zero"); }
            if (ref_exact && G.exact)
            {
                o = ref_pid(&ref, mode, kq[0], kq[1], kq[2], &lim, set, fdb);
                if ((q_t)(double)o.s.sum != o.s.sum || (q_t)(double)o.s.out != o.s.out) { VF_COUNT("exactness-guard-tripped"); break; }
                judge_equation(CTL_FUZZY, mode, k, &before, &f.c->pid, &o, 1, set, fdb, "exact regime, independent running reference with reference gains");
                ref = o.s;
                ++nexact;
            }
            else
            {
                o = ref_pid(&p, mode, f.c->pid.kp, f.c->pid.ki, f.c->pid.kd, &lim, set, fdb);
                judge_equation(CTL_FUZZY, mode, k, &before, &f.c->pid, &o, 0, set, fdb, "semi-exact step, one-step reference on the controller's own previous state and gains");
                ref = qst_of(&f.c->pid);
                if (mode != M_RUN) { ref_exact = 0; }
                ++nsemi;
            }
        }
        else
        {
            o = ref_pid(&p, mode, f.c->pid.kp, f.c->pid.ki, f.c->pid.kd, &lim, set, fdb);
        }
        judge_cached(CTL_FUZZY, mode, k, &before, &f.c->pid, &o.s, set, fdb);
        judge_integrator(CTL_FUZZY, mode, k, &before, &f.c->pid, set, fdb);
        if (twin)
        {
            double rt = call_fuzzy(twin, mode, set, fdb);
            judge_twin(CTL_FUZZY, mode, since_zero, &f.c->pid, ret, &twin->pid, rt, rec.nrec > 0);
        }
        cell(CTL_FUZZY, mode, f.opr, f.n, &f.c->pid, mode == M_POS);
        if (vf.case_viol) { break; }
    }
    if (vf_want_sample() && exact && reconf && L > 60 && !vf.case_viol && rec.nswap > 2 && rec.ndrop > 0 && rec.nbase > 1 && nzero > 0 && nexact > 20)
    {
        vf_sample("a_pid_fuzzy exact regime, reconfiguration-dense history of %u integer steps (%s): %u reconfigurations between steps (%u x a_pid_fuzzy_set_rule with another order / membership "
                  "tables / NULL pattern, %u of them dropping a consequent table; %u base-gain changes through a_pid_fuzzy_set_kpid or the public fields; %u writes to the embedded pid gains; the "
                  "rest a_pid_fuzzy_set_opr and limit fields), %u x a_pid_fuzzy_zero followed by a fresh twin with the configuration in force: %u steps judged bitwise against the __float128 "
                  "reference with the configuration in force, %u by the one-step oracle; untuned gains equal the base gain after every step",
                  L, G_NAME[gc], rec.nrec, rec.nswap, rec.ndrop, rec.nbase, rec.nscrib, nzero, nexact, nsemi);
    }
    if (vf_want_sample() && exact && !reconf && L > 100 && !vf.case_viol && nexact > 50 && nsemi > 5)
    {
        vf_sample("a_pid_fuzzy exact regime: operator %s, order %u, scratch malloc(%zu) for at most %u active sets, %u integer steps (%s): %u steps judged bitwise (gains, integrator, "
                  "output), %u by the one-step __float128 oracle, %u with no set firing",
                  OPR_NAME[f.opr], f.n, (size_t)A_PID_FUZZY_BFUZZ(f.nfuzz), f.nfuzz, L, G_NAME[gc], nexact, nsemi, nnone);
    }
    free(twin);
    free(twin_bf);
    fz_free(&f);
}

/* ------------------------------------------------------------------ fuzzy PID: crisp singleton sets, input exactly on the centre
 * (clause added for seeded change C12-I: the firing test of a_pid_fuzzy_mf rewritten so that an unordered degree counts as fired)
 *
 * mf.h puts no condition on the width of a gaussian or of a generalised bell, so "any finite ... rule base" contains tables in which one
 * set is a crisp singleton: A_MF_GAUSS with sigma = 0 or A_MF_GBELL with a = 0 (b > 0).  Away from its centre such a set has degree
 * exactly 0; AT the centre the library's formula is 0/0.  The property does not care what degree that is (C13 excludes zero widths from
 * the value clauses of the membership functions, and neither degrees nor gain VALUES are judged here) - it says that after every step the
 * output lies within the limits and all controller state is finite, and that zeroing restores the fresh behaviour.  Those clauses are
 * judged on histories on a dyadic grid (set, fdb multiples of 1, 1/2 or 1/4, |.| <= 64, so e = set - fdb and ec = e - e(k-1) are exact) that
 * are steered so that e, ec or both land exactly on the singleton's centre on roughly every third step, mixed with ordinary steps, for
 * all three entry points and all seven operators, the singleton planted among ordinary overlapping sets of all 13 families.
 * Twin clause: a second controller whose tables are the same except that the singleton is replaced by a shoulder set far outside the
 * input range (it never fires) runs alongside on the same history; on the steps where an input is exactly on the centre the scheduled
 * gains, the integrator and the output must equal the twin's bitwise: whatever degree the library assigns to the singleton there, a set
 * whose degree is not a number > 0 cannot be given weight in the mean of centres (observed on the unchanged library for every operator:
 * the degree is not counted as fired, all seeds). */
static void part_plant(part_t *P, unsigned at, int type, double zero, double b, double c)
{
    mfset_t *m = &P->s[at];
    memset(m, 0, sizeof(*m));
    m->type = type;
    if (type == A_MF_GAUSS) { m->p[0] = zero; m->p[1] = c; }
    else if (type == A_MF_GBELL) { m->p[0] = zero; m->p[1] = b; m->p[2] = c; }
    else { m->p[0] = 0x1p40; m->p[1] = 0x1p40 + 1; } /* A_MF_LINS far to the right of every input: degree exactly 0 */
    part_free(P);
    part_finish(P);
}

static void case_fuzzy_singleton(vf_rng *r, uint64_t q)
{
    fz_t f, t; /* t: the twin without the singleton; shares consequents, base gains, operator, order and scratch size with f */
    unsigned const L = 4 + (unsigned)vf_below(r, 120);
    int const where = 1 + (int)vf_below(r, 3); /* 1: e table, 2: ec table, 3: both */
    double const grid = ldexp(1.0, -(int)vf_below(r, 3)), R = (double)vf_range(r, 4, 64);
    int const ls = (int)vf_below(r, LS_N);
    unsigned const psw = (unsigned)vf_range(r, 2, 20);
    double cen[2] = {0, 0}, d, set = 0, fdb = 0;
    lim_t lim;
    a_pid_fuzzy *ztwin = NULL;
    void *ztwin_bf = NULL;
    int mode = (int)vf_below(r, 3), joint_next = 0, was_on = 0;
    unsigned k, since_zero = 0, non = 0, nboth = 0, i;
    memset(&f, 0, sizeof(f));
    f.opr = (unsigned)(q % 7);
    f.n = 2 + (unsigned)(q / 7 % 6);
    d = 2 * R / (double)f.n * vf_uniform(r, 0.5, 1.5);
    part_real(r, &f.pe, f.n, d);
    part_real(r, &f.pec, f.n, d * vf_uniform(r, 0.5, 2));
    t = f;
    t.pe.flat = t.pec.flat = NULL;
    part_finish(&t.pe);
    part_finish(&t.pec);
    for (int w = 0; w < 2; ++w)
    {
        part_t *P = w ? &f.pec : &f.pe, *T = w ? &t.pec : &t.pe;
        unsigned const at = (unsigned)vf_below(r, f.n);
        int const type = vf_chance(r, 1, 2) ? A_MF_GAUSS : A_MF_GBELL;
        if (!(where >> w & 1)) { continue; }
        cen[w] = vf_chance(r, 1, 4) ? 0.0 : rint(vf_uniform(r, -R, R) / grid) * grid;
        part_plant(P, at, type, vf_chance(r, 1, 4) ? -0.0 : 0.0, vf_uniform(r, 0.5, 4), cen[w]);
        part_plant(T, at, A_MF_LINS, 0, 0, 0);
    }
    f.base[0] = t.base[0] = vf_sign(r) * vf_logu(r, -4, 5.5);
    f.base[1] = t.base[1] = vf_chance(r, 1, 6) ? 0.0 : vf_logu(r, -4, 5.5);
    f.base[2] = t.base[2] = vf_chance(r, 1, 4) ? 0.0 : vf_sign(r) * vf_logu(r, -4, 5.5);
    for (int gi = 0; gi < 3; ++gi)
    {
        if (vf_chance(r, 1, 8)) { continue; }
        f.mk[gi] = t.mk[gi] = (double *)xmalloc(f.n * f.n * sizeof(double));
        for (i = 0; i < f.n * f.n; ++i)
        {
            double const m = vf_logu(r, -4, 5.5);
            f.mk[gi][i] = gi == 1 ? (vf_chance(r, 1, 2) ? m : -vf_unit(r) * f.base[1] / 2) : vf_sign(r) * m; /* effective ki >= 0 */
        }
    }
    f.nfuzz = t.nfuzz = f.pe.overlap > f.pec.overlap ? f.pe.overlap : f.pec.overlap; /* the singleton counts as a set that can be active */
    gen_limits(r, ls, 0, R, &lim);
    vf_log("a_pid_fuzzy, crisp singleton set in the %s table%s (centre e=%a ec=%a), inputs on the grid %a within +-%a: operator %u (%s), order %u, scratch = malloc(A_PID_FUZZY_BFUZZ(%u)), "
           "base kp=%a ki=%a kd=%a, tables kp:%s ki:%s kd:%s, summax=%a summin=%a outmax=%a outmin=%a (limits: %s), %u steps",
           where == 1 ? "e" : where == 2 ? "ec" : "e and ec", where == 3 ? "s" : "", cen[0], cen[1], grid, R, f.opr, OPR_NAME[f.opr], f.n, f.nfuzz, f.base[0], f.base[1], f.base[2],
           f.mk[0] ? "yes" : "NULL", f.mk[1] ? "yes" : "NULL", f.mk[2] ? "yes" : "NULL", lim.summax, lim.summin, lim.outmax, lim.outmin, LS_NAME[ls], L);
    part_log("e", &f.pe);
    part_log("ec", &f.pec);
    part_log("twin e", &t.pe);
    part_log("twin ec", &t.pec);
    f.c = fz_ctx_new(&f, &lim, &f.bfuzz);
    t.c = fz_ctx_new(&t, &lim, &t.bfuzz);
    judge_zeroed(CTL_FUZZY, &f.c->pid, "a_pid_fuzzy_init on a garbage-filled struct");
    VF_COUNT("fuzzy-singleton-histories");
    log_header_done();
    for (k = 0; k < L; ++k)
    {
        double ret, rt, e, ec, target = NAN;
        a_pid before;
        fzcfg cfg0;
        qstep o;
        qst p;
        int on_e, on_ec;
        if (since_zero > 0 && vf_below(r, was_on ? 10 : 60) == 0)
        {
            /* zeroing (preferably right after a step on the centre) restores the fresh behaviour: fresh twin with the SAME tables */
            vf_log("k=%u a_pid_fuzzy_zero (both controllers) + fresh twin with the singleton table", k);
            a_pid_fuzzy_zero(f.c);
            a_pid_fuzzy_zero(t.c);
            judge_zeroed(CTL_FUZZY, &f.c->pid, "a_pid_fuzzy_zero");
            free(ztwin);
            free(ztwin_bf);
            ztwin = fz_ctx_new(&f, &lim, &ztwin_bf);
            since_zero = 0;
            VF_COUNT("fuzzy-singleton-zero-mid-history");
        }
        mode = next_mode(r, mode, psw, 7);
        /* steering: e onto its centre, ec onto its centre, or (two steps) both at once; otherwise a random grid point */
        if (vf_chance(r, 1, 2)) { fdb = rint(vf_uniform(r, -R, R) / grid) * grid; }
        if (joint_next) { target = cen[0]; joint_next = 0; }
        else
        {
            switch (vf_below(r, 8))
            {
            case 0: case 1: if (where & 1) { target = cen[0]; } break;
            case 2: case 3: if (where & 2) { target = f.c->pid.err + cen[1]; } break;
            case 4: if (where == 3) { target = cen[0] - cen[1]; joint_next = 1; } break;
            default: break;
            }
        }
        if (isfinite(target) && fabs(target) <= 4 * R) { set = fdb + target; }
        else { set = rint(vf_uniform(r, -R, R) / grid) * grid; joint_next = 0; }
        before = f.c->pid;
        cfg0 = fzcfg_of(f.c);
        e = set - fdb;
        ec = e - before.err;
        on_e = (where & 1) && e == cen[0];
        on_ec = (where & 2) && ec == cen[1];
        log_step(mode == M_RUN ? "pid_fuzzy_run" : mode == M_POS ? "pid_fuzzy_pos" : "pid_fuzzy_inc", k, set, fdb);
        ret = call_fuzzy(f.c, mode, set, fdb);
        rt = call_fuzzy(t.c, mode, set, fdb);
        vf.evals += 2;
        ++since_zero;
        was_on = on_e || on_ec;
        if (was_on) { ++non; VF_COUNT("fuzzy-singleton-input-on-centre"); }
        if (on_e && on_ec) { ++nboth; VF_COUNT("seen-fuzzy-singleton-e-and-ec-on-centre"); }
        if (!judge_common(CTL_FUZZY, mode, k, &before, &f.c->pid, ret, set, fdb) || !isfinite(f.c->kp + f.c->ki + f.c->kd))
        {
            char b1[512], b2[512];
            if (!was_on) { fz_report_nonfinite(&f, f.c, mode, k, &before, set, fdb); break; }
            vf_viol("pid_fuzzy/state-not-finite/input-on-centre-of-crisp-singleton-set",
                    "step %u a_pid_fuzzy_%s(set=%a, fdb=%a): e=%a ec=%a, operator %s, order %u; the %s table holds a zero-width gauss/gbell set centred exactly there (finite parameters, "
                    "finite inputs); state before %s, after %s (base gains %a %a %a)",
                    k, MODE_NAME[mode], set, fdb, e, ec, OPR_NAME[f.opr], f.n, on_e && on_ec ? "e and the ec" : on_e ? "e" : "ec", fmt_pid(b1, sizeof b1, &before),
                    fmt_pid(b2, sizeof b2, &f.c->pid), f.c->kp, f.c->ki, f.c->kd);
            break;
        }
        judge_fzcfg(k, &cfg0, f.c);
        p = qst_of(&before);
        o = ref_pid(&p, mode, f.c->pid.kp, f.c->pid.ki, f.c->pid.kd, &lim, set, fdb);
        judge_cached(CTL_FUZZY, mode, k, &before, &f.c->pid, &o.s, set, fdb);
        judge_integrator(CTL_FUZZY, mode, k, &before, &f.c->pid, set, fdb);
        if (was_on)
        {
            a_pid const *a = &f.c->pid, *b = &t.c->pid;
            VF_COUNT("fuzzy-singleton-on-centre-eq-twin-without-the-set");
            if (memcmp(&ret, &rt, sizeof(double)) || memcmp(&a->kp, &b->kp, sizeof(double)) || memcmp(&a->ki, &b->ki, sizeof(double)) || memcmp(&a->kd, &b->kd, sizeof(double)) ||
                memcmp(&a->sum, &b->sum, sizeof(double)) || memcmp(&a->out, &b->out, sizeof(double)))
            {
                char b1[512], b2[512], b3[512];
                vf_viol("pid_fuzzy/crisp-singleton-set-on-centre/differs-from-twin-without-the-set",
                        "step %u a_pid_fuzzy_%s(set=%a, fdb=%a): e=%a ec=%a exactly on the centre of the zero-width set of the %s table, operator %s, order %u: returned %a state %s; the twin "
                        "whose table holds a never-firing shoulder set in its place returned %a state %s; before %s",
                        k, MODE_NAME[mode], set, fdb, e, ec, on_e && on_ec ? "e and the ec" : on_e ? "e" : "ec", OPR_NAME[f.opr], f.n, ret, fmt_pid(b1, sizeof b1, a), rt,
                        fmt_pid(b2, sizeof b2, b), fmt_pid(b3, sizeof b3, &before));
            }
        }
        if (ztwin)
        {
            double rz = call_fuzzy(ztwin, mode, set, fdb);
            judge_twin(CTL_FUZZY, mode, since_zero, &f.c->pid, ret, &ztwin->pid, rz, 0);
        }
        cell(CTL_FUZZY, mode, f.opr, f.n, &f.c->pid, mode == M_POS);
        if (vf.case_viol) { break; }
    }
    if (vf_want_sample() && L > 40 && non > 10 && !vf.case_viol)
    {
        vf_sample("a_pid_fuzzy with a zero-width gauss/gbell set in the %s table%s: operator %s, order %u, %u steps on the grid %g, %u of them with the input exactly on the set's centre (%u "
                  "with e and ec at once): output within limits and state finite after every step, gains/integrator/output bitwise equal to the twin without the set on those steps",
                  where == 1 ? "e" : where == 2 ? "ec" : "e and ec", where == 3 ? "s" : "", OPR_NAME[f.opr], f.n, L, grid, non, nboth);
    }
    free(ztwin);
    free(ztwin_bf);
    free(t.c);
    free(t.bfuzz);
    part_free(&t.pe);
    part_free(&t.pec);
    fz_free(&f);
}

/* ------------------------------------------------------------------ single-neuron PID */
typedef struct { double k, eta[3], w[3]; } ncfg_t;
static a_pid_neuro *neuro_new(ncfg_t const *n, lim_t const *l)
{
    a_pid_neuro *c = (a_pid_neuro *)xmalloc(sizeof(a_pid_neuro));
    memset(c, 0xA5, sizeof(*c));
    a_pid_neuro_set_kpid(c, n->k, n->eta[0], n->eta[1], n->eta[2]);
    a_pid_neuro_set_wpid(c, n->w[0], n->w[1], n->w[2]);
    set_limits(&c->pid, l);
    a_pid_neuro_init(c);
    return c;
}
static char const *fmt_neuro(char *b, size_t cap, a_pid_neuro const *c)
{
    snprintf(b, cap, "{k=%a eta_p=%a eta_i=%a eta_d=%a wp=%a wi=%a wd=%a ec=%a outmax=%a outmin=%a out=%a var=%a fdb=%a err=%a}", c->k, c->pid.kp, c->pid.ki, c->pid.kd, c->wp,
             c->wi, c->wd, c->ec, c->pid.outmax, c->pid.outmin, c->pid.out, c->pid.var, c->pid.fdb, c->pid.err);
    return b;
}

static void case_neuro(vf_rng *r, int exact, int reconf)
{
    /* reconf: reconfiguration-dense history (<= 160 steps): about every 6th step is preceded by a_pid_neuro_set_kpid, a_pid_neuro_set_wpid, a write
       to the public fields k / wp / wi / wd or new output limits, the controller is zeroed about every 25 steps.  The one-step oracle evaluates
       the documented equations on the controller's own previous state, i.e. with the configuration in force at that step; the setters must
       store their arguments and leave everything else (state, ec, the other configuration group) as it is */
    unsigned const L = reconf ? 4 + (unsigned)vf_below(r, 157) : gen_len(r);
    double const R = exact ? (double)vf_range(r, 1, 100) : vf_logu(r, -3, 6);
    int const ls = vf_chance(r, 1, 3) ? LS_WIDE : vf_chance(r, 1, 2) ? LS_OUT_TIGHT : LS_EDGE, gc = (int)vf_below(r, G_NCLS);
    ncfg_t n;
    lim_t lim;
    gen_t g;
    a_pid_neuro *c, *twin = NULL;
    int mode = vf_chance(r, 1, 4) ? M_RUN : M_INC, reported_acc = 0, zero_w = 0;
    unsigned const psw = vf_chance(r, 1, 3) ? 0 : (unsigned)vf_range(r, 2, 100);
    unsigned k, since_zero = 0, i, nclamp = 0, nrec = 0;
    double last = 0;
    if (exact)
    {
        n.k = (vf_chance(r, 1, 2) ? 1 : -1) * gen_gain16(r, 1, 64);
        for (i = 0; i < 3; ++i) { n.eta[i] = vf_chance(r, 1, 6) ? 0.0 : gen_gain16(r, vf_chance(r, 1, 4) ? -16 : 0, 16) / 16; }
        do { for (i = 0; i < 3; ++i) { n.w[i] = vf_chance(r, 1, 4) ? 0.0 : gen_gain16(r, -32, 32); } } while (n.w[0] == 0 && n.w[1] == 0 && n.w[2] == 0);
    }
    else
    {
        n.k = vf_sign(r) * vf_logu(r, -3, 4);
        for (i = 0; i < 3; ++i) { n.eta[i] = vf_chance(r, 1, 6) ? 0.0 : (vf_chance(r, 1, 5) ? -1.0 : 1.0) * vf_logu(r, -8, 1); }
        do { for (i = 0; i < 3; ++i) { n.w[i] = vf_chance(r, 1, 4) ? 0.0 : vf_sign(r) * vf_logu(r, -3, 2); } } while (n.w[0] == 0 && n.w[1] == 0 && n.w[2] == 0);
    }
    /* all three weights exactly zero is a legal configuration too (the documented quotient is then 0/0; whatever the controller does, its
       output must stay inside the limits and its state finite) - combined, half of the time, with output limits that exclude 0 */
    zero_w = vf_chance(r, 1, 6);
    if (zero_w) { n.w[0] = n.w[1] = n.w[2] = 0.0; VF_COUNT("neuro-all-weights-zero-histories"); }
    /* weights near the bottom of the normal range together with a large K (seeded change C12-P: K / sum|w| formed first overflows although the documented
       K * sum(w x) / sum|w| has no overflowing intermediate): weights scaled by the exact factor 2^-1010 (9e-308 .. 9e-303, all normal), no learning so that they stay there */
    if (!exact && !zero_w && vf_chance(r, 1, 8))
    {
        n.k = vf_sign(r) * vf_logu(r, 2, 4);
        for (i = 0; i < 3; ++i) { n.w[i] = ldexp(n.w[i], -1010); n.eta[i] = 0.0; }
        VF_COUNT("neuro-tiny-weights-large-k-histories");
    }
    gen_limits(r, ls, exact, R * fabs(n.k), &lim);
    if (zero_w && vf_chance(r, 1, 2))
    {
        double const lo = (double)vf_range(r, 1, 9), hi = lo + (double)vf_range(r, 0, 9);
        if (vf_chance(r, 1, 2)) { lim.outmin = lo; lim.outmax = hi; }
        else { lim.outmin = -hi; lim.outmax = -lo; }
    }
    /* no +-DBL_MAX "unlimited" output here: when all three weights are 0 the documented quotient is 0/0 and the controller parks the output
       at outmin; with outmin = -DBL_MAX the next weight update eta*e*u*x overflows, which the quantifier excludes */
    if (lim.outmax > 0x1p30) { lim.outmax = exact ? 0x1p30 : 1e6; }
    if (lim.outmin < -0x1p30) { lim.outmin = exact ? -0x1p30 : -1e6; }
    gen_init(&g, r, gc, exact, R, L);
    vf_log("a_pid_neuro, %s inputs%s: K=%a eta_p=%a eta_i=%a eta_d=%a wp=%a wi=%a wd=%a outmax=%a outmin=%a (limits: %s), %u steps, input=%s amplitude=%a", exact ? "integer" : "real",
           reconf ? ", reconfiguration-dense history" : "", n.k, n.eta[0], n.eta[1], n.eta[2], n.w[0], n.w[1], n.w[2], lim.outmax, lim.outmin, LS_NAME[ls], L, G_NAME[gc], R);
    c = neuro_new(&n, &lim);
    judge_zeroed(CTL_NEURO, &c->pid, "a_pid_neuro_init on a garbage-filled struct");
    VF_COUNT("init-zero-state");
    if (c->ec != 0) { vf_viol("pid_neuro_zero/ec-not-cleared", "after a_pid_neuro_init: ec=%a", c->ec); }
    if (c->wp != n.w[0] || c->wi != n.w[1] || c->wd != n.w[2] || c->k != n.k) { vf_viol("pid_neuro_zero/weights-or-k-changed", "after a_pid_neuro_init: wp=%a wi=%a wd=%a k=%a", c->wp, c->wi, c->wd, c->k); }
    log_header_done();
    for (k = 0; k < L; ++k)
    {
        double set, fdb, ret, e, ecn, xd;
        a_pid_neuro b4;
        char key[160], b1[700], b2[700];
        if (since_zero > 0 && vf_below(r, reconf ? 25 : 300) == 0)
        {
            ncfg_t cur = n;
            vf_log("k=%u a_pid_neuro_zero + fresh twin with the current weights", k);
            cur.w[0] = c->wp; cur.w[1] = c->wi; cur.w[2] = c->wd;
            a_pid_neuro_zero(c);
            judge_zeroed(CTL_NEURO, &c->pid, "a_pid_neuro_zero");
            VF_COUNT("neuro-zero-keeps-weights-clears-ec");
            if (c->ec != 0) { vf_viol("pid_neuro_zero/ec-not-cleared", "after a_pid_neuro_zero: ec=%a", c->ec); }
            if (memcmp(&c->wp, &cur.w[0], 8) || memcmp(&c->wi, &cur.w[1], 8) || memcmp(&c->wd, &cur.w[2], 8) || c->k != n.k)
            {
                vf_viol("pid_neuro_zero/weights-or-k-changed", "a_pid_neuro_zero changed the weights: %s", fmt_neuro(b1, sizeof b1, c));
            }
            free(twin);
            lim = limits_of(&c->pid);
            twin = neuro_new(&cur, &lim);
            since_zero = 0;
            VF_COUNT("zero-mid-history");
        }
        if (reconf && vf_below(r, 6) == 0)
        {
            a_pid_neuro const snap = *c;
            unsigned const ev = (unsigned)vf_below(r, 8);
            if (ev < 2)
            {
                n.k = exact ? (vf_chance(r, 1, 2) ? 1 : -1) * gen_gain16(r, 1, 64) : vf_sign(r) * vf_logu(r, -3, 4);
                for (i = 0; i < 3; ++i)
                {
                    n.eta[i] = vf_chance(r, 1, 6) ? 0.0 : exact ? gen_gain16(r, vf_chance(r, 1, 4) ? -16 : 0, 16) / 16 : (vf_chance(r, 1, 5) ? -1.0 : 1.0) * vf_logu(r, -8, 1);
                }
                vf_log("k=%u a_pid_neuro_set_kpid(k=%a, kp=%a, ki=%a, kd=%a)", k, n.k, n.eta[0], n.eta[1], n.eta[2]);
                a_pid_neuro_set_kpid(c, n.k, n.eta[0], n.eta[1], n.eta[2]);
                judge_state_kept(CTL_NEURO, "pid_neuro_set_kpid", k, &snap.pid, &c->pid);
                VF_COUNT("neuro-setter-stores-arguments-keeps-the-rest");
                if (memcmp(&c->k, &n.k, 8) || memcmp(&c->pid.kp, n.eta, 3 * sizeof(double)) || memcmp(&c->wp, &snap.wp, 3 * sizeof(double)) || memcmp(&c->ec, &snap.ec, sizeof(double)))
                {
                    vf_viol("pid_neuro/configuration-ne-arguments-of-setter/set_kpid", "before step %u: a_pid_neuro_set_kpid(%a, %a, %a, %a): before %s after %s", k, n.k, n.eta[0], n.eta[1],
                            n.eta[2], fmt_neuro(b1, sizeof b1, &snap), fmt_neuro(b2, sizeof b2, c));
                }
                if (twin) { a_pid_neuro_set_kpid(twin, n.k, n.eta[0], n.eta[1], n.eta[2]); }
                VF_COUNT("neuro-set-kpid-mid-history");
            }
            else if (ev < 4)
            {
                double w[3];
                do { for (i = 0; i < 3; ++i) { w[i] = vf_chance(r, 1, 4) ? 0.0 : exact ? gen_gain16(r, -32, 32) : vf_sign(r) * vf_logu(r, -3, 2); } } while (w[0] == 0 && w[1] == 0 && w[2] == 0);
                vf_log("k=%u a_pid_neuro_set_wpid(wp=%a, wi=%a, wd=%a)", k, w[0], w[1], w[2]);
                a_pid_neuro_set_wpid(c, w[0], w[1], w[2]);
                judge_state_kept(CTL_NEURO, "pid_neuro_set_wpid", k, &snap.pid, &c->pid);
                VF_COUNT("neuro-setter-stores-arguments-keeps-the-rest");
                if (memcmp(&c->wp, w, 3 * sizeof(double)) || memcmp(&c->k, &snap.k, 8) || memcmp(&c->pid.kp, &snap.pid.kp, 3 * sizeof(double)) || memcmp(&c->ec, &snap.ec, sizeof(double)))
                {
                    vf_viol("pid_neuro/configuration-ne-arguments-of-setter/set_wpid", "before step %u: a_pid_neuro_set_wpid(%a, %a, %a): before %s after %s", k, w[0], w[1], w[2],
                            fmt_neuro(b1, sizeof b1, &snap), fmt_neuro(b2, sizeof b2, c));
                }
                if (twin) { a_pid_neuro_set_wpid(twin, w[0], w[1], w[2]); }
                VF_COUNT("neuro-set-wpid-mid-history");
            }
            else if (ev < 7)
            {
                /* the public fields: k ("proportional output coefficient"), wp / wi / wd (the weights); the learning constants live in pid.kp/ki/kd */
                unsigned const which = (unsigned)vf_below(r, 7);
                double const v = which == 0 ? (exact ? (vf_chance(r, 1, 2) ? 1 : -1) * gen_gain16(r, 1, 64) : vf_sign(r) * vf_logu(r, -3, 4))
                               : which < 4  ? (exact ? gen_gain16(r, -32, 32) + (vf_chance(r, 1, 2) ? 0.0625 : 0) : vf_sign(r) * vf_logu(r, -3, 2))
                                            : (exact ? gen_gain16(r, 0, 16) / 16 : vf_logu(r, -8, 1));
                static char const *const FN[7] = {"k", "wp", "wi", "wd", "pid.kp", "pid.ki", "pid.kd"};
                double *const dst[7] = {&c->k, &c->wp, &c->wi, &c->wd, &c->pid.kp, &c->pid.ki, &c->pid.kd};
                vf_log("k=%u write to the public field %s = %a", k, FN[which], v);
                *dst[which] = v;
                if (which == 0) { n.k = v; }
                if (which >= 4) { n.eta[which - 4] = v; }
                if (twin)
                {
                    double *const tdst[7] = {&twin->k, &twin->wp, &twin->wi, &twin->wd, &twin->pid.kp, &twin->pid.ki, &twin->pid.kd};
                    *tdst[which] = v;
                }
                VF_COUNT("neuro-field-written-between-steps");
            }
            else
            {
                lim_t nl;
                gen_limits(r, vf_chance(r, 1, 2) ? LS_OUT_TIGHT : LS_EDGE, exact, R * fabs(n.k), &nl);
                if (nl.outmax > 0x1p30) { nl.outmax = exact ? 0x1p30 : 1e6; }
                if (nl.outmin < -0x1p30) { nl.outmin = exact ? -0x1p30 : -1e6; }
                vf_log("k=%u write to the public limit fields outmax=%a outmin=%a", k, nl.outmax, nl.outmin);
                c->pid.outmax = nl.outmax; c->pid.outmin = nl.outmin;
                if (twin) { twin->pid.outmax = nl.outmax; twin->pid.outmin = nl.outmin; }
                VF_COUNT("neuro-limit-field-written-between-steps");
            }
            ++nrec;
        }
        mode = next_mode(r, mode, psw, 5);
        gen_next(&g, r, k, last, &set, &fdb);
        b4 = *c;
        lim = limits_of(&c->pid);
        if (nrec) { VF_COUNT("steps-judged-after-reconfiguration"); }
        e = set - fdb;
        ecn = e - b4.pid.err;
        xd = ecn - b4.ec;
        log_step(mode == M_RUN ? "pid_neuro_run" : "pid_neuro_inc", k, set, fdb);
        ret = mode == M_RUN ? a_pid_neuro_run(c, set, fdb) : a_pid_neuro_inc(c, set, fdb);
        ++vf.evals;
        ++since_zero;
        last = ret;
        if (!judge_common(CTL_NEURO, mode, k, &b4.pid, &c->pid, ret, set, fdb) || !isfinite(c->wp + c->wi + c->wd + c->ec + c->k))
        {
            vf_viol("pid_neuro/state-not-finite", "step %u a_pid_neuro_%s(set=%a, fdb=%a): before %s after %s", k, MODE_NAME[mode], set, fdb, fmt_neuro(b1, sizeof b1, &b4),
                    fmt_neuro(b2, sizeof b2, c));
            break;
        }
        judge_integrator(CTL_NEURO, mode, k, &b4.pid, &c->pid, set, fdb);
        VF_COUNT("neuro-configuration-untouched");
        if (memcmp(&b4.pid.kp, &c->pid.kp, 3 * sizeof(double)) || memcmp(&b4.k, &c->k, sizeof(double)))
        {
            vf_viol("pid_neuro/configuration-field-changed-by-step", "step %u: before %s after %s", k, fmt_neuro(b1, sizeof b1, &b4), fmt_neuro(b2, sizeof b2, c));
        }
        {
            qst exp_s;
            exp_s.sum = b4.pid.sum;
            exp_s.out = 0;
            exp_s.fdb = fdb;
            exp_s.err = e;
            exp_s.var = mode == M_RUN ? b4.pid.fdb - fdb : xd;
            judge_cached(CTL_NEURO, mode, k, &b4.pid, &c->pid, &exp_s, set, fdb);
            VF_COUNT("neuro-ec-bitwise");
            if (!(c->ec == ecn))
            {
                vf_viol(keyf(key, sizeof key, "pid_neuro_%s/ec-field-ne-error-change", MODE_NAME[mode]), "step %u (set=%a fdb=%a): ec=%a, e(k)-e(k-1)=%a; before %s", k, set, fdb, c->ec, ecn,
                        fmt_neuro(b1, sizeof b1, &b4));
            }
        }
        if (mode == M_RUN)
        {
            VF_COUNT("neuro-run-passes-setpoint");
            if (!((q_t)c->pid.out == qsat(set, lim.outmin, lim.outmax)))
            {
                vf_viol("pid_neuro_run/out-ne-documented-equation", "step %u a_pid_neuro_run(set=%a, fdb=%a): out=%a, expected sat(set)=%a", k, set, fdb, c->pid.out,
                        (double)qsat(set, lim.outmin, lim.outmax));
            }
            VF_COUNT("neuro-run-keeps-weights");
            if (memcmp(&b4.wp, &c->wp, 3 * sizeof(double)))
            {
                vf_viol("pid_neuro_run/weights-changed", "step %u: before %s after %s", k, fmt_neuro(b1, sizeof b1, &b4), fmt_neuro(b2, sizeof b2, c));
            }
        }
        else
        {
            static char const *const WN[3] = {"wp", "wi", "wd"};
            double const w0[3] = {b4.wp, b4.wi, b4.wd}, w1[3] = {c->wp, c->wi, c->wd};
            double const xprev[3] = {b4.ec, b4.pid.err, b4.pid.var}, xnow[3] = {ecn, e, xd};
            q_t const gq = (q_t)e * b4.pid.out;
            q_t num = 0, nmag = 0, den = 0;
            for (i = 0; i < 3; ++i)
            {
                q_t const dw = (q_t)(i == 0 ? b4.pid.kp : i == 1 ? b4.pid.ki : b4.pid.kd) * gq * xprev[i];
                q_t const wq = (q_t)w0[i] + dw, tol = TOLK * (q_t)EPS * (qabs(w0[i]) + qabs(dw)) + 0x1p-1000Q, err = qabs((q_t)w1[i] - wq);
                VF_COUNT("neuro-weight-update-onestep");
                VF_MAX("neuro-weight-error/tolerance", (double)(err / tol));
                if (!(err <= tol))
                {
                    vf_viol(keyf(key, sizeof key, "pid_neuro_inc/%s-ne-documented-update", WN[i]),
                            "step %u a_pid_neuro_inc(set=%a, fdb=%a): %s=%a, documented w + eta*e(k)*u(k-1)*x(k-1) = %a + %a*%a*%a*%a = %.21Lg (error %.3Lg x tolerance); before %s after %s",
                            k, set, fdb, WN[i], w1[i], w0[i], i == 0 ? b4.pid.kp : i == 1 ? b4.pid.ki : b4.pid.kd, e, b4.pid.out, xprev[i], LD(wq), LD(err / tol), fmt_neuro(b1, sizeof b1, &b4),
                            fmt_neuro(b2, sizeof b2, c));
                }
                num += (q_t)w1[i] * xnow[i];
                nmag += qabs((q_t)w1[i] * xnow[i]);
                den += qabs(w1[i]);
            }
            if (den == 0) { VF_COUNT("neuro-all-weights-zero-output-not-judged"); }
            else
            {
                q_t const delta = (q_t)c->k * num / den, dmag = qabs(c->k) * nmag / den;
                q_t const acc = qsat((q_t)b4.pid.out + delta, lim.outmin, lim.outmax), noacc = qsat(delta, lim.outmin, lim.outmax);
                /* last term: products w*x (and K times their sum) that fall below the normal range are rounded to a multiple of 2^-1074 by ANY evaluation in the working type */
                q_t const tol = TOLK * (q_t)EPS * (qabs(b4.pid.out) + dmag) + 0x1p-1000Q + 8 * 0x1p-1074Q * (qabs(c->k) + 1) / den;
                q_t const doc = NEURO_DOC_ACCUMULATES ? acc : noacc, other = NEURO_DOC_ACCUMULATES ? noacc : acc;
                q_t const err = qabs((q_t)c->pid.out - doc);
                VF_COUNT("neuro-output-onestep");
                if (err <= tol) { VF_MAX("neuro-out-error/tolerance", (double)(err / tol)); }
                else if (qabs((q_t)c->pid.out - other) <= tol)
                {
                    if (!reported_acc)
                    {
                        vf_viol(NEURO_DOC_ACCUMULATES ? "pid_neuro_inc/out-ne-documented-equation/previous-output-not-accumulated"
                                                      : "pid_neuro_inc/out-ne-documented-equation/previous-output-accumulated",
                                "step %u a_pid_neuro_inc(set=%a, fdb=%a): u(k-1)=%a, K*sum(w x)/sum|w| = %.21Lg; out=%a equals sat(%s) = %.21Lg, pid_neuro.h documents u(k) = u(k-1) + K*... = "
                                "%.21Lg; before %s after %s",
                                k, set, fdb, b4.pid.out, LD(delta), c->pid.out, NEURO_DOC_ACCUMULATES ? "increment alone" : "u(k-1) + increment", LD(other), LD(doc), fmt_neuro(b1, sizeof b1, &b4),
                                fmt_neuro(b2, sizeof b2, c));
                    }
                    reported_acc = 1;
                }
                else
                {
                    vf_viol("pid_neuro_inc/out-ne-documented-equation",
                            "step %u a_pid_neuro_inc(set=%a, fdb=%a): out=%a, reference sat(u(k-1) + K*sum(w x)/sum|w|) = %.21Lg (increment %.21Lg, error %.3Lg x tolerance); before %s after %s", k,
                            set, fdb, c->pid.out, LD(doc), LD(delta), LD(err / tol), fmt_neuro(b1, sizeof b1, &b4), fmt_neuro(b2, sizeof b2, c));
                }
            }
        }
        if (twin)
        {
            double rt = mode == M_RUN ? a_pid_neuro_run(twin, set, fdb) : a_pid_neuro_inc(twin, set, fdb);
            judge_twin(CTL_NEURO, mode, since_zero, &c->pid, ret, &twin->pid, rt, nrec > 0);
            VF_COUNT("neuro-twin-weights-bitwise");
            if ((memcmp(&c->wp, &twin->wp, 3 * sizeof(double)) || memcmp(&c->ec, &twin->ec, sizeof(double))) && isfinite(twin->wp + twin->wi + twin->wd))
            {
                vf_viol("pid_neuro_zero/zeroed-controller-differs-from-fresh-one", "step %u after zero: zeroed %s, fresh twin %s", since_zero, fmt_neuro(b1, sizeof b1, c),
                        fmt_neuro(b2, sizeof b2, twin));
            }
        }
        nclamp += c->pid.out == c->pid.outmax || c->pid.out == c->pid.outmin;
        cell(CTL_NEURO, mode, 7, 0, &c->pid, 0);
        if (vf.case_viol && !(reported_acc && vf.nviol)) { break; }
    }
    if (vf_want_sample() && L > 100 && nclamp > 3 && nclamp < L)
    {
        vf_sample("a_pid_neuro %s inputs: K=%g eta=(%g,%g,%g) w0=(%g,%g,%g) out[%g,%g], %u steps (%s) with run/inc switches: weights and output within %d eps*sum|terms| of the "
                  "__float128 one-step evaluation, ec/var/err/fdb bitwise, output at a limit after %u steps",
                  exact ? "integer" : "real", n.k, n.eta[0], n.eta[1], n.eta[2], n.w[0], n.w[1], n.w[2], lim.outmin, lim.outmax, L, G_NAME[gc], TOLK, nclamp);
    }
    free(twin);
    free(c);
}

/* ------------------------------------------------------------------ plan */
/* the periodic plan of 20 slots, followed by a block of crisp-singleton fuzzy histories (1/80 of the plan, <= 123 steps each; appended so
   that the case numbers of the periodic plan are unchanged) */
static uint64_t plan_periodic;
static uint64_t vf_ncases(int tier)
{
    plan_periodic = tier ? 1600000 : 40000;
    return plan_periodic + plan_periodic / 80;
}

/* DECIMAL-GRID histories: gains, limits, set points and feedback are multiples of 0.1 (what people type), none of them representable, so sums and differences are
   inexact in a correlated way and an unsaturated output lands within one rounding of a limit again and again - which integers / dyadics (everything exact) and
   log-uniform reals (never that close) do not produce. Judged: the LIMIT clause only, with exact comparisons, in all three modes of the plain controller - the pinned
   code clamps the value it returns, so it holds to the last bit (seeded change C12-N: the incremental form tests the increment against the remaining headroom and
   then adds it; decision and value are rounded separately and out + inc ends one ulp beyond the limit, e.g. limits +-0.3, kp = 1, errors -0.1 then +0.3). */
static void case_pid_decimal(vf_rng *r)
{
    a_pid c;
    unsigned const L = 40 + (unsigned)vf_below(r, 200);
    int const mode = (int)vf_below(r, 3);
    double const kp = (double)vf_range(r, -30, 30) / 10, ki = (double)vf_range(r, 0, 20) / 10, kd = (double)vf_range(r, -10, 10) / 10;
    double set = 0, fdb = 0;
    memset(&c, 0, sizeof c);
    c.outmax = (double)vf_range(r, 1, 30) / 10;
    c.outmin = vf_chance(r, 1, 2) ? -c.outmax : -(double)vf_range(r, 0, 30) / 10;
    c.summax = vf_chance(r, 1, 2) ? (double)vf_range(r, 1, 60) / 10 : DBL_MAX;
    c.summin = -c.summax;
    a_pid_set_kpid(&c, kp, ki, kd);
    a_pid_init(&c);
    vf_log("plain PID on the decimal grid: mode %d, kp %.1f ki %.1f kd %.1f, out in [%.1f, %.1f], sum in [%g, %g], %u steps", mode, kp, ki, kd, c.outmin, c.outmax, c.summin, c.summax, L);
    for (unsigned k = 0; k < L; ++k)
    {
        double out;
        if (vf_chance(r, 1, 3)) { set = (double)vf_range(r, -20, 20) / 10; }
        fdb = vf_chance(r, 1, 4) ? fdb : set - (double)vf_range(r, -12, 12) / 10;
        out = mode == 0 ? a_pid_run(&c, set, fdb) : mode == 1 ? a_pid_pos(&c, set, fdb) : a_pid_inc(&c, set, fdb);
        ++vf.evals;
        VF_COUNT("pid-decimal-grid-limit-clause");
        if (mode && (!(out <= c.outmax) || !(out >= c.outmin) || out != c.out))
        {
            vf_viol(mode == 1 ? "pid_pos/out-outside-limits/decimal-grid" : "pid_inc/out-outside-limits/decimal-grid", "step %u: set %.17g fdb %.17g -> out %.17g (field %.17g), limits [%.17g, %.17g]; kp %.1f ki %.1f kd %.1f", k, set, fdb, out, c.out,
                    c.outmin, c.outmax, kp, ki, kd);
            return;
        }
        /* the integral is limited by conditional integration (it may pass its limit by one step): judged by the main histories, not here */
    }
}

static void vf_case(uint64_t c, vf_rng *r)
{
    unsigned const slot = (unsigned)(c % 20);
    if (c % 4 == 1) { vf_rng dr; vf_rng_seed(&dr, vf.seed, vf_hash_str("C12-decimal"), c); for (int i = 0; i < 6; ++i) { case_pid_decimal(&dr); } }
    uint64_t const blk = c / 20;
    /* every fourth block, seven of the 20 slots (1 plain exact, 1 plain real, 2 fuzzy exact, 1 fuzzy real, 2 neuron) run the reconfiguration-dense
       flavour of the same case (histories of <= 160 steps, so the share is taken from the existing plan, not added to it) */
    int const rc = (blk & 3) == 3;
    if (c >= plan_periodic) { case_fuzzy_singleton(r, c - plan_periodic); }
    else if (slot < 6) { case_pid(r, 1, rc && slot == 5); }
    else if (slot < 8) { case_pid_equiv(r); }
    else if (slot < 11) { case_pid(r, 0, rc && slot == 10); }
    else if (slot < 15) { case_fuzzy(r, blk * 4 + (slot - 11), 1, rc && slot >= 13); }
    else if (slot < 17) { case_fuzzy(r, blk * 2 + (slot - 15), 0, rc && slot == 16); }
    else if (slot < 19) { case_neuro(r, slot == 17, rc && slot == 18); }
    else { case_neuro(r, (int)(blk & 1), rc); }
}
