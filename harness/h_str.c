/* C06 - a_str equals an abstract byte string and stays NUL-terminated: byte-vector model,
 * libc formatter as oracle for formatted append, ASan red zone right behind the capacity.
 */
#define VF_PROP "C06"
#include "vf_common.h"
#include "a/str.h"
#include "a/utf.h"
#include <ctype.h>

#define MMAX 6000
typedef struct
{
    a_str *s;
    unsigned char m[MMAX];
    size_t n;
    int by_ctor;
} smodel;
static smodel S[2];
static char const *opname = "op";

#define FAIL(clause, ...)                                   \
    do {                                                    \
        char key_[112];                                     \
        snprintf(key_, sizeof(key_), "str_%s/%s", opname, clause); \
        vf_viol(key_, __VA_ARGS__);                         \
        ok = 0;                                             \
    } while (0)

static int check_state(smodel *x, int terminated)
{
    int ok = 1;
    a_str *s = x->s;
    char *p = a_str_ptr(s);
    size_t len = a_str_len(s), mem = a_str_mem(s);
    VF_COUNT("state-compared-with-model");
    if (len != x->n) { FAIL("length", "library length %zu, model %zu", len, x->n); return 0; }
    if (p ? len > mem : (len != 0 || mem != 0)) { FAIL("length-exceeds-capacity", "len %zu mem %zu ptr %p", len, mem, (void *)p); return 0; }
    if (len && memcmp(p, x->m, len) != 0)
    {
        size_t i = 0;
        while (i < len && (unsigned char)p[i] == x->m[i]) { ++i; }
        FAIL("contents", "byte %zu of %zu: library 0x%02x model 0x%02x", i, len, (unsigned char)p[i], x->m[i]);
        return 0;
    }
    if (terminated)
    {
        VF_COUNT("terminator-after-content-inside-capacity");
        if (!p || len >= mem) { FAIL("no-room-for-terminator", "len %zu mem %zu after a terminating call", len, mem); return 0; }
        if (p[len] != 0) { FAIL("not-nul-terminated", "byte after the content is 0x%02x (len %zu mem %zu)", (unsigned char)p[len], len, mem); return 0; }
    }
    return ok;
}
static void m_append(smodel *x, void const *b, size_t n)
{
    if (x->n + n > MMAX) { fprintf(stderr, "h_str: model overflow\n"); exit(2); }
    if (n) { memcpy(x->m + x->n, b, n); }
    x->n += n;
}
static void cellf(char const *op, smodel *x, size_t need, int term_before)
{
    char b[96];
    size_t mem = a_str_mem(x->s), len = a_str_len(x->s);
    size_t spare = mem - len;
    int cls = need == (size_t)-1 ? 9 : spare < need ? 0 : spare == need ? 1 : spare == need + 1 ? 2 : 3;
    snprintf(b, sizeof(b), "%s|%d|%d", op, cls, term_before);
    vf_distinct_str(b);
}
static int is_term(smodel *x)
{
    a_str *s = x->s;
    return a_str_ptr(s) && a_str_len(s) < a_str_mem(s) && a_str_ptr(s)[a_str_len(s)] == 0;
}

/* length that lands on an interesting spot relative to the capacity */
static size_t target_len(vf_rng *r, smodel *x, int terminating)
{
    size_t mem = a_str_mem(x->s), len = a_str_len(x->s), spare = mem - len;
    int c = (int)vf_below(r, 10);
    size_t t;
    switch (c)
    {
    case 0: t = 0; break;
    case 1: t = spare; break;
    case 2: t = spare + 1; break;
    case 3: t = spare ? spare - 1 : 0; break;
    case 4: t = spare > 1 ? spare - 2 : 0; break;
    case 5: t = spare + 2; break;
    case 6: t = (size_t)vf_below(r, 200); break;
    default: t = (size_t)vf_below(r, 24); break;
    }
    (void)terminating;
    if (len + t + 16 > MMAX) { t = 0; }
    return t;
}
static unsigned char rnd_byte(vf_rng *r)
{
    static unsigned char const special[] = {0x00, 0x7F, 0x80, 0xFF, ' ', '\t', '\n', 'a', 'Z', '%'};
    return vf_chance(r, 1, 3) ? special[vf_below(r, sizeof(special))] : (unsigned char)vf_below(r, 256);
}

/* ---- formatted append: closed grammar, libc snprintf is the oracle */
#define COMMA ,
typedef union { int i; long l; double d; char const *s; unsigned u; } farg;
static char const *const fwords[] = {"", "x", "hello", "liba", "a b", "0123456789", "~!@#"};
#define CALLPAT(RES, F, PRE, PAT, FMT, A)                                                              \
    switch (PAT)                                                                                       \
    {                                                                                                  \
    case 0: RES = F(PRE FMT, A[0].i, A[1].i, A[2].i); break;                                           \
    case 1: RES = F(PRE FMT, A[0].i, A[1].s, A[2].d); break;                                           \
    case 2: RES = F(PRE FMT, A[0].s, A[1].s, A[2].i); break;                                           \
    case 3: RES = F(PRE FMT, A[0].d, A[1].d, A[2].d); break;                                           \
    case 4: RES = F(PRE FMT, A[0].l, A[1].i, A[2].s); break;                                           \
    case 5: RES = F(PRE FMT, A[0].s, A[1].d, A[2].i); break;                                           \
    case 6: RES = F(PRE FMT, A[0].i, A[1].d, A[2].s); break;                                           \
    default: RES = F(PRE FMT, A[0].l, A[1].l, A[2].l); break;                                          \
    }
static char const pat_types[8][4] = {"iii", "isd", "ssi", "ddd", "lis", "sdi", "ids", "lll"};

static int catv_wrap(a_str *s, char const *fmt, ...)
{
    int res;
    va_list va;
    va_start(va, fmt);
    res = a_str_catv(s, fmt, va);
    va_end(va);
    return res;
}

static size_t gen_conv(vf_rng *r, char t, char *out, farg *a)
{
    /* one conversion specification for argument type t; returns chars written */
    char flags[6] = "";
    int nf = 0, width = vf_chance(r, 1, 2) ? (int)vf_below(r, 12) : -1, prec = vf_chance(r, 1, 3) ? (int)vf_below(r, 6) : -1;
    if (vf_chance(r, 1, 4)) { flags[nf++] = '-'; }
    if (t != 's' && vf_chance(r, 1, 5)) { flags[nf++] = '+'; }
    if (t != 's' && !strchr(flags, '-') && vf_chance(r, 1, 5)) { flags[nf++] = '0'; }
    flags[nf] = 0;
    char spec[32], w[8] = "", p[8] = "";
    if (width >= 0) { snprintf(w, sizeof(w), "%d", width); }
    if (prec >= 0) { snprintf(p, sizeof(p), ".%d", prec); }
    switch (t)
    {
    case 'i':
    {
        static char const convs[] = "duxXoc";
        char cv = convs[vf_below(r, 6)];
        a->i = (int)vf_u64(r) >> (int)vf_below(r, 31);
        if (cv == 'c') { a->i = 33 + (int)vf_below(r, 90); snprintf(spec, sizeof(spec), "%%%s%s%c", strchr(flags, '-') ? "-" : "", w, cv); }
        else if (cv == 'd') { snprintf(spec, sizeof(spec), "%%%s%s%s%c", flags, w, p[0] && strchr(flags, '0') ? "" : p, cv); }
        else
        {
            char f2[6];
            int k = 0;
            for (int j = 0; flags[j]; ++j) { if (flags[j] != '+') { f2[k++] = flags[j]; } }
            f2[k] = 0;
            snprintf(spec, sizeof(spec), "%%%s%s%s%c", f2, w, p[0] && strchr(f2, '0') ? "" : p, cv);
        }
        break;
    }
    case 'l':
        a->l = (long)vf_u64(r) >> (int)vf_below(r, 63);
        snprintf(spec, sizeof(spec), "%%%s%s%sld", flags, w, p[0] && strchr(flags, '0') ? "" : p);
        break;
    case 'd':
    {
        static char const convs[] = "fegG";
        char cv = convs[vf_below(r, 4)];
        a->d = vf_sign(r) * vf_logu(r, -6, 9);
        if (vf_chance(r, 1, 8)) { a->d = (double)(int)vf_below(r, 100); }
        snprintf(spec, sizeof(spec), "%%%s%s%s%c", flags, w, p, cv);
        break;
    }
    default:
        a->s = fwords[vf_below(r, sizeof(fwords) / sizeof(fwords[0]))];
        snprintf(spec, sizeof(spec), "%%%s%s%ss", strchr(flags, '-') ? "-" : "", w, p);
        break;
    }
    size_t n = strlen(spec);
    memcpy(out, spec, n);
    return n;
}

static int do_format(smodel *x, vf_rng *r)
{
    int ok = 1, pat = (int)vf_below(r, 8), use_v = vf_chance(r, 1, 3);
    farg a[3];
    char fmt[700], expect[4096];
    size_t fl = 0, spare = a_str_mem(x->s) - a_str_len(x->s);
    int elen, res, tb = is_term(x);
    static char const lit[] = "abc XYZ,.-_:;/%";
    for (int k = 0; k < 3; ++k)
    {
        int nl = (int)vf_below(r, 4);
        for (int j = 0; j < nl; ++j)
        {
            char ch = lit[vf_below(r, sizeof(lit) - 1)];
            fmt[fl++] = ch;
            if (ch == '%') { fmt[fl++] = '%'; }
        }
        fl += gen_conv(r, pat_types[pat][k], fmt + fl, &a[k]);
    }
    fmt[fl] = 0;
#pragma GCC diagnostic push
#pragma GCC diagnostic ignored "-Wformat-nonliteral"
#pragma GCC diagnostic ignored "-Wformat-security"
    CALLPAT(elen, snprintf, expect COMMA sizeof(expect) COMMA, pat, fmt, a);
    /* pad with literal text so that the output length lands on/around the spare capacity */
    if (elen >= 0 && vf_chance(r, 2, 3))
    {
        static int const off[] = {-2, -1, 0, 1, 2};
        long target = (long)spare + off[vf_below(r, 5)];
        long pad = target - elen;
        if (pad > 0 && pad < 400 && fl + (size_t)pad + 1 < sizeof(fmt))
        {
            memset(fmt + fl, 'p', (size_t)pad);
            fl += (size_t)pad;
            fmt[fl] = 0;
            CALLPAT(elen, snprintf, expect COMMA sizeof(expect) COMMA, pat, fmt, a);
        }
    }
    if (elen < 0 || (size_t)elen >= sizeof(expect) || x->n + (size_t)elen + 16 > MMAX) { return 1; }
    opname = use_v ? "catv" : "catf";
    vf_log("str %s fmt=\"%s\" types=%s expected %d bytes (len %zu mem %zu spare %zu)", opname, fmt, pat_types[pat], elen, x->n, a_str_mem(x->s), spare);
    cellf(opname, x, (size_t)elen, tb);
    if (use_v) { CALLPAT(res, catv_wrap, x->s COMMA, pat, fmt, a); }
    else { CALLPAT(res, a_str_catf, x->s COMMA, pat, fmt, a); }
#pragma GCC diagnostic pop
    ++vf.evals;
    VF_COUNT("formatted-append-equals-libc-formatter");
    if (res != elen) { FAIL("return-value", "returned %d, the C formatter produces %d bytes for \"%s\"", res, elen, fmt); return 0; }
    m_append(x, expect, (size_t)elen);
    if (elen > 0) { return check_state(x, 1); }
    return check_state(x, 0);
}
static int sgn(int v) { return (v > 0) - (v < 0); }
static int ref_cmp(unsigned char const *a, size_t na, unsigned char const *b, size_t nb)
{
    size_t n = na < nb ? na : nb;
    for (size_t i = 0; i < n; ++i)
    {
        if (a[i] != b[i]) { return a[i] < b[i] ? -1 : 1; }
    }
    return (na > nb) - (na < nb);
}

static size_t ref_trim_set(unsigned char c, char const *set, size_t n)
{
    if (n) { return memchr(set, c, n) != NULL; }
    return c == ' ' || (c >= '\t' && c <= '\r');
}

static uint64_t vf_ncases(int tier) { return tier ? 1500000 : 6000; }

static void vf_case(uint64_t c, vf_rng *r)
{
    int nops = 30 + (int)vf_below(r, 40), alive = 1;
    for (int k = 0; k < 2; ++k)
    {
        if ((c >> 1 ^ (uint64_t)k) & 1)
        {
            S[k].s = (a_str *)malloc(sizeof(a_str)); /* constructor/destructor on caller-provided storage */
            memset(S[k].s, 0x5A, sizeof(a_str));
            a_str_ctor(S[k].s);
            S[k].by_ctor = 1;
            VF_COUNT("ctor-dtor-on-caller-storage");
        }
        else { S[k].s = a_str_new(); S[k].by_ctor = 0; }
        S[k].n = 0;
    }
    if (vf_want_sample() && c % 4 == 0)
    {
        vf_sample("history %" PRIu64 ": two a_str objects, %d ops from {catc, catn, cats, cat (+ non-terminating _ forms), catf/catv from a closed printf grammar judged against snprintf, a_utf_catc, getc, getn, six trim entry points, setn, setm, setm_ (exact fit), swap, exit + re-use, cmp/cmpn/cmps/cmp_, at/of}; append sizes target spare-2..spare+2 of the capacity; bytes include 0x00 0x7F 0x80 0xFF", c, nops);
    }
    for (int i = 0; i < nops && alive; ++i)
    {
        int k = (int)vf_below(r, 2), op = (int)vf_below(r, 30), ok = 1, tb;
        smodel *x = &S[k], *y = &S[1 - k];
        a_str *s = x->s;
        unsigned char buf[512];
        size_t n;
        tb = is_term(x);
        switch (op)
        {
        case 0: case 1:
        {
            int term = op == 0, ch = rnd_byte(r), rc;
            if (x->n + 8 > MMAX) { break; }
            opname = term ? "catc" : "catc_";
            vf_log("str %d %s 0x%02x (len %zu mem %zu)", k, opname, ch, x->n, a_str_mem(s));
            cellf(opname, x, term ? 2 : 1, tb);
            rc = term ? a_str_catc(s, ch) : a_str_catc_(s, ch);
            ++vf.evals;
            if (rc != ch) { FAIL("return-value", "returned %d for character %d", rc, ch); alive = 0; break; }
            buf[0] = (unsigned char)ch;
            m_append(x, buf, 1);
            alive = check_state(x, term);
            break;
        }
        case 2: case 3: case 4: case 5:
        {
            int term = op < 4, rc;
            unsigned char *src;
            n = target_len(r, x, term);
            if (n > sizeof(buf)) { n = sizeof(buf); }
            for (size_t j = 0; j < n; ++j) { buf[j] = rnd_byte(r); }
            src = (unsigned char *)malloc(n ? n : 1); /* exact-size source: an over-read is an ASan report */
            memcpy(src, buf, n);
            opname = term ? "catn" : "catn_";
            vf_log("str %d %s %zu bytes (len %zu mem %zu)", k, opname, n, x->n, a_str_mem(s));
            cellf(opname, x, term ? n + 1 : n, tb);
            rc = term ? a_str_catn(s, src, n) : a_str_catn_(s, src, n);
            free(src);
            ++vf.evals;
            if (rc != A_SUCCESS) { FAIL("unexpected-error", "rc %d", rc); alive = 0; break; }
            m_append(x, buf, n);
            alive = check_state(x, term);
            break;
        }
        case 6: case 7:
        {
            int term = op == 6, rc;
            char *src;
            n = target_len(r, x, term);
            if (n > sizeof(buf) - 1) { n = sizeof(buf) - 1; }
            for (size_t j = 0; j < n; ++j) { buf[j] = (unsigned char)(1 + vf_below(r, 255)); }
            src = (char *)malloc(n + 1);
            memcpy(src, buf, n);
            src[n] = 0;
            opname = term ? "cats" : "cats_";
            vf_log("str %d %s C string of %zu bytes (len %zu mem %zu)", k, opname, n, x->n, a_str_mem(s));
            cellf(opname, x, term ? n + 1 : n, tb);
            rc = term ? a_str_cats(s, src) : a_str_cats_(s, src);
            free(src);
            ++vf.evals;
            if (rc != A_SUCCESS) { FAIL("unexpected-error", "rc %d", rc); alive = 0; break; }
            m_append(x, buf, n);
            alive = check_state(x, term);
            break;
        }
        case 8: case 9:
        {
            int term = op == 8, rc;
            if (x->n + y->n + 8 > MMAX) { break; }
            opname = term ? "cat" : "cat_";
            vf_log("str %d %s str %d (%zu bytes) (len %zu mem %zu)", k, opname, 1 - k, y->n, x->n, a_str_mem(s));
            cellf(opname, x, term ? y->n + 1 : y->n, tb);
            rc = term ? a_str_cat(s, y->s) : a_str_cat_(s, y->s);
            ++vf.evals;
            if (rc != A_SUCCESS) { FAIL("unexpected-error", "rc %d", rc); alive = 0; break; }
            m_append(x, y->m, y->n);
            alive = check_state(x, term) && check_state(y, 0);
            break;
        }
        case 10: case 11: case 12: case 13:
            alive = do_format(x, r);
            break;
        case 14:
        {
            /* code point append: a_utf_encode's bytes + NUL */
            static uint32_t const borders[] = {0, 1, 0x7F, 0x80, 0x7FF, 0x800, 0xFFFF, 0x10000, 0x1FFFFF, 0x200000, 0x3FFFFFF, 0x4000000, 0x7FFFFFFF};
            uint32_t cp = vf_chance(r, 1, 2) ? borders[vf_below(r, 13)] : (uint32_t)(vf_u64(r) >> (33 + vf_below(r, 31)));
            unsigned char enc[8];
            unsigned en;
            int rc;
            if (x->n + 16 > MMAX) { break; }
            en = a_utf_encode(cp, enc);
            opname = "utf_catc";
            vf_log("str %d a_utf_catc U+%X (%u bytes) (len %zu mem %zu)", k, cp, en, x->n, a_str_mem(s));
            cellf(opname, x, 7, tb);
            rc = a_utf_catc(s, cp);
            ++vf.evals;
            if (rc != A_SUCCESS) { FAIL("unexpected-error", "rc %d", rc); alive = 0; break; }
            m_append(x, enc, en);
            VF_COUNT("utf_catc-appends-encoding-plus-nul");
            alive = check_state(x, 1);
            break;
        }
        case 15: case 16:
        {
            int term = op == 15, rc, want;
            opname = term ? "getc" : "getc_";
            vf_log("str %d %s (len %zu)", k, opname, x->n);
            cellf(opname, x, (size_t)-1, tb);
            rc = term ? a_str_getc(s) : a_str_getc_(s);
            ++vf.evals;
            want = x->n ? (int)(char)x->m[x->n - 1] : ~0;
            VF_COUNT("getc-returns-last-byte");
            if (rc != want) { FAIL("return-value", "returned %d expected %d", rc, want); alive = 0; break; }
            if (x->n) { --x->n; alive = check_state(x, term); }
            else { alive = check_state(x, 0); }
            break;
        }
        case 17: case 18:
        {
            int term = op == 17, with_buf = vf_chance(r, 2, 3);
            size_t got, want;
            int cls = (int)vf_below(r, 5);
            unsigned char *dst;
            n = cls == 0 ? 0 : cls == 1 ? x->n : cls == 2 ? x->n + 1 : cls == 3 ? SIZE_MAX : (size_t)vf_below(r, x->n + 2);
            want = n < x->n ? n : x->n;
            dst = (unsigned char *)malloc(want ? want : 1);
            opname = term ? "getn" : "getn_";
            vf_log("str %d %s nbyte=%zu buf=%d (len %zu)", k, opname, n, with_buf, x->n);
            cellf(opname, x, (size_t)-1, tb);
            got = term ? a_str_getn(s, with_buf ? dst : NULL, n) : a_str_getn_(s, with_buf ? dst : NULL, n);
            ++vf.evals;
            VF_COUNT("getn-returns-tail-bytes");
            if (got != want) { FAIL("return-value", "returned %zu expected %zu", got, want); free(dst); alive = 0; break; }
            if (with_buf && want && memcmp(dst, x->m + x->n - want, want) != 0) { FAIL("popped-bytes", "bytes copied out differ from the tail of the model"); free(dst); alive = 0; break; }
            free(dst);
            x->n -= want;
            alive = check_state(x, term && want > 0);
            break;
        }
        case 19: case 20: case 21:
        {
            /* trims: six entry points x trim sets */
            static char const *const sets[] = {"", " ", "x", "abc \t", "\0a", "\x80\xff\x7f", " \t\n\v\f\r"};
            static size_t const setn[] = {0, 1, 1, 5, 2, 3, 6};
            int which = (int)vf_below(r, 6), si = (int)vf_below(r, 7);
            char const *set = sets[si];
            size_t sn = setn[si], a = 0, b = x->n, before = x->n;
            int term = which < 3, side = which % 3; /* 0 rtrim 1 ltrim 2 trim */
            static char const *const names[] = {"rtrim", "ltrim", "trim", "rtrim_", "ltrim_", "trim_"};
            /* make trimming likely: decorate both ends with members of the set */
            if (vf_chance(r, 1, 2) && x->n + 8 < MMAX && a_str_ptr(s))
            {
                unsigned char deco = sn ? (unsigned char)set[vf_below(r, sn)] : (unsigned char)" \t\n"[vf_below(r, 3)];
                buf[0] = deco;
                a_str_catn(s, buf, 1);
                m_append(x, buf, 1);
                before = b = x->n;
            }
            opname = names[which];
            vf_log("str %d %s set#%d (len %zu)", k, opname, si, x->n);
            cellf(opname, x, (size_t)-1, tb);
            if (!a_str_ptr(s) && x->n == 0 && vf_chance(r, 1, 2)) { break; }
            switch (which)
            {
            case 0: a_str_rtrim(s, set, sn); break;
            case 1: a_str_ltrim(s, set, sn); break;
            case 2: a_str_trim(s, set, sn); break;
            case 3: a_str_rtrim_(s, set, sn); break;
            case 4: a_str_ltrim_(s, set, sn); break;
            default: a_str_trim_(s, set, sn); break;
            }
            ++vf.evals;
            if (side != 1) { while (b > a && ref_trim_set(x->m[b - 1], set, sn)) { --b; } }
            if (side != 0) { while (a < b && ref_trim_set(x->m[a], set, sn)) { ++a; } }
            memmove(x->m, x->m + a, b - a);
            x->n = b - a;
            VF_COUNT("trim-removes-exactly-the-set-members-at-the-ends");
            alive = check_state(x, term && x->n < before);
            break;
        }
        case 22:
        {
            /* setn / setn_ */
            int safe = vf_chance(r, 1, 2), rc;
            size_t mem = a_str_mem(s), nn;
            if (mem + 2 > MMAX - 16) { break; }
            if (safe)
            {
                int cls = (int)vf_below(r, 5);
                nn = cls == 0 ? 0 : cls == 1 ? mem : cls == 2 ? mem + 1 : cls == 3 ? SIZE_MAX : (size_t)vf_below(r, mem + 2);
                opname = "setn";
                vf_log("str %d setn %zu (len %zu mem %zu)", k, nn, x->n, mem);
                rc = a_str_setn(s, nn);
                ++vf.evals;
                VF_COUNT("setn-bounds");
                if ((rc == A_SUCCESS) != (nn <= mem)) { FAIL("bounds-check", "setn(%zu) with mem %zu returned %d", nn, mem, rc); alive = 0; break; }
                if (rc != A_SUCCESS) { alive = check_state(x, 0); break; }
            }
            else
            {
                if (!mem) { break; }
                nn = (size_t)vf_below(r, mem); /* documented precondition: less than memory */
                opname = "setn_";
                vf_log("str %d setn_ %zu (len %zu mem %zu)", k, nn, x->n, mem);
                a_str_setn_(s, nn);
                ++vf.evals;
            }
            if (nn > MMAX - 16) { fprintf(stderr, "h_str: capacity beyond model\n"); exit(2); }
            if (nn > x->n)
            {
                /* bytes in the gap are unspecified: the caller fills them */
                char *p = a_str_ptr(s);
                for (size_t j = x->n; j < nn; ++j) { unsigned char v = rnd_byte(r); p[j] = (char)v; x->m[j] = v; }
            }
            x->n = nn;
            alive = check_state(x, 0);
            break;
        }
        case 23:
        {
            /* setm (grow only) / setm_ (exact; called with mem >= len, incl. mem == len: exactly full) */
            int exact = vf_chance(r, 1, 2), rc;
            size_t mem = a_str_mem(s), want;
            if (exact) { want = x->n + (vf_chance(r, 1, 2) ? 0 : (size_t)vf_below(r, 20)); }
            else { want = (size_t)vf_below(r, mem + 40); }
            if (want > MMAX - 64) { break; }
            opname = exact ? "setm_" : "setm";
            vf_log("str %d %s %zu (len %zu mem %zu)", k, opname, want, x->n, mem);
            rc = exact ? a_str_setm_(s, want) : a_str_setm(s, want);
            ++vf.evals;
            if (rc != A_SUCCESS) { FAIL("unexpected-error", "rc %d", rc); alive = 0; break; }
            VF_COUNT("setm-capacity");
            if (a_str_mem(s) < want || (!exact && a_str_mem(s) < mem)) { FAIL("capacity", "mem %zu after %s(%zu), before %zu", a_str_mem(s), opname, want, mem); alive = 0; break; }
            alive = check_state(x, 0);
            break;
        }
        case 24:
        {
            smodel t;
            a_str *s0 = S[0].s, *s1 = S[1].s;
            opname = "swap";
            vf_log("str swap");
            a_str_swap(s0, s1);
            ++vf.evals;
            t = S[0];
            {
                int c0 = S[0].by_ctor, c1 = S[1].by_ctor;
                S[0] = S[1];
                S[1] = t;
                S[0].s = s0;
                S[1].s = s1;
                S[0].by_ctor = c0;
                S[1].by_ctor = c1;
            }
            VF_COUNT("swap");
            alive = check_state(&S[0], 0) && check_state(&S[1], 0);
            break;
        }
        case 25:
        {
            /* ownership hand-over */
            char *p;
            size_t len = x->n;
            int had = a_str_ptr(s) != NULL;
            opname = "exit";
            vf_log("str %d exit (len %zu mem %zu)", k, x->n, a_str_mem(s));
            cellf(opname, x, 1, tb);
            p = a_str_exit(s);
            ++vf.evals;
            VF_COUNT("exit-hands-over-terminated-content");
            if (had && !p) { FAIL("returned-null", "exit of an allocated string returned null"); alive = 0; break; }
            if (p)
            {
                if (memcmp(p, x->m, len) != 0) { FAIL("handed-over-content", "content differs from the model"); }
                else if (p[len] != 0) { FAIL("handed-over-not-terminated", "byte after the content is 0x%02x", (unsigned char)p[len]); }
                a_alloc(p, 0);
            }
            x->n = 0;
            if (a_str_ptr(s) || a_str_len(s) || a_str_mem(s)) { FAIL("object-not-empty-after-exit", "ptr %p len %zu mem %zu", (void *)a_str_ptr(s), a_str_len(s), a_str_mem(s)); alive = 0; break; }
            alive = check_state(x, 0);
            break;
        }
        case 26: case 27:
        {
            /* comparisons */
            int got, want;
            opname = "cmp";
            vf_log("str cmp family (len %zu vs %zu)", x->n, y->n);
            /* neighbours: make y a near copy of x now and then */
            got = a_str_cmp(s, y->s);
            want = ref_cmp(x->m, x->n, y->m, y->n);
            ++vf.evals;
            VF_COUNT("cmp-orders-like-bytewise-lexicographic-then-length");
            if (sgn(got) != want) { FAIL("cmp", "a_str_cmp sign %d expected %d", sgn(got), want); }
            {
                size_t bn = (size_t)vf_below(r, 12);
                unsigned char *raw;
                if (vf_chance(r, 1, 2) && x->n) { bn = x->n - (size_t)vf_below(r, x->n < 3 ? x->n : 3) + (size_t)vf_below(r, 3); }
                if (bn > sizeof(buf)) { bn = sizeof(buf); }
                for (size_t j = 0; j < bn; ++j) { buf[j] = j < x->n && vf_chance(r, 9, 10) ? x->m[j] : rnd_byte(r); }
                raw = (unsigned char *)malloc(bn ? bn : 1);
                memcpy(raw, buf, bn);
                got = a_str_cmpn(s, raw, bn);
                want = ref_cmp(x->m, x->n, buf, bn);
                if (sgn(got) != want) { FAIL("cmpn", "a_str_cmpn sign %d expected %d (len %zu vs %zu)", sgn(got), want, x->n, bn); }
                got = a_str_cmp_(raw, bn, y->n ? a_str_ptr(y->s) : (void *)buf, y->n);
                want = ref_cmp(buf, bn, y->m, y->n);
                if (sgn(got) != want) { FAIL("cmp_", "a_str_cmp_ sign %d expected %d", sgn(got), want); }
                free(raw);
                /* C string */
                {
                    size_t cn = 0;
                    char *cs;
                    for (size_t j = 0; j < bn && buf[j]; ++j) { ++cn; }
                    cs = (char *)malloc(cn + 1);
                    memcpy(cs, buf, cn);
                    cs[cn] = 0;
                    got = a_str_cmps(s, cs);
                    want = ref_cmp(x->m, x->n, (unsigned char *)cs, cn);
                    if (sgn(got) != want) { FAIL("cmps", "a_str_cmps sign %d expected %d", sgn(got), want); }
                    free(cs);
                }
            }
            (void)ok;
            break;
        }
        default:
        {
            /* at / of */
            size_t mem = a_str_mem(s), idx = (size_t)vf_below(r, mem + 3);
            a_diff di = (a_diff)vf_range(r, -(int64_t)x->n - 2, (int64_t)x->n + 2);
            char *p = a_str_ptr(s);
            opname = "access";
            ++vf.evals;
            VF_COUNT("accessors");
            if (a_str_at(s, idx) != (idx < mem ? p + idx : NULL)) { FAIL("at", "at(%zu) with mem %zu", idx, mem); }
            {
                size_t eff = di >= 0 ? (size_t)di : (size_t)di + x->n;
                if (a_str_of(s, di) != (eff < mem ? p + eff : NULL)) { FAIL("of", "of(%td) with len %zu mem %zu", di, x->n, mem); }
            }
            (void)ok;
            break;
        }
        }
    }
    for (int k = 0; k < 2 && alive; ++k)
    {
        if (S[k].by_ctor)
        {
            a_str_dtor(S[k].s);
            if (a_str_ptr(S[k].s) || a_str_len(S[k].s) || a_str_mem(S[k].s)) { vf_viol("str_dtor/object-not-empty", "ptr %p len %zu mem %zu after a_str_dtor", (void *)a_str_ptr(S[k].s), a_str_len(S[k].s), a_str_mem(S[k].s)); }
            free(S[k].s);
        }
        else { a_str_die(S[k].s); }
    }
}
