/* C06 - a_str equals an abstract byte string and stays NUL-terminated: byte-vector model,
 * libc formatter as oracle for formatted append, ASan red zone right behind the capacity.
 */
#define VF_PROP "C06"
#include "vf_common.h"
#include <wchar.h>
#include "a/str.h"
#include "a/utf.h"
#include <ctype.h>

#define MMAX 6000
typedef struct
{
    a_str *s;
    unsigned char m[MMAX];
    size_t n;
    int by_ctor;
} smodel;
/* independent UTF-8 encoder (the table in utf.h: 1..6 bytes, bit 31 ignored, U+0 encodes to nothing): the expected bytes of
   a_utf_catc do not come from the library's own a_utf_encode (seeded change C06-E: U+FFFF encoded as a 4-byte overlong form) */
static unsigned ref_utf8(uint32_t v, unsigned char *o)
{
    static unsigned char const lead[7] = {0, 0, 0xC0, 0xE0, 0xF0, 0xF8, 0xFC};
    uint32_t x = v & 0x7FFFFFFFu;
    unsigned const n = x == 0 ? 0 : x < 0x80 ? 1 : x < 0x800 ? 2 : x < 0x10000 ? 3 : x < 0x200000 ? 4 : x < 0x4000000 ? 5 : 6;
    if (n == 1) { o[0] = (unsigned char)x; }
    else if (n > 1)
    {
        for (unsigned i = n - 1; i > 0; --i) { o[i] = (unsigned char)(0x80 | (x & 0x3F)); x >>= 6; }
        o[0] = (unsigned char)(lead[n] | x);
    }
    return n;
}

static smodel S[2];
static char const *opname = "op";

#define FAIL(clause, ...)                                   \
    do {                                                    \
        char key_[112];                                     \
        snprintf(key_, sizeof(key_), "str_%s/%s", opname, clause); \
        vf_viol(key_, __VA_ARGS__);                         \
        ok = 0;                                             \
    } while (0)

static int check_state(smodel *x, int terminated)
{
    int ok = 1;
    a_str *s = x->s;
    char *p = a_str_ptr(s);
    size_t len = a_str_len(s), mem = a_str_mem(s);
    VF_COUNT("state-compared-with-model");
    if (len != x->n) { FAIL("length", "library length %zu, model %zu", len, x->n); return 0; }
    if (p ? len > mem : (len != 0 || mem != 0)) { FAIL("length-exceeds-capacity", "len %zu mem %zu ptr %p", len, mem, (void *)p); return 0; }
    if (len && memcmp(p, x->m, len) != 0)
    {
        size_t i = 0;
        while (i < len && (unsigned char)p[i] == x->m[i]) { ++i; }
        FAIL("contents", "byte %zu of %zu: library 0x%02x model 0x%02x", i, len, (unsigned char)p[i], x->m[i]);
        return 0;
    }
    if (terminated)
    {
        VF_COUNT("terminator-after-content-inside-capacity");
        if (!p || len >= mem) { FAIL("no-room-for-terminator", "len %zu mem %zu after a terminating call", len, mem); return 0; }
        if (p[len] != 0) { FAIL("not-nul-terminated", "byte after the content is 0x%02x (len %zu mem %zu)", (unsigned char)p[len], len, mem); return 0; }
    }
    return ok;
}
static void m_append(smodel *x, void const *b, size_t n)
{
    if (x->n + n > MMAX) { fprintf(stderr, "h_str: model overflow\n"); exit(2); }
    if (n) { memcpy(x->m + x->n, b, n); }
    x->n += n;
}
static void cellf(char const *op, smodel *x, size_t need, int term_before)
{
    char b[96];
    size_t mem = a_str_mem(x->s), len = a_str_len(x->s);
    size_t spare = mem - len;
    int cls = need == (size_t)-1 ? 9 : spare < need ? 0 : spare == need ? 1 : spare == need + 1 ? 2 : 3;
    snprintf(b, sizeof(b), "%s|%d|%d", op, cls, term_before);
    vf_distinct_str(b);
}
static int is_term(smodel *x)
{
    a_str *s = x->s;
    return a_str_ptr(s) && a_str_len(s) < a_str_mem(s) && a_str_ptr(s)[a_str_len(s)] == 0;
}

/* length that lands on an interesting spot relative to the capacity */
static size_t target_len(vf_rng *r, smodel *x, int terminating)
{
    size_t mem = a_str_mem(x->s), len = a_str_len(x->s), spare = mem - len;
    int c = (int)vf_below(r, 10);
    size_t t;
    switch (c)
    {
    case 0: t = 0; break;
    case 1: t = spare; break;
    case 2: t = spare + 1; break;
    case 3: t = spare ? spare - 1 : 0; break;
    case 4: t = spare > 1 ? spare - 2 : 0; break;
    case 5: t = spare + 2; break;
    case 6: t = (size_t)vf_below(r, 200); break;
    default: t = (size_t)vf_below(r, 24); break;
    }
    (void)terminating;
    if (len + t + 16 > MMAX) { t = 0; }
    return t;
}
static unsigned char rnd_byte(vf_rng *r)
{
    static unsigned char const special[] = {0x00, 0x7F, 0x80, 0xFF, ' ', '\t', '\n', 'a', 'Z', '%'};
    return vf_chance(r, 1, 3) ? special[vf_below(r, sizeof(special))] : (unsigned char)vf_below(r, 256);
}

/* ---- formatted append: closed grammar, libc snprintf is the oracle */
#define COMMA ,
typedef union { int i; long l; double d; char const *s; unsigned u; } farg;
static char const *const fwords[] = {"", "x", "hello", "liba", "a b", "0123456789", "~!@#"};
#define CALLPAT(RES, F, PRE, PAT, FMT, A)                                                              \
    switch (PAT)                                                                                       \
    {                                                                                                  \
    case 0: RES = F(PRE FMT, A[0].i, A[1].i, A[2].i); break;                                           \
    case 1: RES = F(PRE FMT, A[0].i, A[1].s, A[2].d); break;                                           \
    case 2: RES = F(PRE FMT, A[0].s, A[1].s, A[2].i); break;                                           \
    case 3: RES = F(PRE FMT, A[0].d, A[1].d, A[2].d); break;                                           \
    case 4: RES = F(PRE FMT, A[0].l, A[1].i, A[2].s); break;                                           \
    case 5: RES = F(PRE FMT, A[0].s, A[1].d, A[2].i); break;                                           \
    case 6: RES = F(PRE FMT, A[0].i, A[1].d, A[2].s); break;                                           \
    default: RES = F(PRE FMT, A[0].l, A[1].l, A[2].l); break;                                          \
    }
static char const pat_types[8][4] = {"iii", "isd", "ssi", "ddd", "lis", "sdi", "ids", "lll"};

static int catv_wrap(a_str *s, char const *fmt, ...)
{
    int res;
    va_list va;
    va_start(va, fmt);
    res = a_str_catv(s, fmt, va);
    va_end(va);
    return res;
}

static size_t gen_conv(vf_rng *r, char t, char *out, farg *a)
{
    /* one conversion specification for argument type t; returns chars written */
    char flags[6] = "";
    int nf = 0, width = vf_chance(r, 1, 2) ? (int)vf_below(r, 12) : -1, prec = vf_chance(r, 1, 3) ? (int)vf_below(r, 6) : -1;
    if (vf_chance(r, 1, 4)) { flags[nf++] = '-'; }
    if (t != 's' && vf_chance(r, 1, 5)) { flags[nf++] = '+'; }
    if (t != 's' && !strchr(flags, '-') && vf_chance(r, 1, 5)) { flags[nf++] = '0'; }
    flags[nf] = 0;
    char spec[32], w[8] = "", p[8] = "";
    if (width >= 0) { snprintf(w, sizeof(w), "%d", width); }
    if (prec >= 0) { snprintf(p, sizeof(p), ".%d", prec); }
    switch (t)
    {
    case 'i':
    {
        static char const convs[] = "duxXoc";
        char cv = convs[vf_below(r, 6)];
        a->i = (int)vf_u64(r) >> (int)vf_below(r, 31);
        if (cv == 'c') { a->i = 33 + (int)vf_below(r, 90); snprintf(spec, sizeof(spec), "%%%s%s%c", strchr(flags, '-') ? "-" : "", w, cv); }
        else if (cv == 'd') { snprintf(spec, sizeof(spec), "%%%s%s%s%c", flags, w, p[0] && strchr(flags, '0') ? "" : p, cv); }
        else
        {
            char f2[6];
            int k = 0;
            for (int j = 0; flags[j]; ++j) { if (flags[j] != '+') { f2[k++] = flags[j]; } }
            f2[k] = 0;
            snprintf(spec, sizeof(spec), "%%%s%s%s%c", f2, w, p[0] && strchr(f2, '0') ? "" : p, cv);
        }
        break;
    }
    case 'l':
        a->l = (long)vf_u64(r) >> (int)vf_below(r, 63);
        snprintf(spec, sizeof(spec), "%%%s%s%sld", flags, w, p[0] && strchr(flags, '0') ? "" : p);
        break;
    case 'd':
    {
        static char const convs[] = "fegG";
        char cv = convs[vf_below(r, 4)];
        a->d = vf_sign(r) * vf_logu(r, -6, 9);
        if (vf_chance(r, 1, 8)) { a->d = (double)(int)vf_below(r, 100); }
        snprintf(spec, sizeof(spec), "%%%s%s%s%c", flags, w, p, cv);
        break;
    }
    default:
        a->s = fwords[vf_below(r, sizeof(fwords) / sizeof(fwords[0]))];
        snprintf(spec, sizeof(spec), "%%%s%s%ss", strchr(flags, '-') ? "-" : "", w, p);
        break;
    }
    size_t n = strlen(spec);
    memcpy(out, spec, n);
    return n;
}

/* a conversion that FAILS: in the C locale (the harness never calls setlocale) a wide character above 0x7F cannot be converted, the C formatter
   returns a negative value after it has already produced the text in front of the conversion.  The formatted append then appends nothing: content and
   length unchanged, a negative return, and - if the string was terminated before - still a NUL right behind the content (the first pass writes into the
   spare room, i.e. over the terminator).  Found missing on the pinned tree (DESIGN 5); seeded change C06-M lives on the same path. */
static int do_format_fail(smodel *x, vf_rng *r)
{
    char fmt[64], probe[64];
    static char const lit[] = "abcXYZ,.-_";
    int const nl = (int)vf_below(r, 12), tb = is_term(x), use_v = vf_chance(r, 1, 3);
    wint_t const wc = (wint_t)(0x80 + vf_below(r, 0x2000));
    int res, lib, ok = 1;
    size_t fl = 0;
    for (int j = 0; j < nl; ++j) { fmt[fl++] = lit[vf_below(r, sizeof(lit) - 1)]; }
    strcpy(fmt + fl, vf_chance(r, 1, 2) ? "%lc" : "%lc.");
    lib = snprintf(probe, sizeof(probe), fmt, wc);
    if (lib >= 0) { VF_COUNT("formatter-failure-not-reproducible-in-this-locale"); return 1; }
    opname = use_v ? "catv" : "catf";
    vf_log("str %s fmt=\"%s\" with a wide character U+%04X that the C locale cannot convert (len %zu mem %zu, terminated before: %d)", opname, fmt, (unsigned)wc, x->n, a_str_mem(x->s), tb);
    res = use_v ? catv_wrap(x->s, fmt, wc) : a_str_catf(x->s, fmt, wc);
    ++vf.evals;
    VF_COUNT("formatted-append-with-a-failing-conversion");
    if (res >= 0) { FAIL("failing-conversion/return-value", "returned %d although the C formatter fails (%d) for \"%s\"", res, lib, fmt); return 0; }
    (void)ok;
    return check_state(x, tb);
}

static int do_format(smodel *x, vf_rng *r)
{
    int ok = 1, pat = (int)vf_below(r, 8), use_v = vf_chance(r, 1, 3);
    farg a[3];
    char fmt[700], expect[4096];
    size_t fl = 0, spare = a_str_mem(x->s) - a_str_len(x->s);
    if (vf_chance(r, 1, 12)) { return do_format_fail(x, r); }
    int elen, res, tb = is_term(x);
    static char const lit[] = "abc XYZ,.-_:;/%";
    for (int k = 0; k < 3; ++k)
    {
        int nl = (int)vf_below(r, 4);
        for (int j = 0; j < nl; ++j)
        {
            char ch = lit[vf_below(r, sizeof(lit) - 1)];
            fmt[fl++] = ch;
            if (ch == '%') { fmt[fl++] = '%'; }
        }
        fl += gen_conv(r, pat_types[pat][k], fmt + fl, &a[k]);
    }
    fmt[fl] = 0;
#pragma GCC diagnostic push
#pragma GCC diagnostic ignored "-Wformat-nonliteral"
#pragma GCC diagnostic ignored "-Wformat-security"
    CALLPAT(elen, snprintf, expect COMMA sizeof(expect) COMMA, pat, fmt, a);
    /* pad with literal text so that the output length lands on/around the spare capacity */
    if (elen >= 0 && vf_chance(r, 2, 3))
    {
        static int const off[] = {-2, -1, 0, 1, 2};
        long target = (long)spare + off[vf_below(r, 5)];
        long pad = target - elen;
        if (pad > 0 && pad < 400 && fl + (size_t)pad + 1 < sizeof(fmt))
        {
            memset(fmt + fl, 'p', (size_t)pad);
            fl += (size_t)pad;
            fmt[fl] = 0;
            CALLPAT(elen, snprintf, expect COMMA sizeof(expect) COMMA, pat, fmt, a);
        }
    }
    if (elen < 0 || (size_t)elen >= sizeof(expect) || x->n + (size_t)elen + 16 > MMAX) { return 1; }
    opname = use_v ? "catv" : "catf";
    vf_log("str %s fmt=\"%s\" types=%s expected %d bytes (len %zu mem %zu spare %zu)", opname, fmt, pat_types[pat], elen, x->n, a_str_mem(x->s), spare);
    cellf(opname, x, (size_t)elen, tb);
    if (use_v) { CALLPAT(res, catv_wrap, x->s COMMA, pat, fmt, a); }
    else { CALLPAT(res, a_str_catf, x->s COMMA, pat, fmt, a); }
#pragma GCC diagnostic pop
    ++vf.evals;
    VF_COUNT("formatted-append-equals-libc-formatter");
    if (res != elen) { FAIL("return-value", "returned %d, the C formatter produces %d bytes for \"%s\"", res, elen, fmt); return 0; }
    m_append(x, expect, (size_t)elen);
    if (elen > 0) { return check_state(x, 1); }
    return check_state(x, 0);
}
static int sgn(int v) { return (v > 0) - (v < 0); }
static int ref_cmp(unsigned char const *a, size_t na, unsigned char const *b, size_t nb)
{
    size_t n = na < nb ? na : nb;
    for (size_t i = 0; i < n; ++i)
    {
        if (a[i] != b[i]) { return a[i] < b[i] ? -1 : 1; }
    }
    return (na > nb) - (na < nb);
}

static size_t ref_trim_set(unsigned char c, char const *set, size_t n)
{
    if (n) { return memchr(set, c, n) != NULL; }
    return c == ' ' || (c >= '\t' && c <= '\r');
}

/* ====================================================================================================
 * LARGE-SIZE / LONG-HISTORY case class (every LSTRIDE-th case number; odd strides so the large cases spread over
 * all workers). The small workload above never leaves lengths of a few hundred bytes; this class drives the same
 * API to lengths through every power of two 2^k and 2^k +- 1/2 for k <= 16 in quick (65534..65538 bytes) and
 * k <= 20 in thorough (1048574..1048578 bytes) - by single bytes, by blocks and by formatted appends - and back
 * down again, with a byte-array model of its own (heap, unbounded) compared COMPLETELY (length, length <= capacity,
 * every byte, terminator) after every structural operation and at checkpoints 2^k-2 .. 2^k+2 inside single-byte runs
 * (between the checkpoints every call is still judged in O(1): return value, length, capacity, terminator, last 16 bytes).
 *
 * Allocation: the library's public hook a_alloc is pointed at la_alloc for the duration of a large case. la_alloc calls
 * the library's own default a_alloc_ (so that code stays under test) and then fills the GROWN part of the block with
 * 0xA5. malloc memory is indeterminate by contract; ASan only pattern-fills the first 4096 bytes of a block and fresh
 * pages are zero, so without this a terminator that is never written at a large offset would be "present" by luck.
 * All library-visible source/destination buffers are exact-size malloc blocks (ASan red zone at the first byte past).
 *
 * Bounds. quick: kmax = 16, single-byte run 0 .. 65545+; thorough: kmax = 20, single-byte run 0 .. 65545+ complete and
 * single-byte windows 2^k-6 .. 2^k+6 for k = 17..20 (a_str grows by exactly 8 bytes per reallocation, so a complete
 * single-byte run to 2^20 would copy 2^36 bytes). Formatted appends up to 2^kmax+2 bytes in one call.
 */
#include <limits.h>
#define LSTRIDE_QUICK 41u
#define LSTRIDE_THOROUGH 331u
#define L_NSCEN 9

typedef struct
{
    a_str *s;
    unsigned char *m; /* model bytes */
    size_t n, cap;
    int by_ctor;
} lmodel;
static char const *lop = "op";
static uint64_t lg_salt, lg_ctr;
static int l_kmax;
static unsigned char *l_one; /* exact 1-byte block */
static char *l_cs;           /* exact 2-byte block: 1-character C string */

#define LFAIL(clause, ...)                                                 \
    do {                                                                   \
        char key_[128];                                                    \
        snprintf(key_, sizeof(key_), "str_%s/%s/large", lop, clause);      \
        vf_viol(key_, __VA_ARGS__);                                        \
    } while (0)

/* ---- allocation hook: default allocator + junk in every grown region */
#define LA_SLOTS 16
static struct { void *p; size_t n; } la_tab[LA_SLOTS];
static void *(*la_prev)(void *, a_size);
static void *la_alloc(void *addr, a_size size)
{
    int slot = -1;
    size_t old = 0;
    void *p;
    if (addr)
    {
        for (int i = 0; i < LA_SLOTS; ++i)
        {
            if (la_tab[i].p == addr) { slot = i; old = la_tab[i].n; break; }
        }
    }
    p = la_prev(addr, size);
    if (size == 0)
    {
        if (slot >= 0) { la_tab[slot].p = NULL; la_tab[slot].n = 0; }
        return p;
    }
    if (!p) { return p; }
    if (addr && slot < 0) { return p; } /* block from before the hook: old size unknown, leave it alone */
    if (slot < 0)
    {
        for (int i = 0; i < LA_SLOTS; ++i)
        {
            if (!la_tab[i].p) { slot = i; break; }
        }
    }
    if (slot >= 0) { la_tab[slot].p = p; la_tab[slot].n = size; }
    if (size > old)
    {
        memset((char *)p + old, 0xA5, size - old);
        VF_COUNT("large-alloc-grown-region-junk-filled");
    }
    return p;
}
static void la_install(void)
{
    memset(la_tab, 0, sizeof(la_tab));
    la_prev = a_alloc;
    a_alloc = la_alloc;
}
static void la_remove(void) { a_alloc = la_prev; }

/* ---- content generator: position-independent pseudo-random bytes, specials over-represented */
static inline unsigned char lbyte(void)
{
    static unsigned char const special[8] = {0x00, 0x7F, 0x80, 0xFF, ' ', '\t', '\n', '%'};
    uint64_t z = vf_hash64(lg_salt, ++lg_ctr);
    return (z & 7) == 0 ? special[(z >> 3) & 7] : (unsigned char)(z >> 32);
}
static void lfill(unsigned char *b, size_t n, int nonzero)
{
    for (size_t i = 0; i < n; ++i)
    {
        unsigned char v = lbyte();
        if (nonzero && !v) { v = (unsigned char)(1 + i % 251); }
        b[i] = v;
    }
}

/* ---- model */
static void lm_room(lmodel *x, size_t total)
{
    if (total > x->cap)
    {
        size_t c = x->cap ? x->cap : 1024;
        while (c < total) { c *= 2; }
        x->m = (unsigned char *)realloc(x->m, c);
        if (!x->m) { fprintf(stderr, "h_str: out of memory for the large model\n"); exit(2); }
        x->cap = c;
    }
}
static void lm_append(lmodel *x, void const *b, size_t n)
{
    lm_room(x, x->n + n);
    if (n) { memcpy(x->m + x->n, b, n); }
    x->n += n;
}
static void l_new(lmodel *x, int by_ctor)
{
    memset(x, 0, sizeof(*x));
    x->by_ctor = by_ctor;
    if (by_ctor)
    {
        x->s = (a_str *)malloc(sizeof(a_str));
        memset(x->s, 0x5A, sizeof(a_str));
        a_str_ctor(x->s);
    }
    else { x->s = a_str_new(); }
}
static void l_die(lmodel *x, int alive)
{
    if (alive)
    {
        if (x->by_ctor)
        {
            a_str_dtor(x->s);
            if (a_str_ptr(x->s) || a_str_len(x->s) || a_str_mem(x->s)) { vf_viol("str_dtor/object-not-empty/large", "ptr %p len %zu mem %zu after a_str_dtor", (void *)a_str_ptr(x->s), a_str_len(x->s), a_str_mem(x->s)); }
            free(x->s);
        }
        else { a_str_die(x->s); }
    }
    free(x->m);
    x->m = NULL;
}

static int near_pow2(size_t n)
{
    size_t p;
    if (n < 6) { return 1; }
    p = (size_t)1 << (63 - __builtin_clzll((unsigned long long)n + 2));
    return n + 2 >= p && n <= p + 2;
}
static int l_log2(size_t n) { return n ? 63 - __builtin_clzll((unsigned long long)n) : -1; }

/* ---- monitors */
static int lcheck_head(lmodel *x, int term)
{
    a_str *s = x->s;
    char *p = a_str_ptr(s);
    size_t len = a_str_len(s), mem = a_str_mem(s);
    if (len != x->n) { LFAIL("length", "library length %zu, model %zu (mem %zu)", len, x->n, mem); return 0; }
    if (p ? len > mem : (len != 0 || mem != 0)) { LFAIL("length-exceeds-capacity", "len %zu mem %zu ptr %p", len, mem, (void *)p); return 0; }
    if (term)
    {
        if (!p || len >= mem) { LFAIL("no-room-for-terminator", "len %zu mem %zu after a terminating call", len, mem); return 0; }
        if (p[len] != 0) { LFAIL("not-nul-terminated", "byte after the content is 0x%02x (len %zu mem %zu)", (unsigned char)p[len], len, mem); return 0; }
    }
    return 1;
}
/* O(1) judgement of one call inside a long single-byte run */
static int lcheck_step(lmodel *x, int term)
{
    size_t t = x->n < 16 ? x->n : 16;
    VF_COUNT("large-step-checked");
    if (!lcheck_head(x, term)) { return 0; }
    if (t && memcmp(a_str_ptr(x->s) + x->n - t, x->m + x->n - t, t) != 0)
    {
        size_t i = x->n - t;
        while ((unsigned char)a_str_ptr(x->s)[i] == x->m[i]) { ++i; }
        LFAIL("contents", "byte %zu of %zu: library 0x%02x model 0x%02x", i, x->n, (unsigned char)a_str_ptr(x->s)[i], x->m[i]);
        return 0;
    }
    return 1;
}
/* complete observable state */
static int lcheck_full(lmodel *x, int term)
{
    char const *p;
    VF_COUNT("large-full-state-compared");
    VF_ADD("large-bytes-compared", x->n);
    if (!lcheck_head(x, term)) { return 0; }
    p = a_str_ptr(x->s);
    if (x->n && memcmp(p, x->m, x->n) != 0)
    {
        size_t i = 0;
        while ((unsigned char)p[i] == x->m[i]) { ++i; }
        LFAIL("contents", "byte %zu of %zu: library 0x%02x model 0x%02x", i, x->n, (unsigned char)p[i], x->m[i]);
        return 0;
    }
    if (x->n >= 4096) { VF_COUNT("large-state-compared-at-len-ge-4096"); }
    if (x->n >= 65536) { VF_COUNT("large-state-compared-at-len-ge-65536"); }
    if (x->n >= ((size_t)1 << 20)) { VF_COUNT("large-state-compared-at-len-ge-2^20"); }
    vf_distinct(vf_hash64(vf_hash_str(lop), 0x4C00u + (uint64_t)(l_log2(x->n) + 1)));
    return 1;
}

/* ---- bounded op log inside long runs: every 128 ops the per-op lines are replaced by one summary line */
static uint32_t run_mark;
static unsigned run_ops;
static void run_begin(void)
{
    run_mark = vf_log_mark();
    run_ops = 0;
}
static void run_tick(lmodel *x, char const *what)
{
    if (++run_ops % 128 == 0)
    {
        vf_log_rewind(run_mark);
        vf_log("  ... %u %s so far in this run (selectors and bytes from the case rng), now len %zu mem %zu", run_ops, what, x->n, a_str_mem(x->s));
    }
}

/* ---- one small append (1 byte; with multi: a code point of up to 6 bytes) */
static int l_cat1(lmodel *x, vf_rng *r, int multi)
{
    unsigned sel = (unsigned)vf_below(r, multi ? 10 : 8);
    unsigned char b = lbyte(), enc[8];
    size_t len = x->n, mem = a_str_mem(x->s);
    unsigned en;
    int rc, term = 1;
    switch (sel)
    {
    case 0: case 1:
        lop = "catc";
        vf_log("catc 0x%02x (len %zu mem %zu)", b, len, mem);
        rc = a_str_catc(x->s, b);
        if (rc != b) { LFAIL("return-value", "returned %d for character %d at len %zu", rc, b, len); return 0; }
        lm_append(x, &b, 1);
        break;
    case 2: case 3:
        lop = "catc_";
        term = 0;
        vf_log("catc_ 0x%02x (len %zu mem %zu)", b, len, mem);
        rc = a_str_catc_(x->s, b);
        if (rc != b) { LFAIL("return-value", "returned %d for character %d at len %zu", rc, b, len); return 0; }
        lm_append(x, &b, 1);
        break;
    case 4: case 5:
        term = sel == 4;
        lop = term ? "catn" : "catn_";
        l_one[0] = b;
        vf_log("%s 1 byte 0x%02x (len %zu mem %zu)", lop, b, len, mem);
        rc = term ? a_str_catn(x->s, l_one, 1) : a_str_catn_(x->s, l_one, 1);
        if (rc != A_SUCCESS) { LFAIL("unexpected-error", "rc %d at len %zu", rc, len); return 0; }
        lm_append(x, &b, 1);
        break;
    case 6:
        lop = "cats";
        if (!b) { b = 0x01; }
        l_cs[0] = (char)b;
        l_cs[1] = 0;
        vf_log("cats 1-character C string 0x%02x (len %zu mem %zu)", b, len, mem);
        rc = a_str_cats(x->s, l_cs);
        if (rc != A_SUCCESS) { LFAIL("unexpected-error", "rc %d at len %zu", rc, len); return 0; }
        lm_append(x, &b, 1);
        break;
    default:
    {
        static uint32_t const borders[] = {0x80, 0x7FF, 0x800, 0xFFFE, 0xFFFF, 0x10000, 0x1FFFFF, 0x200000, 0x3FFFFFF, 0x4000000, 0x7FFFFFFF, 0x8000FFFF};
        uint32_t cp = sel == 7 ? (uint32_t)(b & 0x7F) | (uint32_t)!(b & 0x7F) : vf_chance(r, 1, 2) ? borders[vf_below(r, 12)] : (uint32_t)(vf_u64(r) >> (33 + vf_below(r, 24)));
        lop = "utf_catc";
        en = ref_utf8(cp, enc);
        vf_log("a_utf_catc U+%X (%u bytes) (len %zu mem %zu)", cp, en, len, mem);
        rc = a_utf_catc(x->s, cp);
        if (rc != A_SUCCESS) { LFAIL("unexpected-error", "rc %d at len %zu", rc, len); return 0; }
        lm_append(x, enc, en);
        break;
    }
    }
    ++vf.evals;
    return near_pow2(x->n) ? lcheck_full(x, term) : lcheck_step(x, term);
}

/* ---- one single-byte pop */
static int l_get1(lmodel *x, vf_rng *r)
{
    unsigned sel = (unsigned)vf_below(r, 6);
    size_t len = x->n;
    int term = 0, rc, want = len ? (int)(char)x->m[len - 1] : ~0;
    if (sel < 4)
    {
        term = sel < 2;
        lop = term ? "getc" : "getc_";
        vf_log("%s (len %zu)", lop, len);
        rc = term ? a_str_getc(x->s) : a_str_getc_(x->s);
        if (rc != want) { LFAIL("return-value", "returned %d expected %d at len %zu", rc, want, len); return 0; }
    }
    else
    {
        size_t got;
        term = sel == 4;
        lop = term ? "getn" : "getn_";
        l_one[0] = (unsigned char)~(len ? x->m[len - 1] : 0);
        vf_log("%s nbyte=1 (len %zu)", lop, len);
        got = term ? a_str_getn(x->s, l_one, 1) : a_str_getn_(x->s, l_one, 1);
        if (got != (len ? 1u : 0u)) { LFAIL("return-value", "returned %zu for nbyte 1 at len %zu", got, len); return 0; }
        if (len && l_one[0] != x->m[len - 1]) { LFAIL("popped-bytes", "popped 0x%02x, model tail 0x%02x at len %zu", l_one[0], x->m[len - 1], len); return 0; }
    }
    ++vf.evals;
    if (len) { --x->n; }
    else { term = 0; }
    return near_pow2(x->n) ? lcheck_full(x, term) : lcheck_step(x, term);
}

/* ---- block append: 0 catn 1 catn_ 2 cats 3 cats_ 4 cat 5 cat_ (4/5 go through the second object y) */
static int l_block(lmodel *x, lmodel *y, size_t n, int form)
{
    static char const *const names[] = {"catn", "catn_", "cats", "cats_", "cat", "cat_"};
    int term = !(form & 1), rc, ok;
    int cstr = form == 2 || form == 3;
    unsigned char *src = (unsigned char *)malloc(n + (size_t)cstr ? n + (size_t)cstr : 1);
    lfill(src, n, cstr);
    if (cstr) { src[n] = 0; }
    if (n > 4096) { VF_COUNT("large-block-append-over-4096"); }
    if (n >= 65536) { VF_COUNT("large-block-append-ge-65536"); }
    if (form >= 4)
    {
        /* load the block into y (exact, unterminated), then append y */
        lop = "catn_";
        vf_log("second object: drop content (getn_ all), catn_ %zu bytes", n);
        a_str_getn_(y->s, NULL, SIZE_MAX);
        y->n = 0;
        rc = a_str_catn_(y->s, src, n);
        if (rc != A_SUCCESS) { LFAIL("unexpected-error", "rc %d", rc); free(src); return 0; }
        lm_append(y, src, n);
        if (!lcheck_full(y, 0)) { free(src); return 0; }
    }
    lop = names[form];
    vf_log("%s %zu bytes (len %zu mem %zu)", lop, n, x->n, a_str_mem(x->s));
    switch (form)
    {
    case 0: rc = a_str_catn(x->s, src, n); break;
    case 1: rc = a_str_catn_(x->s, src, n); break;
    case 2: rc = a_str_cats(x->s, src); break;
    case 3: rc = a_str_cats_(x->s, src); break;
    case 4: rc = a_str_cat(x->s, y->s); break;
    default: rc = a_str_cat_(x->s, y->s); break;
    }
    ++vf.evals;
    if (rc != A_SUCCESS) { LFAIL("unexpected-error", "rc %d", rc); free(src); return 0; }
    lm_append(x, src, n);
    free(src);
    ok = lcheck_full(x, term);
    if (ok && form >= 4) { lop = names[form]; ok = lcheck_full(y, 0); }
    return ok;
}

/* ---- pop a chunk with an exact-size destination */
static int l_getn(lmodel *x, vf_rng *r, size_t nbyte)
{
    int term = vf_chance(r, 1, 2), with_buf = vf_chance(r, 3, 4);
    size_t want = nbyte < x->n ? nbyte : x->n, got;
    unsigned char *dst = (unsigned char *)malloc(want ? want : 1);
    for (size_t i = 0; i < want; ++i) { dst[i] = (unsigned char)~x->m[x->n - want + i]; } /* every byte must be overwritten by the call */
    lop = term ? "getn" : "getn_";
    vf_log("%s nbyte=%zu buf=%d (len %zu)", lop, nbyte, with_buf, x->n);
    if (want > 4096) { VF_COUNT("large-getn-chunk-over-4096"); }
    if (want >= 65536) { VF_COUNT("large-getn-chunk-ge-65536"); }
    got = term ? a_str_getn(x->s, with_buf ? dst : NULL, nbyte) : a_str_getn_(x->s, with_buf ? dst : NULL, nbyte);
    ++vf.evals;
    VF_COUNT("large-getn-judged");
    if (got != want) { LFAIL("return-value", "returned %zu expected %zu", got, want); free(dst); return 0; }
    if (with_buf && want && memcmp(dst, x->m + x->n - want, want) != 0)
    {
        size_t i = 0;
        while (dst[i] == x->m[x->n - want + i]) { ++i; }
        LFAIL("popped-bytes", "byte %zu of the %zu copied out is 0x%02x, model tail has 0x%02x", i, want, dst[i], x->m[x->n - want + i]);
        free(dst);
        return 0;
    }
    free(dst);
    x->n -= want;
    return lcheck_full(x, term && want > 0);
}

/* ---- formatted append producing (about) outlen bytes in ONE call; snprintf with the same format and arguments is the oracle */
static char *l_cstr(size_t n)
{
    char *s = (char *)malloc(n + 1);
    lfill((unsigned char *)s, n, 1);
    s[n] = 0;
    return s;
}
#define LFMT_DO(FMT, ...)                                                                                   \
    do {                                                                                                    \
        elen = snprintf(NULL, 0, FMT, __VA_ARGS__);                                                         \
        if (elen >= 0)                                                                                      \
        {                                                                                                   \
            expect = (char *)malloc((size_t)elen + 1);                                                      \
            snprintf(expect, (size_t)elen + 1, FMT, __VA_ARGS__);                                           \
            lop = use_v ? "catv" : "catf";                                                                  \
            vf_log("%s fmt=\"%s\" %s -> %d bytes (len %zu mem %zu spare %zu)", lop, FMT, desc, elen, x->n, mem, spare); \
            res = use_v ? catv_wrap(x->s, FMT, __VA_ARGS__) : a_str_catf(x->s, FMT, __VA_ARGS__);           \
        }                                                                                                   \
    } while (0)
static int l_fmt(lmodel *x, vf_rng *r, size_t outlen)
{
    static char const *const words[] = {"", "x", "ab", "liba", "~!@#$"};
    int kind = (int)vf_below(r, 7), use_v = vf_chance(r, 1, 3), elen = -1, res = 0, ok;
    size_t mem = a_str_mem(x->s), spare = mem - x->n;
    char *expect = NULL, *a1 = NULL, *a2 = NULL, desc[160];
    if (outlen > (size_t)INT_MAX / 2) { return 1; }
    if ((kind <= 1 && outlen < 1) || (kind == 4 && outlen < 3) || (kind == 5 && outlen < 4) || (kind == 6 && outlen < 12)) { kind = 2; }
    switch (kind)
    {
    case 0: case 1:
    {
        char const *w = words[vf_below(r, 5)];
        if (strlen(w) > outlen) { w = ""; }
        snprintf(desc, sizeof(desc), "width=%zu arg=\"%s\"", outlen, w);
        if (kind == 0) { LFMT_DO("%*s", (int)outlen, w); }
        else { LFMT_DO("%-*s", (int)outlen, w); }
        break;
    }
    case 2:
        a1 = l_cstr(outlen);
        snprintf(desc, sizeof(desc), "arg=C string of %zu bytes", outlen);
        LFMT_DO("%s", a1);
        break;
    case 3:
    {
        size_t extra = (size_t)vf_below(r, 10);
        a1 = l_cstr(outlen + extra);
        snprintf(desc, sizeof(desc), "precision=%zu arg=C string of %zu bytes", outlen, outlen + extra);
        LFMT_DO("%.*s", (int)outlen, a1);
        break;
    }
    case 4:
    {
        size_t l1 = (size_t)vf_below(r, outlen - 2), l2 = outlen - 3 - l1;
        a1 = l_cstr(l1);
        a2 = l_cstr(l2);
        snprintf(desc, sizeof(desc), "args=C strings of %zu and %zu bytes", l1, l2);
        LFMT_DO("[%s|%s]", a1, a2);
        break;
    }
    case 5:
    {
        int v = (int)vf_range(r, -99, 999);
        snprintf(desc, sizeof(desc), "width=%zu value=%d", outlen, v);
        LFMT_DO("%0*d", (int)outlen, v);
        break;
    }
    default:
    {
        unsigned v = (unsigned)vf_u64(r) >> (int)vf_below(r, 32);
        int ch = 33 + (int)vf_below(r, 90), head = snprintf(NULL, 0, "%x|", v);
        a1 = l_cstr(outlen - (size_t)head - 2);
        snprintf(desc, sizeof(desc), "value=%x arg=C string of %zu bytes char=%d", v, outlen - (size_t)head - 2, ch);
        LFMT_DO("%x|%s|%c", v, a1, ch);
        break;
    }
    }
    free(a1);
    free(a2);
    if (elen < 0) { free(expect); return 1; }
    ++vf.evals;
    VF_COUNT("large-formatted-append-judged");
    if ((size_t)elen == outlen) { VF_COUNT("large-formatted-append-length-as-planned"); }
    if (elen > 4096) { VF_COUNT("large-formatted-append-over-4096"); }
    if (elen > 65536) { VF_COUNT("large-formatted-append-over-65536"); }
    if (elen > 4096 && (size_t)elen + 1 <= spare) { VF_COUNT("large-formatted-one-pass-over-4096"); }
    if (elen > 4096 && (size_t)elen + 1 > spare) { VF_COUNT("large-formatted-two-pass-over-4096"); }
    if (res != elen) { LFAIL("return-value", "returned %d, the C formatter produces %d bytes (%s)", res, elen, desc); free(expect); return 0; }
    lm_append(x, expect, (size_t)elen);
    free(expect);
    ok = lcheck_full(x, elen > 0);
    return ok;
}

/* =============================================================================== scenarios */

/* 0: grow from empty through every 2^k-2..2^k+2 by single-byte calls, bouncing back over each boundary once */
static int sc_single(vf_rng *r)
{
    lmodel X;
    int alive = 1;
    size_t goal = 65537 + 8 + (size_t)vf_below(r, 200), bounced = 0;
    l_new(&X, (int)vf_below(r, 2));
    vf_log("scenario single-bytes: grow to %zu by catc/catc_/catn(1)/catn_(1)/cats(1)/a_utf_catc; full compare at 2^k-2..2^k+2", goal);
    run_begin();
    while (alive && X.n < goal)
    {
        size_t n = X.n;
        /* bounce: at 2^k+2 (k >= 4), once per k, pop 5 bytes (crossing 2^k downward) and grow again */
        if (n >= 18 && n > bounced && ((n - 2) & (n - 3)) == 0)
        {
            bounced = n;
            for (int j = 0; j < 5 && alive; ++j) { alive = l_get1(&X, r); }
            if (n >= 256) { VF_COUNT("large-pow2-boundary-crossed-downward-by-single-pops"); }
            continue;
        }
        if (vf_chance(r, 1, 96))
        {
            size_t want = n + (size_t)vf_below(r, 300);
            lop = "setm";
            vf_log("setm %zu (len %zu mem %zu)", want, n, a_str_mem(X.s));
            if (a_str_setm(X.s, want) != A_SUCCESS) { LFAIL("unexpected-error", "setm(%zu) failed", want); alive = 0; break; }
            if (a_str_mem(X.s) < want) { LFAIL("capacity", "mem %zu after setm(%zu)", a_str_mem(X.s), want); alive = 0; break; }
            ++vf.evals;
            alive = lcheck_full(&X, 0);
            continue;
        }
        /* only 1-byte appends close to a power of two so that every length 2^k-2..2^k+2 is visited */
        alive = l_cat1(&X, r, !near_pow2(n) && !near_pow2(n + 3) && !near_pow2(n + 7));
        if (alive && X.n >= 256 && near_pow2(X.n)) { VF_COUNT("large-pow2-window-length-visited-by-single-appends"); }
        run_tick(&X, "single-byte/code-point appends");
    }
    /* thorough: single-byte windows around 2^17 .. 2^20 (block jumps in between) */
    for (int k = 17; alive && k <= l_kmax; ++k)
    {
        size_t lo = ((size_t)1 << k) - 6, hi = ((size_t)1 << k) + 6;
        lmodel Y;
        l_new(&Y, 0);
        alive = l_block(&X, &Y, lo - X.n, (int)vf_below(r, 6));
        l_die(&Y, alive);
        run_begin();
        while (alive && X.n < hi)
        {
            alive = l_cat1(&X, r, 0);
            if (alive && near_pow2(X.n)) { VF_COUNT("large-pow2-window-length-visited-by-single-appends"); }
        }
        for (int j = 0; j < 9 && alive; ++j) { alive = l_get1(&X, r); }
        while (alive && X.n < hi) { alive = l_cat1(&X, r, 0); }
    }
    if (alive) { alive = lcheck_full(&X, 0); }
    l_die(&X, alive);
    return alive;
}

/* 1: grow by blocks; style 0 lands on every 2^k+d (d=-2..2), style 1 jumps from 2^(k-1)+d' straight to one 2^k+d,
 *    style 2 starts with ONE block of 2^16+d bytes into a fresh object and continues with random block sizes */
static int sc_blocks(vf_rng *r, uint64_t li)
{
    lmodel X, Y;
    int alive = 1, style = (int)(li / L_NSCEN % 3);
    l_new(&X, (int)vf_below(r, 2));
    l_new(&Y, (int)vf_below(r, 2));
    vf_log("scenario blocks style %d up to 2^%d", style, l_kmax);
    if (style == 2)
    {
        size_t first = 65536 + (size_t)vf_range(r, -2, 2), lim = first + ((size_t)1 << (l_kmax - 1));
        alive = l_block(&X, &Y, first, (int)vf_below(r, 4));
        for (int ops = 0; alive && X.n < lim && ops < 160; ++ops) /* bounded: the pops below can outrun the appends */
        {
            size_t n = vf_chance(r, 1, 4) ? (size_t)vf_below(r, 16) : (size_t)vf_below(r, (size_t)1 << (3 + vf_below(r, (uint64_t)l_kmax - 5)));
            if (X.n + n > lim + 64) { n = lim - X.n; }
            alive = l_block(&X, &Y, n, (int)vf_below(r, 6));
            if (alive && vf_chance(r, 1, 8)) { alive = l_getn(&X, r, (size_t)vf_below(r, (X.n < 6000 ? X.n : 6000) + 2)); }
        }
    }
    else
    {
        for (int k = 3; alive && k <= l_kmax; ++k)
        {
            int d0 = (int)vf_range(r, -2, 2);
            for (int d = -2; alive && d <= 2; ++d)
            {
                size_t target = ((size_t)1 << k) + (size_t)(style == 1 ? d0 : d);
                if (target < X.n) { continue; }
                alive = l_block(&X, &Y, target - X.n, (int)vf_below(r, 6));
                if (alive && target >= 256) { VF_COUNT("large-pow2-window-length-reached-by-block"); }
                if (style == 1) { break; }
            }
            if (alive && vf_chance(r, 1, 6))
            {
                /* fall back below the boundary by one chunk and come back */
                alive = l_getn(&X, r, 1 + (size_t)vf_below(r, X.n));
            }
        }
    }
    l_die(&X, alive);
    l_die(&Y, alive);
    return alive;
}

/* 2: formatted appends whose RESULT length lands on 2^k+d for every k (the append itself is ~2^(k-1) bytes: mostly the
 *    two-pass path because a_str keeps at most 8 spare bytes) */
static int sc_fmt_windows(vf_rng *r)
{
    lmodel X;
    int alive = 1;
    l_new(&X, (int)vf_below(r, 2));
    vf_log("scenario formatted appends onto lengths 2^k+d, k <= %d", l_kmax);
    for (int k = 3; alive && k <= l_kmax; ++k)
    {
        int all = k >= l_kmax - 1 || vf_chance(r, 1, 3), d0 = (int)vf_range(r, -2, 2);
        for (int d = -2; alive && d <= 2; ++d)
        {
            size_t target = ((size_t)1 << k) + (size_t)(all ? d : d0);
            if (target >= X.n)
            {
                alive = l_fmt(&X, r, target - X.n);
                if (alive && X.n == target && target >= 256) { VF_COUNT("large-pow2-window-length-reached-by-formatted-append"); }
            }
            if (!all) { break; }
        }
    }
    l_die(&X, alive);
    return alive;
}

/* 3: formatted appends > 4096 and > 65536 bytes in one call measured against a pre-reserved spare capacity:
 *    spare-2, spare-1 fit in the first vsnprintf pass; spare, spare+1, spare+2 need the second pass; plus a fresh
 *    object (null storage) and an exactly full object (zero spare) receiving a huge output */
static int sc_fmt_spare(vf_rng *r)
{
    static size_t const base[] = {4096, 4097, 4104, 8192, 12289, 32768, 65535, 65536, 65537, 65544, 70001, 131072};
    lmodel X;
    int alive = 1, rounds = vf.tier ? 22 : 12;
    size_t cap = ((size_t)1 << l_kmax) + 4096;
    l_new(&X, (int)vf_below(r, 2));
    vf_log("scenario formatted appends against a reserved spare capacity");
    for (int i = 0; alive && i < rounds; ++i)
    {
        size_t S = base[vf_below(r, sizeof(base) / sizeof(base[0]))], spare, out;
        int d = (int)vf_range(r, -2, 2), mode = (int)vf_below(r, 8);
        if (vf_chance(r, 1, 4)) { S = 4096 + (size_t)vf_below(r, cap - 4096); }
        if (vf.tier && vf_chance(r, 1, 5)) { S = ((size_t)1 << 20) + (size_t)vf_range(r, -9, 9); }
        if (mode == 0)
        {
            /* fresh object: storage pointer null, capacity 0 */
            lop = "exit";
            vf_log("exit (drop the storage: next formatted append starts from a null pointer)");
            {
                char *p = a_str_exit(X.s);
                if (p) { a_alloc(p, 0); }
            }
            X.n = 0;
            alive = lcheck_full(&X, 0) && l_fmt(&X, r, S + (size_t)d);
            continue;
        }
        if (mode == 1)
        {
            /* exactly full object: zero spare */
            size_t pad = (8 - X.n % 8) % 8;
            lmodel Y;
            l_new(&Y, 0);
            alive = l_block(&X, &Y, pad, 1);
            l_die(&Y, alive);
            if (!alive) { break; }
            lop = "setm_";
            vf_log("setm_ %zu (exact fit; len %zu mem %zu)", X.n, X.n, a_str_mem(X.s));
            if (a_str_setm_(X.s, X.n) != A_SUCCESS) { LFAIL("unexpected-error", "setm_(%zu) failed", X.n); alive = 0; break; }
            alive = lcheck_full(&X, 0);
            if (alive && X.n && a_str_mem(X.s) == X.n) { VF_COUNT("large-formatted-append-into-exactly-full-object"); }
            if (alive) { alive = l_fmt(&X, r, S + (size_t)d); }
        }
        else
        {
            size_t want = X.n + S;
            lop = "setm";
            vf_log("setm %zu (reserve; len %zu mem %zu)", want, X.n, a_str_mem(X.s));
            if (a_str_setm(X.s, want) != A_SUCCESS) { LFAIL("unexpected-error", "setm(%zu) failed", want); alive = 0; break; }
            if (a_str_mem(X.s) < want) { LFAIL("capacity", "mem %zu after setm(%zu)", a_str_mem(X.s), want); alive = 0; break; }
            alive = lcheck_full(&X, 0);
            spare = a_str_mem(X.s) - X.n;
            out = spare + (size_t)d;
            if (alive) { alive = l_fmt(&X, r, out); }
        }
        /* keep the total bounded: drop most of the content now and then (also makes the next append start at a random length) */
        if (alive && (X.n > cap || vf_chance(r, 1, 3))) { alive = l_getn(&X, r, X.n - (size_t)vf_below(r, X.n < 5000 ? X.n + 1 : 5000)); }
    }
    l_die(&X, alive);
    return alive;
}

/* 4: shrink and re-grow a long string with setn/setn_/setm/setm_ (exact fit) */
static int sc_resize(vf_rng *r)
{
    lmodel X, Y;
    int alive, rounds = vf.tier ? 40 : 28;
    int k0 = 12 + (int)vf_below(r, (uint64_t)l_kmax - 11);
    size_t L = ((size_t)1 << k0) + (size_t)vf_range(r, -2, 2), lim = ((size_t)1 << l_kmax) + 4096;
    l_new(&X, (int)vf_below(r, 2));
    l_new(&Y, 0);
    vf_log("scenario shrink/re-grow from %zu bytes", L);
    alive = l_block(&X, &Y, L, (int)vf_below(r, 6));
    for (int i = 0; alive && i < rounds; ++i)
    {
        a_str *s = X.s;
        size_t mem = a_str_mem(s), nn;
        int rc;
        switch ((int)vf_below(r, 10))
        {
        case 0: case 1:
        {
            /* setn: shrink, re-grow inside the capacity (gap bytes are the caller's to fill), exactly full, out of bounds */
            int cls = (int)vf_below(r, 7);
            nn = cls == 0 ? 0 : cls == 1 ? mem : cls == 2 ? mem + 1 : cls == 3 ? SIZE_MAX : cls == 4 ? (size_t)vf_below(r, mem + 1)
               : cls == 5 ? (X.n > 3 ? ((size_t)1 << vf_below(r, (uint64_t)l_log2(X.n) + 1)) + (size_t)vf_range(r, -1, 1) : 0) : X.n / 2;
            lop = "setn";
            vf_log("setn %zu (len %zu mem %zu)", nn, X.n, mem);
            rc = a_str_setn(s, nn);
            ++vf.evals;
            VF_COUNT("large-setn-judged");
            if ((rc == A_SUCCESS) != (nn <= mem)) { LFAIL("bounds-check", "setn(%zu) with mem %zu returned %d", nn, mem, rc); alive = 0; break; }
            if (rc == A_SUCCESS)
            {
                if (nn > X.n)
                {
                    char *p = a_str_ptr(s);
                    lm_room(&X, nn);
                    for (size_t j = X.n; j < nn; ++j) { unsigned char v = lbyte(); p[j] = (char)v; X.m[j] = v; }
                    if (nn - X.n > 4096) { VF_COUNT("large-setn-regrow-over-4096"); }
                }
                if (nn + 4096 < X.n && vf_chance(r, 1, 2))
                {
                    /* shrink, look, and go back to the old length inside the unchanged capacity */
                    size_t back = X.n;
                    char *p = a_str_ptr(s);
                    X.n = nn;
                    alive = lcheck_full(&X, 0);
                    if (!alive) { break; }
                    vf_log("setn %zu (back to the old length; len %zu mem %zu)", back, X.n, mem);
                    rc = a_str_setn(s, back);
                    ++vf.evals;
                    if (rc != A_SUCCESS) { LFAIL("bounds-check", "setn(%zu) with mem %zu returned %d", back, mem, rc); alive = 0; break; }
                    for (size_t j = nn; j < back; ++j) { unsigned char v = lbyte(); p[j] = (char)v; X.m[j] = v; }
                    VF_COUNT("large-setn-regrow-over-4096");
                    nn = back;
                }
                X.n = nn;
            }
            alive = lcheck_full(&X, 0);
            break;
        }
        case 2:
            if (!mem) { break; }
            nn = vf_chance(r, 1, 3) ? mem - 1 : (size_t)vf_below(r, mem);
            lop = "setn_";
            vf_log("setn_ %zu (len %zu mem %zu)", nn, X.n, mem);
            a_str_setn_(s, nn);
            ++vf.evals;
            if (nn > X.n)
            {
                char *p = a_str_ptr(s);
                lm_room(&X, nn);
                for (size_t j = X.n; j < nn; ++j) { unsigned char v = lbyte(); p[j] = (char)v; X.m[j] = v; }
            }
            X.n = nn;
            alive = lcheck_full(&X, 0);
            break;
        case 3: case 4:
        {
            /* setm_: exact fit (len == mem when len is a multiple of the pointer size), or a few bytes more */
            size_t want = X.n + (vf_chance(r, 1, 2) ? 0 : (size_t)vf_below(r, 20));
            if (vf_chance(r, 1, 3) && X.n % 8)
            {
                alive = l_block(&X, &Y, 8 - X.n % 8, 1 + 2 * (int)vf_below(r, 3));
                if (!alive) { break; }
                want = X.n;
            }
            lop = "setm_";
            vf_log("setm_ %zu (len %zu mem %zu)", want, X.n, a_str_mem(s));
            rc = a_str_setm_(s, want);
            ++vf.evals;
            if (rc != A_SUCCESS) { LFAIL("unexpected-error", "rc %d", rc); alive = 0; break; }
            VF_COUNT("large-setm-exact-fit-judged");
            if (a_str_mem(s) < want) { LFAIL("capacity", "mem %zu after setm_(%zu)", a_str_mem(s), want); alive = 0; break; }
            alive = lcheck_full(&X, 0);
            if (alive && X.n >= 4096 && a_str_mem(s) == X.n) { VF_COUNT("large-exactly-full-at-len-ge-4096"); }
            /* the next call must make room on its own */
            if (alive)
            {
                switch ((int)vf_below(r, 4))
                {
                case 0: alive = l_cat1(&X, r, 1); break;
                case 1: alive = l_fmt(&X, r, (size_t)vf_below(r, 40)); break;
                case 2: alive = l_block(&X, &Y, (size_t)vf_below(r, 30), (int)vf_below(r, 6)); break;
                default: break;
                }
            }
            break;
        }
        case 5:
        {
            /* setm: grows only */
            size_t want = vf_chance(r, 1, 2) ? (size_t)vf_below(r, mem + 1) : mem + (size_t)vf_below(r, lim > mem ? lim - mem : 1);
            lop = "setm";
            vf_log("setm %zu (len %zu mem %zu)", want, X.n, mem);
            rc = a_str_setm(s, want);
            ++vf.evals;
            if (rc != A_SUCCESS) { LFAIL("unexpected-error", "rc %d", rc); alive = 0; break; }
            if (a_str_mem(s) < want || a_str_mem(s) < mem) { LFAIL("capacity", "mem %zu after setm(%zu), before %zu", a_str_mem(s), want, mem); alive = 0; break; }
            alive = lcheck_full(&X, 0);
            break;
        }
        case 6:
            alive = l_getn(&X, r, vf_chance(r, 1, 2) ? (size_t)vf_below(r, X.n + 2) : X.n / 2 + 1);
            break;
        case 7: case 8:
        {
            /* re-grow by a block onto a power-of-two window */
            size_t target = ((size_t)1 << (3 + vf_below(r, (uint64_t)l_kmax - 2))) + (size_t)vf_range(r, -2, 2);
            if (target <= X.n) { target = X.n + (size_t)vf_below(r, 5000); }
            if (target > lim) { target = lim; }
            if (target < X.n) { break; }
            alive = l_block(&X, &Y, target - X.n, (int)vf_below(r, 6));
            break;
        }
        default:
            alive = l_cat1(&X, r, 1);
            break;
        }
    }
    l_die(&X, alive);
    l_die(&Y, alive);
    return alive;
}

/* 5: trims of very long runs at both ends */
static int l_trim(lmodel *x, vf_rng *r, size_t A, size_t C, size_t B)
{
    static char const *const sets[] = {"", " ", "x", "abc \t", "\0a", "\x80\xff\x7f", " \t\n\v\f\r"};
    static size_t const setn[] = {0, 1, 1, 5, 2, 3, 6};
    static char const *const names[] = {"rtrim", "ltrim", "trim", "rtrim_", "ltrim_", "trim_"};
    static char const ws[] = " \t\n\v\f\r";
    int which = (int)vf_below(r, 6), si = (int)vf_below(r, 7), term = which < 3, side = which % 3, rc, loadterm = vf_chance(r, 1, 2);
    char const *set = sets[si], *mb = setn[si] ? sets[si] : ws;
    size_t sn = setn[si], nm = sn ? sn : 6, tot = A + C + B, a = 0, b, before;
    unsigned char *src = (unsigned char *)malloc(tot ? tot : 1);
    for (size_t i = 0; i < A; ++i) { src[i] = (unsigned char)mb[lbyte() % nm]; }
    for (size_t i = 0; i < C; ++i)
    {
        unsigned char v = lbyte();
        if (i == 0 || i + 1 == C) { if (ref_trim_set(v, set, sn)) { v = 'Q'; } } /* 'Q' is in none of the sets */
        else if ((v & 0x1F) == 0x1F) { v = (unsigned char)mb[(v >> 5) % nm]; }
        src[A + i] = v;
    }
    for (size_t i = 0; i < B; ++i) { src[A + C + i] = (unsigned char)mb[lbyte() % nm]; }
    lop = loadterm ? "catn" : "catn_";
    vf_log("drop content (getn_ all); %s %zu bytes = %zu set members + %zu core + %zu set members (set#%d)", lop, tot, A, C, B, si);
    a_str_getn_(x->s, NULL, SIZE_MAX);
    x->n = 0;
    rc = loadterm ? a_str_catn(x->s, src, tot) : a_str_catn_(x->s, src, tot);
    if (rc != A_SUCCESS) { LFAIL("unexpected-error", "rc %d", rc); free(src); return 0; }
    lm_append(x, src, tot);
    free(src);
    if (!lcheck_full(x, loadterm)) { return 0; }
    lop = names[which];
    vf_log("%s set#%d (len %zu mem %zu)", lop, si, x->n, a_str_mem(x->s));
    switch (which)
    {
    case 0: a_str_rtrim(x->s, set, sn); break;
    case 1: a_str_ltrim(x->s, set, sn); break;
    case 2: a_str_trim(x->s, set, sn); break;
    case 3: a_str_rtrim_(x->s, set, sn); break;
    case 4: a_str_ltrim_(x->s, set, sn); break;
    default: a_str_trim_(x->s, set, sn); break;
    }
    ++vf.evals;
    b = before = x->n;
    if (side != 1) { while (b > a && ref_trim_set(x->m[b - 1], set, sn)) { --b; } }
    if (side != 0) { while (a < b && ref_trim_set(x->m[a], set, sn)) { ++a; } }
    memmove(x->m, x->m + a, b - a);
    x->n = b - a;
    VF_COUNT("large-trim-judged");
    if (a > 4096) { VF_COUNT("large-trim-leading-run-over-4096"); }
    if (before - b > 4096) { VF_COUNT("large-trim-trailing-run-over-4096"); }
    if (a >= 65536 || before - b >= 65536) { VF_COUNT("large-trim-run-ge-65536"); }
    if (a && x->n > 4096) { VF_COUNT("large-trim-moves-over-4096-bytes-to-the-front"); }
    if (before > 4096 && x->n == 0) { VF_COUNT("large-trim-empties-long-string"); }
    return lcheck_full(x, term && x->n < before);
}
static size_t l_size(vf_rng *r)
{
    /* 0, a power of two +- 1 up to 2^kmax, or a random size */
    switch ((int)vf_below(r, 8))
    {
    case 0: return 0;
    case 1: return (size_t)vf_below(r, 40);
    case 2: return (size_t)vf_below(r, ((size_t)1 << l_kmax) + 2);
    case 3: case 4: return ((size_t)1 << (12 + vf_below(r, (uint64_t)l_kmax - 11))) + (size_t)vf_range(r, -1, 1);
    default: return ((size_t)1 << (3 + vf_below(r, (uint64_t)l_kmax - 2))) + (size_t)vf_range(r, -1, 1);
    }
}
static int sc_trim(vf_rng *r)
{
    lmodel X;
    int alive = 1, rounds = vf.tier ? 14 : 12;
    l_new(&X, (int)vf_below(r, 2));
    vf_log("scenario trims of long runs");
    for (int i = 0; alive && i < rounds; ++i)
    {
        size_t A = l_size(r), B = l_size(r), C = vf_chance(r, 1, 5) ? 0 : vf_chance(r, 1, 2) ? 1 + (size_t)vf_below(r, 3000) : l_size(r);
        if (i == 0) { A = 65536 + (size_t)vf_range(r, -1, 1); C = 4097 + (size_t)vf_below(r, 4000); B = 0; }        /* long leading run, long core to move, core ends the string */
        if (i == 1) { B = 65536 + (size_t)vf_range(r, -1, 1); A = 0; C = 1 + (size_t)vf_below(r, 3000); }          /* long trailing run only */
        if (i == 2) { A = 4096 + (size_t)vf_below(r, 9); B = 4096 + (size_t)vf_below(r, 9); C = 70000 + (size_t)vf_below(r, 100); } /* long core, overlapping move by ~4096 */
        if (i == 3) { A = 1 + (size_t)vf_below(r, 3); B = 0; C = 65536 + (size_t)vf_below(r, 3); }                /* move >= 65536 bytes by 1..3 */
        if (i == 4) { A = 40000 + (size_t)vf_below(r, 30000); B = 0; C = 0; }                                      /* nothing but members */
        alive = l_trim(&X, r, A, C, B);
        if (alive && vf_chance(r, 1, 3)) { alive = l_cat1(&X, r, 1); }
    }
    l_die(&X, alive);
    return alive;
}

/* 6: drain a long string: chunks landing on every 2^k+d going down, then single pops all the way to empty */
static int sc_drain(vf_rng *r)
{
    lmodel X, Y;
    int alive;
    size_t L = ((size_t)1 << l_kmax) + 3 + (size_t)vf_below(r, 5000);
    l_new(&X, (int)vf_below(r, 2));
    l_new(&Y, 0);
    vf_log("scenario drain from %zu bytes", L);
    alive = l_block(&X, &Y, L, (int)vf_below(r, 6));
    for (int k = l_kmax; alive && k >= 3; --k)
    {
        int all = k >= 15 || vf_chance(r, 1, 2), d0 = (int)vf_range(r, -2, 2);
        for (int d = 2; alive && d >= -2; --d)
        {
            size_t target = ((size_t)1 << k) + (size_t)(all ? d : d0);
            if (target < X.n)
            {
                if (X.n - target == 1 && vf_chance(r, 1, 2)) { alive = l_get1(&X, r); }
                else { alive = l_getn(&X, r, X.n - target); }
                if (alive && target >= 256) { VF_COUNT("large-pow2-window-length-reached-by-pop"); }
            }
            if (!all) { break; }
        }
    }
    /* over-long requests on the short rest */
    if (alive) { alive = l_getn(&X, r, vf_chance(r, 1, 2) ? SIZE_MAX : X.n + 1); }
    if (alive) { alive = l_getn(&X, r, 1 + (size_t)vf_below(r, 100)); }
    if (alive) { alive = l_get1(&X, r); }
    /* second half: single pops from 65536+ down to empty */
    if (alive) { alive = l_block(&X, &Y, 65536 + 3 + (size_t)vf_below(r, 600), (int)vf_below(r, 6)); }
    run_begin();
    while (alive && X.n)
    {
        if (vf_chance(r, 1, 200)) { alive = l_getn(&X, r, 1 + (size_t)vf_below(r, 3)); }
        else { alive = l_get1(&X, r); }
        if (alive && X.n >= 256 && near_pow2(X.n)) { VF_COUNT("large-pow2-window-length-visited-by-single-pops"); }
        run_tick(&X, "single-byte pops");
    }
    if (alive) { alive = l_get1(&X, r); } /* pop from empty: ~0, nothing changes */
    l_die(&X, alive);
    l_die(&Y, alive);
    return alive;
}

/* 7: swap of a long with a short string; exit (ownership hand-over) of long strings and re-use */
static int l_exit(lmodel *x)
{
    char *p;
    size_t len = x->n;
    int had = a_str_ptr(x->s) != NULL, full = had && a_str_len(x->s) == a_str_mem(x->s), ok = 1;
    lop = "exit";
    vf_log("exit (len %zu mem %zu)", x->n, a_str_mem(x->s));
    p = a_str_exit(x->s);
    ++vf.evals;
    VF_COUNT("large-exit-judged");
    if (len >= 4096) { VF_COUNT("large-exit-of-len-ge-4096"); }
    if (full && len >= 4096) { VF_COUNT("large-exit-exactly-full-len-ge-4096"); }
    if (had && !p) { LFAIL("returned-null", "exit of an allocated string returned null"); return 0; }
    if (p)
    {
        if (len && memcmp(p, x->m, len) != 0) { LFAIL("handed-over-content", "content of %zu bytes differs from the model", len); ok = 0; }
        else if (p[len] != 0) { LFAIL("handed-over-not-terminated", "byte after the %zu content bytes is 0x%02x", len, (unsigned char)p[len]); ok = 0; }
        a_alloc(p, 0);
    }
    x->n = 0;
    if (a_str_ptr(x->s) || a_str_len(x->s) || a_str_mem(x->s)) { LFAIL("object-not-empty-after-exit", "ptr %p len %zu mem %zu", (void *)a_str_ptr(x->s), a_str_len(x->s), a_str_mem(x->s)); return 0; }
    return ok && lcheck_full(x, 0);
}
static int l_swap(lmodel *x, lmodel *y)
{
    unsigned char *m = x->m;
    size_t n = x->n, cap = x->cap;
    lop = "swap";
    vf_log("swap (len %zu mem %zu) <-> (len %zu mem %zu)", x->n, a_str_mem(x->s), y->n, a_str_mem(y->s));
    a_str_swap(x->s, y->s);
    ++vf.evals;
    VF_COUNT("large-swap-judged");
    if ((x->n >= 4096) != (y->n >= 4096)) { VF_COUNT("large-swap-long-with-short"); }
    x->m = y->m; x->n = y->n; x->cap = y->cap;
    y->m = m; y->n = n; y->cap = cap;
    return lcheck_full(x, 0) && lcheck_full(y, 0);
}
static int sc_swap_exit(vf_rng *r)
{
    lmodel X, Y, Z;
    int alive, rounds = vf.tier ? 10 : 8;
    l_new(&X, 1);
    l_new(&Y, 0);
    l_new(&Z, 0);
    vf_log("scenario swap long/short, exit + re-use");
    alive = 1;
    for (int i = 0; alive && i < rounds; ++i)
    {
        size_t L = ((size_t)1 << (12 + vf_below(r, (uint64_t)l_kmax - 11))) + (size_t)vf_range(r, -2, 2);
        size_t shortn = vf_chance(r, 1, 3) ? 0 : (size_t)vf_below(r, 24);
        alive = l_block(&X, &Z, L > X.n ? L - X.n : (size_t)vf_below(r, 9), (int)vf_below(r, 6));
        if (alive && shortn) { alive = l_block(&Y, &Z, shortn, (int)vf_below(r, 4)); }
        if (alive) { alive = l_swap(&X, &Y); }
        /* both must still work as strings with the right capacity: append to each */
        if (alive) { alive = l_cat1(&X, r, 1) && l_cat1(&Y, r, 1); }
        if (alive) { alive = l_block(&X, &Z, (size_t)vf_below(r, 6000), (int)vf_below(r, 6)); }
        if (alive && vf_chance(r, 1, 2)) { alive = l_swap(&Y, &X); }
        /* hand over the long one; three storage states: terminated, unterminated with spare, exactly full */
        {
            lmodel *lg = X.n >= Y.n ? &X : &Y, *sh = lg == &X ? &Y : &X;
            int st = (int)vf_below(r, 3);
            if (alive && st == 1) { alive = l_block(lg, &Z, 1 + (size_t)vf_below(r, 5), 1); }
            if (alive && st == 2)
            {
                alive = l_block(lg, &Z, 8 - lg->n % 8, 1);
                if (alive)
                {
                    lop = "setm_";
                    vf_log("setm_ %zu (exact fit)", lg->n);
                    if (a_str_setm_(lg->s, lg->n) != A_SUCCESS) { LFAIL("unexpected-error", "setm_(%zu) failed", lg->n); alive = 0; }
                    else { alive = lcheck_full(lg, 0); }
                }
            }
            if (alive) { alive = l_exit(lg); }
            /* re-use the emptied object at once */
            if (alive) { alive = vf_chance(r, 1, 2) ? l_fmt(lg, r, 4097 + (size_t)vf_below(r, 3000)) : l_block(lg, &Z, 4097 + (size_t)vf_below(r, 3000), (int)vf_below(r, 6)); }
            if (alive && vf_chance(r, 1, 2)) { alive = l_exit(sh); }
        }
    }
    l_die(&X, alive);
    l_die(&Y, alive);
    l_die(&Z, alive);
    return alive;
}

/* 8: comparisons of long strings: equal, differing only in the last byte, only in length, at one inner position */
static int l_cmp_all(lmodel *x, lmodel *y, char const *what)
{
    int got, want = ref_cmp(x->m, x->n, y->m, y->n), ok = 1;
    unsigned char *rx = (unsigned char *)malloc(x->n ? x->n : 1), *ry = (unsigned char *)malloc(y->n ? y->n : 1);
    memcpy(rx, x->m, x->n);
    memcpy(ry, y->m, y->n);
    lop = "cmp";
    vf_log("cmp family: %s (len %zu vs %zu)", what, x->n, y->n);
    ++vf.evals;
    VF_COUNT("large-cmp-judged");
    got = a_str_cmp(x->s, y->s);
    if (sgn(got) != want) { LFAIL("cmp", "a_str_cmp sign %d expected %d (%s, len %zu vs %zu)", sgn(got), want, what, x->n, y->n); ok = 0; }
    got = a_str_cmp(y->s, x->s);
    if (sgn(got) != -want) { LFAIL("cmp", "a_str_cmp (swapped operands) sign %d expected %d (%s, len %zu vs %zu)", sgn(got), -want, what, y->n, x->n); ok = 0; }
    got = a_str_cmpn(x->s, ry, y->n);
    if (sgn(got) != want) { LFAIL("cmpn", "a_str_cmpn sign %d expected %d (%s, len %zu vs %zu)", sgn(got), want, what, x->n, y->n); ok = 0; }
    got = a_str_cmp_(rx, x->n, ry, y->n);
    if (sgn(got) != want) { LFAIL("cmp_", "a_str_cmp_ sign %d expected %d (%s, len %zu vs %zu)", sgn(got), want, what, x->n, y->n); ok = 0; }
    {
        /* C string operand: the bytes of y up to its first NUL */
        size_t cn = 0;
        char *cs;
        while (cn < y->n && y->m[cn]) { ++cn; }
        cs = (char *)malloc(cn + 1);
        memcpy(cs, y->m, cn);
        cs[cn] = 0;
        got = a_str_cmps(x->s, cs);
        want = ref_cmp(x->m, x->n, (unsigned char *)cs, cn);
        if (sgn(got) != want) { LFAIL("cmps", "a_str_cmps sign %d expected %d (%s, len %zu vs %zu)", sgn(got), want, what, x->n, cn); ok = 0; }
        if (cn >= 4096) { VF_COUNT("large-cmps-c-string-ge-4096"); }
        free(cs);
    }
    free(rx);
    free(ry);
    return ok;
}
static int sc_cmp(vf_rng *r)
{
    lmodel X, Y;
    int alive = 1;
    l_new(&X, 0);
    l_new(&Y, 1);
    vf_log("scenario comparisons of long strings");
    for (int k = 3; alive && k <= l_kmax; ++k)
    {
        int d0 = (int)vf_range(r, -1, 1), all = k >= 12 && k <= 17;
        for (int d = -1; alive && d <= 1; ++d)
        {
            size_t L = ((size_t)1 << k) + (size_t)(all ? d : d0), pos;
            int nonzero = vf_chance(r, 1, 2);
            unsigned char last, other;
            /* X := L fresh bytes, Y := copy of X */
            lop = "getn_";
            vf_log("both objects: drop content (getn_ all)");
            a_str_getn_(X.s, NULL, SIZE_MAX);
            a_str_getn_(Y.s, NULL, SIZE_MAX);
            X.n = Y.n = 0;
            alive = l_block(&X, &Y, L, nonzero ? 2 + (int)vf_below(r, 2) : (int)vf_below(r, 2));
            if (!alive) { break; }
            lop = "cat_";
            vf_log("second object: cat_ the first (%zu bytes)", X.n);
            if (a_str_cat_(Y.s, X.s) != A_SUCCESS) { LFAIL("unexpected-error", "cat_ failed"); alive = 0; break; }
            lm_append(&Y, X.m, X.n);
            alive = lcheck_full(&Y, 0) && l_cmp_all(&X, &Y, "equal");
            if (!alive) { break; }
            /* last byte differs (also across the 0x7F/0x80 signedness line) */
            last = Y.m[L - 1];
            other = vf_chance(r, 1, 2) ? (unsigned char)(last ^ 0x80) : (unsigned char)(last + (vf_chance(r, 1, 2) ? 1 : 255));
            if (nonzero && !other) { other = 0x81; }
            if (other == last) { other ^= 1; }
            lop = "catc_";
            vf_log("second object: getc_, catc_ 0x%02x (was 0x%02x)", other, last);
            a_str_getc_(Y.s);
            a_str_catc_(Y.s, other);
            Y.m[L - 1] = other;
            alive = lcheck_full(&Y, 0) && l_cmp_all(&X, &Y, "differ only in the last byte");
            if (alive && L >= 4096) { VF_COUNT("large-cmp-long-differing-only-in-last-byte"); }
            if (alive && L > 65536) { VF_COUNT("large-cmp-differing-only-in-a-byte-at-index-ge-65536"); }
            if (!alive) { break; }
            /* only the length differs: Y one byte shorter, then one byte longer (the extra byte being NUL half of the time) */
            lop = "getc_";
            vf_log("second object: getc_ (now a proper prefix)");
            a_str_getc_(Y.s);
            --Y.n;
            alive = lcheck_full(&Y, 0) && l_cmp_all(&X, &Y, "second is the first minus its last byte");
            if (!alive) { break; }
            {
                unsigned char extra = vf_chance(r, 1, 2) ? 0 : lbyte();
                lop = "catc_";
                vf_log("second object: catc_ 0x%02x, catc_ 0x%02x (now the first plus one byte)", last, extra);
                a_str_catc_(Y.s, last);
                a_str_catc_(Y.s, extra);
                lm_room(&Y, L + 1);
                Y.m[L - 1] = last;
                Y.m[L] = extra;
                Y.n = L + 1;
            }
            alive = lcheck_full(&Y, 0) && l_cmp_all(&X, &Y, "second is the first plus one byte");
            if (alive && L >= 4096) { VF_COUNT("large-cmp-long-differing-only-in-length"); }
            if (!alive) { break; }
            /* one inner byte differs (written through the storage pointer), everything after it equal */
            pos = vf_chance(r, 1, 3) ? 0 : (size_t)vf_below(r, L);
            other = (unsigned char)(X.m[pos] ^ (vf_chance(r, 1, 2) ? 0x80 : 0x01));
            if (nonzero && !other) { other = 0x7E; }
            vf_log("first object: byte %zu overwritten through a_str_ptr: 0x%02x -> 0x%02x", pos, X.m[pos], other);
            a_str_ptr(X.s)[pos] = (char)other;
            X.m[pos] = other;
            lop = "cmp";
            alive = lcheck_full(&X, 0) && l_cmp_all(&X, &Y, "one inner byte differs, second one byte longer");
            if (!all) { break; }
        }
    }
    l_die(&X, alive);
    l_die(&Y, alive);
    return alive;
}

static int is_large_case(uint64_t c)
{
    uint64_t st = vf.tier ? LSTRIDE_THOROUGH : LSTRIDE_QUICK;
    return c % st == st - 1;
}
static void large_case(uint64_t c, vf_rng *r)
{
    uint64_t li = c / (vf.tier ? LSTRIDE_THOROUGH : LSTRIDE_QUICK);
    int sc = (int)(li % L_NSCEN), alive;
    static char const *const scn[L_NSCEN] = {"single-bytes", "blocks", "formatted-onto-2^k", "formatted-vs-reserved-spare", "shrink-regrow", "trim-long-runs", "drain", "swap-exit-reuse", "compare-long"};
    l_kmax = vf.tier ? 20 : 16;
    lg_salt = vf_u64(r);
    lg_ctr = 0;
    la_install();
    l_one = (unsigned char *)malloc(1);
    l_cs = (char *)malloc(2);
    if (vf_want_sample() && li < L_NSCEN)
    {
        vf_sample("large case %" PRIu64 " (scenario %s, lengths through 2^k-2..2^k+2 up to k=%d): heap byte-array model, complete state compared after every structural operation and at 2^k-2..2^k+2 inside single-byte runs; grown allocation regions junk-filled through the a_alloc hook", c, scn[sc], l_kmax);
    }
    vf_log("large case: scenario %s, kmax %d", scn[sc], l_kmax);
    switch (sc)
    {
    case 0: alive = sc_single(r); break;
    case 1: alive = sc_blocks(r, li); break;
    case 2: alive = sc_fmt_windows(r); break;
    case 3: alive = sc_fmt_spare(r); break;
    case 4: alive = sc_resize(r); break;
    case 5: alive = sc_trim(r); break;
    case 6: alive = sc_drain(r); break;
    case 7: alive = sc_swap_exit(r); break;
    default: alive = sc_cmp(r); break;
    }
    (void)alive;
    VF_COUNT("large-cases-run");
    free(l_one);
    free(l_cs);
    la_remove();
}

static uint64_t vf_ncases(int tier) { return tier ? 1500000 : 6000; }

static void vf_case(uint64_t c, vf_rng *r)
{
    int nops, alive = 1;
    if (is_large_case(c)) { large_case(c, r); return; }
    nops = 30 + (int)vf_below(r, 40);
    for (int k = 0; k < 2; ++k)
    {
        if ((c >> 1 ^ (uint64_t)k) & 1)
        {
            S[k].s = (a_str *)malloc(sizeof(a_str)); /* constructor/destructor on caller-provided storage */
            memset(S[k].s, 0x5A, sizeof(a_str));
            a_str_ctor(S[k].s);
            S[k].by_ctor = 1;
            VF_COUNT("ctor-dtor-on-caller-storage");
        }
        else { S[k].s = a_str_new(); S[k].by_ctor = 0; }
        S[k].n = 0;
    }
    if (vf_want_sample() && c % 4 == 0)
    {
        vf_sample("history %" PRIu64 ": two a_str objects, %d ops from {catc, catn, cats, cat (+ non-terminating _ forms), catf/catv from a closed printf grammar judged against snprintf, a_utf_catc, getc, getn, six trim entry points, setn, setm, setm_ (exact fit), swap, exit + re-use, cmp/cmpn/cmps/cmp_, at/of}; append sizes target spare-2..spare+2 of the capacity; bytes include 0x00 0x7F 0x80 0xFF", c, nops);
    }
    for (int i = 0; i < nops && alive; ++i)
    {
        int k = (int)vf_below(r, 2), op = (int)vf_below(r, 30), ok = 1, tb;
        smodel *x = &S[k], *y = &S[1 - k];
        a_str *s = x->s;
        unsigned char buf[512];
        size_t n;
        tb = is_term(x);
        switch (op)
        {
        case 0: case 1:
        {
            int term = op == 0, ch = rnd_byte(r), rc;
            if (x->n + 8 > MMAX) { break; }
            opname = term ? "catc" : "catc_";
            vf_log("str %d %s 0x%02x (len %zu mem %zu)", k, opname, ch, x->n, a_str_mem(s));
            cellf(opname, x, term ? 2 : 1, tb);
            rc = term ? a_str_catc(s, ch) : a_str_catc_(s, ch);
            ++vf.evals;
            if (rc != ch) { FAIL("return-value", "returned %d for character %d", rc, ch); alive = 0; break; }
            buf[0] = (unsigned char)ch;
            m_append(x, buf, 1);
            alive = check_state(x, term);
            break;
        }
        case 2: case 3: case 4: case 5:
        {
            int term = op < 4, rc;
            unsigned char *src;
            n = target_len(r, x, term);
            if (n > sizeof(buf)) { n = sizeof(buf); }
            for (size_t j = 0; j < n; ++j) { buf[j] = rnd_byte(r); }
            src = (unsigned char *)malloc(n ? n : 1); /* exact-size source: an over-read is an ASan report */
            memcpy(src, buf, n);
            opname = term ? "catn" : "catn_";
            vf_log("str %d %s %zu bytes (len %zu mem %zu)", k, opname, n, x->n, a_str_mem(s));
            cellf(opname, x, term ? n + 1 : n, tb);
            rc = term ? a_str_catn(s, src, n) : a_str_catn_(s, src, n);
            free(src);
            ++vf.evals;
            if (rc != A_SUCCESS) { FAIL("unexpected-error", "rc %d", rc); alive = 0; break; }
            m_append(x, buf, n);
            alive = check_state(x, term);
            break;
        }
        case 6: case 7:
        {
            int term = op == 6, rc;
            char *src;
            n = target_len(r, x, term);
            if (n > sizeof(buf) - 1) { n = sizeof(buf) - 1; }
            for (size_t j = 0; j < n; ++j) { buf[j] = (unsigned char)(1 + vf_below(r, 255)); }
            src = (char *)malloc(n + 1);
            memcpy(src, buf, n);
            src[n] = 0;
            opname = term ? "cats" : "cats_";
            vf_log("str %d %s C string of %zu bytes (len %zu mem %zu)", k, opname, n, x->n, a_str_mem(s));
            cellf(opname, x, term ? n + 1 : n, tb);
            rc = term ? a_str_cats(s, src) : a_str_cats_(s, src);
            free(src);
            ++vf.evals;
            if (rc != A_SUCCESS) { FAIL("unexpected-error", "rc %d", rc); alive = 0; break; }
            m_append(x, buf, n);
            alive = check_state(x, term);
            break;
        }
        case 8: case 9:
            if (vf_chance(r, 1, 4) && x->n && 2 * x->n + 8 <= MMAX)
            {
                /* the appended bytes lie in the string's OWN storage (the whole string appended to itself, or a block of its
                   content): the abstract operation is as defined as any other, but the storage may move while it is being read */
                int const term = op == 8, whole = vf_chance(r, 1, 2);
                size_t const o = whole ? 0 : (size_t)vf_below(r, x->n), kk = whole ? x->n : 1 + (size_t)vf_below(r, x->n - o);
                unsigned char own[MMAX];
                int rc;
                memcpy(own, x->m + o, kk);
                /* a C string inside the own storage: the tail from o without NUL bytes, terminated in the spare capacity behind the
                   content (written here: whether an earlier call left a terminator is not part of the model) */
                if (!whole && o + kk == x->n && a_str_mem(s) > x->n && !memchr(x->m + o, 0, kk) && 2 * x->n + 8 < MMAX)
                {
                    a_str_ptr(s)[x->n] = 0;
                    opname = term ? "cats-own-tail" : "cats_-own-tail";
                    vf_log("str %d %s: C string at offset %zu of its own storage (%zu bytes, len %zu mem %zu)", k, opname, o, kk, x->n, a_str_mem(s));
                    rc = term ? a_str_cats(s, a_str_ptr(s) + o) : a_str_cats_(s, a_str_ptr(s) + o);
                    ++vf.evals;
                    VF_COUNT("append-of-own-content");
                    VF_COUNT("append-of-own-c-string-tail");
                    if (rc != A_SUCCESS) { FAIL("unexpected-error", "rc %d", rc); alive = 0; break; }
                    m_append(x, own, kk);
                    alive = check_state(x, term);
                    break;
                }
                opname = whole ? (term ? "cat-self" : "cat_-self") : (term ? "catn-own-block" : "catn_-own-block");
                vf_log("str %d %s: %zu bytes of its own content from offset %zu (len %zu mem %zu)", k, opname, kk, o, x->n, a_str_mem(s));
                rc = whole ? (term ? a_str_cat(s, s) : a_str_cat_(s, s)) : (term ? a_str_catn(s, a_str_ptr(s) + o, kk) : a_str_catn_(s, a_str_ptr(s) + o, kk));
                ++vf.evals;
                VF_COUNT("append-of-own-content");
                if (rc != A_SUCCESS) { FAIL("unexpected-error", "rc %d", rc); alive = 0; break; }
                m_append(x, own, kk);
                alive = check_state(x, term);
                break;
            }
            /* fall through */
        case 31:
        {
            int term = op == 8, rc;
            if (x->n + y->n + 8 > MMAX) { break; }
            opname = term ? "cat" : "cat_";
            vf_log("str %d %s str %d (%zu bytes) (len %zu mem %zu)", k, opname, 1 - k, y->n, x->n, a_str_mem(s));
            cellf(opname, x, term ? y->n + 1 : y->n, tb);
            rc = term ? a_str_cat(s, y->s) : a_str_cat_(s, y->s);
            ++vf.evals;
            if (rc != A_SUCCESS) { FAIL("unexpected-error", "rc %d", rc); alive = 0; break; }
            m_append(x, y->m, y->n);
            alive = check_state(x, term) && check_state(y, 0);
            break;
        }
        case 10: case 11: case 12: case 13:
            alive = do_format(x, r);
            break;
        case 14:
        {
            /* code point append: a_utf_encode's bytes + NUL */
            static uint32_t const borders[] = {0, 1, 0x7F, 0x80, 0x7FF, 0x800, 0xFFFE, 0xFFFF, 0x10000, 0x1FFFFF, 0x200000, 0x3FFFFFF, 0x4000000, 0x7FFFFFFF, 0x80000000u, 0x8000FFFFu, 0xFFFFFFFFu};
            uint32_t cp = vf_chance(r, 1, 2) ? borders[vf_below(r, 17)] : (uint32_t)(vf_u64(r) >> (33 + vf_below(r, 31)));
            unsigned char enc[8];
            unsigned en;
            int rc;
            if (x->n + 16 > MMAX) { break; }
            en = ref_utf8(cp, enc);
            opname = "utf_catc";
            vf_log("str %d a_utf_catc U+%X (%u bytes) (len %zu mem %zu)", k, cp, en, x->n, a_str_mem(s));
            cellf(opname, x, 7, tb);
            rc = a_utf_catc(s, cp);
            ++vf.evals;
            if (rc != A_SUCCESS) { FAIL("unexpected-error", "rc %d", rc); alive = 0; break; }
            m_append(x, enc, en);
            VF_COUNT("utf_catc-appends-encoding-plus-nul");
            alive = check_state(x, 1);
            break;
        }
        case 15: case 16:
        {
            int term = op == 15, rc, want;
            opname = term ? "getc" : "getc_";
            vf_log("str %d %s (len %zu)", k, opname, x->n);
            cellf(opname, x, (size_t)-1, tb);
            rc = term ? a_str_getc(s) : a_str_getc_(s);
            ++vf.evals;
            want = x->n ? (int)(char)x->m[x->n - 1] : ~0;
            VF_COUNT("getc-returns-last-byte");
            if (rc != want) { FAIL("return-value", "returned %d expected %d", rc, want); alive = 0; break; }
            if (x->n) { --x->n; alive = check_state(x, term); }
            else { alive = check_state(x, 0); }
            break;
        }
        case 17: case 18:
        {
            int term = op == 17, with_buf = vf_chance(r, 2, 3);
            size_t got, want;
            int cls = (int)vf_below(r, 5);
            unsigned char *dst;
            /* the destination block is a window of the string's OWN content that does not overlap the popped tail (an overlapping
               destination is a copy between overlapping objects and is not asked for): the tail bytes, as they were before the call,
               arrive in the window, the length drops, the terminator follows the new end (same operand class as seeded change C06-I) */
            if (x->n >= 2 && vf_chance(r, 1, 6))
            {
                unsigned char tail[MMAX / 2];
                want = 1 + (size_t)vf_below(r, x->n / 2 < 16 ? x->n / 2 : 16);
                if (vf_chance(r, 1, 8)) { want = 1 + (size_t)vf_below(r, x->n / 2); }
                n = (size_t)vf_below(r, x->n - 2 * want + 1); /* window [n, n+want) ends at or before the tail [len-want, len) */
                memcpy(tail, x->m + x->n - want, want);
                opname = term ? "getn-into-own" : "getn_-into-own";
                vf_log("str %d %s nbyte=%zu into own content at %zu (len %zu)", k, opname, want, n, x->n);
                got = term ? a_str_getn(s, a_str_ptr(s) + n, want) : a_str_getn_(s, a_str_ptr(s) + n, want);
                ++vf.evals;
                VF_COUNT("getn-into-window-of-own-content");
                if (got != want) { FAIL("return-value", "returned %zu expected %zu", got, want); alive = 0; break; }
                memcpy(x->m + n, tail, want);
                x->n -= want;
                alive = check_state(x, term);
                break;
            }
            n = cls == 0 ? 0 : cls == 1 ? x->n : cls == 2 ? x->n + 1 : cls == 3 ? SIZE_MAX : (size_t)vf_below(r, x->n + 2);
            want = n < x->n ? n : x->n;
            dst = (unsigned char *)malloc(want ? want : 1);
            opname = term ? "getn" : "getn_";
            vf_log("str %d %s nbyte=%zu buf=%d (len %zu)", k, opname, n, with_buf, x->n);
            cellf(opname, x, (size_t)-1, tb);
            got = term ? a_str_getn(s, with_buf ? dst : NULL, n) : a_str_getn_(s, with_buf ? dst : NULL, n);
            ++vf.evals;
            VF_COUNT("getn-returns-tail-bytes");
            if (got != want) { FAIL("return-value", "returned %zu expected %zu", got, want); free(dst); alive = 0; break; }
            if (with_buf && want && memcmp(dst, x->m + x->n - want, want) != 0) { FAIL("popped-bytes", "bytes copied out differ from the tail of the model"); free(dst); alive = 0; break; }
            free(dst);
            x->n -= want;
            alive = check_state(x, term && want > 0);
            break;
        }
        case 19: case 20: case 21:
        {
            /* trims: six entry points x trim sets */
            static char const *const sets[] = {"", " ", "x", "abc \t", "\0a", "\x80\xff\x7f", " \t\n\v\f\r"};
            static size_t const setn[] = {0, 1, 1, 5, 2, 3, 6};
            int which = (int)vf_below(r, 6), si = (int)vf_below(r, 7);
            char const *set = sets[si];
            size_t sn = setn[si], a = 0, b = x->n, before = x->n;
            int term = which < 3, side = which % 3; /* 0 rtrim 1 ltrim 2 trim */
            static char const *const names[] = {"rtrim", "ltrim", "trim", "rtrim_", "ltrim_", "trim_"};
            unsigned char ownset[16];
            size_t oo = 0;
            /* the trim set is a window [oo, oo+sn) of the string's OWN content (str.h does not forbid it, and the scans only read):
               "all trim sets" includes sets stored in the buffer that the call shortens, moves to the front and terminates. The model
               works on a snapshot of the window taken BEFORE the call (seeded change C06-I: a_str_trim as terminating rtrim + ltrim,
               the terminator of the first pass lands inside the set of the second). Half of the time the first byte is appended
               first, so that both ends carry a member of a window at either end. */
            if (vf_chance(r, 1, 4) && x->n && a_str_ptr(s))
            {
                int const pos = (int)vf_below(r, 3); /* 0 window at the end, 1 at the front, 2 anywhere */
                if (vf_chance(r, 1, 2) && x->n + 8 < MMAX)
                {
                    buf[0] = x->m[0];
                    a_str_catn(s, buf, 1);
                    m_append(x, buf, 1);
                    before = b = x->n;
                }
                sn = 1 + (size_t)vf_below(r, x->n < 4 ? x->n : 4);
                if (vf_chance(r, 1, 8)) { sn = 1 + (size_t)vf_below(r, x->n < sizeof(ownset) ? x->n : sizeof(ownset)); }
                oo = pos == 0 ? x->n - sn : pos == 1 ? 0 : (size_t)vf_below(r, x->n - sn + 1);
                memcpy(ownset, x->m + oo, sn);
                opname = names[which];
                vf_log("str %d %s set = own content [%zu, %zu) (len %zu)", k, opname, oo, oo + sn, x->n);
                cellf(opname, x, (size_t)-1, tb);
                set = a_str_ptr(s) + oo;
                switch (which)
                {
                case 0: a_str_rtrim(s, set, sn); break;
                case 1: a_str_ltrim(s, set, sn); break;
                case 2: a_str_trim(s, set, sn); break;
                case 3: a_str_rtrim_(s, set, sn); break;
                case 4: a_str_ltrim_(s, set, sn); break;
                default: a_str_trim_(s, set, sn); break;
                }
                ++vf.evals;
                set = (char const *)ownset; /* from here on only the snapshot */
                if (side != 1) { while (b > a && ref_trim_set(x->m[b - 1], set, sn)) { --b; } }
                if (side != 0) { while (a < b && ref_trim_set(x->m[a], set, sn)) { ++a; } }
                if (a_str_len(s) != b - a)
                {
                    FAIL("trim-set-in-own-storage", "a_str_%s(s, a_str_ptr(s) + %zu, %zu) on %zu bytes left %zu bytes, the set as it was before the call leaves %zu (leading %zu, trailing %zu removed)",
                         opname, oo, sn, before, a_str_len(s), b - a, a, before - b);
                    alive = 0;
                    break;
                }
                memmove(x->m, x->m + a, b - a);
                x->n = b - a;
                VF_COUNT("trim-set-is-window-of-own-content");
                if (a && before - b) { VF_COUNT("trim-set-is-window-of-own-content-both-ends-removed"); }
                if (oo + sn > x->n) { VF_COUNT("trim-set-window-reaches-past-the-new-end"); }
                VF_COUNT("trim-removes-exactly-the-set-members-at-the-ends");
                alive = check_state(x, term && x->n < before);
                break;
            }
            /* make trimming likely: decorate both ends with members of the set */
            if (vf_chance(r, 1, 2) && x->n + 8 < MMAX && a_str_ptr(s))
            {
                unsigned char deco = sn ? (unsigned char)set[vf_below(r, sn)] : (unsigned char)" \t\n"[vf_below(r, 3)];
                buf[0] = deco;
                a_str_catn(s, buf, 1);
                m_append(x, buf, 1);
                before = b = x->n;
            }
            opname = names[which];
            vf_log("str %d %s set#%d (len %zu)", k, opname, si, x->n);
            cellf(opname, x, (size_t)-1, tb);
            if (!a_str_ptr(s) && x->n == 0 && vf_chance(r, 1, 2)) { break; }
            switch (which)
            {
            case 0: a_str_rtrim(s, set, sn); break;
            case 1: a_str_ltrim(s, set, sn); break;
            case 2: a_str_trim(s, set, sn); break;
            case 3: a_str_rtrim_(s, set, sn); break;
            case 4: a_str_ltrim_(s, set, sn); break;
            default: a_str_trim_(s, set, sn); break;
            }
            ++vf.evals;
            if (side != 1) { while (b > a && ref_trim_set(x->m[b - 1], set, sn)) { --b; } }
            if (side != 0) { while (a < b && ref_trim_set(x->m[a], set, sn)) { ++a; } }
            memmove(x->m, x->m + a, b - a);
            x->n = b - a;
            VF_COUNT("trim-removes-exactly-the-set-members-at-the-ends");
            alive = check_state(x, term && x->n < before);
            break;
        }
        case 22:
        {
            /* setn / setn_ */
            int safe = vf_chance(r, 1, 2), rc;
            size_t mem = a_str_mem(s), nn;
            if (mem + 2 > MMAX - 16) { break; }
            if (safe)
            {
                int cls = (int)vf_below(r, 5);
                nn = cls == 0 ? 0 : cls == 1 ? mem : cls == 2 ? mem + 1 : cls == 3 ? SIZE_MAX : (size_t)vf_below(r, mem + 2);
                opname = "setn";
                vf_log("str %d setn %zu (len %zu mem %zu)", k, nn, x->n, mem);
                rc = a_str_setn(s, nn);
                ++vf.evals;
                VF_COUNT("setn-bounds");
                if ((rc == A_SUCCESS) != (nn <= mem)) { FAIL("bounds-check", "setn(%zu) with mem %zu returned %d", nn, mem, rc); alive = 0; break; }
                if (rc != A_SUCCESS) { alive = check_state(x, 0); break; }
            }
            else
            {
                if (!mem) { break; }
                nn = (size_t)vf_below(r, mem); /* documented precondition: less than memory */
                opname = "setn_";
                vf_log("str %d setn_ %zu (len %zu mem %zu)", k, nn, x->n, mem);
                a_str_setn_(s, nn);
                ++vf.evals;
            }
            if (nn > MMAX - 16) { fprintf(stderr, "h_str: capacity beyond model\n"); exit(2); }
            if (nn > x->n)
            {
                /* bytes in the gap are unspecified: the caller fills them */
                char *p = a_str_ptr(s);
                for (size_t j = x->n; j < nn; ++j) { unsigned char v = rnd_byte(r); p[j] = (char)v; x->m[j] = v; }
            }
            x->n = nn;
            alive = check_state(x, 0);
            break;
        }
        case 23:
        {
            /* setm (grow only) / setm_ (exact; called with mem >= len, incl. mem == len: exactly full) */
            int exact = vf_chance(r, 1, 2), rc;
            size_t mem = a_str_mem(s), want;
            if (exact) { want = x->n + (vf_chance(r, 1, 2) ? 0 : (size_t)vf_below(r, 20)); }
            else { want = (size_t)vf_below(r, mem + 40); }
            if (want > MMAX - 64) { break; }
            opname = exact ? "setm_" : "setm";
            vf_log("str %d %s %zu (len %zu mem %zu)", k, opname, want, x->n, mem);
            rc = exact ? a_str_setm_(s, want) : a_str_setm(s, want);
            ++vf.evals;
            if (rc != A_SUCCESS) { FAIL("unexpected-error", "rc %d", rc); alive = 0; break; }
            VF_COUNT("setm-capacity");
            if (a_str_mem(s) < want || (!exact && a_str_mem(s) < mem)) { FAIL("capacity", "mem %zu after %s(%zu), before %zu", a_str_mem(s), opname, want, mem); alive = 0; break; }
            alive = check_state(x, 0);
            break;
        }
        case 24:
        {
            smodel t;
            a_str *s0 = S[0].s, *s1 = S[1].s;
            opname = "swap";
            vf_log("str swap");
            a_str_swap(s0, s1);
            ++vf.evals;
            t = S[0];
            {
                int c0 = S[0].by_ctor, c1 = S[1].by_ctor;
                S[0] = S[1];
                S[1] = t;
                S[0].s = s0;
                S[1].s = s1;
                S[0].by_ctor = c0;
                S[1].by_ctor = c1;
            }
            VF_COUNT("swap");
            alive = check_state(&S[0], 0) && check_state(&S[1], 0);
            break;
        }
        case 25:
        {
            /* ownership hand-over */
            char *p;
            size_t len = x->n;
            int had = a_str_ptr(s) != NULL;
            opname = "exit";
            vf_log("str %d exit (len %zu mem %zu)", k, x->n, a_str_mem(s));
            cellf(opname, x, 1, tb);
            p = a_str_exit(s);
            ++vf.evals;
            VF_COUNT("exit-hands-over-terminated-content");
            if (had && !p) { FAIL("returned-null", "exit of an allocated string returned null"); alive = 0; break; }
            if (p)
            {
                if (memcmp(p, x->m, len) != 0) { FAIL("handed-over-content", "content differs from the model"); }
                else if (p[len] != 0) { FAIL("handed-over-not-terminated", "byte after the content is 0x%02x", (unsigned char)p[len]); }
                a_alloc(p, 0);
            }
            x->n = 0;
            if (a_str_ptr(s) || a_str_len(s) || a_str_mem(s)) { FAIL("object-not-empty-after-exit", "ptr %p len %zu mem %zu", (void *)a_str_ptr(s), a_str_len(s), a_str_mem(s)); alive = 0; break; }
            alive = check_state(x, 0);
            break;
        }
        case 26: case 27:
        {
            /* comparisons */
            int got, want;
            opname = "cmp";
            vf_log("str cmp family (len %zu vs %zu)", x->n, y->n);
            /* neighbours: make y a near copy of x now and then */
            got = a_str_cmp(s, y->s);
            want = ref_cmp(x->m, x->n, y->m, y->n);
            ++vf.evals;
            VF_COUNT("cmp-orders-like-bytewise-lexicographic-then-length");
            if (sgn(got) != want) { FAIL("cmp", "a_str_cmp sign %d expected %d", sgn(got), want); }
            {
                size_t bn = (size_t)vf_below(r, 12);
                unsigned char *raw;
                if (vf_chance(r, 1, 2) && x->n) { bn = x->n - (size_t)vf_below(r, x->n < 3 ? x->n : 3) + (size_t)vf_below(r, 3); }
                if (bn > sizeof(buf)) { bn = sizeof(buf); }
                for (size_t j = 0; j < bn; ++j) { buf[j] = j < x->n && vf_chance(r, 9, 10) ? x->m[j] : rnd_byte(r); }
                raw = (unsigned char *)malloc(bn ? bn : 1);
                memcpy(raw, buf, bn);
                got = a_str_cmpn(s, raw, bn);
                want = ref_cmp(x->m, x->n, buf, bn);
                if (sgn(got) != want) { FAIL("cmpn", "a_str_cmpn sign %d expected %d (len %zu vs %zu)", sgn(got), want, x->n, bn); }
                got = a_str_cmp_(raw, bn, y->n ? a_str_ptr(y->s) : (void *)buf, y->n);
                want = ref_cmp(buf, bn, y->m, y->n);
                if (sgn(got) != want) { FAIL("cmp_", "a_str_cmp_ sign %d expected %d", sgn(got), want); }
                free(raw);
                /* C string */
                {
                    size_t cn = 0;
                    char *cs;
                    for (size_t j = 0; j < bn && buf[j]; ++j) { ++cn; }
                    cs = (char *)malloc(cn + 1);
                    memcpy(cs, buf, cn);
                    cs[cn] = 0;
                    got = a_str_cmps(s, cs);
                    want = ref_cmp(x->m, x->n, (unsigned char *)cs, cn);
                    if (sgn(got) != want) { FAIL("cmps", "a_str_cmps sign %d expected %d", sgn(got), want); }
                    free(cs);
                }
            }
            /* the string's own storage handed back as the other operand, with a different length or offset (a prefix, a suffix, the
               content up to an embedded NUL): the ordering is defined on bytes and lengths, not on addresses (seeded change C06-H:
               an early exit `same block => equal`) */
            if (x->n && a_str_ptr(s))
            {
                size_t const k = (size_t)vf_below(r, x->n + 1), o = (size_t)vf_below(r, x->n + 1), cn = strnlen(a_str_ptr(s), x->n);
                char const *own = a_str_ptr(s);
                VF_COUNT("cmp-with-own-storage-as-other-operand");
                got = a_str_cmpn(s, own, k);
                want = ref_cmp(x->m, x->n, x->m, k);
                if (sgn(got) != want) { FAIL("cmpn-own-prefix", "a_str_cmpn(s, a_str_ptr(s), %zu) sign %d expected %d (len %zu)", k, sgn(got), want, x->n); }
                got = a_str_cmp_(own, k, own, x->n);
                want = ref_cmp(x->m, k, x->m, x->n);
                if (sgn(got) != want) { FAIL("cmp_-own-prefix", "a_str_cmp_(p, %zu, p, %zu) sign %d expected %d", k, x->n, sgn(got), want); }
                got = a_str_cmp_(own + o, x->n - o, own, x->n);
                want = ref_cmp(x->m + o, x->n - o, x->m, x->n);
                if (sgn(got) != want) { FAIL("cmp_-own-suffix", "a_str_cmp_(p + %zu, %zu, p, %zu) sign %d expected %d", o, x->n - o, x->n, sgn(got), want); }
                if (cn < x->n || a_str_mem(s) > x->n) /* a terminator inside the capacity: the C-string view of the own storage */
                {
                    if (cn == x->n) { a_str_ptr(s)[x->n] = 0; } /* spare capacity behind the content: terminate there (allowed: outside the content) */
                    got = a_str_cmps(s, own);
                    want = ref_cmp(x->m, x->n, x->m, cn);
                    if (sgn(got) != want) { FAIL("cmps-own-storage", "a_str_cmps(s, a_str_ptr(s)) sign %d expected %d (len %zu, first NUL at %zu)", sgn(got), want, x->n, cn); }
                }
            }
            (void)ok;
            break;
        }
        default:
        {
            /* at / of */
            size_t mem = a_str_mem(s), idx = (size_t)vf_below(r, mem + 3);
            a_diff di = (a_diff)vf_range(r, -(int64_t)x->n - 2, (int64_t)x->n + 2);
            char *p = a_str_ptr(s);
            opname = "access";
            ++vf.evals;
            VF_COUNT("accessors");
            if (a_str_at(s, idx) != (idx < mem ? p + idx : NULL)) { FAIL("at", "at(%zu) with mem %zu", idx, mem); }
            {
                size_t eff = di >= 0 ? (size_t)di : (size_t)di + x->n;
                if (a_str_of(s, di) != (eff < mem ? p + eff : NULL)) { FAIL("of", "of(%td) with len %zu mem %zu", di, x->n, mem); }
            }
            (void)ok;
            break;
        }
        }
    }
    for (int k = 0; k < 2 && alive; ++k)
    {
        if (S[k].by_ctor)
        {
            a_str_dtor(S[k].s);
            if (a_str_ptr(S[k].s) || a_str_len(S[k].s) || a_str_mem(S[k].s)) { vf_viol("str_dtor/object-not-empty", "ptr %p len %zu mem %zu after a_str_dtor", (void *)a_str_ptr(S[k].s), a_str_len(S[k].s), a_str_mem(S[k].s)); }
            free(S[k].s);
        }
        else { a_str_die(S[k].s); }
    }
}
