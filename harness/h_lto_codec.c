/* C17 / C18 / C19, configuration "lto": library AND harness compiled -O3 -DNDEBUG -flto WITHOUT -fno-strict-aliasing and without a sanitizer
 * (-DVF_LTO=17|18|19), so that library routines are inlined into the callers below and the optimiser may use type-based alias analysis
 * across the former translation-unit boundary.
 *
 * Why: the byte-oriented routines take `void const *`; applications hand them objects of their own types (a frame header struct, an array
 * of samples, a packed word) that they have just written through typed lvalues.  ISO C lets a routine read those objects as bytes - and as
 * nothing else.  A routine that loads words through a cast pointer, or through a packed struct type that lacks may_alias, is correct as long
 * as the compiler cannot see both sides: across translation units, in every sanitised build (instrumentation pins the accesses), and for
 * unsigned char buffers.  Once it is inlined into a caller that wrote the data as a_u16 / float / a_u32 the stores may be treated as dead and the
 * result is computed over stale memory (seeded changes C17-K: word-at-a-time CRC; C19-K: single-load byte-order accessors).
 *
 * This file is written to be valid under strict aliasing: typed objects are written through their own type, copied out with memcpy for the
 * reference, and otherwise only handed to the library.  The references (bit-serial CRC, multiplicative hashes, UTF-8 by the table, shifts)
 * work on the byte copies. */
#ifndef VF_LTO
#error "compile with -DVF_LTO=17|18|19"
#endif
#if VF_LTO == 17
#define VF_PROP "C17"
#elif VF_LTO == 18
#define VF_PROP "C18"
#else
#define VF_PROP "C19"
#endif
#include "vf_common.h"
#include "a/a.h"
#include "a/crc.h"
#include "a/hash.h"
#include "a/utf.h"

#define NOINLINE __attribute__((noinline))
static char const *cur_ty = "";
static void bad(char const *fn, char const *clause, uint64_t got, uint64_t want, size_t n)
{
    char key[128];
    snprintf(key, sizeof key, "%s/%s/inlined-into-a-caller-that-wrote-typed-objects", fn, clause);
    vf_viol(key, "%s on %zu bytes of an object written through %s lvalues just before the call (LTO build, strict aliasing): got 0x%" PRIx64 ", reference over the same bytes 0x%" PRIx64, fn, n, cur_ty, got, want);
}

#if VF_LTO == 17
/* ---------------------------------------------------------------- references */
static uint64_t ref_crc(unsigned w, int lsb, uint64_t poly, unsigned char const *d, size_t n, uint64_t v)
{
    uint64_t const top = 1ULL << (w - 1), mask = w == 64 ? ~0ULL : (1ULL << w) - 1;
    if (lsb)
    {
        uint64_t rp = 0;
        for (unsigned i = 0; i < w; ++i) { if (poly >> i & 1) { rp |= 1ULL << (w - 1 - i); } }
        for (size_t i = 0; i < n; ++i)
        {
            v ^= d[i];
            for (int b = 0; b < 8; ++b) { v = (v & 1) ? (v >> 1) ^ rp : v >> 1; }
        }
        return v & mask;
    }
    for (size_t i = 0; i < n; ++i)
    {
        v ^= (uint64_t)d[i] << (w - 8);
        for (int b = 0; b < 8; ++b) { v = (v & top) ? ((v << 1) ^ poly) : (v << 1); }
        v &= mask;
    }
    return v & mask;
}
static uint32_t ref_hash(uint32_t mul, unsigned char const *d, size_t n, uint32_t v)
{
    for (size_t i = 0; i < n; ++i) { v = v * mul + d[i]; }
    return v;
}

/* ONE small caller per routine: the message is a LOCAL array of a non-character element type, its elements COMPUTED in place from a seed (a copy loop
   would become memcpy, which may alias anything), and then only handed to the routine - like an application function that fills a frame and returns its
   checksum.  One call site per routine in the whole program, because that is what makes the link-time inliner inline it for certain ("called once");
   with several call sites the unit-growth budget decides and the routine stays out of line (measured: four call sites of a_crc32l - not inlined, and a
   word-at-a-time variant reading stale memory goes unnoticed; one call site - inlined, noticed).  The dispatcher computes the same values into its own
   array and takes the reference over a byte copy of that. */
/* 32-bit arithmetic without a loop-carried dependence: the fill loop is vectorisable, and that is when gcc 12 was seen to drop stores it believes unread */
#define GEN(T, seed, i) ((T)(((unsigned)(seed) * 40503u + (i) * 2654435761u) >> 7))
#define NEL 24
#define SMALL_CRC(fn, TT, T) \
    static NOINLINE uint64_t call_##fn(TT const *tab, uint64_t seed, uint64_t init) { T m[NEL]; for (unsigned i = 0; i != NEL; ++i) { m[i] = GEN(T, seed, i); } return (uint64_t)fn(tab, m, sizeof(m), (TT)init); }
#define SMALL_HASH(fn, T) \
    static NOINLINE uint64_t call_##fn(uint64_t seed, uint64_t init) { T m[NEL]; for (unsigned i = 0; i != NEL; ++i) { m[i] = GEN(T, seed, i); } return (uint64_t)fn(m, sizeof(m), (a_u32)init); }
SMALL_CRC(a_crc8, a_u8, a_u16)
SMALL_CRC(a_crc16m, a_u16, a_u32)
SMALL_CRC(a_crc16l, a_u16, float)
SMALL_CRC(a_crc32m, a_u32, a_u16)
SMALL_CRC(a_crc32l, a_u32, a_u16)
SMALL_CRC(a_crc64m, a_u64, a_u32)
SMALL_CRC(a_crc64l, a_u64, float)
SMALL_HASH(a_hash_bkdr_, a_u16)
SMALL_HASH(a_hash_sdbm_, float)
#define CHECK1(name, ty, got, want, nbytes) do { uint64_t g_ = (got), e_ = (want); cur_ty = ty; ++vf.evals; VF_COUNT("lto-crc-hash-on-typed-objects"); if (g_ != e_) { bad(name, "ne-definition", g_, e_, nbytes); } } while (0)
/* every routine gets values of its own (sd): what a sibling caller left at the same stack offset must not be what this one would have stored */
#define BYTES(T, sd) do { T v_[NEL]; for (unsigned i = 0; i != NEL; ++i) { v_[i] = GEN(T, sd, i); } n = sizeof v_; memcpy(bytes, v_, n); } while (0)
static void one_case(vf_rng *r)
{
    for (int k = 0; k < 400; ++k)
    {
        unsigned char bytes[NEL * 8];
        size_t n;
        a_u8 t8[256]; a_u16 t16[256]; a_u32 t32[256]; a_u64 t64[256];
        a_u64 const poly = vf_u64(r) | 1, init = vf_u64(r), seed = vf_u64(r);
        vf_log("crc / hash routines inlined into their single caller: local typed arrays of %d elements, seed 0x%" PRIx64 " poly 0x%" PRIx64 " value 0x%" PRIx64, NEL, seed, poly, init);
        BYTES(a_u16, seed + 1);
        if (k & 1) { a_crc8m_init(t8, (a_u8)poly); } else { a_crc8l_init(t8, (a_u8)poly); }
        CHECK1("a_crc8", "a_u16", call_a_crc8(t8, seed + 1, init), ref_crc(8, !(k & 1), (a_u8)poly, bytes, n, (a_u8)init), n);
        BYTES(a_u16, seed + 2);
        a_crc32m_init(t32, (a_u32)poly); CHECK1("a_crc32m", "a_u16", call_a_crc32m(t32, seed + 2, init), ref_crc(32, 0, (a_u32)poly, bytes, n, (a_u32)init), n);
        BYTES(a_u16, seed + 3);
        a_crc32l_init(t32, (a_u32)poly); CHECK1("a_crc32l", "a_u16", call_a_crc32l(t32, seed + 3, init), ref_crc(32, 1, (a_u32)poly, bytes, n, (a_u32)init), n);
        BYTES(a_u16, seed + 4);
        CHECK1("a_hash_bkdr_", "a_u16", call_a_hash_bkdr_(seed + 4, init), ref_hash(131, bytes, n, (a_u32)init), n);
        BYTES(a_u32, seed + 5);
        a_crc16m_init(t16, (a_u16)poly); CHECK1("a_crc16m", "a_u32", call_a_crc16m(t16, seed + 5, init), ref_crc(16, 0, (a_u16)poly, bytes, n, (a_u16)init), n);
        BYTES(a_u32, seed + 6);
        a_crc64m_init(t64, poly); CHECK1("a_crc64m", "a_u32", call_a_crc64m(t64, seed + 6, init), ref_crc(64, 0, poly, bytes, n, init), n);
        BYTES(float, seed + 7);
        a_crc16l_init(t16, (a_u16)poly); CHECK1("a_crc16l", "float", call_a_crc16l(t16, seed + 7, init), ref_crc(16, 1, (a_u16)poly, bytes, n, (a_u16)init), n);
        BYTES(float, seed + 8);
        a_crc64l_init(t64, poly); CHECK1("a_crc64l", "float", call_a_crc64l(t64, seed + 8, init), ref_crc(64, 1, poly, bytes, n, init), n);
        BYTES(float, seed + 9);
        CHECK1("a_hash_sdbm_", "float", call_a_hash_sdbm_(seed + 9, init), ref_hash(65599, bytes, n, (a_u32)init), n);
    }
}

#elif VF_LTO == 18
/* UTF-8 text kept in typed storage: encode into / decode from arrays the caller accesses through a_u16 / a_u32 lvalues */
static unsigned ref_len(a_u32 c) { return c < 0x80 ? 1 : c < 0x800 ? 2 : c < 0x10000 ? 3 : c < 0x200000 ? 4 : c < 0x4000000 ? 5 : 6; }
static void ref_enc(a_u32 c, unsigned L, unsigned char *o)
{
    static unsigned char const lead[7] = {0, 0, 0xC0, 0xE0, 0xF0, 0xF8, 0xFC};
    if (L == 1) { o[0] = (unsigned char)c; return; }
    for (unsigned i = L - 1; i > 0; --i) { o[i] = (unsigned char)(0x80 | (c & 0x3F)); c >>= 6; }
    o[0] = (unsigned char)(lead[L] | c);
}
#define UCALLER(T, tname)                                                                                                    \
    static void ucaller_##tname(vf_rng *r)                                                                                   \
    {                                                                                                                        \
        T cell[4];                                                                                                           \
        unsigned char enc[8], bytes[sizeof cell];                                                                            \
        static a_u32 const top[6] = {0x80, 0x800, 0x10000, 0x200000, 0x4000000, 0x80000000u};                                \
        a_u32 const c = 1 + (a_u32)vf_below(r, top[vf_below(r, 6)] - 1);                                                     \
        unsigned const L = ref_len(c);                                                                                       \
        a_u32 v = 0;                                                                                                         \
        unsigned k;                                                                                                          \
        cur_ty = #T;                                                                                                         \
        ref_enc(c, L, enc);                                                                                                  \
        memset(bytes, 0, sizeof bytes);                                                                                      \
        memcpy(bytes, enc, L);                                                                                               \
        for (size_t i = 0; i < 4; ++i) { T t; memcpy(&t, bytes + i * sizeof(T), sizeof(T)); cell[i] = t; } /* typed stores */ \
        vf_log("a_utf_decode / a_utf_length on U+%" PRIX32 " held in a local %s[4]", c, #T);                                  \
        k = a_utf_decode(cell, L, &v);                                                                                       \
        if (k != L || v != c) { bad("a_utf_decode", "roundtrip", ((uint64_t)k << 32) | v, ((uint64_t)L << 32) | c, L); }       \
        { a_size stop = 0, cnt = a_utf_length(cell, sizeof cell, &stop); if (cnt != 1 || stop != L) { bad("a_utf_length", "count-and-stop", ((uint64_t)cnt << 32) | stop, (1ULL << 32) | L, L); } } \
        for (size_t i = 0; i < 4; ++i) { cell[i] = (T)0x5A5A5A5A5A5A5A5AULL; }                                               \
        k = a_utf_encode(c, cell);                                                                                           \
        memcpy(bytes, cell, sizeof bytes);                                                                                   \
        if (k != L || memcmp(bytes, enc, L)) { bad("a_utf_encode", "bytes-in-typed-storage", k, L, L); }                      \
        { T first = cell[0], want; memcpy(&want, bytes, sizeof(T)); if (first != want) { bad("a_utf_encode", "typed-read-after-encode", (uint64_t)first, (uint64_t)want, L); } } \
        vf.evals += 4;                                                                                                       \
        VF_ADD("lto-utf-on-typed-objects", 4);                                                                               \
    }
UCALLER(a_u16, u16)
UCALLER(a_u32, u32)
UCALLER(a_u64, u64)
static void one_case(vf_rng *r)
{
    for (int k = 0; k < 400; ++k) { ucaller_u16(r); ucaller_u32(r); ucaller_u64(r); }
}

#else
/* byte-order accessors on storage of non-character type that the caller also accesses through its own type in the same function */
typedef struct { a_u32 w[2]; } pair32;
typedef struct { a_u16 h[4]; } quad16;
/* patterns in which the optimiser has a reason to forward or reorder if it believes the accessor cannot touch the caller's object:
   (1) accessor store, typed stores, accessor load  (2) accessor load, typed stores, accessor load  (3) typed store, accessor store, typed load
   (4) typed stores, accessor load */
static NOINLINE a_u64 p_join_l(pair32 *p, a_u32 lo, a_u32 hi) { a_u64_setl(p->w, 0); p->w[0] = lo; p->w[1] = hi; return a_u64_getl(p->w); }
static NOINLINE a_u64 p_join_b(pair32 *p, a_u32 lo, a_u32 hi) { a_u64_setb(p->w, 0); p->w[0] = lo; p->w[1] = hi; return a_u64_getb(p->w); }
static NOINLINE a_u64 p_delta_l(pair32 *p, a_u32 lo, a_u32 hi) { a_u64 const old = a_u64_getl(p->w); p->w[0] = lo; p->w[1] = hi; return old ^ a_u64_getl(p->w); }
static NOINLINE a_u64 p_delta_b(pair32 *p, a_u32 lo, a_u32 hi) { a_u64 const old = a_u64_getb(p->w); p->w[0] = lo; p->w[1] = hi; return old ^ a_u64_getb(p->w); }
static NOINLINE a_u32 p_split_l0(pair32 *p, a_u64 x) { p->w[0] = 0; a_u64_setl(p->w, x); return p->w[0]; }
static NOINLINE a_u32 p_split_l1(pair32 *p, a_u64 x) { p->w[1] = 0; a_u64_setl(p->w, x); return p->w[1]; }
static NOINLINE a_u32 p_split_b0(pair32 *p, a_u64 x) { p->w[0] = 0; a_u64_setb(p->w, x); return p->w[0]; }
static NOINLINE a_u32 p_split_b1(pair32 *p, a_u64 x) { p->w[1] = 0; a_u64_setb(p->w, x); return p->w[1]; }
static NOINLINE a_u64 p_plain_l(pair32 *p, a_u32 lo, a_u32 hi) { p->w[0] = lo; p->w[1] = hi; return a_u64_getl(p->w); }
static NOINLINE a_u64 p_plain_b(pair32 *p, a_u32 lo, a_u32 hi) { p->w[0] = lo; p->w[1] = hi; return a_u64_getb(p->w); }
static NOINLINE a_u32 q_join_l(quad16 *q, a_u16 a, a_u16 b) { a_u32_setl(q->h, 0); q->h[0] = a; q->h[1] = b; return a_u32_getl(q->h); }
static NOINLINE a_u32 q_join_b(quad16 *q, a_u16 a, a_u16 b) { a_u32_setb(q->h, 0); q->h[0] = a; q->h[1] = b; return a_u32_getb(q->h); }
static NOINLINE a_u32 q_delta_l(quad16 *q, a_u16 a, a_u16 b) { a_u32 const old = a_u32_getl(q->h); q->h[0] = a; q->h[1] = b; return old ^ a_u32_getl(q->h); }
static NOINLINE a_u16 q_split_l1(quad16 *q, a_u32 x) { q->h[1] = 0; a_u32_setl(q->h, x); return q->h[1]; }
static NOINLINE a_u16 q_split_b0(quad16 *q, a_u32 x) { q->h[0] = 0; a_u32_setb(q->h, x); return q->h[0]; }
static NOINLINE a_u32 w_poke16_b(a_u32 *word, a_u16 x) { *word = 0; a_u16_setb(word, x); return *word; }
static NOINLINE a_u32 w_poke16_l(a_u32 *word, a_u16 x) { *word = 0; a_u16_setl(word, x); return *word; }
static NOINLINE a_u32 w_peek16(a_u32 *word, a_u32 x) { a_u16 const old = a_u16_getl(word); *word = x; return (a_u32)(old ^ a_u16_getl(word)); }
static NOINLINE a_u64 d_getl(double *d, double x) { a_u64_setl(d, 0); *d = x; return a_u64_getl(d); }
static NOINLINE double d_setl_then_read(double *d, a_u64 x) { *d = 1.5; a_u64_setl(d, x); return *d; }
/* accessors of DIFFERENT widths on the same untyped bytes (a malloc'ed block reached through a pointer), nothing of the caller's own type in between: if the accessors themselves
   go through typed lvalues of their width, the optimiser may treat the 32-bit stores and the 64-bit load as unrelated (seeded change C19-N) */
static NOINLINE a_u64 m_join_l(unsigned char *b, a_u32 lo, a_u32 hi) { a_u64_setl(b, 0); a_u32_setl(b, lo); a_u32_setl(b + 4, hi); return a_u64_getl(b); }
static NOINLINE a_u64 m_join_b(unsigned char *b, a_u32 lo, a_u32 hi) { a_u64_setb(b, 0); a_u32_setb(b, hi); a_u32_setb(b + 4, lo); return a_u64_getb(b); }
static NOINLINE a_u32 m_join16_b(unsigned char *b, a_u16 a, a_u16 c) { a_u32_setb(b, 0); a_u16_setb(b, a); a_u16_setb(b + 2, c); return a_u32_getb(b); }
static NOINLINE a_u32 m_join16_l(unsigned char *b, a_u16 a, a_u16 c) { a_u32_setl(b, 0xFFFFFFFFu); a_u16_setl(b, a); a_u16_setl(b + 2, c); return a_u32_getl(b); }
static NOINLINE a_u32 m_split_l(unsigned char *b, a_u64 x) { a_u32_setl(b + 4, 0); a_u64_setl(b, x); return a_u32_getl(b + 4); }
static NOINLINE a_u64 m_loop_l(unsigned char *b, unsigned n) { a_u64 acc = 0; for (unsigned i = 0; i < n; ++i) { a_u32_setl(b, (a_u32)i); a_u32_setl(b + 4, (a_u32)~i); acc ^= a_u64_getl(b); } return acc; }
static a_u64 bswap64(a_u64 x) { a_u64 y = 0; for (int i = 0; i < 8; ++i) { y = (y << 8) | (x >> (8 * i) & 0xFF); } return y; }
static a_u32 bswap32(a_u32 x) { return (x >> 24) | (x >> 8 & 0xFF00) | (x << 8 & 0xFF0000) | (x << 24); }
static a_u16 bswap16(a_u16 x) { return (a_u16)((x >> 8) | (x << 8)); }
#define EXPECT(fn, got, want) do { uint64_t g_ = (uint64_t)(got), w_ = (uint64_t)(want); ++vf.evals; VF_COUNT("lto-accessors-on-typed-objects"); if (g_ != w_) { bad(fn, "stale-or-wrong-value", g_, w_, 8); } } while (0)
static void one_case(vf_rng *r)
{
    /* this host is little-endian (asserted by the main C19 harness through explicit byte arrays): the typed value of the storage after a
       little-endian store is the value itself, after a big-endian store its byte swap */
    for (int k = 0; k < 2000; ++k)
    {
        pair32 p; quad16 q; double d; a_u32 word;
        a_u64 const x = vf_u64(r), y = vf_u64(r);
        a_u32 const lo = (a_u32)x, hi = (a_u32)(x >> 32);
        a_u16 const a = (a_u16)y, b = (a_u16)(y >> 16);
        vf_log("byte-order accessors on typed storage, x=0x%" PRIx64 " y=0x%" PRIx64, x, y);
        cur_ty = "a_u32[2] in a struct";
        EXPECT("a_u64_setl+getl", p_join_l(&p, lo, hi), x);
        EXPECT("a_u64_setb+getb", p_join_b(&p, lo, hi), bswap64(x));
        p.w[0] = (a_u32)y; p.w[1] = (a_u32)(y >> 32);
        EXPECT("a_u64_getl", p_delta_l(&p, lo, hi), y ^ x);
        p.w[0] = (a_u32)y; p.w[1] = (a_u32)(y >> 32);
        EXPECT("a_u64_getb", p_delta_b(&p, lo, hi), bswap64(y) ^ bswap64(x));
        EXPECT("a_u64_setl", p_split_l0(&p, x), lo);
        EXPECT("a_u64_setl", p_split_l1(&p, x), hi);
        EXPECT("a_u64_setb", p_split_b0(&p, x), bswap32(hi));
        EXPECT("a_u64_setb", p_split_b1(&p, x), bswap32(lo));
        EXPECT("a_u64_getl", p_plain_l(&p, lo, hi), x);
        EXPECT("a_u64_getb", p_plain_b(&p, lo, hi), bswap64(x));
        cur_ty = "a_u16[4] in a struct";
        EXPECT("a_u32_setl+getl", q_join_l(&q, a, b), (a_u32)a | (a_u32)b << 16);
        EXPECT("a_u32_setb+getb", q_join_b(&q, a, b), bswap32((a_u32)a | (a_u32)b << 16));
        q.h[0] = (a_u16)lo; q.h[1] = (a_u16)(lo >> 16);
        EXPECT("a_u32_getl", q_delta_l(&q, a, b), lo ^ ((a_u32)a | (a_u32)b << 16));
        EXPECT("a_u32_setl", q_split_l1(&q, lo), (a_u16)(lo >> 16));
        EXPECT("a_u32_setb", q_split_b0(&q, lo), bswap16((a_u16)(lo >> 16)));
        cur_ty = "a_u32";
        EXPECT("a_u16_setb", w_poke16_b(&word, a), (a_u32)bswap16(a));
        EXPECT("a_u16_setl", w_poke16_l(&word, a), (a_u32)a);
        word = hi;
        EXPECT("a_u16_getl", w_peek16(&word, lo), (a_u32)((a_u16)hi ^ (a_u16)lo));
        cur_ty = "malloc'ed bytes, accessors of two widths";
        {
            unsigned const off = (unsigned)(y >> 40) & 7, n = 1 + ((unsigned)(y >> 48) & 7);
            unsigned char *const blk = (unsigned char *)malloc(off + 8);
            a_u64 acc = 0;
            EXPECT("a_u64_setl+a_u32_setl+a_u64_getl", m_join_l(blk + off, lo, hi), x);
            EXPECT("a_u64_setb+a_u32_setb+a_u64_getb", m_join_b(blk + off, lo, hi), x);
            EXPECT("a_u32_setb+a_u16_setb+a_u32_getb", m_join16_b(blk + off, a, b), (a_u32)a << 16 | b);
            EXPECT("a_u32_setl+a_u16_setl+a_u32_getl", m_join16_l(blk + off, a, b), (a_u32)a | (a_u32)b << 16);
            EXPECT("a_u32_setl+a_u64_setl+a_u32_getl", m_split_l(blk + off, x), hi);
            for (unsigned i = 0; i < n; ++i) { acc ^= (a_u64)i | (a_u64)(a_u32)~i << 32; }
            EXPECT("a_u32_setl+a_u64_getl in a loop", m_loop_l(blk + off, n), acc);
            free(blk);
        }
        cur_ty = "double";
        {
            double const xv = vf_uniform(r, -1e9, 1e9);
            a_u64 bits, bb; double back;
            memcpy(&bits, &xv, 8);
            EXPECT("a_u64_getl", d_getl(&d, xv), bits);
            back = d_setl_then_read(&d, bits);
            memcpy(&bb, &back, 8);
            EXPECT("a_u64_setl", bb, bits);
        }
    }
}
#endif

static uint64_t vf_ncases(int tier) { return tier ? 64 : 8; }
static void vf_case(uint64_t c, vf_rng *r)
{
    (void)c;
    one_case(r);
    vf_distinct(vf_hash64(0x170, c & 3));
    vf_distinct(vf_hash64(0x171, c & 1));
}
