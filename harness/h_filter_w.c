/* C16, other real widths (A_SIZE_REAL = 4 float, 16 long double): a compact, type-generic companion of h_filter.c,
 * which itself assumes a_real == double.  Same clauses, smaller workload: the transfer function against a one-step
 * __float128 oracle on the library's own history, state zero after init/zero/set_num/set_den on garbage-filled
 * EXACT-SIZE delay lines (a clear of the wrong byte count is either an ASan report or a non-zero cell), delay lines most
 * recent first, first-order low/high-pass one-step oracle, coefficient generators inside [0,1].
 * Proof bound for a sum of n products in the working type: (n+2) * eps * sum|terms|.
 */
#define VF_PROP "C16"
#include "vf_common.h"
#include "a/tf.h"
#include "a/lpf.h"
#include "a/hpf.h"
#include <quadmath.h>
#include <math.h>
typedef __float128 q_t;
#define EPS ((q_t)A_REAL_EPSILON)
#if A_REAL_TYPE + 0 == A_REAL_SINGLE
#define W "f32"
#elif A_REAL_TYPE + 0 == A_REAL_EXTEND
#define W "f80"
#else
#define W "f64"
#endif

static a_real *garbage(size_t n)
{
    a_real *p = (a_real *)malloc(n * sizeof(a_real) ? n * sizeof(a_real) : 1); /* exact size */
    memset(p, 0x7B, n * sizeof(a_real));
    return p;
}
static int all_zero(a_real const *p, size_t n)
{
    for (size_t i = 0; i < n; ++i)
    {
        if (p[i] != 0) { return 0; }
    }
    return 1;
}

static uint64_t vf_nbase(int tier) { return tier ? 20000 : 800; }
/* the last tenth: exact cancellation class (cancel_case) */
static uint64_t vf_ncases(int tier) { return vf_nbase(tier) + vf_nbase(tier) / 10; }

static void tf_case(uint64_t c, vf_rng *r)
{
    unsigned const nn = (unsigned)(c % 6), dn = (unsigned)(c / 6 % 6);
    a_real *num = garbage(nn), *den = garbage(dn), *in = garbage(nn), *out = garbage(dn);
    a_real hx[64], hy[64];
    a_tf tf;
    int L = 8 + (int)vf_below(r, 40), k;
    for (unsigned i = 0; i < nn; ++i) { num[i] = (a_real)vf_range(r, -8, 8) / 4; }
    for (unsigned i = 0; i < dn; ++i) { den[i] = (a_real)vf_range(r, -3, 3) / (a_real)(4 * (dn ? dn : 1)); }
    vf_log("tf[" W "] num_n=%u den_n=%u, %d steps", nn, dn, L);
    a_tf_init(&tf, nn, num, in, dn, den, out);
    VF_COUNT("w-tf-init-zero-state");
    ++vf.evals;
    if (!all_zero(in, nn) || !all_zero(out, dn)) { vf_viol("tf_init/state-not-zero/" W, "after a_tf_init on garbage-filled delay lines (num_n=%u den_n=%u) a history cell is non-zero", nn, dn); goto done; }
    for (k = 0; k < L; ++k)
    {
        a_real x = (a_real)vf_range(r, -50, 50), y;
        q_t ref = 0, mag = 0, tol;
        for (unsigned i = 0; i < nn; ++i)
        {
            q_t xi = i == 0 ? (q_t)x : (k - (int)i >= 0 ? (q_t)hx[k - (int)i] : 0);
            ref += (q_t)num[i] * xi;
            mag += fabsq((q_t)num[i] * xi);
        }
        for (unsigned i = 0; i < dn; ++i)
        {
            q_t yi = k - 1 - (int)i >= 0 ? (q_t)hy[k - 1 - (int)i] : 0;
            ref -= (q_t)den[i] * yi;
            mag += fabsq((q_t)den[i] * yi);
        }
        y = a_tf_iter(&tf, x);
        hx[k] = x;
        hy[k] = y;
        ++vf.evals;
        VF_COUNT("w-tf-one-step-oracle");
        tol = (q_t)(nn + dn + 2) * EPS * mag;
        if (!(fabsq((q_t)y - ref) <= tol))
        {
            vf_viol("tf_iter/output-ne-difference-equation/" W, "step %d (num_n=%u den_n=%u): out %.12Lg, reference %.12Lg", k, nn, dn, (long double)y, (long double)ref);
            goto done;
        }
        VF_COUNT("w-tf-delay-lines");
        for (unsigned i = 0; i < nn; ++i)
        {
            a_real want = k - (int)i >= 0 ? hx[k - (int)i] : 0;
            if (in[i] != want) { vf_viol("tf_iter/delay-line-not-most-recent-first/" W, "input line cell %u after step %d", i, k); goto done; }
        }
        for (unsigned i = 0; i < dn; ++i)
        {
            a_real want = k - (int)i >= 0 ? hy[k - (int)i] : 0;
            if (out[i] != want) { vf_viol("tf_iter/delay-line-not-most-recent-first/" W, "output line cell %u after step %d", i, k); goto done; }
        }
        if (k == L / 2 && vf_chance(r, 1, 2))
        {
            /* re-configuration with a fresh, garbage-filled, exact-size line: it must come back zeroed */
            if (vf_chance(r, 1, 2))
            {
                a_real *in2 = garbage(nn);
                a_tf_set_num(&tf, nn, num, in2);
                VF_COUNT("w-tf-set-zeroes-new-line");
                if (!all_zero(in2, nn)) { vf_viol("tf_set_num/new-input-line-not-zeroed/" W, "num_n=%u", nn); free(in2); goto done; }
                free(in);
                in = in2;
                for (int j = 0; j <= k; ++j) { hx[j] = 0; }
            }
            else
            {
                a_real *out2 = garbage(dn);
                a_tf_set_den(&tf, dn, den, out2);
                VF_COUNT("w-tf-set-zeroes-new-line");
                if (!all_zero(out2, dn)) { vf_viol("tf_set_den/new-output-line-not-zeroed/" W, "den_n=%u", dn); free(out2); goto done; }
                free(out);
                out = out2;
                for (int j = 0; j <= k; ++j) { hy[j] = 0; }
            }
        }
    }
    a_tf_zero(&tf);
    VF_COUNT("w-tf-zero-restores-initial-state");
    if (!all_zero(in, nn) || !all_zero(out, dn)) { vf_viol("tf_zero/state-not-initial/" W, "a history cell is non-zero after a_tf_zero (num_n=%u den_n=%u)", nn, dn); }
    vf_distinct(vf_hash64(vf_hash64(11, nn), dn));
    if (vf_want_sample() && c % 97 == 0) { vf_sample("tf[" W "] num_n=%u den_n=%u: init/zero/set_* leave exact-size garbage-filled lines zeroed; %d steps within (n+2)*eps*sum|terms| of the quad one-step reference", nn, dn, L); }
done:
    free(num); free(den); free(in); free(out);
}

/* ---------------------------------------------------------------- exact cancellation class (see h_filter.c for the full argument)
   Integer coefficients in -3..3, integer inputs times a common 2^e.  A step is accepted only if the positive terms sum to
   P <= 2^p and the negative ones to |N| <= 2^p (p = A_REAL_MANT_DIG: 24 float, 64 x87 long double; evaluated in __int128 on
   the integer model).  Every partial sum of every summation order is a subset sum of the terms (or its negative), i.e. an
   integer of magnitude <= 2^p, i.e. exactly representable in the working type (and in any wider one), products included;
   2^e is restricted so that the grid unit 2^e is normal (>= A_REAL_MIN: nothing is ever subnormal) and 2^(e+p+3) finite.  Hence every correct implementation returns the
   model's value exactly.  The input of the cancelling step is solved so that the output is d = +-1..8 grid units while
   max(P,|N|) lies in (2^(p-1), 2^p]:  d = 1 gives |y| < sum|terms| * eps/2 (counted, required), a deviation there is below
   every (n+2)*eps*sum|terms| tolerance of the one-step oracle above. */
typedef __int128 i128;
#define CX_P A_REAL_MANT_DIG
#define CX_MAXL 12u
typedef struct
{
    unsigned nn, nd, L, kc; /* orders, history length, first solved (cancelling) step */
    int num[4], den[3];
    i128 x[CX_MAXL], y[CX_MAXL], P[CX_MAXL], N[CX_MAXL]; /* integer model; P/N = sum of the positive / negative terms of step j */
} cx_t;

static inline i128 cx_abs(i128 v) { return v < 0 ? -v : v; }
static void cx_terms(cx_t const *c, unsigned j, unsigned i0, i128 *P, i128 *N)
{
    i128 p = 0, n = 0, t;
    unsigned i;
    for (i = i0; i < c->nn; ++i)
    {
        if (j >= i)
        {
            t = (i128)c->num[i] * c->x[j - i];
            if (t > 0) { p += t; }
            else { n += t; }
        }
    }
    for (i = 0; i < c->nd; ++i)
    {
        if (j >= 1 + i)
        {
            t = -((i128)c->den[i] * c->y[j - 1 - i]);
            if (t > 0) { p += t; }
            else { n += t; }
        }
    }
    *P = p;
    *N = n;
}
static int cx_ok(cx_t *c, unsigned j, int p)
{
    i128 const lim = (i128)1 << p;
    cx_terms(c, j, 0, &c->P[j], &c->N[j]);
    c->y[j] = c->P[j] + c->N[j];
    return cx_abs(c->x[j]) <= lim && c->P[j] <= lim && -c->N[j] <= lim;
}
static int cx_below_half_ulp(cx_t const *c, unsigned j, int p)
{
    /* P + |N| <= 2^(p+1): only |y| = 1 can satisfy it (the test on |y| also keeps the shift inside __int128) */
    return c->y[j] != 0 && cx_abs(c->y[j]) < 4 && (cx_abs(c->y[j]) << p) < c->P[j] - c->N[j];
}
static void cx_solve(vf_rng *r, cx_t *c, unsigned j)
{
    i128 P, N, rest, d;
    int a0 = abs(c->num[0]), t;
    cx_terms(c, j, 1, &P, &N);
    rest = P + N;
    d = vf_chance(r, 5, 8) ? 1 : vf_chance(r, 1, 2) ? (i128)vf_range(r, 2, 3) : (i128)vf_range(r, 4, 8);
    if (vf_chance(r, 1, 2)) { d = -d; }
    for (t = 0; t < a0 && (d - rest) % a0 != 0; ++t) { d += d > 0 ? 1 : -1; } /* a0 consecutive values: one is divisible */
    c->x[j] = (d - rest) / c->num[0];
}
static int cx_gen(vf_rng *r, cx_t *c, int p)
{
    int const sb = p >= 53 ? 12 : 3, nb = p >= 53 ? 8 : 1; /* shape amplitude 2^sb, perturbation amplitude 2^nb */
    i128 const half = (i128)1 << (p - 1);
    i128 xs[CX_MAXL], P0, N0, M0, Pt, m;
    unsigned i, j, more;
    int noisy = (int)vf_below(r, 2), cls = (int)vf_below(r, 4);
    memset(c, 0, sizeof *c);
    if (vf_chance(r, 1, 8))
    { /* the simplest instance, an accumulator: y[k] = x[k] + y[k-1];  x = A, d - A */
        c->nn = c->nd = 1;
        c->num[0] = 1;
        c->den[0] = -1;
    }
    else
    {
        c->nn = 1 + (unsigned)vf_below(r, 4);
        c->nd = 1 + (unsigned)vf_below(r, 3);
        c->num[0] = vf_chance(r, 3, 4) ? 1 : (int)vf_range(r, 2, 3);
        if (vf_chance(r, 1, 2)) { c->num[0] = -c->num[0]; }
        for (i = 1; i < c->nn; ++i) { c->num[i] = (int)vf_range(r, -3, 3); }
        for (i = 0; i < c->nd; ++i) { c->den[i] = (int)vf_range(r, -3, 3); }
    }
    c->kc = 1 + (unsigned)vf_below(r, 6);
    for (j = 0; j < c->kc; ++j)
    {
        i128 A = (i128)1 << sb;
        xs[j] = cls == 0 ? (j == 0 ? A : 0) : cls == 1 ? A : (i128)vf_range(r, -(int64_t)A, (int64_t)A);
        c->x[j] = xs[j];
        (void)cx_ok(c, j, 120); /* shape: far below any limit, fills y */
    }
    cx_terms(c, c->kc, 1, &P0, &N0);
    M0 = P0 > -N0 ? P0 : -N0;
    if (M0 == 0) { return 0; }
    switch (vf_below(r, 5))
    {
    case 0: Pt = half + 1 + (i128)vf_below(r, 1024); break; /* sum|terms| just above 2^p */
    case 1: Pt = 2 * half - (i128)vf_below(r, 1024); break; /* just below the exactness limit */
    default: Pt = half + 1 + (i128)vf_below(r, (uint64_t)1 << (p > 60 ? 60 : p - 1)) * (p > 60 ? 8 : 1); break;
    }
    m = Pt < half + 2048 ? (Pt + M0 - 1) / M0 : Pt / M0; /* lower edge: round up, m*M0 in [Pt, Pt+M0); otherwise down, m*M0 in (Pt-M0, Pt] */
    if (m == 0) { return 0; }
    for (j = 0; j < c->kc; ++j)
    {
        c->x[j] = m * xs[j] + (noisy ? (i128)vf_range(r, -(1 << nb), 1 << nb) : 0);
        if (!cx_ok(c, j, p)) { return 0; }
    }
    cx_solve(r, c, c->kc);
    if (!cx_ok(c, c->kc, p)) { return 0; }
    c->L = c->kc + 1;
    more = 1 + (unsigned)vf_below(r, 4);
    for (j = c->kc + 1; j <= c->kc + more && j < CX_MAXL; ++j)
    {
        switch (vf_below(r, 6))
        {
        case 0: case 1: case 2: cx_solve(r, c, j); break;
        case 3: c->x[j] = (i128)vf_range(r, -(4 << nb), 4 << nb); break;
        case 4: c->x[j] = c->x[j - 1]; break;
        default: c->x[j] = -c->x[j - 1]; break;
        }
        if (!cx_ok(c, j, p)) { break; }
        c->L = j + 1;
    }
    return 1;
}
static unsigned cx_rerun(cx_t *c, i128 const *x, unsigned L, int p)
{
    unsigned j;
    for (j = 0; j < L; ++j)
    {
        c->x[j] = x[j];
        if (!cx_ok(c, j, p)) { break; }
    }
    return j;
}
/* v * 2^e in the working type: |v| <= 2^64 is exact in long double (64-bit significand), ldexpl is exact, the final
   conversion is exact because v has at most p significant bits and the exponent is in range */
static a_real cx_real(i128 v, int e) { return (a_real)ldexpl((long double)v, e); }

/* runs the library on the model's inputs (garbage-filled exact-size lines); returns 0 after a violation */
static int cx_run(cx_t const *c, unsigned L, int e, a_real *y, char const *what)
{
    a_real *num = garbage(c->nn), *den = garbage(c->nd), *in = garbage(c->nn), *out = garbage(c->nd);
    a_tf tf;
    unsigned i, k;
    int ok = 1, seen = 0;
    for (i = 0; i < c->nn; ++i) { num[i] = (a_real)c->num[i]; }
    for (i = 0; i < c->nd; ++i) { den[i] = (a_real)c->den[i]; }
    a_tf_init(&tf, c->nn, num, in, c->nd, den, out);
    for (k = 0; k < L && ok; ++k)
    {
        a_real x = cx_real(c->x[k], e), ref = cx_real(c->y[k], e);
        if (k < 8) { vf_log("tf[" W "] %s a_tf_iter(%La)", what, (long double)x); }
        y[k] = a_tf_iter(&tf, x);
        ++vf.evals;
        if (c->y[k] != 0 && (cx_abs(c->y[k]) << (CX_P - 13)) < c->P[k] - c->N[k]) { seen = 1; } /* cancellation by more than p-13 bits so far */
        if (!(y[k] == ref))
        {
            vf_viol(seen ? "tf_iter/exact-cancellation-result-not-exact/" W : "tf_iter/output-ne-difference-equation/exact/" W,
                    "%s, step %u of %u (num_n=%u den_n=%u num[0]=%d den[0]=%d scale 2^%d): a_tf_iter returned %La, the exact integer recurrence gives %La = %lld grid units; "
                    "positive terms sum to %Lg, negative terms to %Lg grid units (every subset sum is an integer of magnitude <= 2^%d: every summation order is exact)",
                    what, k, L, c->nn, c->nd, c->num[0], c->den[0], e, (long double)y[k], (long double)ref, (long long)c->y[k], (long double)c->P[k], (long double)c->N[k], CX_P);
            ok = 0;
        }
    }
    free(num); free(den); free(in); free(out);
    return ok;
}

static void cancel_case(vf_rng *r)
{
    static int const SCALES[] = {0, 0, -40, 60, -90, 200, -900, 8000, -16000};
    int const p = CX_P, elo = A_REAL_MIN_EXP - 1, ehi = A_REAL_MAX_EXP - 1 - p - 3; /* grid unit 2^e >= A_REAL_MIN (normal), 2^(e+p+3) finite */
    cx_t c, cv, cw;
    a_real yu[CX_MAXL], yv[CX_MAXL], yw[CX_MAXL];
    static int sampled;
    unsigned k, L, tries, hits = 0;
    int e;
    for (tries = 0; tries < 8 && !cx_gen(r, &c, p); ++tries) { VF_COUNT("w-tf-exact-cancellation-draw-rejected"); }
    if (tries == 8) { VF_COUNT("w-tf-exact-cancellation-no-history"); return; }
    e = vf_chance(r, 1, 4) ? (int)vf_range(r, elo, ehi) : vf_chance(r, 1, 4) ? (vf_chance(r, 1, 2) ? elo : ehi) : SCALES[vf_below(r, sizeof SCALES / sizeof *SCALES)];
    if (e < elo || e > ehi) { e = (int)vf_range(r, elo, ehi); } /* scale outside this type's range: a random admissible one */
    L = c.L;
    for (k = 0; k < L; ++k) { hits += (unsigned)cx_below_half_ulp(&c, k, p); }
    vf_log("tf[" W "] exact cancellation: num_n=%u den_n=%u, %u steps, first solved step %u, scale 2^%d", c.nn, c.nd, L, c.kc, e);
    VF_ADD("w-tf-exact-cancellation-bitwise", L);
    VF_ADD("w-tf-exact-cancellation-below-half-ulp-of-term-sum", hits);
    if (!cx_run(&c, L, e, yu, "run u")) { return; }
    vf_distinct(vf_hash64(vf_hash64(13, c.nn), c.nd));
    {
        /* superposition w = a*u + b*v with v small or v = -u + small, when the three runs stay exact (see h_filter.c) */
        i128 xv[CX_MAXL], xw[CX_MAXL];
        int a = vf_chance(r, 1, 2) ? 1 : -1, b, kind = (int)vf_below(r, 2), sm = p >= 53 ? 1024 : 4;
        unsigned Lv, Lw, L2;
        if (kind == 0) { do { b = (int)vf_range(r, -4, 4); } while (b == 0); }
        else { b = a; }
        for (k = 0; k < L; ++k)
        {
            i128 small = vf_chance(r, 1, 3) ? 0 : (i128)vf_range(r, -sm, sm);
            xv[k] = kind == 0 ? small : -c.x[k] + small;
            xw[k] = a * c.x[k] + b * xv[k];
        }
        cv = c;
        cw = c;
        Lv = cx_rerun(&cv, xv, L, p);
        Lw = cx_rerun(&cw, xw, L, p);
        L2 = Lv < Lw ? Lv : Lw;
        if (L2 <= c.kc) { VF_COUNT("w-tf-exact-cancellation-superposition-not-exact-skipped"); return; }
        for (hits = 0, k = 0; k < L2; ++k) { hits += (unsigned)cx_below_half_ulp(&cv, k, p) + (unsigned)cx_below_half_ulp(&cw, k, p); }
        VF_ADD("w-tf-exact-cancellation-bitwise", 2 * L2);
        VF_ADD("w-tf-exact-cancellation-below-half-ulp-of-term-sum", hits);
        if (!cx_run(&cv, L2, e, yv, "run v") || !cx_run(&cw, L2, e, yw, "run a*u+b*v")) { return; }
        VF_ADD("w-tf-exact-cancellation-superposition", L2);
        for (k = 0; k < L2; ++k)
        {
            q_t rhs = (q_t)a * (q_t)yu[k] + (q_t)b * (q_t)yv[k]; /* binary128: integers of at most p+3 bits times 2^e, exact */
            if (!((q_t)yw[k] == rhs))
            {
                vf_viol("tf/superposition/exact-cancellation/" W, "step %u (num_n=%u den_n=%u): resp(%d*u+%d*v)=%La but %d*resp(u)+%d*resp(v)=%La (resp(u)=%La resp(v)=%La)", k, c.nn, c.nd, a, b,
                        (long double)yw[k], a, b, (long double)rhs, (long double)yu[k], (long double)yv[k]);
                return;
            }
        }
    }
    if (vf_want_sample() && !sampled && c.nn >= 2 && cx_below_half_ulp(&c, c.kc, p))
    {
        sampled = 1, vf_sample("tf[" W "] exact cancellation num_n=%u den_n=%u scale 2^%d: at step %u positive terms %Lg, negative terms %Lg grid units, output %lld grid units returned exactly (%La)", c.nn, c.nd, e,
                  c.kc, (long double)c.P[c.kc], (long double)c.N[c.kc], (long long)c.y[c.kc], (long double)yu[c.kc]);
    }
}

static void rc_case(vf_rng *r)
{
    a_real fc = (a_real)vf_logu(r, -6, 6), ts = (a_real)vf_logu(r, -6, 2);
    a_real al = a_lpf_gen(fc, ts), ah = a_hpf_gen(fc, ts);
    a_lpf lp;
    a_hpf hp;
    a_real xprev = 0;
    vf_log("rc[" W "] fc=%a ts=%a", (double)fc, (double)ts);
    ++vf.evals;
    VF_COUNT("w-gen-inside-unit-interval");
    if (!(al >= 0 && al <= 1) || !(ah >= 0 && ah <= 1)) { vf_viol("rc_gen/outside-unit-interval/" W, "lpf_gen=%.9Lg hpf_gen=%.9Lg", (long double)al, (long double)ah); return; }
    {
        q_t rl = (q_t)ts / (1 / (2 * M_PIq * (q_t)fc) + (q_t)ts), rh = 1 / (2 * M_PIq * (q_t)fc * (q_t)ts + 1);
        if (fabsq((q_t)al - rl) > 8 * EPS * rl || fabsq((q_t)ah - rh) > 8 * EPS * rh) { vf_viol("rc_gen/value-ne-header-formula/" W, "fc=%a ts=%a", (double)fc, (double)ts); return; }
    }
    a_lpf_init(&lp, al);
    a_hpf_init(&hp, ah);
    for (int k = 0; k < 40; ++k)
    {
        a_real x = (a_real)vf_range(r, -100, 100), ol = lp.output, oh = hp.output, yl, yh;
        q_t rl, rh;
        yl = a_lpf_iter(&lp, x);
        yh = a_hpf_iter(&hp, x);
        rl = (1 - (q_t)al) * (q_t)ol + (q_t)al * (q_t)x;
        rh = (q_t)ah * ((q_t)oh + (q_t)x - (q_t)xprev);
        ++vf.evals;
        VF_COUNT("w-rc-one-step-oracle");
        if (fabsq((q_t)yl - rl) > 4 * EPS * (fabsq((q_t)ol) + fabsq((q_t)x)) || yl != lp.output)
        {
            vf_viol("lpf_iter/output-ne-difference-equation/" W, "alpha=%.9Lg out(k-1)=%.9Lg x=%.9Lg: %.12Lg vs %.12Lg", (long double)al, (long double)ol, (long double)x, (long double)yl, (long double)rl);
            return;
        }
        if (fabsq((q_t)yh - rh) > 4 * EPS * (fabsq((q_t)oh) + fabsq((q_t)x) + fabsq((q_t)xprev)) || yh != hp.output || hp.input != x)
        {
            vf_viol("hpf_iter/output-ne-difference-equation/" W, "alpha=%.9Lg: %.12Lg vs %.12Lg", (long double)ah, (long double)yh, (long double)rh);
            return;
        }
        xprev = x;
    }
    a_lpf_zero(&lp);
    a_hpf_zero(&hp);
    if (lp.output != 0 || hp.output != 0 || hp.input != 0) { vf_viol("rc_zero/state/" W, "state not cleared"); }
    vf_distinct(vf_hash64(77, (uint64_t)(int)floor(log10((double)fc * (double)ts)) + 100));
}

static void vf_case(uint64_t c, vf_rng *r)
{
    if (c >= vf_nbase(vf.tier)) { cancel_case(r); }
    else if (c % 5 == 4) { rc_case(r); }
    else { tf_case(c, r); }
}
