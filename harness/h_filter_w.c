/* C16, other real widths (A_SIZE_REAL = 4 float, 16 long double): a compact, type-generic companion of h_filter.c,
 * which itself assumes a_real == double.  Same clauses, smaller workload: the transfer function against a one-step
 * __float128 oracle on the library's own history, state zero after init/zero/set_num/set_den on garbage-filled
 * EXACT-SIZE delay lines (a clear of the wrong byte count is either an ASan report or a non-zero cell), delay lines most
 * recent first, first-order low/high-pass one-step oracle, coefficient generators inside [0,1].
 * Proof bound for a sum of n products in the working type: (n+2) * eps * sum|terms|.
 */
#define VF_PROP "C16"
#include "vf_common.h"
#include "a/tf.h"
#include "a/lpf.h"
#include "a/hpf.h"
#include <quadmath.h>
#include <math.h>
typedef __float128 q_t;
#define EPS ((q_t)A_REAL_EPSILON)
#if A_REAL_TYPE + 0 == A_REAL_SINGLE
#define W "f32"
#elif A_REAL_TYPE + 0 == A_REAL_EXTEND
#define W "f80"
#else
#define W "f64"
#endif

static a_real *garbage(size_t n)
{
    a_real *p = (a_real *)malloc(n * sizeof(a_real) ? n * sizeof(a_real) : 1); /* exact size */
    memset(p, 0x7B, n * sizeof(a_real));
    return p;
}
static int all_zero(a_real const *p, size_t n)
{
    for (size_t i = 0; i < n; ++i)
    {
        if (p[i] != 0) { return 0; }
    }
    return 1;
}

static uint64_t vf_ncases(int tier) { return tier ? 20000 : 800; }

static void tf_case(uint64_t c, vf_rng *r)
{
    unsigned const nn = (unsigned)(c % 6), dn = (unsigned)(c / 6 % 6);
    a_real *num = garbage(nn), *den = garbage(dn), *in = garbage(nn), *out = garbage(dn);
    a_real hx[64], hy[64];
    a_tf tf;
    int L = 8 + (int)vf_below(r, 40), k;
    for (unsigned i = 0; i < nn; ++i) { num[i] = (a_real)vf_range(r, -8, 8) / 4; }
    for (unsigned i = 0; i < dn; ++i) { den[i] = (a_real)vf_range(r, -3, 3) / (a_real)(4 * (dn ? dn : 1)); }
    vf_log("tf[" W "] num_n=%u den_n=%u, %d steps", nn, dn, L);
    a_tf_init(&tf, nn, num, in, dn, den, out);
    VF_COUNT("w-tf-init-zero-state");
    ++vf.evals;
    if (!all_zero(in, nn) || !all_zero(out, dn)) { vf_viol("tf_init/state-not-zero/" W, "after a_tf_init on garbage-filled delay lines (num_n=%u den_n=%u) a history cell is non-zero", nn, dn); goto done; }
    for (k = 0; k < L; ++k)
    {
        a_real x = (a_real)vf_range(r, -50, 50), y;
        q_t ref = 0, mag = 0, tol;
        for (unsigned i = 0; i < nn; ++i)
        {
            q_t xi = i == 0 ? (q_t)x : (k - (int)i >= 0 ? (q_t)hx[k - (int)i] : 0);
            ref += (q_t)num[i] * xi;
            mag += fabsq((q_t)num[i] * xi);
        }
        for (unsigned i = 0; i < dn; ++i)
        {
            q_t yi = k - 1 - (int)i >= 0 ? (q_t)hy[k - 1 - (int)i] : 0;
            ref -= (q_t)den[i] * yi;
            mag += fabsq((q_t)den[i] * yi);
        }
        y = a_tf_iter(&tf, x);
        hx[k] = x;
        hy[k] = y;
        ++vf.evals;
        VF_COUNT("w-tf-one-step-oracle");
        tol = (q_t)(nn + dn + 2) * EPS * mag;
        if (!(fabsq((q_t)y - ref) <= tol))
        {
            vf_viol("tf_iter/output-ne-difference-equation/" W, "step %d (num_n=%u den_n=%u): out %.12Lg, reference %.12Lg", k, nn, dn, (long double)y, (long double)ref);
            goto done;
        }
        VF_COUNT("w-tf-delay-lines");
        for (unsigned i = 0; i < nn; ++i)
        {
            a_real want = k - (int)i >= 0 ? hx[k - (int)i] : 0;
            if (in[i] != want) { vf_viol("tf_iter/delay-line-not-most-recent-first/" W, "input line cell %u after step %d", i, k); goto done; }
        }
        for (unsigned i = 0; i < dn; ++i)
        {
            a_real want = k - (int)i >= 0 ? hy[k - (int)i] : 0;
            if (out[i] != want) { vf_viol("tf_iter/delay-line-not-most-recent-first/" W, "output line cell %u after step %d", i, k); goto done; }
        }
        if (k == L / 2 && vf_chance(r, 1, 2))
        {
            /* re-configuration with a fresh, garbage-filled, exact-size line: it must come back zeroed */
            if (vf_chance(r, 1, 2))
            {
                a_real *in2 = garbage(nn);
                a_tf_set_num(&tf, nn, num, in2);
                VF_COUNT("w-tf-set-zeroes-new-line");
                if (!all_zero(in2, nn)) { vf_viol("tf_set_num/new-input-line-not-zeroed/" W, "num_n=%u", nn); free(in2); goto done; }
                free(in);
                in = in2;
                for (int j = 0; j <= k; ++j) { hx[j] = 0; }
            }
            else
            {
                a_real *out2 = garbage(dn);
                a_tf_set_den(&tf, dn, den, out2);
                VF_COUNT("w-tf-set-zeroes-new-line");
                if (!all_zero(out2, dn)) { vf_viol("tf_set_den/new-output-line-not-zeroed/" W, "den_n=%u", dn); free(out2); goto done; }
                free(out);
                out = out2;
                for (int j = 0; j <= k; ++j) { hy[j] = 0; }
            }
        }
    }
    a_tf_zero(&tf);
    VF_COUNT("w-tf-zero-restores-initial-state");
    if (!all_zero(in, nn) || !all_zero(out, dn)) { vf_viol("tf_zero/state-not-initial/" W, "a history cell is non-zero after a_tf_zero (num_n=%u den_n=%u)", nn, dn); }
    vf_distinct(vf_hash64(vf_hash64(11, nn), dn));
    if (vf_want_sample() && c % 97 == 0) { vf_sample("tf[" W "] num_n=%u den_n=%u: init/zero/set_* leave exact-size garbage-filled lines zeroed; %d steps within (n+2)*eps*sum|terms| of the quad one-step reference", nn, dn, L); }
done:
    free(num); free(den); free(in); free(out);
}

static void rc_case(vf_rng *r)
{
    a_real fc = (a_real)vf_logu(r, -6, 6), ts = (a_real)vf_logu(r, -6, 2);
    a_real al = a_lpf_gen(fc, ts), ah = a_hpf_gen(fc, ts);
    a_lpf lp;
    a_hpf hp;
    a_real xprev = 0;
    vf_log("rc[" W "] fc=%a ts=%a", (double)fc, (double)ts);
    ++vf.evals;
    VF_COUNT("w-gen-inside-unit-interval");
    if (!(al >= 0 && al <= 1) || !(ah >= 0 && ah <= 1)) { vf_viol("rc_gen/outside-unit-interval/" W, "lpf_gen=%.9Lg hpf_gen=%.9Lg", (long double)al, (long double)ah); return; }
    {
        q_t rl = (q_t)ts / (1 / (2 * M_PIq * (q_t)fc) + (q_t)ts), rh = 1 / (2 * M_PIq * (q_t)fc * (q_t)ts + 1);
        if (fabsq((q_t)al - rl) > 8 * EPS * rl || fabsq((q_t)ah - rh) > 8 * EPS * rh) { vf_viol("rc_gen/value-ne-header-formula/" W, "fc=%a ts=%a", (double)fc, (double)ts); return; }
    }
    a_lpf_init(&lp, al);
    a_hpf_init(&hp, ah);
    for (int k = 0; k < 40; ++k)
    {
        a_real x = (a_real)vf_range(r, -100, 100), ol = lp.output, oh = hp.output, yl, yh;
        q_t rl, rh;
        yl = a_lpf_iter(&lp, x);
        yh = a_hpf_iter(&hp, x);
        rl = (1 - (q_t)al) * (q_t)ol + (q_t)al * (q_t)x;
        rh = (q_t)ah * ((q_t)oh + (q_t)x - (q_t)xprev);
        ++vf.evals;
        VF_COUNT("w-rc-one-step-oracle");
        if (fabsq((q_t)yl - rl) > 4 * EPS * (fabsq((q_t)ol) + fabsq((q_t)x)) || yl != lp.output)
        {
            vf_viol("lpf_iter/output-ne-difference-equation/" W, "alpha=%.9Lg out(k-1)=%.9Lg x=%.9Lg: %.12Lg vs %.12Lg", (long double)al, (long double)ol, (long double)x, (long double)yl, (long double)rl);
            return;
        }
        if (fabsq((q_t)yh - rh) > 4 * EPS * (fabsq((q_t)oh) + fabsq((q_t)x) + fabsq((q_t)xprev)) || yh != hp.output || hp.input != x)
        {
            vf_viol("hpf_iter/output-ne-difference-equation/" W, "alpha=%.9Lg: %.12Lg vs %.12Lg", (long double)ah, (long double)yh, (long double)rh);
            return;
        }
        xprev = x;
    }
    a_lpf_zero(&lp);
    a_hpf_zero(&hp);
    if (lp.output != 0 || hp.output != 0 || hp.input != 0) { vf_viol("rc_zero/state/" W, "state not cleared"); }
    vf_distinct(vf_hash64(77, (uint64_t)(int)floor(log10((double)fc * (double)ts)) + 100));
}

static void vf_case(uint64_t c, vf_rng *r)
{
    if (c % 5 == 4) { rc_case(r); }
    else { tf_case(c, r); }
}
