/* second translation unit for C15: reaches the *exported* twins of the inline helpers in a/poly.h
 * (a_poly_eval, a_poly_evar, a_poly_swap as the language bindings link them) by switching the
 * inline bodies off. */
#define A_HAVE_INLINE 0
#include "a/a.h"
#include "a/poly.h"

double vfx_poly_eval(double const *a, a_size n, double x) { return a_poly_eval(a, n, x); }
double vfx_poly_evar(double const *a, a_size n, double x) { return a_poly_evar(a, n, x); }
void vfx_poly_swap(double *a, a_size n) { a_poly_swap(a, n); }
